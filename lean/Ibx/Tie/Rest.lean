import Ibx.Gen.Rest
import Ibx.Model.Rest
/-
  T1 tie for C14: what the hand-written models of the router, the handlers and the client assume is exactly what the
  regenerated facts (Ibx/Gen/Rest.lean, re-read from pkg/rest, pkg/webui, pkg/server/lifecycle.go and pkg/rest/client on
  every run) report.  If the source changes a route, a nil / ErrNotExist test, the place of MailboxForAddress, the
  client's body or its escaping function, these obligations stop checking.
-/
namespace Ibx.Tie.Rest
open Ibx Ibx.Model.ClientUrl Ibx.Model.Rest

def handlerFn : Handler → String
  | .listV1 => "MailboxListV1" | .purgeV1 => "MailboxPurgeV1" | .showV1 => "MailboxShowV1"
  | .seenV1 => "MailboxMarkSeenV1" | .deleteV1 => "MailboxDeleteV1" | .sourceV1 => "MailboxSourceV1"
  | .wMessage => "MailboxMessage" | .wHtml => "MailboxHTML" | .wSource => "MailboxSource"
  | .wAttach => "MailboxViewAttach" | .monAllV1 => "MonitorAllMessagesV1" | .monBoxV1 => "MonitorMailboxMessagesV1"
  | .monAllV2 => "MonitorAllMessagesV2" | .monBoxV2 => "MonitorMailboxMessagesV2"
  | .greeting => "RootGreeting" | .status => "RootStatus"

def methodStr : Method → String
  | .get => "GET" | .delete => "DELETE" | .patch => "PATCH" | .other => "?"

def segOf : TSeg → Gen.Rest.Seg
  | .lit b => .lit b
  | .var => .var

/-- the model's route table in the extractor's format (the route NAME equals the handler function's name) -/
def modelRoutes : List (String × String × String × List Nat × List Gen.Rest.Seg) :=
  routeTable.map (fun r => (handlerFn r.h, handlerFn r.h, methodStr r.m, r.sub, r.tpl.map segOf))

/-- same routes, same methods, same templates, same sub-router prefixes, same registration order -/
theorem routes_tie : Gen.Rest.routes.getD [] = modelRoutes := by decide +kernel
theorem routes_known : Gen.Rest.routes.isSome = true := by decide

/-- the handlers the model covers -/
def modelled : List Handler :=
  [.listV1, .showV1, .seenV1, .purgeV1, .sourceV1, .deleteV1, .wMessage, .wHtml, .wSource, .wAttach]

/-- the Manager call each handler makes after canonicalising the name -/
def mgrCallOf : Handler → List String
  | .listV1 => ["GetMetadata"] | .purgeV1 => ["PurgeMessages"] | .seenV1 => ["MarkSeen"] | .deleteV1 => ["RemoveMessage"]
  | .showV1 | .wMessage | .wHtml | .wAttach => ["GetMessage"]
  | .sourceV1 | .wSource => ["SourceReader"]
  | _ => []

/-- nil handling as the model has it: `nilGuarded` for the handlers that fetch a message -/
def nilGuardOf (h : Handler) : String :=
  match h with
  | .listV1 | .purgeV1 | .seenV1 | .deleteV1 => "none"
  | h => if nilGuarded h then "guarded" else "unguarded"

/-- ErrNotExist handling as the model has it: the guarded fetchers let `nil` fall through to the nil test, every other
    handler that can see ErrNotExist tests for it and answers NotFound -/
def notExistOf (h : Handler) : String :=
  match h with
  | .listV1 | .purgeV1 => "none"
  | .seenV1 | .deleteV1 => "eq404"
  | h => if nilGuarded h then "passNil" else "eq404"

/-- per handler: MailboxForAddress (error → `return err`) dominates and feeds the single Manager call the model makes;
    the nil guard and the ErrNotExist → 404 mapping are the model's -/
theorem handlers_tie :
    Gen.Rest.handlers = modelled.map (fun h => (handlerFn h, true, mgrCallOf h, nilGuardOf h, notExistOf h)) := by
  decide +kernel

/-- no handler is left with an unguarded use of a possibly-nil result UNLESS it maps ErrNotExist to 404 first
    (what `handlers_total` needs from the code under the contract "missing ⇒ ErrNotExist") -/
theorem unguarded_only_behind_notExist_test :
    ∀ r ∈ Gen.Rest.handlers, r.2.2.2.1 = "unguarded" → r.2.2.2.2 = "eq404" := by decide +kernel

theorem nilGuard_known : ∀ r ∈ Gen.Rest.handlers, r.2.2.2.1 ≠ "unknown" ∧ r.2.2.2.2 ≠ "unknown" := by decide +kernel

/-- PATCH marks only under `"seen": true` (Model.Rest: Body.seenFalse is a no-op 200) -/
theorem seenRequiresFlag_tie : Gen.Rest.seenRequiresFlag = some true := by decide

/-- the client's MarkSeen sends the body the handler requires (Props.C14.clientBody) -/
theorem clientMarkSeenBody_tie : Gen.Rest.clientMarkSeenBody = "seenTrue" := by decide

def shapeStr : Shape → String
  | .box => "box" | .msg => "msg" | .source => "source"

/-- every client operation builds "/api/v1/mailbox/" + url.QueryEscape(name) … in the shape the model gives it -/
theorem clientEscapers_tie :
    Gen.Rest.clientEscapers =
      [ClientOp.list, .get, .markSeen, .source, .delete, .purge].map (fun op => "QueryEscape:" ++ shapeStr op.shape) := by
  decide +kernel

theorem clientJoin_tie : Gen.Rest.clientJoin = "JoinPath" := by decide

end Ibx.Tie.Rest
