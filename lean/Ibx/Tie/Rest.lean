import Ibx.Gen.Rest
import Ibx.Model.Rest
/-
  T1 tie for C14: what the hand-written models of the router, the handlers and the client assume is exactly what the
  regenerated facts (Ibx/Gen/Rest.lean, re-read from pkg/rest, pkg/webui, pkg/server/lifecycle.go and pkg/rest/client on
  every run) report.  The facts are behavioural (the extractor interprets the handler and client bodies abstractly, through
  helpers, if / switch / early returns alike), so renaming, re-nesting or re-wording the source does not disturb them; if the
  source changes a route, the answer to a nil / ErrNotExist / failing store call, the place or argument of
  MailboxForAddress, the client's method, body, escaping function or URL join, these obligations stop checking.
-/
namespace Ibx.Tie.Rest
open Ibx Ibx.Model.ClientUrl Ibx.Model.Rest

def handlerFn : Handler → String
  | .listV1 => "MailboxListV1" | .purgeV1 => "MailboxPurgeV1" | .showV1 => "MailboxShowV1"
  | .seenV1 => "MailboxMarkSeenV1" | .deleteV1 => "MailboxDeleteV1" | .sourceV1 => "MailboxSourceV1"
  | .wMessage => "MailboxMessage" | .wHtml => "MailboxHTML" | .wSource => "MailboxSource"
  | .wAttach => "MailboxViewAttach" | .monAllV1 => "MonitorAllMessagesV1" | .monBoxV1 => "MonitorMailboxMessagesV1"
  | .monAllV2 => "MonitorAllMessagesV2" | .monBoxV2 => "MonitorMailboxMessagesV2"
  | .greeting => "RootGreeting" | .status => "RootStatus"

def methodStr : Method → String
  | .get => "GET" | .delete => "DELETE" | .patch => "PATCH" | .other => "?"

def segOf : TSeg → Gen.Rest.Seg
  | .lit b => .lit b
  | .var => .var

/-- the model's route table in the extractor's format (the route NAME equals the handler function's name) -/
def modelRoutes : List (String × String × String × List Nat × List Gen.Rest.Seg) :=
  routeTable.map (fun r => (handlerFn r.h, handlerFn r.h, methodStr r.m, r.sub, r.tpl.map segOf))

/-- same routes, same methods, same templates, same sub-router prefixes, same registration order -/
theorem routes_tie : Gen.Rest.routes.getD [] = modelRoutes := by decide +kernel
theorem routes_known : Gen.Rest.routes.isSome = true := by decide

/-- the handlers the model covers -/
def modelled : List Handler :=
  [.listV1, .showV1, .seenV1, .purgeV1, .sourceV1, .deleteV1, .wMessage, .wHtml, .wSource, .wAttach]

/-- how the model treats the single `message.Manager` call a handler makes after canonicalising the name -/
inductive CallKind
  | bulk     -- GetMetadata / PurgeMessages: every error is a 500
  | mutate   -- MarkSeen / RemoveMessage: ErrNotExist is a 404, any other error a 500
  | fetch    -- GetMessage / SourceReader: answers a possibly-nil message / reader
  deriving DecidableEq, Repr

/-- the Manager method each handler calls, with the ROLE of each argument as the extractor names it:
    `canon` = result 0 of `MailboxForAddress(Vars["name"])`, `var:id` = `Vars["id"]` -/
def mgrCallOf : Handler → String × String × CallKind
  | .listV1 => ("GetMetadata", "(canon)", .bulk)
  | .purgeV1 => ("PurgeMessages", "(canon)", .bulk)
  | .seenV1 => ("MarkSeen", "(canon,var:id)", .mutate)
  | .deleteV1 => ("RemoveMessage", "(canon,var:id)", .mutate)
  | .sourceV1 | .wSource => ("SourceReader", "(canon,var:id)", .fetch)
  | _ => ("GetMessage", "(canon,var:id)", .fetch)

abbrev Row := List String × List String × List String

def mfa : String := "MailboxForAddress(var:name)"

/-- the behaviour table of a handler as `Model.Rest.handle` has it, in the extractor's format and order.
    `canon=err` → 500 (`extractMailbox = none ⇒ r500`); a failing fetch is a 500; `ErrNotExist` is a 404 wherever the model
    can see it (`fetch`, `mgrMarkSeen`, `mgrRemove`); the `(nil, nil)` answer of the OLD store contract is a 404 in the
    handlers with `nilGuarded`, a nil dereference in the others; PATCH without `"seen": true` never reaches MarkSeen;
    the attachment route fails on a bad `{num}` before the fetch, and on an out-of-range one after it. -/
def rowsOf (h : Handler) : List Row :=
  let (m, args, kind) := mgrCallOf h
  let pre : List String := if h = .seenV1 then ["canon=ok", "seen=true"] else ["canon=ok"]
  let row (ans : String) (out : List String) : Row := (pre ++ [m ++ ":" ++ ans], [mfa, m ++ args], out)
  [((["canon=err"], [mfa], ["error"]) : Row)] ++
  (if h = .seenV1 then [(["canon=ok", "seen=false"], [mfa], ["done"])] else []) ++
  (match kind with
   | .bulk => [row "ioErr" ["error"], row "notExist" ["error"], row "ok" ["done"]]
   | .mutate => [row "ioErr" ["error"], row "notExist" ["notFound"], row "ok" ["done"]]
   | .fetch =>
     [row "found" (if h = .wAttach then ["done", "error"] else ["done"]),
      row "ioErr" ["error"],
      row "nilnil" [if nilGuarded h then "notFound" else "panic"],
      row "notExist" ["notFound"]]) ++
  (if h = .seenV1 ∨ h = .wAttach then [(["canon=ok"], [mfa], ["error"])] else [])

/-- per handler: MailboxForAddress of the URL's name comes first and its error ends the request with a 500; the single
    Manager call the model makes gets the canonical name (and the URL's id); every answer of that call is treated as
    `Model.Rest.handle` treats it (404 / 500 / nil dereference / render) -/
theorem handlers_tie :
    Gen.Rest.handlers = modelled.map (fun h => (handlerFn h, rowsOf h)) := by
  decide +kernel

/-- no handler dereferences a nil result EXCEPT on the `(nil, nil)` answer of the old store contract, and every handler
    that can do so answers ErrNotExist with 404 (what `handlers_total` needs from the code under "missing ⇒ ErrNotExist") -/
theorem unguarded_only_behind_notExist_test :
    ∀ h ∈ Gen.Rest.handlers, ∀ r ∈ h.2, "panic" ∈ r.2.2 →
      ∃ m ∈ ["GetMessage", "SourceReader"], r.1.getLast? = some (m ++ ":nilnil") ∧
        ∃ r' ∈ h.2, r'.1.getLast? = some (m ++ ":notExist") ∧ r'.2.2 = ["notFound"] := by
  decide +kernel

theorem nilGuard_known : ∀ h ∈ Gen.Rest.handlers, ∀ r ∈ h.2, r.1 ≠ ["unknown"] ∧ "unknown" ∉ r.2.2 := by decide +kernel

/-- PATCH marks only under `"seen": true` (Model.Rest: Body.seenFalse is a no-op 200) -/
theorem seenRequiresFlag_tie : Gen.Rest.seenRequiresFlag = some true := by decide

/-- the client's MarkSeen sends the body the handler requires (Props.C14.clientBody) -/
theorem clientMarkSeenBody_tie : Gen.Rest.clientMarkSeenBody = "seenTrue" := by decide

/-- the URI of each shape as the extractor writes it: literal text, `{QueryEscape:1}` = url.QueryEscape of the first
    string parameter (the mailbox name), `{raw:2}` = the second string parameter (the id) as it is -/
def shapeUri : Shape → String
  | .box => "/api/v1/mailbox/{QueryEscape:1}"
  | .msg => "/api/v1/mailbox/{QueryEscape:1}/{raw:2}"
  | .source => "/api/v1/mailbox/{QueryEscape:1}/{raw:2}/source"

/-- every client operation hands http.NewRequest the method the model gives it and the URI
    "/api/v1/mailbox/" + url.QueryEscape(name) … in the shape the model gives it -/
theorem clientEscapers_tie :
    Gen.Rest.clientEscapers =
      [ClientOp.list, .get, .markSeen, .source, .delete, .purge].map (fun op => methodStr op.method ++ " " ++ shapeUri op.shape) := by
  decide +kernel

/-- only MarkSeen sends a body -/
theorem clientBodies_tie : Gen.Rest.clientBodies = ["none", "none", "seenTrue", "none", "none", "none"] := by decide

theorem clientJoin_tie : Gen.Rest.clientJoin = "JoinPath" := by decide

end Ibx.Tie.Rest
