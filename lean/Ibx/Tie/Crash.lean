import Ibx.Gen.Crash
import Ibx.Model.FsSteps
/-
  T1 tie for C11: the facts re-read from pkg/storage/file/{mbox,fstore}.go on every run (Ibx/Gen/Crash.lean) say that
  the source is the variant the C11 theorems are about (`Variant.safe`: index written through index.gob.tmp + rename,
  removeDir unlinks index.gob before os.RemoveAll), that AddMessage and removeMessage issue their calls in the order
  `addP` / `removeFoundP` encode, and that every mutation has its trace hook.  If a fix is reverted these stop checking,
  and Props/C11 names the crash point that then fails (`original_index_write_fails`, `original_removeDir_fails`).
-/
namespace Ibx.Tie.Crash
open Ibx.Model.FsSteps

def indexWriteOf : String → Option IndexWrite
  | "tmpRename" => some .tmpRename
  | "inPlace" => some .inPlace
  | _ => none

def removeDirOf : String → Option RemoveDirOrder
  | "indexFirst" => some .indexFirst
  | "removeAllFirst" => some .removeAllFirst
  | _ => none

/-- the variant the source implements, as far as the extractor recognises it -/
def sourceVariant : Option Variant :=
  match indexWriteOf Gen.Crash.fileIndexWrite, removeDirOf Gen.Crash.fileRemoveDir with
  | some w, some r => some { indexWrite := w, removeDir := r }
  | _, _ => none

theorem variant_tie : sourceVariant = some Variant.safe := by decide

/-- AddMessage: evictions (newMessage), createDir, create / copy / flush / close of the raw, then the index -/
theorem addOrder_tie :
    Gen.Crash.fileAddOrder = ["mb.newMessage", "mb.createDir", "os.Create", "io.Copy", "w.Flush", "file.Close", "mb.writeIndex"] := by decide

/-- removeMessage: the index is rewritten BEFORE the raw file is unlinked -/
theorem removeMsgOrder_tie : Gen.Crash.fileRemoveMsgOrder = ["mb.writeIndex", "os.Remove"] := by decide

/-- one hook per file-system mutation site (T3 sees every step) -/
theorem hookSites_tie :
    Gen.Crash.fileHookSites = ["create-raw", "copy-raw", "flush-raw", "close-raw", "unlink-raw", "create-tmp", "flush-tmp", "close-tmp",
      "rename", "mkdirall", "unlink-index", "removeall", "rmdir-parent"] := by decide

end Ibx.Tie.Crash
