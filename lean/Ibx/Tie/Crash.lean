import Ibx.Gen.Crash
import Ibx.Model.FsSteps
/-
  T1 tie for C11: the facts re-read from pkg/storage/file/{fstore,mbox,fmessage}.go on every run (Ibx/Gen/Crash.lean) say
  that the source is the variant the C11 theorems are about (`Variant.safe`: index written through index.gob.tmp + rename,
  removeDir unlinks index.gob before os.RemoveAll), that AddMessage / RemoveMessage / MarkSeen / PurgeMessages issue their
  file-system mutations in the order `addP` / `removeP` / `seenP` / `purgeP` of Ibx/Model/FsSteps.lean encode, inside one
  critical section of the mailbox lock (the step programs are computed from the directory state at the START of the
  operation, so nobody else may change it in between), and that every mutation is announced by its trace hook.  If a fix
  is reverted these stop checking, and Props/C11 names the crash point that then fails (`original_index_write_fails`,
  `original_removeDir_fails`).

  The facts are STRUCTURAL (harness/cmd/extract/crash.go): nothing depends on the name of a local variable, receiver,
  unexported helper / field, or on where helper boundaries lie.  The extractor inlines every package-local call, evaluates
  path expressions symbolically (`dir`, `dir/index.gob`, `dir/index.gob.tmp`, `dir/<Fid>.raw`, `parent(dir)`), recognises
  mutations by their os / io / bufio names, hooks by `verifStep("<label>", …)`, and prints the success path of an
  operation as a PROGRAM of tokens:  atoms,  `( a | b )` alternatives of an if / switch (sorted; `0` = nothing),
  `{ a }*` a loop,  `[empty]` / `[nonempty]` the side of a test `len(<message list>) ⋚ 0`.  A guard clause and the
  nested form, an if / else and its mirror image, a switch and an if-chain print alike; failure handlers
  (`if e != nil { …; return …e… }`) are left out.  The expected programs are assembled below from the same pieces the
  step model is assembled from.
-/
namespace Ibx.Tie.Crash
open Ibx.Model.FsSteps

def indexWriteOf : String → Option IndexWrite
  | "tmpRename" => some .tmpRename
  | "inPlace" => some .inPlace
  | _ => none

def removeDirOf : String → Option RemoveDirOrder
  | "indexFirst" => some .indexFirst
  | "removeAllFirst" => some .removeAllFirst
  | _ => none

/-- the variant the source implements, as far as the extractor recognises it -/
def sourceVariant : Option Variant :=
  match indexWriteOf Gen.Crash.fileIndexWrite, removeDirOf Gen.Crash.fileRemoveDir with
  | some w, some r => some { indexWrite := w, removeDir := r }
  | _, _ => none

theorem variant_tie : sourceVariant = some Variant.safe := by decide

/-! ### the expected programs, piece by piece (each piece = one definition of FsSteps) -/

/-- createDir: `mkdirAll` unless the directory is there (`if d.isNone then [.mkdirAll] else []`) -/
def createDirT : List String := ["(", "0", "|", "@mkdirall", "mkdirall(dir)", ")"]

/-- `writeIndexP` (variant tmpRename): createDir, create index.gob.tmp, (buffered writes,) flush, close, rename over index.gob -/
def writeIndexT : List String :=
  createDirT ++ ["@create-tmp", "create(dir/index.gob.tmp)", "@flush-tmp", "flush(dir/index.gob.tmp)",
    "@close-tmp", "close(dir/index.gob.tmp)", "@rename", "rename(dir/index.gob.tmp,dir/index.gob)"]

/-- `removeDirP` (variant indexFirst): unlink index.gob, RemoveAll(dir), then removeDirIfEmpty of the two parent levels
    (`parentSteps`: none, level 2, or level 2 and level 1) -/
def removeDirT : List String :=
  ["@unlink-index", "unlink(dir/index.gob)", "@removeall", "removeall(dir)",
   "(", "0", "|", "@rmdir-parent", "unlink(parent(dir))", ")",
   "(", "0", "|", "@rmdir-parent", "unlink(parent(parent(dir)))", ")"]

/-- the two branches of `writeIndexAny`: `if l = [] then removeDirP else writeIndexP` -/
def writeIndexAnyBranches : List String := ["[empty]"] ++ removeDirT ++ ["|", "[nonempty]"] ++ writeIndexT

def writeIndexAnyT : List String := ["("] ++ writeIndexAnyBranches ++ [")"]

/-- `removeFoundP`: writeIndexAny, then `if l' = [] then [] else [.unlinkRaw id]` — the index is rewritten BEFORE the raw file
    is unlinked, and the raw file is left to RemoveAll when the mailbox became empty -/
def removeFoundT : List String :=
  writeIndexAnyT ++ ["(", "[empty]", "|", "[nonempty]", "@unlink-raw", "unlink(dir/<Fid>.raw)", ")"]

/-- `removeP`: nothing when the id is not listed -/
def removeT : List String := ["("] ++ removeFoundT ++ ["|", "0", ")"]

/-- `writeRawP`: createDir, create `<id>.raw`, io.Copy through a bufio.Writer, Flush, Close -/
def writeRawT : List String :=
  createDirT ++ ["@create-raw", "create(dir/<Fid>.raw)", "@copy-raw", "copy(dir/<Fid>.raw)",
    "@flush-raw", "flush(dir/<Fid>.raw)", "@close-raw", "close(dir/<Fid>.raw)"]

/-- AddMessage = `addP`: under the mailbox lock — the evictions of the cap loop (`evictP`, each a removeMessage), the raw
    file, then the index.  (The last index write can syntactically take the [empty] branch of writeIndex; the model uses
    `writeIndexP` there because the list has just been appended to.) -/
theorem addOrder_tie :
    Gen.Crash.fileAddProg =
      ["lock", "{"] ++ removeT ++ ["}*"] ++ writeRawT ++ writeIndexAnyT ++ ["unlock"] := by decide

/-- RemoveMessage = `removeP`: under the mailbox lock, the index is rewritten BEFORE the raw file is unlinked -/
theorem removeMsgOrder_tie : Gen.Crash.fileRemoveMsgProg = ["lock"] ++ removeT ++ ["unlock"] := by decide

/-- MarkSeen = `seenP`: under the mailbox lock, at most one index write, inside the search loop -/
theorem markSeenOrder_tie :
    Gen.Crash.fileMarkSeenProg = ["lock", "{", "(", "0", "|"] ++ writeIndexAnyBranches ++ [")", "}*", "unlock"] := by decide

/-- PurgeMessages = `purgeP`: under the mailbox lock, one writeIndex of the emptied list -/
theorem purgeOrder_tie : Gen.Crash.filePurgeProg = ["lock"] ++ writeIndexAnyT ++ ["unlock"] := by decide

/-- one hook immediately before every file-system mutation, and no hook without its mutation (T3 sees every step, under
    the label the harness maps to the model's `FsStep`) -/
theorem hookSites_tie :
    Gen.Crash.fileHookSites =
      [("close-raw", "close(dir/<Fid>.raw)"), ("close-tmp", "close(dir/index.gob.tmp)"), ("copy-raw", "copy(dir/<Fid>.raw)"),
       ("create-raw", "create(dir/<Fid>.raw)"), ("create-tmp", "create(dir/index.gob.tmp)"), ("flush-raw", "flush(dir/<Fid>.raw)"),
       ("flush-tmp", "flush(dir/index.gob.tmp)"), ("mkdirall", "mkdirall(dir)"), ("removeall", "removeall(dir)"),
       ("rename", "rename(dir/index.gob.tmp,dir/index.gob)"), ("rmdir-parent", "unlink(parent(dir))"),
       ("rmdir-parent", "unlink(parent(parent(dir)))"), ("unlink-index", "unlink(dir/index.gob)"),
       ("unlink-raw", "unlink(dir/<Fid>.raw)")] := by decide

end Ibx.Tie.Crash
