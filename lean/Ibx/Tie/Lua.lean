import Ibx.Gen.Lua
import Ibx.Model.LuaGlue
import Ibx.Model.Pool
import Ibx.Model.LuaAfter
/-
  T1 tie for C17 (Lua half): the facts regenerated from pkg/extension/luahost/*.go and pkg/extension/broker.go on every
  run are exactly what Ibx/Model/LuaGlue.lean and Ibx/Model/Pool.lean assume.
  If the source changes one of them these obligations stop checking and the models have to be re-read.

  The facts are STRUCTURAL (see the head of harness/cmd/extract/lua.go): every function is given as the set of its
  control-flow paths after inlining the package's own helpers, with local variables replaced by their definitions.
  Renaming locals / receivers / unexported helpers and fields, extracting or inlining helpers, if-else <-> switch <->
  early return, rewording log / error texts and moving code between files do not change them.  Notation of a path:
    S                     the *lua.LState handed out by the pool's `get` (S.err = the error that came with it)
    get() put(x) new()    the pool's methods, recognised by what they do with the []*lua.LState free list (`<free>`)
    fn->T(args)           a helper of the package that is not inlined, named by its result types: fn->*Inbucket = getInbucket,
                          fn->*event.SMTPResponse / fn->*event.InboundMessage = the unwrap functions (tied below),
                          fn->*gopher-lua.LUserData = a wrap* constructor
    $recv $0 $1           receiver / parameters;   <T> = the receiver's unexported field of type T
-/
namespace Ibx.Tie.Lua
open Ibx Ibx.Gen.Lua

/-- the five Lua functions, the events they are wired to and the slot the registered Go listener calls (wireFunctions) -/
theorem wired_tie : listeners.map (fun l => (l.slot, l.event, l.fn)) =
    [("After.MessageDeleted", "AfterMessageDeleted", "After.MessageDeleted"),
     ("After.MessageStored", "AfterMessageStored", "After.MessageStored"),
     ("Before.MailFromAccepted", "BeforeMailFromAccepted", "Before.MailFromAccepted"),
     ("Before.MessageStored", "BeforeMessageStored", "Before.MessageStored"),
     ("Before.RcptToAccepted", "BeforeRcptToAccepted", "Before.RcptToAccepted")] := by decide +kernel

/-- the Lua spellings (`inbucket.before.mail_from_accepted`, …) and the slots they assign -/
theorem luaNames_tie : luaNames =
    [("after.message_deleted", "After.MessageDeleted"), ("after.message_stored", "After.MessageStored"),
     ("before.mail_from_accepted", "Before.MailFromAccepted"), ("before.message_stored", "Before.MessageStored"),
     ("before.rcpt_to_accepted", "Before.RcptToAccepted")] := by decide +kernel

theorem inbucketIndex_tie : inbucketIndex = [("after", "After"), ("before", "Before")] := by decide +kernel

/-- a listener is registered under the guard of the slot it calls, and some Lua name assigns that slot -/
def consistent (l : Listener) : Bool :=
  l.fn == l.slot && (luaNames.map (·.2)).contains l.slot

theorem wiring_consistent : listeners.all consistent = true := by decide +kernel

/-- EVERY listener: takes exactly one state from the pool, defers putState before the first use of the state, and enters
    Lua only through a protected CallByParam — so a Lua error (or a Go panic inside a binding) cannot unwind the session;
    and there is no other Lua entry point in the package.  `callByParamSites` counts a CallByParam call site once per
    listener whose inlined paths go through it (a helper shared by two listeners is two entries) and once when no listener
    reaches it, so `= listeners.length` says: one site per listener, none elsewhere -/
theorem every_call_protected :
    (∀ l ∈ listeners, l.protect = true ∧ l.deferPut = true ∧ l.gets = 1 ∧ l.puts = 1) ∧
    unprotectedCalls = [] ∧ listeners.length = 5 ∧ callByParamSites = 5 := by decide +kernel

/-- the paths on which a listener gives up before calling Lua (prepareInbucketFuncCall): the pool has no state, or the
    state has no `inbucket` object — then the state is dropped WITHOUT putState (Pool.Op.leak).  Same for all five. -/
theorem acquire_tie :
    ∀ l ∈ listeners, (l.paths.filter (fun p => !p.effects.contains "defer put(S)")).map (fun p => (p.conds, p.effects)) =
      [(["(S.err != nil)"], ["get()"]),
       (["(S.err == nil)", "(fn->*Inbucket(S).err != nil)"], ["get()", "fn->*Inbucket(S)"])] := by decide +kernel

/-- the Lua call of the listener for `slot` asking for `nret` results -/
def luaCall (slot nret : String) : String :=
  "S.CallByParam(gopher-lua.P{Fn: fn->*Inbucket(S)." ++ slot ++ ", NRet: " ++ nret ++ ", Protect: true}, fn->*gopher-lua.LUserData(S, &$0))"

def acquired : List String := ["(S.err == nil)", "(fn->*Inbucket(S).err == nil)"]

/-- handleBeforeMailFromAccepted / handleBeforeRcptToAccepted as LuaGlue.glueSmtp models them -/
def smtpListenerPaths (slot : String) : List Path :=
  [{ conds := "(S.CallByParam(..) != nil)" :: acquired,
     effects := ["get()", "fn->*Inbucket(S)", "defer put(S)", luaCall slot "1"], ret := "nil" },
   { conds := "(S.CallByParam(..) == nil)" :: acquired,
     effects := ["get()", "fn->*Inbucket(S)", "defer put(S)", luaCall slot "1", "S.Get(-1)", "S.Pop(1)", "fn->*event.SMTPResponse(S.Get(-1))"],
     ret := "fn->*event.SMTPResponse(S.Get(-1))" },
   { conds := ["(S.err != nil)"], effects := ["get()"], ret := "nil" },
   { conds := ["(S.err == nil)", "(fn->*Inbucket(S).err != nil)"], effects := ["get()", "fn->*Inbucket(S)"], ret := "nil" }]

/-- the three before-listeners have the shape LuaGlue.glueSmtp / glueStored model:
    no state => nil; NRet 1; error => nil; value := top of stack, popped; [stored: LVIsFalse => nil]; return unwrap(value) -/
theorem before_handlers_tie :
    (listeners.filter (fun l => l.nret == some 1)).map (fun l => (l.slot, l.paths)) =
    [("Before.MailFromAccepted", smtpListenerPaths "Before.MailFromAccepted"),
     ("Before.MessageStored",
      [{ conds := "!gopher-lua.LVIsFalse(S.Get(-1))" :: "(S.CallByParam(..) == nil)" :: acquired,
         effects := ["get()", "fn->*Inbucket(S)", "defer put(S)", luaCall "Before.MessageStored" "1", "S.Get(-1)", "S.Pop(1)", "fn->*event.InboundMessage(S.Get(-1))"],
         ret := "fn->*event.InboundMessage(S.Get(-1))" },
       { conds := "(S.CallByParam(..) != nil)" :: acquired,
         effects := ["get()", "fn->*Inbucket(S)", "defer put(S)", luaCall "Before.MessageStored" "1"], ret := "nil" },
       { conds := ["(S.CallByParam(..) == nil)", "(S.err == nil)", "(fn->*Inbucket(S).err == nil)", "gopher-lua.LVIsFalse(S.Get(-1))"],
         effects := ["get()", "fn->*Inbucket(S)", "defer put(S)", luaCall "Before.MessageStored" "1", "S.Get(-1)", "S.Pop(1)"], ret := "nil" },
       { conds := ["(S.err != nil)"], effects := ["get()"], ret := "nil" },
       { conds := ["(S.err == nil)", "(fn->*Inbucket(S).err != nil)"], effects := ["get()", "fn->*Inbucket(S)"], ret := "nil" }]),
     ("Before.RcptToAccepted", smtpListenerPaths "Before.RcptToAccepted")] := by decide +kernel

/-- the two after-listeners ask for no result and return nothing on every path: they cannot answer -/
theorem after_handlers_tie :
    (listeners.filter (fun l => l.nret != some 1)).map (fun l => (l.slot, l.nret, l.paths)) =
    [("After.MessageDeleted", some 0,
      [{ conds := ["(S.err != nil)"], effects := ["get()"], ret := "-" },
       { conds := ["(S.err == nil)", "(fn->*Inbucket(S).err != nil)"], effects := ["get()", "fn->*Inbucket(S)"], ret := "-" },
       { conds := acquired, effects := ["get()", "fn->*Inbucket(S)", "defer put(S)", luaCall "After.MessageDeleted" "0"], ret := "-" }]),
     ("After.MessageStored", some 0,
      [{ conds := ["(S.err != nil)"], effects := ["get()"], ret := "-" },
       { conds := ["(S.err == nil)", "(fn->*Inbucket(S).err != nil)"], effects := ["get()", "fn->*Inbucket(S)"], ret := "-" },
       { conds := acquired, effects := ["get()", "fn->*Inbucket(S)", "defer put(S)", luaCall "After.MessageStored" "0"], ret := "-" }])] := by decide +kernel

/-- unwrap to *event.`t`: `(v, nil)` exactly when the value is a userdata whose Value is a *event.`t`, otherwise `(nil, error)` -/
def unwrapPaths (t : String) : List Path :=
  [{ conds := ["!is($0, *gopher-lua.LUserData)"], effects := [], ret := "nil, <error>" },
   { conds := ["!is($0.(*gopher-lua.LUserData).Value, " ++ t ++ ")", "is($0, *gopher-lua.LUserData)"], effects := [], ret := "nil, <error>" },
   { conds := ["is($0, *gopher-lua.LUserData)", "is($0.(*gopher-lua.LUserData).Value, " ++ t ++ ")"], effects := [],
     ret := "$0.(*gopher-lua.LUserData).Value.(" ++ t ++ "), nil" }]

/-- the unwrap functions (LuaGlue.unwrapSMTPResponse / unwrapInboundMessage); there are exactly these two -/
theorem unwrap_tie :
    unwraps = [("*event.InboundMessage", unwrapPaths "*event.InboundMessage"),
               ("*event.SMTPResponse", unwrapPaths "*event.SMTPResponse")] := by decide +kernel

/-- smtp.allow / defer / deny: a FRESH response per call carrying the action; code and message are set only for deny, from
    the optional arguments 1 and 2 with the defaults of LuaGlue.defaultDenyCode / defaultDenyMsg -/
theorem deny_defaults_tie :
    smtpCtor =
      [{ conds := ["($o0 != event.ActionDeny)"],
         effects := ["$0.Push(fn->*gopher-lua.LUserData($0, &event.SMTPResponse{Action: $o0}))"], ret := "1" },
       { conds := ["($o0 == event.ActionDeny)"],
         effects := ["$0.OptInt(1, 550)", "&event.SMTPResponse{Action: $o0}.ErrorCode := $0.OptInt(1, 550)",
                     "$0.OptString(2, \"Mail denied by policy\")", "&event.SMTPResponse{Action: $o0}.ErrorMsg := $0.OptString(2, \"Mail denied by policy\")",
                     "$0.Push(fn->*gopher-lua.LUserData($0, &event.SMTPResponse{Action: $o0}))"], ret := "1" }] ∧
    denyCode = some Model.LuaGlue.defaultDenyCode ∧
    denyMsg = some "Mail denied by policy" ∧ Model.LuaGlue.defaultDenyMsg = Bytes.ofString "Mail denied by policy" :=
  ⟨by decide +kernel, by decide +kernel, by decide +kernel, rfl⟩

/-- EventBroker.Emit (LuaGlue.emit): under the read lock, the listeners in order, each on a copy of the event, until one
    answers non-nil; otherwise nil -/
theorem emit_tie : emit =
    [{ conds := [],
       effects := ["$recv.RLock()", "defer $recv.RUnlock()",
                   "loop $recv.<[]func> { [(each($recv.<[]func>)(*$0) != nil)] |- [each($recv.<[]func>)(*$0)] => return each($recv.<[]func>)(*$0) | [(each($recv.<[]func>)(*$0) == nil)] |- [each($recv.<[]func>)(*$0)] => next }"],
       ret := "nil" }] := by decide +kernel

/-- the pool: the critical sections and the unlocked prefix of putState are the atomic steps of Model.Pool
    (get = whole getState: empty => a new state, else the LAST element is removed and returned;
    putClosed / putClear = the two unlocked steps of putState; putAppend = its locked rest; flush = createChannel)
    and nothing else touches the free list -/
theorem pool_tie :
    poolGet =
      [{ conds := ["(len($recv.<free>) != 0)"],
         effects := ["$recv.Lock()", "defer $recv.Unlock()", "$recv.<free> := $recv.<free>[:(len($recv.<free>) - 1)]"],
         ret := "$recv.<free>[(len($recv.<free>) - 1)], nil" },
       { conds := ["(len($recv.<free>) == 0)"], effects := ["$recv.Lock()", "defer $recv.Unlock()", "new()"], ret := "N, N.err" }] ∧
    poolPut =
      [{ conds := ["!$0.IsClosed()"],
         effects := ["$0.IsClosed()", "$0.GetTop()", "$0.Pop($0.GetTop())", "$recv.Lock()", "defer $recv.Unlock()",
                     "$recv.<free> := append($recv.<free>, $0)"], ret := "-" },
       { conds := ["$0.IsClosed()"], effects := ["$0.IsClosed()"], ret := "-" }] ∧
    poolFlush =
      [{ conds := [],
         effects := ["$recv.Lock()", "defer $recv.Unlock()",
                     "$recv.<map[string]chan gopher-lua.LValue>[$0] := make(chan gopher-lua.LValue, 10)",
                     "loop $recv.<free> { [] |- [each($recv.<free>).Close()] => next }", "$recv.<free> := $recv.<free>[:0]"],
         ret := "make(chan gopher-lua.LValue, 10)" }] ∧
    otherStatesUsers = [] ∧
    poolSitesOutsideListeners = [("NewFromReader", 1, 1)] := by decide +kernel

/-! ## after events (Model.LuaAfter) -/

/-- BOTH after-listeners replace From by a pointer to a copy and To by a fresh slice of pointers to copies before the
    value is wrapped for Lua (inline or through a helper called with the listener's own copy): the variant of
    Model.LuaAfter the theorems of Props.C17After are about is the one the source has -/
theorem afterHandlersDetach_tie :
    afterHandlersDetach.map (fun p => (p.1, Model.LuaAfter.AddrSharing.ofString p.2)) =
      [("AfterMessageDeleted", .detached), ("AfterMessageStored", .detached)] := by decide +kernel

/-- the two Lua calls of the after-listeners: no result asked for (NRet: 0), protected, `defer putState` in front of the
    call, one get and one put per invocation (Model.LuaAfter.poolSteps) -/
theorem after_calls_tie :
    (listeners.filter (fun l => ["AfterMessageDeleted", "AfterMessageStored"].contains l.event)).map (fun l => (l.event, l.fn)) =
      [("AfterMessageDeleted", "After.MessageDeleted"), ("AfterMessageStored", "After.MessageStored")] ∧
    (∀ l ∈ listeners.filter (fun l => ["AfterMessageDeleted", "AfterMessageStored"].contains l.event),
      l.nret = some 0 ∧ l.protect = true ∧ l.deferPut = true ∧ l.gets = 1 ∧ l.puts = 1) := by decide +kernel

def fieldTable (obj kind : String) : Option FieldTable := fieldTables.find? (fun t => t.obj == obj && t.kind == kind)

def keysOf (obj kind : String) : List String :=
  match fieldTable obj kind with
  | some t => (t.rows.map (·.1)).eraseDups.filter (· != "*")
  | none => ["?"]

/-- messageMetadataIndex (Model.LuaAfter.readMeta): mailbox / id / subject as strings, date as Unix seconds, size as a
    number, from as a wrapped address (whatever the pointer), to as a new table filled from the slice; any other key nil;
    a receiver that is not a message_metadata is an argument error -/
theorem metaIndex_tie : fieldTable "*event.MessageMetadata" "index" = some
    { obj := "*event.MessageMetadata", kind := "index", selfChecked := true,
      rows := [("*", [], "$0.Push(gopher-lua.LNil) => 1"),
               ("date", [], "$0.Push(gopher-lua.LNumber(#.Date.Unix())) => 1"),
               ("from", [], "$0.Push(fn->*gopher-lua.LUserData($0, #.From)) => 1"),
               ("id", [], "$0.Push(gopher-lua.LString(#.ID)) => 1"),
               ("mailbox", [], "$0.Push(gopher-lua.LString(#.Mailbox)) => 1"),
               ("size", [], "$0.Push(gopher-lua.LNumber(#.Size)) => 1"),
               ("subject", [], "$0.Push(gopher-lua.LString(#.Subject)) => 1"),
               ("to", [], "loop #.To { [] |- [] => next }; $0.Push(&gopher-lua.LTable{}) => 1")] } := by decide +kernel

/-- messageMetadataNewIndex (the `.set` case of Model.LuaAfter.stepOp): strings through CheckString(3), date / size through
    CheckInt64(3), from through CheckUserData(3) + the *mail.Address test (else ArgError), to through CheckTable(3) into a
    fresh slice; any other key raises -/
theorem metaNewIndex_tie : fieldTable "*event.MessageMetadata" "newindex" = some
    { obj := "*event.MessageMetadata", kind := "newindex", selfChecked := true,
      rows := [("*", [], "$0.RaiseError(\"invalid index %q\", $0.CheckString(2)) => 0"),
               ("date", [], "$0.CheckInt64(3); #.Date := time.Unix($0.CheckInt64(3), 0) => 0"),
               ("from", ["!is($0.CheckUserData(3).Value, *mail.Address)"], "$0.CheckUserData(3); $0.ArgError(1, (\"address\" + \" expected\")); #.From := nil => 0"),
               ("from", ["is($0.CheckUserData(3).Value, *mail.Address)"], "$0.CheckUserData(3); #.From := $0.CheckUserData(3).Value.(*mail.Address) => 0"),
               ("id", [], "$0.CheckString(3); #.ID := $0.CheckString(3) => 0"),
               ("mailbox", [], "$0.CheckString(3); #.Mailbox := $0.CheckString(3) => 0"),
               ("size", [], "$0.CheckInt64(3); #.Size := $0.CheckInt64(3) => 0"),
               ("subject", [], "$0.CheckString(3); #.Subject := $0.CheckString(3) => 0"),
               ("to", [], "$0.CheckTable(3); #.To := make([]*mail.Address, 0, 16) => 0")] } ∧
    toAssignForEach = "skip-non-addresses" := by decide +kernel

/-- mailAddressIndex / mailAddressNewIndex (Model.LuaAfter.readAddr, the `.setAddr` case of stepOp) -/
theorem addrTables_tie :
    fieldTable "*mail.Address" "index" = some
      { obj := "*mail.Address", kind := "index", selfChecked := true,
        rows := [("*", [], "$0.Push(gopher-lua.LNil) => 1"),
                 ("address", [], "$0.Push(gopher-lua.LString(#.Address)) => 1"),
                 ("name", [], "$0.Push(gopher-lua.LString(#.Name)) => 1")] } ∧
    fieldTable "*mail.Address" "newindex" = some
      { obj := "*mail.Address", kind := "newindex", selfChecked := true,
        rows := [("*", [], "$0.RaiseError(\"invalid index %q\", $0.CheckString(2)) => 0"),
                 ("address", [], "$0.CheckString(3); #.Address := $0.CheckString(3) => 0"),
                 ("name", [], "$0.CheckString(3); #.Name := $0.CheckString(3) => 0")] } := by decide +kernel

/-- inbucketAfterIndex / inbucketBeforeIndex hand back what the slot holds through funcOrNil, nil for any other key; the
    setters accept functions only (CheckFunction(3)) and raise for any other key -/
theorem slotTables_tie :
    (fieldTable "*InbucketAfterFuncs" "index").map (·.rows) = some
      [("*", [], "$0.Push(gopher-lua.LNil) => 1"),
       ("message_deleted", [], "$0.Push(fn->gopher-lua.LValue(#.MessageDeleted)) => 1"),
       ("message_stored", [], "$0.Push(fn->gopher-lua.LValue(#.MessageStored)) => 1")] ∧
    (fieldTable "*InbucketAfterFuncs" "newindex").map (·.rows) = some
      [("*", [], "$0.RaiseError(\"invalid inbucket.after index %q\", $0.CheckString(2)) => 0"),
       ("message_deleted", [], "$0.CheckFunction(3); #.MessageDeleted := $0.CheckFunction(3) => 0"),
       ("message_stored", [], "$0.CheckFunction(3); #.MessageStored := $0.CheckFunction(3) => 0")] ∧
    (fieldTable "*InbucketBeforeFuncs" "index").map (·.rows) = some
      [("*", [], "$0.Push(gopher-lua.LNil) => 1"),
       ("mail_from_accepted", [], "$0.Push(fn->gopher-lua.LValue(#.MailFromAccepted)) => 1"),
       ("message_stored", [], "$0.Push(fn->gopher-lua.LValue(#.MessageStored)) => 1"),
       ("rcpt_to_accepted", [], "$0.Push(fn->gopher-lua.LValue(#.RcptToAccepted)) => 1")] := by decide +kernel

/-- the names the model dispatches on are the names of the tables, for reading and for assigning alike -/
theorem field_names_tie :
    keysOf "*event.MessageMetadata" "index" = Model.LuaAfter.metaFieldNames.map (·.1) ∧
    keysOf "*event.MessageMetadata" "newindex" = Model.LuaAfter.metaFieldNames.map (·.1) ∧
    keysOf "*mail.Address" "index" = Model.LuaAfter.addrFieldNames.map (·.1) ∧
    keysOf "*mail.Address" "newindex" = Model.LuaAfter.addrFieldNames.map (·.1) ∧
    keysOf "*InbucketAfterFuncs" "index" = Model.LuaAfter.slotNames.map (·.1) ∧
    keysOf "*InbucketAfterFuncs" "newindex" = Model.LuaAfter.slotNames.map (·.1) := by decide +kernel

/-- message_metadata.new() wraps a zero event.MessageMetadata (Model.LuaAfter.zeroMeta) -/
theorem newMeta_tie : newMetaCtor = "[] |- [$0.Push(fn->*gopher-lua.LUserData($0, &event.MessageMetadata{}))] => 1" := by decide +kernel

end Ibx.Tie.Lua
