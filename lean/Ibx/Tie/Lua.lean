import Ibx.Gen.Lua
import Ibx.Model.LuaGlue
import Ibx.Model.Pool
/-
  T1 tie for C17 (Lua half): the facts regenerated from pkg/extension/luahost/{lua.go,pool.go,bind_*.go} and
  pkg/extension/broker.go on every run are exactly what Ibx/Model/LuaGlue.lean and Ibx/Model/Pool.lean assume.
  If the source changes one of them these obligations stop checking and the models have to be re-read.
-/
namespace Ibx.Tie.Lua
open Ibx Ibx.Gen.Lua

/-- the five Lua functions, the events they are wired to and the Go listeners (wireFunctions) -/
theorem wired_tie : wired =
    [("ib.After.MessageDeleted", "AfterMessageDeleted", "handleAfterMessageDeleted"),
     ("ib.After.MessageStored", "AfterMessageStored", "handleAfterMessageStored"),
     ("ib.Before.MailFromAccepted", "BeforeMailFromAccepted", "handleBeforeMailFromAccepted"),
     ("ib.Before.MessageStored", "BeforeMessageStored", "handleBeforeMessageStored"),
     ("ib.Before.RcptToAccepted", "BeforeRcptToAccepted", "handleBeforeRcptToAccepted")] := rfl

/-- the Lua spellings (`inbucket.before.mail_from_accepted`, …) and the slots they assign -/
theorem luaNames_tie : luaNames =
    [("before.mail_from_accepted", "ib.Before.MailFromAccepted"), ("before.message_stored", "ib.Before.MessageStored"),
     ("before.rcpt_to_accepted", "ib.Before.RcptToAccepted"), ("after.message_deleted", "ib.After.MessageDeleted"),
     ("after.message_stored", "ib.After.MessageStored")] := rfl

theorem inbucketIndex_tie : inbucketIndex =
    ["\"after\" => ls.Push(wrapInbucketAfter(ls, &ib.After))", "\"before\" => ls.Push(wrapInbucketBefore(ls, &ib.Before))"] := rfl

/-- a listener is wired to the slot it calls, and logs / prepares under the Lua name that assigns that slot -/
def consistent (w : String × String × String) : Bool :=
  match handlers.find? (fun h => h.goName == w.2.2) with
  | some h => h.fn == w.1 && luaNames.contains (h.luaName, w.1)
  | none => false

theorem wiring_consistent : wired.all consistent = true := by decide

/-- EVERY listener: obtains its state through prepareInbucketFuncCall only, leaves when that failed, defers putState
    right after, and calls Lua protected — so a Lua error (or a Go panic inside a binding) cannot unwind the session -/
theorem every_call_protected :
    (∀ h ∈ handlers, h.protect = true ∧ h.notOkReturns = true ∧ h.deferPut = true ∧ h.gets = 0 ∧ h.puts = 1) ∧
    unprotectedCalls = [] ∧ handlers.length = 5 := by decide

/-- the three before-listeners have the shape LuaGlue.glueSmtp / glueStored model:
    NRet 1; error => return nil; value := top of stack, popped; [stored: LVIsFalse => nil]; result := unwrap(value); return result -/
theorem before_handlers_tie :
    handlers.filter (fun h => h.nret == some 1) =
    [{ goName := "handleBeforeMailFromAccepted", luaName := "before.mail_from_accepted", notOkReturns := true, deferPut := true,
       fn := "ib.Before.MailFromAccepted", nret := some 1, protect := true, errReturnsNil := true, getTopPop := true,
       lvIsFalse := false, unwrap := "unwrapSMTPResponse", returnsResult := true, gets := 0, puts := 1 },
     { goName := "handleBeforeRcptToAccepted", luaName := "before.rcpt_to_accepted", notOkReturns := true, deferPut := true,
       fn := "ib.Before.RcptToAccepted", nret := some 1, protect := true, errReturnsNil := true, getTopPop := true,
       lvIsFalse := false, unwrap := "unwrapSMTPResponse", returnsResult := true, gets := 0, puts := 1 },
     { goName := "handleBeforeMessageStored", luaName := "before.message_stored", notOkReturns := true, deferPut := true,
       fn := "ib.Before.MessageStored", nret := some 1, protect := true, errReturnsNil := true, getTopPop := true,
       lvIsFalse := true, unwrap := "unwrapInboundMessage", returnsResult := true, gets := 0, puts := 1 }] := by decide

/-- the two after-listeners ask for no result and return nothing: they cannot answer -/
theorem after_handlers_tie :
    (handlers.filter (fun h => h.nret != some 1)).map (fun h => (h.goName, h.nret, h.unwrap, h.returnsResult)) =
    [("handleAfterMessageDeleted", some 0, "", false), ("handleAfterMessageStored", some 0, "", false)] := by decide

/-- unwrap*: `(v, nil)` only after both type assertions, otherwise `(nil, error)`  (LuaGlue.unwrapSMTPResponse / unwrapInboundMessage) -/
theorem unwrap_tie :
    unwrapResponse = (["*lua.LUserData", "*event.SMTPResponse"], "return nil, fmt.Errorf(...)") ∧
    unwrapInbound = (["*lua.LUserData", "*event.InboundMessage"], "return nil, fmt.Errorf(...)") := ⟨rfl, rfl⟩

/-- smtp.deny() defaults (LuaGlue.defaultDenyCode / defaultDenyMsg) -/
theorem deny_defaults_tie :
    denyDefaults = ["val.ErrorCode = ls.OptInt(1, 550)", "val.ErrorMsg = ls.OptString(2, \"Mail denied by policy\")"] ∧
    Model.LuaGlue.defaultDenyCode = 550 ∧ Model.LuaGlue.defaultDenyMsg = Bytes.ofString "Mail denied by policy" := ⟨rfl, rfl, rfl⟩

/-- prepareInbucketFuncCall: getState, then getInbucket; on the second failure the state is dropped (Pool.Op.leak) -/
theorem prepare_tie : prepare =
    ["logger = h.logContext.Logger().With().Str(\"event\", funcName).Logger()",
     "ls, err := h.pool.getState()",
     "if err != nil { logger.Error().Err(err).Msg(\"Failed to get Lua state instance from pool\") return logger, nil, nil, false }",
     "ib, err = getInbucket(ls)",
     "if err != nil { logger.Error().Err(err).Msg(\"Failed to obtain Lua inbucket object\") return logger, nil, nil, false }",
     "return logger, ls, ib, true"] := rfl

/-- EventBroker.Emit (LuaGlue.emit) -/
theorem emit_tie : emit =
    ["eb.RLock()", "defer eb.RUnlock()",
     "for _, l := range eb.listenerFuncs { if result := l(*event); result != nil { return result } }",
     "return nil"] := rfl

/-- pool.go: the critical sections and the unlocked prefix of putState are the atomic steps of Model.Pool
    (get = whole getState; putClosed / putClear = the two unlocked statements of putState; putAppend = its locked rest;
    flush = createChannel) and nothing else touches the free list -/
theorem pool_tie :
    getState = ["lp.Lock()", "defer lp.Unlock()", "ln := len(lp.states)", "if ln == 0 { return lp.newState() }",
                "state := lp.states[ln-1]", "lp.states = lp.states[0 : ln-1]", "return state, nil"] ∧
    putState = ["if state.IsClosed() { return }", "state.Pop(state.GetTop())", "lp.Lock()", "defer lp.Unlock()",
                "lp.states = append(lp.states, state)"] ∧
    createChannel = ["lp.Lock()", "defer lp.Unlock()", "ch := make(chan lua.LValue, 10)", "lp.channels[name] = ch",
                     "for _, s := range lp.states { s.Close() }", "lp.states = lp.states[:0]", "return ch"] ∧
    otherStatesUsers = [] ∧
    poolSitesOutsideHandlers = [("NewFromReader", 1, 1), ("prepareInbucketFuncCall", 1, 0)] := ⟨rfl, rfl, rfl, rfl, rfl⟩

end Ibx.Tie.Lua
