import Ibx.Gen.Pop3
import Ibx.Model.Pop3
/-
  T1 tie for C13: the POP3 session model dispatches on exactly the command keys and case labels that the
  regenerated facts (Ibx/Gen/Pop3.lean, re-read from pkg/server/pop3/*.go on every run) report, and the store is
  touched exactly where the model says.  If the source changes one of them, these obligations stop checking.
-/
namespace Ibx.Tie.Pop3
open Ibx Ibx.Model.Pop3

/-- the key under which a verb is registered in the model's `commands` -/
def keyOf (v : Verb) : Bytes := ((commands.find? (·.2 == v)).map (·.1)).getD []

/-- the model's `commands` has exactly the keys of the package's command set literal (same order), all mapped to `true` -/
theorem commands_tie : Gen.Pop3.commandKeys = some (commands.map (·.1)) := by decide
theorem commands_all_true : Gen.Pop3.commandVals.all (· == "true") = true := by decide
/-- distinct keys ↦ distinct verbs: `verbOf` is the map lookup -/
theorem commands_keys_nodup : (commands.map (·.1)).Nodup ∧ (commands.map (·.2)).Nodup := by decide

/-- the regenerated table (command words, default?) has exactly the keys of the model's verbs `vs` — as a set: the
    words come sorted, read off the executed paths of the handler (a switch, an if-chain or a table moved into a helper are
    the same table) — and a default -/
def sameKeys (g : Option (List Bytes × Bool)) (vs : List Verb) : Bool :=
  match g with
  | some (ls, true) => ls.all ((vs.map keyOf).contains ·) && ls.length == vs.length && decide ls.Nodup
  | _ => false

/-- the command words the AUTHORIZATION handler treats specially are the verbs `authH` treats specially; the rest is `default` -/
theorem auth_cases_tie : sameKeys Gen.Pop3.authCases authCases = true := by decide
/-- the command words of the TRANSACTION handler's table -/
theorem trans_cases_tie : sameKeys Gen.Pop3.transCases transCases = true := by decide

/-- every verb outside the case lists gets the `default` answer (-ERR out of sequence) and changes nothing -/
theorem auth_default (store : Bytes → List Msg) (s : St) (v : Verb) (args : List Bytes) (h : v ∉ authCases) :
    authH store s v args = .ok s .err [] := by
  cases v <;> simp [authCases] at h <;> rfl
theorem trans_default (s : St) (v : Verb) (args : List Bytes) (h : v ∉ transCases) :
    transH s v args = .ok s .err [] := by
  cases v <;> simp [transCases] at h <;> rfl

/-- the command loop hands AUTHORIZATION and TRANSACTION to a handler(cmd, args) (found by that dispatch, not by name) -/
theorem dispatch_states_tie : Gen.Pop3.dispatchStates = ["AUTHORIZATION", "TRANSACTION"] := by decide

/-- a command reaches the state dispatch after CAPA, then the empty command, then the command-set test have let it
    through, in this order ($cmd = the command word the loop hands to the handlers; every path of the loop body that
    reaches the dispatch has decided exactly this); the loop runs while `state != QUIT && sendError == nil` ($s = the
    session) -/
theorem loop_tests_tie : Gen.Pop3.loopTests = ["$cmd != \"CAPA\"", "$cmd != \"\"", "commands[$cmd]"] := by decide
theorem loop_cond_tie : Gen.Pop3.loopCond = "$s.state != QUIT && $s.sendError == nil" := by decide

/-- the package touches the store in two ways only, whatever the helpers in between are called: the mailbox is loaded
    (GetMessages) from the PASS and APOP clauses of the AUTHORIZATION handler and nowhere else; messages are removed
    (RemoveMessage) from the QUIT clause of the TRANSACTION handler and nowhere else — not from another clause, not
    from the loop (idle timeout, EOF), not from a state change -/
theorem store_reach_tie :
    Gen.Pop3.storeReach = [("AUTHORIZATION", "APOP", "GetMessages"), ("AUTHORIZATION", "PASS", "GetMessages"),
                           ("TRANSACTION", "QUIT", "RemoveMessage")] := by decide
/-- every numeric argument is parsed with ParseInt(·, 10, 32) -/
theorem parse_int_tie : Gen.Pop3.parseIntArgs = ["10,32"] := by decide

/-- the accepting exit of the STLS clause: tls.Server on the session's connection, the handshake at once, the connection
    field replaced, a NEW bufio.Reader on the wrapped connection assigned to the field lines are read from (so what the old
    reader had buffered is gone: `Model.Pop3.sessionWire`), the *tls.ConnectionState field assigned -/
theorem stls_switch_tie : Gen.Pop3.stlsSwitch = ["wrap", "handshake", "conn", "reader", "state"] := by decide

/-- where that field lives: the variant of the source is the one the model is instantiated with (`sourceScope`).  In the
    pinned tree it is declared in the struct the session EMBEDS — one flag for every session of the process (finding
    F-13tls; `Props.C13Tls.stls_second_connection_fails`).  When the declaration moves into the session this obligation
    fails until `sourceScope` is switched to `.perSession`. -/
theorem tls_scope_tie :
    Gen.Pop3.tlsStateScope = (match sourceScope with | .perServer => "perServer" | .perSession => "perSession") := by decide

/-- the capability line STLS is sent under `tlsConfig != nil && tlsState == nil && !ForceTLS` (`Model.Pop3.offersStls`; the
    tlsState read is the server's in the pinned source, the session's once the declaration has moved) -/
theorem capa_stls_cond_tie :
    Gen.Pop3.capaStlsCond = ["$r.tlsConfig != nil && $r.tlsState == nil && !$r.config.ForceTLS"] ∨
    Gen.Pop3.capaStlsCond = ["$r.tlsConfig != nil && $s.tlsState == nil && !$r.config.ForceTLS"] := by decide

end Ibx.Tie.Pop3
