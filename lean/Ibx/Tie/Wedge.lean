import Ibx.Gen.Wedge
import Ibx.Gen.Broker
import Ibx.Gen.Conc
import Ibx.Props.C09Wedge
/-
  T1 tie for Props/C09Wedge.lean: the variants its theorems are about are the ones the source has NOW.  `Gen.Wedge` is re-read
  from pkg/storage/file/*.go, pkg/storage/mem/*.go and pkg/extension/async_broker.go on every run
  (harness/cmd/extract/wedge.go, whose header spells out each shape).  The facts are STRUCTURAL: the remove method is "the one
  method of another receiver type that the exported RemoveMessage calls", the list is "the receiver field it splices", the cap
  is "the field initialised from MailboxMsgCap", the worker is "the callee of the file's only go statement"; no unexported name,
  no local's spelling, no message text enters a fact.

  What breaks which obligation:
    * a removeMessage that assigns the old slice back (or assigns the list anywhere else, or calls something after the splice that
      does)                                                → `removeListEffect_tie`, and with it `source_cap_loop_terminates`;
    * a fallible call before the splice other than the load guard, a match by something else than ID()
                                                           → `removeShape_tie`;
    * a cap loop with another condition, another field, a body that does more than remove the head and log, a `continue`/`break`
                                                           → `capLoop_tie`;
    * a new loop anywhere in the two store packages, or an old one changing shape
                                                           → `storeLoops_tie` (then read the new loop and extend the list);
    * a `push` that waits, sleeps, sends on a channel; a worker that calls listeners with the queue mutex held
                                                           → `sourceQueue_tie`, and with it `source_store_op_never_waits_for_listener`.
-/
namespace Ibx.Tie.Wedge
open Ibx Ibx.Model Ibx.Model.FsSteps Ibx.Model.FsFault Ibx.Model.CapLoop Ibx.Model.EmitLock
open Ibx.Model.FileStore (FEnt)
open Ibx.Props.C09Wedge

/-! ### (a) the cap loop -/

/-- the variant of `removeMessage` the source has -/
def sourceEffect : ListEffect := ListEffect.ofString Gen.Wedge.removeListEffect

/-- in `mbox.removeMessage` the assignment that shortens the in-memory list is the only assignment to a receiver field, and
    nothing called after it assigns that field -/
theorem removeListEffect_tie : sourceEffect = .shrinksAlways := by decide

/-- the entry removed is the first whose `ID()` equals the argument (so `removeMessage(messages[0].ID())` removes the head: the
    head matches, and nothing precedes it); before the splice nothing can fail but the index load, whose failure returns before
    the list is looked at -/
theorem removeShape_tie :
    Gen.Wedge.removeMatchesByID = true ∧ Gen.Wedge.removeFallibleBeforeSplice = "loadGuardOnly" := by decide

/-- the loop of `CapLoop.Iter`: condition `len(F) >= cap` over that same field, guarded by `cap > 0`, body = remove the head and
    at most log the error; the index is loaded before the loop, so the load guard inside `removeMessage` is never entered there -/
theorem capLoop_tie :
    Gen.Wedge.capLoopCond = "len(F)>=cap" ∧ Gen.Wedge.capLoopBody = "removeHead" ∧ Gen.Wedge.capLoopLoadsFirst = true := by decide

/-- **the loop the code has terminates**, under every fault set — `cap_loop_terminates` for the variant found in the source -/
theorem source_cap_loop_terminates (C : Codec) (F : Nat → Bool) (b : Bytes) (par : List FsStep) {cap : Nat} (hcap : 0 < cap)
    (l : List FEnt) (r : Run) :
    ∃ n t, EndsIn cap (body C F b par sourceEffect) { mem := l, run := r } n t ∧ n ≤ l.length + 1 - cap ∧
      t.mem = evictRest cap l ∧ t.run = evictF C F b par cap r l := by
  rw [removeListEffect_tie]
  obtain ⟨n, t, he, _, hn, hm, hr⟩ := cap_loop_terminates C F b par hcap l r
  exact ⟨n, t, he, hn, hm, hr⟩

/-- every `for` / `range` statement of the two store packages, with its shape.  Bounded by construction: `range` (as many rounds
    as elements), `len>=cap:removeHead` (theorem above), `len>cap:cursor++` (the memory store's cap loop: the cursor runs through
    the id range `first … last`, pinned in detail by `Gen.Conc.memCapEvict`), `drainList` (one element leaves the list per round
    or the loop breaks; `C09b.eviction_loop_terminates`).  Bounded by the input: `untilError` (readIndex decodes records until the
    decoder reports an error, EOF included: one round per record of a finite file).  `redraw` (newMessage draws a fresh id while
    the mailbox already lists the drawn one) ends as soon as the process-wide counter — 10 000 values, advancing on every draw —
    yields a value the mailbox does not list for the current second; it makes no file-system call and cannot be held up by a
    refused one.  `selectForever` and `counter:forever` are the service loops of the two goroutines listed in
    `goroutineFuncs_tie`; they hold no mailbox lock across rounds.  There is no `unknown`. -/
theorem storeLoops_tie : Gen.Wedge.storeLoops =
    ["file.mbox.newMessage:len>=cap:removeHead", "file.mbox.newMessage:redraw", "file.mbox.hasID:range",
     "file.-.countGenerator:counter:forever", "file.Store.MarkSeen:range", "file.Store.PurgeMessages:range",
     "file.Store.VisitMailboxes:range", "file.Store.VisitMailboxes:range", "file.Store.VisitMailboxes:range",
     "file.mbox.getMessages:range", "file.mbox.getMessage:range", "file.mbox.removeMessage:range",
     "file.mbox.readIndex:untilError", "file.mbox.writeIndex:range",
     "mem.Store.maxSizeEnforcer:selectForever", "mem.Store.maxSizeEnforcer:drainList",
     "mem.Store.AddMessage:len>cap:cursor++", "mem.Store.AddMessage:range", "mem.Store.GetMessages:range",
     "mem.Store.PurgeMessages:range", "mem.Store.PurgeMessages:range", "mem.Store.VisitMailboxes:range",
     "mem.Store.VisitMailboxes:range"] := by decide

theorem goroutineFuncs_tie : Gen.Wedge.goroutineFuncs = ["file.countGenerator", "mem.maxSizeEnforcer"] := by decide

/-! ### (b) Emit under the lock -/

/-- the queue variant the source has: `Emit` only pushes (`Gen.Broker.asyncEmit = "perListenerQueue"`, recognised only when push
    does nothing but Lock / append / Signal / Unlock), nothing that can block is reachable from it, and the worker does not hold
    the queue mutex while a listener runs -/
def sourceQueue : QueueVar :=
  if Gen.Broker.asyncEmit = "perListenerQueue" ∧ Gen.Wedge.emitBlockingOps = [] ∧ Gen.Wedge.workerCallsOutsideQueueMutex = true
  then .unbounded else .unknown

theorem sourceQueue_tie : sourceQueue = .unbounded := by decide

/-- every operation of the file store holds its bucket lock from its first statement to its return (so "the operation" and "the
    neighbour" of `Model.EmitLock` are what the store's methods are), and the bucket is shared by all mailboxes of one level-1
    directory (`Gen.Conc`, re-stated here because the composition depends on it) -/
theorem fileOpsHoldBucketLock_tie : Gen.Conc.fileOpsHoldBucketLock = true ∧ Gen.Conc.fileBucketIsLevel1Dir = true := by decide

/-- **a store operation never waits for a listener**, for the queue the source has: any `k`, any listener behaviour, any state -/
theorem source_store_op_never_waits_for_listener {beh : Beh} (s : EmitLock.St) (j : Nat) (ho : s.op = .emitting j) :
    ∃ t, OpStep sourceQueue beh s t := by
  rw [sourceQueue_tie]
  exact store_op_never_waits_for_listener s j ho

/-- **no deadlock** of operation, listener and neighbour around one bucket lock, for the queue the source has -/
theorem source_deadlock_free {beh : Beh} {k : Nat} {nb : NbPhase} (hnb : nb ≠ .inside) {s : EmitLock.St}
    (h : EmitLock.Reach sourceQueue beh k nb s) : Final beh s ∨ ∃ t, EmitLock.Step sourceQueue beh s t := by
  rw [sourceQueue_tie] at h ⊢
  exact deadlock_free hnb h

example : ∃ s, EmitLock.Reach sourceQueue readsStore 1 .absent s ∧ s.lock = .op := by
  rw [sourceQueue_tie]
  exact ⟨_, EmitLock.Reach.step EmitLock.Reach.init (EmitLock.Step.opLock _ 1 rfl rfl), rfl⟩

end Ibx.Tie.Wedge
