import Ibx.Gen.Ends
import Ibx.Model.Smtp
import Ibx.Model.Pop3
/-
  T1 tie for C03End / C13End: the ways a session ends in the models are the ways the regenerated facts
  (Ibx/Gen/Ends.lean, re-read from pkg/server/{smtp,pop3} on every run; functions found by role, control flow executed
  path by path — harness/cmd/extract/ends.go, kit_t1a.go) report — the loop condition, the
  literal last replies and the error class that guards each, the silent EOF branch, the armed deadlines, the data-phase
  error exit, POP3's dropped partial line, and the three exits of sendMessage / sendMessageTop after the status line.
  If the source changes one of them, these obligations stop checking.
-/
namespace Ibx.Tie.Ends
open Ibx

/-! ### SMTP -/

/-- `for ssn.state != QUIT && ssn.sendError == nil`: what `Model.Smtp.loop` tests at its head (st = .quit, sendErr);
    `$state` = the field the command loop dispatches on, `$sendError` = the field the reply helper stores a failed write in -/
theorem smtp_loop_cond : Gen.Ends.smtpLoopCond = ["$state", "!=", "QUIT", "&&", "$sendError", "==", "nil"] := by decide

/-- command mode, the paths of the loop body on which reading the line failed (executed path by path, so the handling
    may sit in the loop or in a helper and end with `break` or `return`): a timeout is answered with `byeText .idle`, any
    other non-EOF error with `byeText .connErr`; EOF with nothing; nothing else happens on them; there are these three
    classes of such paths (eof, timeout, other) and every one of them leaves the loop -/
theorem smtp_read_err_sends :
    Gen.Ends.smtpReadErrSends =
      [("timeout", Model.Smtp.byeText .idle), ("other", Model.Smtp.byeText .connErr)] := by decide
theorem smtp_eof_silent : Gen.Ends.smtpEofSends = [] := by decide
theorem smtp_read_err_breaks : Gen.Ends.smtpReadErrBreaks = 3 ∧ Gen.Ends.smtpReadErrOther = [] := by decide

/-- data phase: only the timeout is answered (`byeOf .timeout .dataCut = some .idle`, `byeOf .neterr .dataCut = none`),
    the state becomes QUIT and the handler returns before any size test or Deliver call -/
theorem smtp_data_err_sends : Gen.Ends.smtpDataErrSends = [("timeout", Model.Smtp.byeText .idle)] := by decide
theorem smtp_data_err_exit : Gen.Ends.smtpDataErrExit = ["state:QUIT; return"] := by decide
theorem smtp_byeOf_table :
    Model.Smtp.byeOf .timeout .eof = some .idle ∧ Model.Smtp.byeOf .neterr .eof = some .connErr ∧
    Model.Smtp.byeOf .eof .eof = none ∧ Model.Smtp.byeOf .timeout .dataCut = some .idle ∧
    Model.Smtp.byeOf .neterr .dataCut = none ∧ Model.Smtp.byeOf .eof .dataCut = none := by decide

/-- every read and every write of the connection (the package's I/O calls, whatever the functions around them are
    called) is preceded by arming the deadline `time.Now().Add(config.Timeout)` -/
theorem smtp_deadlines :
    Gen.Ends.smtpDeadlines = [("PrintfLine", "armed"), ("ReadDotBytes", "armed"), ("ReadLine", "armed")] ∧
    Gen.Ends.smtpNextDeadline = ["time.Now().Add($r.config.Timeout)"] := by decide

/-! ### POP3 -/

theorem pop_loop_cond : Gen.Ends.popLoopCond = ["$state", "!=", "QUIT", "&&", "$sendError", "==", "nil"] := by decide

theorem pop_read_err_sends :
    Gen.Ends.popReadErrSends =
      [("timeout", Model.Pop3.byeText .idle), ("other", Model.Pop3.byeText .connErr)] := by decide
theorem pop_eof_silent : Gen.Ends.popEofSends = [] := by decide
theorem pop_read_err_breaks : Gen.Ends.popReadErrBreaks = 3 ∧ Gen.Ends.popReadErrOther = [] := by decide
theorem pop_byeOf_table :
    Model.Pop3.byeOf .timeout .readError = some .idle ∧ Model.Pop3.byeOf .neterr .readError = some .connErr ∧
    Model.Pop3.byeOf .eof .eof = none ∧ Model.Pop3.byeOf .timeout .quit = none := by decide

/-- `readLine` returns the empty string with the error: a partial line never reaches `parseCmd` -/
theorem pop_partial_line_dropped : Gen.Ends.popReadLineErr = ["lit:"] := by decide

theorem pop_deadlines :
    Gen.Ends.popDeadlines = [("Fprint", "armed"), ("ReadString", "armed")] ∧
    Gen.Ends.popNextDeadline = ["time.Now().Add($r.config.Timeout)"] := by decide

/-- the wire form of a `Tail` after the status line -/
def tailLines : Model.Pop3.Tail → List String
  | .err => ["-ERR Failed to RETR that message, internal error"]
  | .dotErr => [".", "-ERR Failed to RETR that message, internal error"]
  | .dot => ["."]

/-- the body functions of RETR and TOP (the helpers of those clauses that build the line scanner) have exactly three
    exits: Source() failed (`Tail.err`), the scanner failed (`Tail.dotErr`), the normal end (`Tail.dot`) -/
theorem pop_send_exits :
    Gen.Ends.popSendMessageExits = [tailLines .err, tailLines .dotErr, tailLines .dot] ∧
    Gen.Ends.popSendMessageTopExits = [tailLines .err, tailLines .dotErr, tailLines .dot] := by decide

/-- the "+OK" status line of RETR / TOP is sent BEFORE the body function (and so before Source()) is called: on every
    path of those rows that reaches the body function, the event immediately before it is that reply (in format +
    arguments form: `%s` stands for the plain verbs %s %v %d and for an operand of `+`) -/
theorem pop_status_before_body :
    Gen.Ends.popBodyCalls = [("RETR", "send:+OK %s bytes follows ; body"),
                             ("TOP", "send:+OK Top of message follows ; body")] := by decide

end Ibx.Tie.Ends
