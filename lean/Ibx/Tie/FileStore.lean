import Ibx.Gen.FileStore
import Ibx.Model.FileStore
import Ibx.Model.FileIds
/-
  T1 tie for the file-store model (Ibx/Model/FileStore.lean).  Ibx/Gen/FileStore.lean is re-read from
  pkg/storage/file/{fstore,mbox,fmessage}.go by harness/cmd/extract/filestore.go on every run.  Every fact is STRUCTURAL:
  the extractor never looks at the spelling of a local variable, receiver, unexported helper or unexported field, and
  helper boundaries do not matter (package-local calls are inlined).  What a fact talks about is found through anchors:
  the mailbox struct = the struct embedding sync.RWMutex, its message list = its only slice field, its loaded flag = its
  only bool field; the index loader = the function setting the flag to true; the index writer = the function calling
  os.Rename; the directory remover = the function calling os.RemoveAll; the message constructor = the function building
  `Message{… Fid: id …}`; paths are evaluated symbolically (`dir`, `dir/index.gob`, …).  A shape that is not recognised
  comes out as "unknown" / false, which the theorems below do not accept.  Which modelling decision each fact pins:

  * The model state `FS` has NO volatile component and `reopen` is the identity.
      - `storeFields = ["plain"]`, `storeHasCache = "no"`: `type Store struct` holds only the lock table, paths, the
        cap, a reader pool and the extension host; no map / slice / channel anywhere in a field type and no field that
        mentions a type of package file (the mailbox struct, `Message`), so a Store object cannot remember mailbox
        content between calls.
      - `mboxPerCall = "fresh"`: every place that builds a mailbox object (`(*Store).mbox`, `(*Store).mboxFromHash`)
        uses a keyed literal that sets neither the message list nor the loaded flag (zero values: nil list, index
        not loaded).
      - `loadsIndexFirst`: in every exported Store method (helpers inlined: getMessages, getMessage, removeMessage,
        newMessage, …) the first touch of the message list comes, on every path, after the guard
        `if !<loaded> { <loader>() }` (in any equivalent layout, also as a helper); together with the fresh mailbox
        object every operation starts from the index on disk (`readIndex s b` in the model).
      - `readIndexResets = "truncates"`: the first thing the loader does with the list is `list = list[:0]`, so what
        it leaves there is exactly the decoded file, never appended to an older list.
  * `writeIndex` replaces the index in one step (the model has no intermediate "empty / prefix index" state):
      - `fileIndexWrite = "tempThenRename"`: the new index is created as `dir/index.gob<suffix>` and renamed over
        the live one (reverted fix: "createInPlace").
  * `writeIndex s b []` is `setDir s b none`, and a reader never sees a listed message without its content:
      - `writeIndexEmptyRemovesDir = "yes"`: the index writer is one test of `len(list)` against 0 whose empty side
        only removes (unlink / `os.RemoveAll(dir)`) and whose non-empty side removes nothing.
      - `fileRemoveDir = "indexFirst"`: the remover unlinks `dir/index.gob` before `os.RemoveAll(dir)`
        (reverted fix: "removeAll").
  * The `.notExist` outcomes of `step` for `.seen`, `.get` / `.latest` and `.remove`:
      - `markSeenNotFound`, `getNotFound`, `removeNotFound` = "errNotExist": what the search over the list answers when
        nothing matches is `storage.ErrNotExist` (reverted fix: "nil" = nil, nil).
  * `capLoop` runs before the new id is drawn and the entry added, removing `messages[0]` while
    `len(messages) >= cap`:
      - `capLoopShape = "evictFirstBeforeAdd"`: a real loop (`for`, not `if`) under exactly the conditions
        `len(list) >= cap` and `cap > 0`, no early exit, removing `list[0]` through a function that rewrites the index,
        before the id is drawn.
  * The generator hypothesis of C10 (`FS.next` never repeats an id per mailbox; in the code the id is
    wall-clock second + a process-wide counter that restarts at 0000 with every process):
      - `idGenerator = "secondPlusCounterMod10000"` pins the code shape the hypothesis is stated about.
      - `fileIdCollisionCheck = "skipsExisting"`: the constructor re-draws while the list holds the id, so the id of a message
        that is still in the mailbox is never handed out again whatever the generator does (finding F-10, fixed;
        Props/C10 `skipExisting_not_present`, counter-witness for the variant "none":
        `ids_repeat_when_generator_restarts_fails`).  The id of a DELETED message can still come back after a
        restart within the same second (F-10b, open): that part stays the explicit generator hypothesis.
  * The generator and the re-draw loop are INSIDE the model (Ibx/Model/FileIds.lean; theorems Props/C07Ids.lean:
    `new_id_not_listed`, `redraw_terminates_within`, `existing_raw_untouched`, `generated_delivery_refines_spec`):
      - `hasIDSearch` selects the variant of `hasID` the theorems are read for: "linearScan" (the loop over the whole
        loaded list with equality on the id field, or slices.ContainsFunc / IndexFunc with that equality) is the
        variant `new_id_not_listed` holds for; "binarySearchAssumingSorted" (sort.Search, slices.BinarySearch, …) is
        the variant with the counter-witness `binary_search_delivery_overwrites` — an index is NOT sorted by id once the
        counter has wrapped or restarted within a second; "unknown" selects nothing.
      - `redrawLoop`: the loop condition asks the constructor's own receiver (the mailbox whose index was just
        loaded) about the id variable; the body re-draws only through the generator, without break / return; the
        `Message{… Fid: id …}` returned carries the id the loop exited with; the index is loaded before the first draw;
        there is no other loop after the first draw — `Model.FileIds.newId` is that loop.
-/
namespace Ibx.Tie.FileStore
open Ibx.Model.FileStore

theorem storeFields_tie : Gen.FileStore.storeFields = ["plain"] := by decide
theorem storeHasCache_tie : Gen.FileStore.storeHasCache = "no" := by decide
theorem mboxPerCall_tie : Gen.FileStore.mboxPerCall = "fresh" := by decide
theorem loadsIndexFirst_tie : Gen.FileStore.loadsIndexFirst =
    [("AddMessage", true), ("GetMessage", true), ("GetMessages", true), ("MarkSeen", true),
     ("PurgeMessages", true), ("RemoveMessage", true), ("VisitMailboxes", true)] := by decide
theorem readIndexResets_tie : Gen.FileStore.readIndexResets = "truncates" := by decide
theorem fileIndexWrite_tie : Gen.FileStore.fileIndexWrite = "tempThenRename" := by decide
theorem writeIndexEmptyRemovesDir_tie : Gen.FileStore.writeIndexEmptyRemovesDir = "yes" := by decide
theorem fileRemoveDir_tie : Gen.FileStore.fileRemoveDir = "indexFirst" := by decide
theorem markSeenNotFound_tie : Gen.FileStore.markSeenNotFound = "errNotExist" := by decide
theorem getNotFound_tie : Gen.FileStore.getNotFound = "errNotExist" := by decide
theorem removeNotFound_tie : Gen.FileStore.removeNotFound = "errNotExist" := by decide
theorem capLoopShape_tie : Gen.FileStore.capLoopShape = "evictFirstBeforeAdd" := by decide
theorem idGenerator_tie : Gen.FileStore.idGenerator = "secondPlusCounterMod10000" := by decide

theorem fileIdCollisionCheck_tie : Gen.FileStore.fileIdCollisionCheck = "skipsExisting" := by decide

/-- the variant of `hasID` (Model/FileIds.lean) a value of the regenerated fact selects -/
def searchOfFact (s : String) : Option Ibx.Model.FileIds.Search :=
  if s = "linearScan" then some .linearScan
  else if s = "binarySearchAssumingSorted" then some .binarySearchAssumingSorted
  else none

/-- the code's `hasID` is the linear scan: the variant `Props.C07Ids.new_id_not_listed` is about -/
theorem hasIDSearch_tie : searchOfFact Gen.FileStore.hasIDSearch = some .linearScan := by decide
theorem redrawLoop_tie : Gen.FileStore.redrawLoop =
    [("condIsHasIDOfReceiver", true), ("bodyRedrawsThroughGenerator", true), ("returnsLoopId", true),
     ("indexLoadedBefore", true), ("noOtherLoopAfterDraw", true)] := by decide

end Ibx.Tie.FileStore
