import Ibx.Gen.FileStore
import Ibx.Model.FileStore
/-
  T1 tie for the file-store model (Ibx/Model/FileStore.lean).  Ibx/Gen/FileStore.lean is re-read from
  pkg/storage/file/{fstore,mbox,fmessage}.go by harness/cmd/extract/filestore.go on every run; each fact is
  recognised from the shape of the code and comes out as "unknown" / false when the shape is not the expected
  one, which the theorems below do not accept.  Which modelling decision each fact pins:

  * The model state `FS` has NO volatile component and `reopen` is the identity.
      - `storeFields`, `storeHasCache = "no"`: `type Store struct` holds only the lock table, paths, the cap,
        a reader pool and the extension host; no map / slice / channel field and no field that mentions `mbox`
        or `Message`, so a Store object cannot remember mailbox content between calls.
      - `mboxPerCall = "fresh"`: `(*Store).mbox` and `(*Store).mboxFromHash` build a new `&mbox{…}` on every call
        and set neither `messages` nor `indexLoaded` (zero values: nil list, index not loaded).
      - `loadsIndexFirst`: getMessages, getMessage, removeMessage, newMessage, MarkSeen and PurgeMessages all run
        `if !mb.indexLoaded { mb.readIndex() }` before they first touch `mb.messages`; together with the fresh
        mbox every operation starts from the index on disk (`readIndex s b` in the model).
      - `readIndexResets = "truncates"`: readIndex starts with `mb.messages = mb.messages[:0]`, so what it leaves
        in `mb.messages` is exactly the decoded file, never appended to an older list.
  * `writeIndex` replaces the index in one step (the model has no intermediate "empty / prefix index" state):
      - `fileIndexWrite = "tempThenRename"`: the new index is written to `indexPath + ".tmp"` and renamed over
        the live one.
  * `writeIndex s b []` is `setDir s b none`, and a reader never sees a listed message without its content:
      - `writeIndexEmptyRemovesDir = "yes"`: `if len(mb.messages) > 0 { … } else { return mb.removeDir() }`.
      - `fileRemoveDir = "indexFirst"`: removeDir unlinks `index.gob` before `os.RemoveAll(mb.path)`.
  * The `.notExist` outcomes of `step` for `.seen`, `.get` / `.latest` and `.remove`:
      - `markSeenNotFound`, `getNotFound`, `removeNotFound` = "errNotExist" (`storage.ErrNotExist`).
  * `capLoop` runs before the new id is drawn and the entry added, removing `messages[0]` while
    `len(messages) >= cap`:
      - `capLoopShape = "evictFirstBeforeAdd"`.
  * The generator hypothesis of C10 (`FS.next` never repeats an id per mailbox; in the code the id is
    wall-clock second + a process-wide counter that restarts at 0000 with every process):
      - `idGenerator = "secondPlusCounterMod10000"` pins the code shape the hypothesis is stated about.
      - `fileIdCollisionCheck = "skipsExisting"`: newMessage re-draws while `mb.hasID(id)`, so the id of a message
        that is still in the mailbox is never handed out again whatever the generator does (finding F-10, fixed;
        Props/C10 `skipExisting_not_present`, counter-witness for the variant "none":
        `ids_repeat_when_generator_restarts_fails`).  The id of a DELETED message can still come back after a
        restart within the same second (F-10b, open): that part stays the explicit generator hypothesis.
-/
namespace Ibx.Tie.FileStore
open Ibx.Model.FileStore

theorem storeFields_tie : Gen.FileStore.storeFields =
    [("hashLock", "plain"), ("path", "plain"), ("mailPath", "plain"), ("messageCap", "plain"),
     ("bufReaderPool", "plain"), ("extHost", "plain")] := by decide
theorem storeHasCache_tie : Gen.FileStore.storeHasCache = "no" := by decide
theorem mboxPerCall_tie : Gen.FileStore.mboxPerCall = "fresh" := by decide
theorem loadsIndexFirst_tie : Gen.FileStore.loadsIndexFirst =
    [("getMessages", true), ("getMessage", true), ("removeMessage", true), ("newMessage", true),
     ("MarkSeen", true), ("PurgeMessages", true)] := by decide
theorem readIndexResets_tie : Gen.FileStore.readIndexResets = "truncates" := by decide
theorem fileIndexWrite_tie : Gen.FileStore.fileIndexWrite = "tempThenRename" := by decide
theorem writeIndexEmptyRemovesDir_tie : Gen.FileStore.writeIndexEmptyRemovesDir = "yes" := by decide
theorem fileRemoveDir_tie : Gen.FileStore.fileRemoveDir = "indexFirst" := by decide
theorem markSeenNotFound_tie : Gen.FileStore.markSeenNotFound = "errNotExist" := by decide
theorem getNotFound_tie : Gen.FileStore.getNotFound = "errNotExist" := by decide
theorem removeNotFound_tie : Gen.FileStore.removeNotFound = "errNotExist" := by decide
theorem capLoopShape_tie : Gen.FileStore.capLoopShape = "evictFirstBeforeAdd" := by decide
theorem idGenerator_tie : Gen.FileStore.idGenerator = "secondPlusCounterMod10000" := by decide

theorem fileIdCollisionCheck_tie : Gen.FileStore.fileIdCollisionCheck = "skipsExisting" := by decide

end Ibx.Tie.FileStore
