import Ibx.Gen.FileLock
import Ibx.Model.ConcFileOps
/-
  T1 tie for C16 on the file store under concurrent use: the LOCK SCOPE the theorems of Ibx/Props/C16File.lean are about
  (`LockScope.wholeOp` for AddMessage; write lock from start to end for RemoveMessage / PurgeMessages / MarkSeen, read lock
  from start to end for GetMessage / GetMessages) is the one the source has NOW.

  The fact is regenerated from pkg/storage/file/{fstore,mbox,fmessage}.go on every run (harness/cmd/extract/filelock.go on the
  walker of crash.go): every exported method of file.Store is evaluated with every package-local call INLINED — a helper that
  takes the lock itself is looked through, a deferred Unlock counts at the end of the function that registered it — and
  printed as the sequence of its locked sections `W[…]` / `R[…]` (with the set of what happens inside: load = the index loader
  runs, list = the in-memory message list is touched, emit = AfterMessageDeleted.Emit, fs = a file-system mutation) and of
  its unlocked stretches (the set of what happens there; nothing when nothing does).  One section and nothing else means:
  Lock is the first effect, the deferred Unlock the last, no file-system mutation, index load, list access or event outside.
  Nothing depends on the spelling of locals, receivers, unexported helpers or fields.
-/
namespace Ibx.Tie.FileLock
open Ibx.Model.ConcFileOps

def profileOf (m : String) : Option (List String) :=
  (Gen.FileLock.fileLockProfiles.find? (fun p => p.1 = m)).map (·.2)

/-- the whole method under the write lock -/
def wholeW : List String := ["W[emit+fs+list+load]"]

/-- `Lock; load index, cap loop, new id, createDir; Unlock` — the copy (a file-system mutation) outside — `Lock; touch the
    message list WITHOUT loading the index again, write it; Unlock` -/
def splitW : List String := ["W[emit+fs+list+load]", "fs", "W[fs+list]"]

/-- translate the regenerated profile of AddMessage into the model's parameter -/
def addScope : Option LockScope :=
  match profileOf "AddMessage" with
  | some p => if p = wholeW then some .wholeOp else if p = splitW then some .splitAroundCopy else none
  | none => none

/-- AddMessage holds the mailbox lock around the whole method: readIndex, the cap loop with its events, the new id,
    createDir, the raw file, the append to the in-memory list and writeIndex are ONE critical section (Step.lock … Step.unlockRet
    of Model/ConcFileOps.lean with `loadW`) -/
theorem addMessage_scope_tie : addScope = some LockScope.wholeOp := by decide

/-- RemoveMessage and PurgeMessages: one write-locked section holding the index load, the events and the file-system
    mutations; MarkSeen: one write-locked section (no event) -/
theorem writers_scope_tie :
    profileOf "RemoveMessage" = some ["W[emit+fs+list+load]"] ∧ profileOf "PurgeMessages" = some ["W[emit+fs+list+load]"] ∧
    profileOf "MarkSeen" = some ["W[fs+list+load]"] := by decide

/-- GetMessage / GetMessages: one read-locked section holding the index load and the read of the list; no mutation, no event
    (`COp.isRead`, Step.rlock … Step.runlock) -/
theorem readers_scope_tie :
    profileOf "GetMessage" = some ["R[list+load]"] ∧ profileOf "GetMessages" = some ["R[list+load]"] := by decide

/-- these are all the exported methods; the walk over all mailboxes reads each mailbox under its read lock and does nothing
    to it outside -/
theorem methods_tie :
    Gen.FileLock.fileLockProfiles.map (·.1) =
      ["AddMessage", "GetMessage", "GetMessages", "MarkSeen", "PurgeMessages", "RemoveMessage", "VisitMailboxes"] ∧
    profileOf "VisitMailboxes" = some ["R[list+load]"] := by decide

/-- the recogniser tells the two scopes apart (what the seeded narrowing of the lock prints) -/
example : (if splitW = wholeW then some LockScope.wholeOp else if splitW = splitW then some LockScope.splitAroundCopy else none) =
    some LockScope.splitAroundCopy := by decide

end Ibx.Tie.FileLock
