import Ibx.Gen.SmtpConc
import Ibx.Gen.Shutdown
import Ibx.Model.SmtpConc
/-
  T1 tie for the concurrent SMTP model (C19 / C03 / C01): what makes "sessions share nothing but the store" and "a session
  cannot see the cancel" true of the SOURCE.  `Model.SmtpConc.clientStep` gives a session step the session's own state
  and pending input and nothing else — no other session's state, no package-level state, no cancel flag, and of the
  store only the AddMessage calls of `StoreManager.Deliver`.  The facts (Ibx/Gen/SmtpConc.lean, re-read from
  pkg/server/smtp/*.go on every run by harness/cmd/extract/smtpconc.go) are structural: server type = receiver of the
  function that calls Accept(), session type = the struct embedding it, session code = what the go statement of the
  accept loop runs and everything that reaches (plus the methods of the session type and of hook objects it builds).

  * every package-level variable is a compiled regexp, a literal table that is only indexed, a constant, a metrics
    counter session code only writes to, or not mentioned by session code at all — none is assigned after
    initialisation or handed to a session by reference (`package_variables_tie`; seeded change C03-r3m2, one shared
    pre-sized recipient slice, turns `emptyEnvelope` into `unknown` and `recipients` into `pkgvar:emptyEnvelope`);
  * the session constructor fills every field from its own parameters (the connection, the id, the logger), from fresh
    allocations over them (reader, textproto.Conn, the recipients slice), from constants, from the server's configuration
    or with the server pointer itself (`session_fields_tie`);
  * no field of the server is assigned after the constructor AND mentioned by session code — the configuration, the
    manager, the policy, the extension host, the TLS configuration and the WaitGroup pointer are set once in NewServer
    (`server_fields_tie`; seeded change C19-r4m2 adds `shutdown`, set in Start from ctx.Done());
  * session code has no select, channel operation or go statement, no context parameter, no identifier ctx / context
    (`session_cannot_see_cancel_tie`; C19-r4m2's `shuttingDown()` is a select with a receive);
  * the only method session code calls on the message manager is Deliver, and the manager is never handed on as a value
    (`session_store_calls_tie`): a session never READS the store.
  An unrecognised shape gives `none` / `unknown`, which no tie accepts.
-/
namespace Ibx.Tie.SmtpConc
open Ibx Ibx.Model.SmtpConc

/-- verdicts of a package-level variable under which sessions cannot influence each other through it -/
def harmlessVar (v : String) : Bool :=
  ["regexp", "readOnlyTable", "constant", "metricWriteOnly", "notReachedFromSessions"].contains v

/-- sources of a session field under which the value is the session's own (or immutable configuration) -/
def privateSource (v : String) : Bool := ["server", "param", "fresh", "config", "const"].contains v

/-- the roles were found: the accept loop, the server type, the session type, the session functions -/
theorem roles_found_tie : Gen.SmtpConc.sessionFunctions.isEmpty = false := by decide

/-- no package-level variable of pkg/server/smtp is written after initialisation or handed to sessions by reference:
    only regexps, read-only tables, constants, write-only metrics, and variables session code never mentions -/
theorem package_variables_tie : Gen.SmtpConc.pkgVars.all (fun p => harmlessVar p.2) = true := by decide

/-- `NewSession` gives every session its own recipients slice, reader and buffers: every field of the session literal
    comes from the constructor's parameters, a fresh allocation, a constant, the configuration, or is the server pointer -/
theorem session_fields_tie :
    Gen.SmtpConc.sessionInit.map (fun l => l.all (fun p => privateSource p.2)) = some true := by decide

/-- … in particular the envelope: the recipients slice is a fresh `make` per session -/
theorem recipients_fresh_tie :
    Gen.SmtpConc.sessionInit.map (fun l => l.contains ("recipients", "fresh")) = some true := by decide

/-- what two Session structs share through the embedded server is immutable after NewServer: no server field is
    assigned outside the constructor and mentioned by session code -/
theorem server_fields_tie : Gen.SmtpConc.serverFieldsSharedMutable = some [] := by decide

/-- **sessions share nothing but the store** -/
theorem sessions_share_nothing_tie :
    Gen.SmtpConc.pkgVars.all (fun p => harmlessVar p.2) = true ∧
    Gen.SmtpConc.sessionInit.map (fun l => l.all (fun p => privateSource p.2)) = some true ∧
    Gen.SmtpConc.serverFieldsSharedMutable = some [] :=
  ⟨package_variables_tie, session_fields_tie, server_fields_tie⟩

/-- the variant of the session loop the facts describe: no channel operation, no context, no server field fed from
    Start = the loop cannot consult the cancellation (`Variant.source`); anything else is not claimed -/
def variantOfFacts (chanOps : Option Nat) (ctx : Option Bool) (shared : Option (List String)) (handlerCtx : Bool) :
    Option Variant :=
  match chanOps, ctx, shared, handlerCtx with
  | some 0, some false, some [], false => some .source
  | _, _, _, _ => none

/-- **a session cannot see the cancel**: the program the theorems of Props/C19Smtp.lean are about (`prog`, a
    `Sess.Prog`: no flag among its arguments) is the variant the source has; `refuse_in_greet_breaks_open_session` and
    `refusing_after_cancel_loses_inflight_message` show what the other variants lose -/
theorem session_cannot_see_cancel_tie :
    variantOfFacts Gen.SmtpConc.sessionChanOps Gen.SmtpConc.sessionReachesCtx Gen.SmtpConc.serverFieldsSharedMutable
      Gen.Shutdown.smtp_handlerMentionsCtx = some .source := by decide

/-- a session never reads the store: the one thing it asks of the manager is `Deliver` (whose AddMessage calls are the
    `Ev.stored` copies of `Model.Smtp.deliver`), and the manager is not handed on -/
theorem session_store_calls_tie : Gen.SmtpConc.sessionManagerCalls = some ["Deliver"] := by decide

end Ibx.Tie.SmtpConc
