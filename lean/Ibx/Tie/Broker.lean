import Ibx.Gen.Broker
import Ibx.Gen.Lua
import Ibx.Props.C16Broker
/-
  T1 tie: the theorems of Ibx/Props/C16Broker.lean are about the variant of the broker that the source
  currently implements.  `Gen.Broker` is re-read from pkg/extension/{async_broker,broker,host}.go on every run.
  Reverting `Emit` to `go l(*event)` regenerates `asyncEmit = "goroutinePerEvent"`: `asyncEmit_tie` and the
  three `source_variant_*` obligations stop checking, and `goroutinePerEvent_overlap` /
  `goroutinePerEvent_reorder` (C16Broker) name the schedules that break the contract for that variant.

  The facts are STRUCTURAL (the header of harness/cmd/extract/broker.go spells out each shape): they use exported
  names, builtins, operators, literals, `go` statements and variable identity only — the names of unexported
  methods / fields / locals (push, run, acquire, calls, queues, lockedRemoveListener …), the order of if-branches,
  break-vs-return and guard-clause-vs-nested-if do not matter.
-/
namespace Ibx.Tie.Broker
open Ibx.Model.Broker Ibx.Props.C16Broker

/-- the variant the source implements -/
def sourceVariant : AsyncEmit := AsyncEmit.ofString Gen.Broker.asyncEmit

theorem asyncEmit_tie : sourceVariant = .perListenerQueue := by decide

/-- the contract of extension/host.go holds for the variant found in the source, in every interleaving -/
theorem source_variant_serial {s : St} (h : Reach sourceVariant s) : s.running.length ≤ 1 :=
  listener_serial (asyncEmit_tie ▸ h)

theorem source_variant_fifo {s : St} (h : Reach sourceVariant s) : s.started <+: s.emitted :=
  (listener_fifo (asyncEmit_tie ▸ h)).1

theorem source_variant_no_event_lost {s : St} (h : Reach sourceVariant s) (hr : s.registered = true) :
    s.done ++ s.running ++ s.pending = s.emitted :=
  no_event_lost (asyncEmit_tie ▸ h) hr

example : Reach sourceVariant sbdWitness := asyncEmit_tie ▸ sbdWitness_reach

/-- events are copied before they reach a listener (`*event`) -/
theorem asyncCopiesEvent_tie : Gen.Broker.asyncCopiesEvent = true := by decide

/-- stored and deleted events of one listener name go through ONE queue: `emitted` of the model ranges over both -/
theorem hostSharesQueues_tie : Gen.Broker.hostSharesQueues = true := by decide
theorem asyncBrokerFields_tie : Gen.Broker.asyncBrokerFields = ["AfterMessageDeleted", "AfterMessageStored"] := by decide
/-- … and msghub registers with both of them under ONE listener name (the queue is per name): the hub sees
    `stored` before `deleted` of the same message -/
theorem msghubOneListenerName_tie : Gen.Broker.msghubOneListenerName = true := by decide

/-- the synchronous broker has the shape `Model.Broker.emit` / `addListener` encode -/
theorem syncEmitFirstResult_tie : Gen.Broker.syncEmitFirstResult = true := by decide
theorem registry_tie : Gen.Broker.registryRemoveFirstThenAppend = true := by decide

/-- the Lua host's listeners on the two ASYNCHRONOUS brokers (the After events) run the script INSIDE the listener call:
    on every control-flow path of the Go listener the protected Lua entry lies on the path itself (a call handed to a
    goroutine or a closure is not on the path: it leaves `protect` and `deferPut` false), and the pooled state is held
    until the listener returns (`defer put` before the first use of the state, one get and one put).  So "the Go
    listener has returned" = "the script has finished", and the serialisation proved above for the Go listener carries
    over to the script.  A listener that starts the script in a goroutine and stops waiting for it (a watchdog timeout)
    breaks exactly this, while the broker itself is untouched.  (`Gen.Lua` is re-read from pkg/extension/luahost.) -/
theorem luaAfterListenersSynchronous_tie :
    (Gen.Lua.listeners.filter (fun l => Gen.Broker.asyncBrokerFields.contains l.event)).map
      (fun l => (l.event, l.protect, l.deferPut, l.gets, l.puts)) =
    [("AfterMessageDeleted", true, true, 1, 1), ("AfterMessageStored", true, true, 1, 1)] := by decide +kernel

end Ibx.Tie.Broker
