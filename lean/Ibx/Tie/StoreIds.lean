import Ibx.Gen.StoreIds
import Ibx.Model.RestIds
/-
  T1 tie for the id lookup (C14, C04): which message a requested id STRING names is decided, in both stores, by string
  equality with the id strings of the listed messages — `Model.RestIds.Lookup.byString` — and by nothing else.

  The regenerated facts (Ibx/Gen/StoreIds.lean, harness/cmd/extract/storeids.go) list EVERY use of the requested id in
  GetMessage / MarkSeen / RemoveMessage of pkg/storage/mem and pkg/storage/file, followed through closures, aliases and
  same-package helpers.  The model assumes: the memory store only compares it with the literal "latest" and uses it as the
  key of a `map[string]…` (index / delete); the file store only compares it with "latest" and with the `Fid` of listed
  messages.  Any conversion on the way (strconv.Atoi / ParseInt, strings.ToLower / TrimSpace, a Sscanf, a slice) shows up as a
  `call:` / `other:` entry and these obligations stop checking.
-/
namespace Ibx.Tie.StoreIds
open Ibx.Model.RestIds

abbrev Uses := List (String × List String)

/-- the memory store as the model has it: "latest" tested in GetMessage only, then the string itself as map key -/
def memByString : Uses :=
  [("GetMessage", ["eqLit:latest", "mapIndex:string"]), ("MarkSeen", ["mapIndex:string"]),
   ("RemoveMessage", ["mapDelete:string", "mapIndex:string"])]

/-- the file store as the model has it: "latest" tested in GetMessage only, then `Fid == id` over the listed messages -/
def fileByString : Uses :=
  [("GetMessage", ["eqField:Fid", "eqLit:latest"]), ("MarkSeen", ["eqField:Fid"]), ("RemoveMessage", ["eqField:Fid"])]

/-- the modelled alternative: the request string goes through strconv.Atoi, messages are found by their number -/
def memByDecimalValue : Uses :=
  [("GetMessage", ["call:strconv.Atoi", "eqLit:latest"]), ("MarkSeen", ["call:strconv.Atoi"]),
   ("RemoveMessage", ["call:strconv.Atoi"])]

/-- the lookup variant a table of uses stands for; anything unrecognised selects none -/
def lookupOf (u : Uses) : Option Lookup :=
  if u = memByString ∨ u = fileByString then some .byString
  else if u = memByDecimalValue then some .byDecimalValue
  else none

/-- the memory store resolves a requested id by the string itself (no numeric conversion on the way) -/
theorem mem_lookup_tie : lookupOf Gen.StoreIds.memIdUses = some .byString := by decide

/-- the file store resolves a requested id by comparing it with `Fid` -/
theorem file_lookup_tie : lookupOf Gen.StoreIds.fileIdUses = some .byString := by decide

/-- the alias "latest" is tested by GetMessage only, in both stores (`Model.Rest.mutId`: an unknown id to MarkSeen / RemoveMessage) -/
theorem latest_only_in_get_tie :
    ∀ u ∈ [Gen.StoreIds.memIdUses, Gen.StoreIds.fileIdUses], ∀ row ∈ u, ("eqLit:latest" ∈ row.2 ↔ row.1 = "GetMessage") := by
  decide

/-- the id AddMessage of the memory store hands out is strconv.Itoa of the mailbox counter, and it is the very key under
    which the message is filed in the `map[string]…` (so "the id string of a listed message" is "a key of the map") -/
theorem mem_add_files_under_returned_id_tie :
    Gen.StoreIds.memAddIdUses = ["fieldStore:id", "from:strconv.Itoa", "mapStore:string", "returned"] := by decide

end Ibx.Tie.StoreIds
