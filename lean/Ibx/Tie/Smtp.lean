import Ibx.Gen.Smtp
import Ibx.Model.Smtp
/-
  T1 tie for the SMTP session model: the facts regenerated from pkg/server/smtp/handler.go and
  pkg/message/manager.go on every run are the ones Ibx/Model/Smtp.lean was written from.
-/
namespace Ibx.Tie.Smtp
open Ibx Ibx.Model.Smtp

/-- the model's command table is the source's `commands` map -/
theorem commands_tie : Gen.Smtp.commands.map Bytes.ofAscii = commandNames := by decide

theorem anyState_tie : Gen.Smtp.anyStateCases =
    [["SEND", "SOML", "SAML", "EXPN", "HELP", "TURN"], ["VRFY"], ["NOOP"], ["RSET"], ["QUIT"]] := by decide
theorem notImplemented_tie : (Gen.Smtp.anyStateCases.headD []).map Bytes.ofAscii = notImplemented := by decide
theorem greetCases_tie : Gen.Smtp.greetCases = [["HELO"], ["EHLO"], ["<default>"]] := by decide
theorem readyCases_tie : Gen.Smtp.readyCases = [["STARTTLS"], ["AUTH"], ["MAIL"], ["EHLO"], ["<default>"]] := by decide
theorem mailCases_tie : Gen.Smtp.mailCases = [["RCPT"], ["DATA"], ["EHLO"]] := by decide
theorem authCases_tie : Gen.Smtp.authCases = [["PLAIN"], ["LOGIN"], ["<default>"]] := by decide

/-- reset() keeps a session that has not greeted in GREET (repaired defect F-03) -/
theorem resetFromGreet_tie : Gen.Smtp.resetFromGreet = "keepsGreet" := by decide
/-- the DATA phase enforces MaxMessageBytes (repaired defect F-06), and resets on each of its three exits -/
theorem dataSizeCheck_tie : Gen.Smtp.dataSizeCheck = "afterRead" := by decide
theorem dataHandlerResets_tie : Gen.Smtp.dataHandlerResets = 3 := by decide
theorem rcptLimitTest_tie : Gen.Smtp.rcptLimitTest = (">=", "s.config.MaxRecipients") := by decide
theorem rcptArgMin_tie : Gen.Smtp.rcptArgMin = some ("<", 4) := by decide
theorem cmdMinLen_tie : Gen.Smtp.cmdMinLen = some ("<", 4) := by decide

/-- the two regular expressions whose results are parameters of the model (`mailRe`, `parseArgs`) are the
    ones the harness evaluates: a changed expression is a changed obligation -/
theorem fromRegex_tie : Gen.Smtp.fromRegex =
    some "(?i)^FROM:\\s*<((?:(?:\\\\>|[^>])+|\"[^\"]+\"@[^>])+)?>( ([\\w= ]|=<>)+)?$" := by decide
theorem argsRegex_tie : Gen.Smtp.argsRegex = some " (\\w+)=(\\w+|<>)" := by decide

/-- every index / slice expression of handler.go is one the model accounts for (guards proved in Props.C03) -/
theorem sliceSites_tie : Gen.Smtp.sliceSites =
    ["arg[0:3]", "arg[3:]", "arg[:idx]", "args[\"SIZE\"]", "args[0]", "args[1]", "args[strings.ToUpper(m[1])]",
     "commands[cmd]", "line[0:l]", "line[l+1:]", "m[1]", "m[2]"] := by decide

/-- the statements of StoreManager.Deliver the model mirrors are all present -/
theorem deliverShape_tie : Gen.Smtp.deliverShape.length = 8 := by decide

end Ibx.Tie.Smtp
