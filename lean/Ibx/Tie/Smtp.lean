import Ibx.Gen.Smtp
import Ibx.Model.Smtp
/-
  T1 tie for the SMTP session model: the facts regenerated from pkg/server/smtp and pkg/message/manager.go on every
  run are the ones Ibx/Model/Smtp.lean was written from.  The facts are structural (harness/cmd/extract/k1kit.go,
  smtp.go): handlers and helpers are found by what they do (the state dispatch of the command loop, the method that
  writes a reply, the one that assigns the state, the one RSET calls), expressions are rendered canonically
  ($s session, $r receiver, $cmd / $arg the handler's parameters, $p a parameter, $v / $pv a re-assigned local /
  parameter, single-assignment locals replaced by their definitions, helpers of the package looked through), and an
  exit of a handler is the list of the guards [c] decided on its path, its replies (send:code), calls of interest and
  state changes, in execution order; the handlers are executed path by path (kit_t1a.go), so a helper that reports to
  its caller what it did, a default value overwritten under a condition, a guard clause or an else branch, a switch or
  an if-chain are the same exits.  Renaming locals or helpers, extracting or inlining a helper, merging nested ifs into
  && or rewording a reply / log text leaves every fact unchanged; changing a code, a comparison, an order or a guard
  does not.
-/
namespace Ibx.Tie.Smtp
open Ibx Ibx.Model.Smtp

/-- the model's command table is the source's `commands` map -/
theorem commands_tie : Gen.Smtp.commands.map Bytes.ofAscii = commandNames := by decide

/-- the command loop hands GREET, READY and MAIL to a handler(cmd, arg); LOGIN / PASSWORD / DATA do not read a command -/
theorem dispatchStates_tie : Gen.Smtp.dispatchStates = ["GREET", "READY", "MAIL"] := by decide
/-- the any-state table: the command words the paths through the command loop compare the command equal to before the
    state dispatch (one list per row of `transitions_tie`, sorted), … -/
theorem anyState_tie : Gen.Smtp.anyStateCases =
    [["EXPN", "HELP", "SAML", "SEND", "SOML", "TURN"], ["NOOP"], ["QUIT"], ["RSET"], ["VRFY"]] := by decide
/-- … reached exactly when the session is not in DATA, a line could be read (deadline set, ReadLine without error), the
    state is not LOGIN / PASSWORD, the line parsed, the command word is not empty and is in `commands` -/
theorem anyStatePreamble_tie : Gen.Smtp.anyStatePreamble =
    ["[$s.state != DATA]", "[$s.conn.SetReadDeadline(time.Now().Add($s.config.Timeout)) == nil]", "call:ReadLine",
     "[ReadLine(..)#1 == nil]", "[$s.state != LOGIN]", "[$s.state != PASSWORD]", "[$h(ReadLine(..)#0)#2]",
     "[$cmd != \"\"]", "[commands[$cmd]]"] := by decide
/-- the row answered 502 (the first one: `anyState_tie` and the first row of `transitions_tie`) is the model's
    `notImplemented` (as a set: same words, same number) -/
theorem notImplemented_tie :
    ((Gen.Smtp.anyStateCases.headD []).map Bytes.ofAscii).all (notImplemented.contains ·) = true ∧
    (Gen.Smtp.anyStateCases.headD []).length = notImplemented.length ∧
    ((Gen.Smtp.anyStateCases.headD []).map Bytes.ofAscii).Nodup := by decide
/-- the rows of the three handlers' tables (sorted; read off executed paths, so a table written as an if-chain or moved
    into a helper is the same table) -/
theorem greetCases_tie : Gen.Smtp.greetCases = [["<default>"], ["EHLO"], ["HELO"]] := by decide
theorem readyCases_tie : Gen.Smtp.readyCases = [["<default>"], ["AUTH"], ["EHLO"], ["MAIL"], ["STARTTLS"]] := by decide
/-- (what the MAIL handler does behind its table, the 503, is its default row) -/
theorem mailCases_tie : Gen.Smtp.mailCases = [["<default>"], ["DATA"], ["EHLO"], ["RCPT"]] := by decide
theorem authCases_tie : Gen.Smtp.authCases = [["LOGIN"], ["PLAIN"], ["<default>"]] := by decide
/-- the AUTH method is the first of at most three space-separated words of the argument -/
theorem authTag_tie : Gen.Smtp.authTag = "strings.SplitN($arg, \" \", 3)[0]" := by decide

/-- the exits of RCPT (`Model.Smtp.handleRcpt`), path by path: syntax 501 (argument shorter than 4, or not `TO:`),
    address 501, then the extension hook: no answer → relay test (550) → limit (552) → append and 250; an answer that
    denies → the extension's own reply; an answer that defers → the same as no answer; any other answer → the relay test
    is skipped, limit (552) → append and 250.  The limit test comes after the hook and the policy, before the append. -/
def rcptExits : List String :=
    ["[len($arg) < 4]; send:501; return",
     "[len($arg) >= 4]; [strings.ToUpper($arg[0:3]) != \"TO:\"]; send:501; return",
     "[len($arg) >= 4]; [strings.ToUpper($arg[0:3]) == \"TO:\"]; call:NewRecipient; [NewRecipient(..)#1 != nil]; send:501; return",
     "[len($arg) >= 4]; [strings.ToUpper($arg[0:3]) == \"TO:\"]; call:NewRecipient; [NewRecipient(..)#1 == nil]; emit:BeforeRcptToAccepted; [BeforeRcptToAccepted.Emit(..) != nil]; [BeforeRcptToAccepted.Emit(..).Action != event.ActionDeny]; [BeforeRcptToAccepted.Emit(..).Action != event.ActionDefer]; [len($rcpts) < $r.config.MaxRecipients]; set:rcpts=append($rcpts, NewRecipient(..)#0); send:250; return",
     "[len($arg) >= 4]; [strings.ToUpper($arg[0:3]) == \"TO:\"]; call:NewRecipient; [NewRecipient(..)#1 == nil]; emit:BeforeRcptToAccepted; [BeforeRcptToAccepted.Emit(..) != nil]; [BeforeRcptToAccepted.Emit(..).Action != event.ActionDeny]; [BeforeRcptToAccepted.Emit(..).Action != event.ActionDefer]; [len($rcpts) >= $r.config.MaxRecipients]; send:552; return",
     "[len($arg) >= 4]; [strings.ToUpper($arg[0:3]) == \"TO:\"]; call:NewRecipient; [NewRecipient(..)#1 == nil]; emit:BeforeRcptToAccepted; [BeforeRcptToAccepted.Emit(..) != nil]; [BeforeRcptToAccepted.Emit(..).Action != event.ActionDeny]; [BeforeRcptToAccepted.Emit(..).Action == event.ActionDefer]; call:ShouldAccept; [!ShouldAccept(..)]; send:550; return",
     "[len($arg) >= 4]; [strings.ToUpper($arg[0:3]) == \"TO:\"]; call:NewRecipient; [NewRecipient(..)#1 == nil]; emit:BeforeRcptToAccepted; [BeforeRcptToAccepted.Emit(..) != nil]; [BeforeRcptToAccepted.Emit(..).Action != event.ActionDeny]; [BeforeRcptToAccepted.Emit(..).Action == event.ActionDefer]; call:ShouldAccept; [ShouldAccept(..)]; [len($rcpts) < $r.config.MaxRecipients]; set:rcpts=append($rcpts, NewRecipient(..)#0); send:250; return",
     "[len($arg) >= 4]; [strings.ToUpper($arg[0:3]) == \"TO:\"]; call:NewRecipient; [NewRecipient(..)#1 == nil]; emit:BeforeRcptToAccepted; [BeforeRcptToAccepted.Emit(..) != nil]; [BeforeRcptToAccepted.Emit(..).Action != event.ActionDeny]; [BeforeRcptToAccepted.Emit(..).Action == event.ActionDefer]; call:ShouldAccept; [ShouldAccept(..)]; [len($rcpts) >= $r.config.MaxRecipients]; send:552; return",
     "[len($arg) >= 4]; [strings.ToUpper($arg[0:3]) == \"TO:\"]; call:NewRecipient; [NewRecipient(..)#1 == nil]; emit:BeforeRcptToAccepted; [BeforeRcptToAccepted.Emit(..) != nil]; [BeforeRcptToAccepted.Emit(..).Action == event.ActionDeny]; send:*; return",
     "[len($arg) >= 4]; [strings.ToUpper($arg[0:3]) == \"TO:\"]; call:NewRecipient; [NewRecipient(..)#1 == nil]; emit:BeforeRcptToAccepted; [BeforeRcptToAccepted.Emit(..) == nil]; call:ShouldAccept; [!ShouldAccept(..)]; send:550; return",
     "[len($arg) >= 4]; [strings.ToUpper($arg[0:3]) == \"TO:\"]; call:NewRecipient; [NewRecipient(..)#1 == nil]; emit:BeforeRcptToAccepted; [BeforeRcptToAccepted.Emit(..) == nil]; call:ShouldAccept; [ShouldAccept(..)]; [len($rcpts) < $r.config.MaxRecipients]; set:rcpts=append($rcpts, NewRecipient(..)#0); send:250; return",
     "[len($arg) >= 4]; [strings.ToUpper($arg[0:3]) == \"TO:\"]; call:NewRecipient; [NewRecipient(..)#1 == nil]; emit:BeforeRcptToAccepted; [BeforeRcptToAccepted.Emit(..) == nil]; call:ShouldAccept; [ShouldAccept(..)]; [len($rcpts) >= $r.config.MaxRecipients]; send:552; return"]

/-- the transition table of DESIGN.md C.1 as the source has it: for every clause of the any-state table (`*`) its
    exits, and the GREET / READY / MAIL handlers executed path by path (harness/cmd/extract/kit_t1a.go), every exit
    filed under the command word its path compared the command equal to (`<default>`: to none, which includes what a
    handler does behind its table) — the guards decided, the replies by code, the calls of the address policy and of
    the extension hooks, the changes of state, sender and recipient list, in execution order (`Model.Smtp.handleLine`;
    the relation `Lemmas.Smtp.Step`).  A local has the value it was given ON THAT PATH, a helper that replies is executed
    in place and each of its exits goes on in the caller with what it returned, an if-chain, a switch, a guard clause, a
    nested `if` and `&&` are the same decisions: no local, parameter or helper name, no helper boundary and no
    reply / log text takes part.  Rows sorted by state (`*`, GREET, READY, MAIL) and command words, exits sorted. -/
theorem transitions_tie : Gen.Smtp.transitions =
    [
     ("*", "EXPN,HELP,SAML,SEND,SOML,TURN", ["send:502; continue"]),
     ("*", "NOOP", ["send:250; continue"]),
     ("*", "QUIT", ["send:221; state:QUIT; continue"]),
     ("*", "RSET", ["reset; send:250; continue"]),
     ("*", "VRFY", ["send:252; continue"]),
     ("GREET", "<default>", ["send:503; return"]),
     ("GREET", "EHLO", ["[$h($arg)#1 != nil]; send:501; return",
        "[$h($arg)#1 == nil]; send:250-; send:250-; send:250-; [!$r.Server.config.TLSEnabled]; send:250; state:READY; return",
        "[$h($arg)#1 == nil]; send:250-; send:250-; send:250-; [$r.Server.config.TLSEnabled]; [!$r.Server.config.ForceTLS]; [$r.Server.tlsConfig != nil]; [$r.tlsState != nil]; send:250; state:READY; return",
        "[$h($arg)#1 == nil]; send:250-; send:250-; send:250-; [$r.Server.config.TLSEnabled]; [!$r.Server.config.ForceTLS]; [$r.Server.tlsConfig != nil]; [$r.tlsState == nil]; send:250-; send:250; state:READY; return",
        "[$h($arg)#1 == nil]; send:250-; send:250-; send:250-; [$r.Server.config.TLSEnabled]; [!$r.Server.config.ForceTLS]; [$r.Server.tlsConfig == nil]; send:250; state:READY; return",
        "[$h($arg)#1 == nil]; send:250-; send:250-; send:250-; [$r.Server.config.TLSEnabled]; [$r.Server.config.ForceTLS]; send:250; state:READY; return"]),
     ("GREET", "HELO", ["[$h($arg)#1 != nil]; send:501; return",
        "[$h($arg)#1 == nil]; send:250; state:READY; return"]),
     ("READY", "<default>", ["send:503; return"]),
     ("READY", "AUTH", ["[strings.SplitN($arg, \" \", 3)[0] != \"PLAIN\"]; [strings.SplitN($arg, \" \", 3)[0] != \"LOGIN\"]; send:500; return",
        "[strings.SplitN($arg, \" \", 3)[0] != \"PLAIN\"]; [strings.SplitN($arg, \" \", 3)[0] == \"LOGIN\"]; send:334; state:LOGIN; return",
        "[strings.SplitN($arg, \" \", 3)[0] == \"PLAIN\"]; [len(strings.SplitN($arg, \" \", 3)) != 2]; send:500; return",
        "[strings.SplitN($arg, \" \", 3)[0] == \"PLAIN\"]; [len(strings.SplitN($arg, \" \", 3)) == 2]; send:235; return"]),
     ("READY", "EHLO", ["reset; send:250; return"]),
     ("READY", "MAIL", ["[fromRegex.FindStringSubmatch($arg) != nil]; [fromRegex.FindStringSubmatch($arg)[2] != \"\"]; [!$h(fromRegex.FindStringSubmatch($arg)[2])#1]; send:501; return",
        "[fromRegex.FindStringSubmatch($arg) != nil]; [fromRegex.FindStringSubmatch($arg)[2] != \"\"]; [$h(fromRegex.FindStringSubmatch($arg)[2])#1]; [$h(fromRegex.FindStringSubmatch($arg)[2])#0[\"SIZE\"] != \"\"]; [strconv.ParseInt($h(fromRegex.FindStringSubmatch($arg)[2])#0[\"SIZE\"], 10, 32)#1 != nil]; send:501; return",
        "[fromRegex.FindStringSubmatch($arg) != nil]; [fromRegex.FindStringSubmatch($arg)[2] != \"\"]; [$h(fromRegex.FindStringSubmatch($arg)[2])#1]; [$h(fromRegex.FindStringSubmatch($arg)[2])#0[\"SIZE\"] != \"\"]; [strconv.ParseInt($h(fromRegex.FindStringSubmatch($arg)[2])#0[\"SIZE\"], 10, 32)#1 == nil]; [int(strconv.ParseInt($h(fromRegex.FindStringSubmatch($arg)[2])#0[\"SIZE\"], 10, 32)#0) <= $r.config.MaxMessageBytes]; call:ParseOrigin; [ParseOrigin(..)#1 != nil]; send:501; return",
        "[fromRegex.FindStringSubmatch($arg) != nil]; [fromRegex.FindStringSubmatch($arg)[2] != \"\"]; [$h(fromRegex.FindStringSubmatch($arg)[2])#1]; [$h(fromRegex.FindStringSubmatch($arg)[2])#0[\"SIZE\"] != \"\"]; [strconv.ParseInt($h(fromRegex.FindStringSubmatch($arg)[2])#0[\"SIZE\"], 10, 32)#1 == nil]; [int(strconv.ParseInt($h(fromRegex.FindStringSubmatch($arg)[2])#0[\"SIZE\"], 10, 32)#0) <= $r.config.MaxMessageBytes]; call:ParseOrigin; [ParseOrigin(..)#1 == nil]; emit:BeforeMailFromAccepted; [BeforeMailFromAccepted.Emit(..) != nil]; [BeforeMailFromAccepted.Emit(..).Action != event.ActionDeny]; set:from=ParseOrigin(..)#0; [BeforeMailFromAccepted.Emit(..).Action != event.ActionDefer]; send:250; state:MAIL; return",
        "[fromRegex.FindStringSubmatch($arg) != nil]; [fromRegex.FindStringSubmatch($arg)[2] != \"\"]; [$h(fromRegex.FindStringSubmatch($arg)[2])#1]; [$h(fromRegex.FindStringSubmatch($arg)[2])#0[\"SIZE\"] != \"\"]; [strconv.ParseInt($h(fromRegex.FindStringSubmatch($arg)[2])#0[\"SIZE\"], 10, 32)#1 == nil]; [int(strconv.ParseInt($h(fromRegex.FindStringSubmatch($arg)[2])#0[\"SIZE\"], 10, 32)#0) <= $r.config.MaxMessageBytes]; call:ParseOrigin; [ParseOrigin(..)#1 == nil]; emit:BeforeMailFromAccepted; [BeforeMailFromAccepted.Emit(..) != nil]; [BeforeMailFromAccepted.Emit(..).Action != event.ActionDeny]; set:from=ParseOrigin(..)#0; [BeforeMailFromAccepted.Emit(..).Action == event.ActionDefer]; call:ShouldAccept; [!ShouldAccept(..)]; send:501; return",
        "[fromRegex.FindStringSubmatch($arg) != nil]; [fromRegex.FindStringSubmatch($arg)[2] != \"\"]; [$h(fromRegex.FindStringSubmatch($arg)[2])#1]; [$h(fromRegex.FindStringSubmatch($arg)[2])#0[\"SIZE\"] != \"\"]; [strconv.ParseInt($h(fromRegex.FindStringSubmatch($arg)[2])#0[\"SIZE\"], 10, 32)#1 == nil]; [int(strconv.ParseInt($h(fromRegex.FindStringSubmatch($arg)[2])#0[\"SIZE\"], 10, 32)#0) <= $r.config.MaxMessageBytes]; call:ParseOrigin; [ParseOrigin(..)#1 == nil]; emit:BeforeMailFromAccepted; [BeforeMailFromAccepted.Emit(..) != nil]; [BeforeMailFromAccepted.Emit(..).Action != event.ActionDeny]; set:from=ParseOrigin(..)#0; [BeforeMailFromAccepted.Emit(..).Action == event.ActionDefer]; call:ShouldAccept; [ShouldAccept(..)]; send:250; state:MAIL; return",
        "[fromRegex.FindStringSubmatch($arg) != nil]; [fromRegex.FindStringSubmatch($arg)[2] != \"\"]; [$h(fromRegex.FindStringSubmatch($arg)[2])#1]; [$h(fromRegex.FindStringSubmatch($arg)[2])#0[\"SIZE\"] != \"\"]; [strconv.ParseInt($h(fromRegex.FindStringSubmatch($arg)[2])#0[\"SIZE\"], 10, 32)#1 == nil]; [int(strconv.ParseInt($h(fromRegex.FindStringSubmatch($arg)[2])#0[\"SIZE\"], 10, 32)#0) <= $r.config.MaxMessageBytes]; call:ParseOrigin; [ParseOrigin(..)#1 == nil]; emit:BeforeMailFromAccepted; [BeforeMailFromAccepted.Emit(..) != nil]; [BeforeMailFromAccepted.Emit(..).Action == event.ActionDeny]; send:*; return",
        "[fromRegex.FindStringSubmatch($arg) != nil]; [fromRegex.FindStringSubmatch($arg)[2] != \"\"]; [$h(fromRegex.FindStringSubmatch($arg)[2])#1]; [$h(fromRegex.FindStringSubmatch($arg)[2])#0[\"SIZE\"] != \"\"]; [strconv.ParseInt($h(fromRegex.FindStringSubmatch($arg)[2])#0[\"SIZE\"], 10, 32)#1 == nil]; [int(strconv.ParseInt($h(fromRegex.FindStringSubmatch($arg)[2])#0[\"SIZE\"], 10, 32)#0) <= $r.config.MaxMessageBytes]; call:ParseOrigin; [ParseOrigin(..)#1 == nil]; emit:BeforeMailFromAccepted; [BeforeMailFromAccepted.Emit(..) == nil]; set:from=ParseOrigin(..)#0; call:ShouldAccept; [!ShouldAccept(..)]; send:501; return",
        "[fromRegex.FindStringSubmatch($arg) != nil]; [fromRegex.FindStringSubmatch($arg)[2] != \"\"]; [$h(fromRegex.FindStringSubmatch($arg)[2])#1]; [$h(fromRegex.FindStringSubmatch($arg)[2])#0[\"SIZE\"] != \"\"]; [strconv.ParseInt($h(fromRegex.FindStringSubmatch($arg)[2])#0[\"SIZE\"], 10, 32)#1 == nil]; [int(strconv.ParseInt($h(fromRegex.FindStringSubmatch($arg)[2])#0[\"SIZE\"], 10, 32)#0) <= $r.config.MaxMessageBytes]; call:ParseOrigin; [ParseOrigin(..)#1 == nil]; emit:BeforeMailFromAccepted; [BeforeMailFromAccepted.Emit(..) == nil]; set:from=ParseOrigin(..)#0; call:ShouldAccept; [ShouldAccept(..)]; send:250; state:MAIL; return",
        "[fromRegex.FindStringSubmatch($arg) != nil]; [fromRegex.FindStringSubmatch($arg)[2] != \"\"]; [$h(fromRegex.FindStringSubmatch($arg)[2])#1]; [$h(fromRegex.FindStringSubmatch($arg)[2])#0[\"SIZE\"] != \"\"]; [strconv.ParseInt($h(fromRegex.FindStringSubmatch($arg)[2])#0[\"SIZE\"], 10, 32)#1 == nil]; [int(strconv.ParseInt($h(fromRegex.FindStringSubmatch($arg)[2])#0[\"SIZE\"], 10, 32)#0) > $r.config.MaxMessageBytes]; send:552; return",
        "[fromRegex.FindStringSubmatch($arg) != nil]; [fromRegex.FindStringSubmatch($arg)[2] != \"\"]; [$h(fromRegex.FindStringSubmatch($arg)[2])#1]; [$h(fromRegex.FindStringSubmatch($arg)[2])#0[\"SIZE\"] == \"\"]; call:ParseOrigin; [ParseOrigin(..)#1 != nil]; send:501; return",
        "[fromRegex.FindStringSubmatch($arg) != nil]; [fromRegex.FindStringSubmatch($arg)[2] != \"\"]; [$h(fromRegex.FindStringSubmatch($arg)[2])#1]; [$h(fromRegex.FindStringSubmatch($arg)[2])#0[\"SIZE\"] == \"\"]; call:ParseOrigin; [ParseOrigin(..)#1 == nil]; emit:BeforeMailFromAccepted; [BeforeMailFromAccepted.Emit(..) != nil]; [BeforeMailFromAccepted.Emit(..).Action != event.ActionDeny]; set:from=ParseOrigin(..)#0; [BeforeMailFromAccepted.Emit(..).Action != event.ActionDefer]; send:250; state:MAIL; return",
        "[fromRegex.FindStringSubmatch($arg) != nil]; [fromRegex.FindStringSubmatch($arg)[2] != \"\"]; [$h(fromRegex.FindStringSubmatch($arg)[2])#1]; [$h(fromRegex.FindStringSubmatch($arg)[2])#0[\"SIZE\"] == \"\"]; call:ParseOrigin; [ParseOrigin(..)#1 == nil]; emit:BeforeMailFromAccepted; [BeforeMailFromAccepted.Emit(..) != nil]; [BeforeMailFromAccepted.Emit(..).Action != event.ActionDeny]; set:from=ParseOrigin(..)#0; [BeforeMailFromAccepted.Emit(..).Action == event.ActionDefer]; call:ShouldAccept; [!ShouldAccept(..)]; send:501; return",
        "[fromRegex.FindStringSubmatch($arg) != nil]; [fromRegex.FindStringSubmatch($arg)[2] != \"\"]; [$h(fromRegex.FindStringSubmatch($arg)[2])#1]; [$h(fromRegex.FindStringSubmatch($arg)[2])#0[\"SIZE\"] == \"\"]; call:ParseOrigin; [ParseOrigin(..)#1 == nil]; emit:BeforeMailFromAccepted; [BeforeMailFromAccepted.Emit(..) != nil]; [BeforeMailFromAccepted.Emit(..).Action != event.ActionDeny]; set:from=ParseOrigin(..)#0; [BeforeMailFromAccepted.Emit(..).Action == event.ActionDefer]; call:ShouldAccept; [ShouldAccept(..)]; send:250; state:MAIL; return",
        "[fromRegex.FindStringSubmatch($arg) != nil]; [fromRegex.FindStringSubmatch($arg)[2] != \"\"]; [$h(fromRegex.FindStringSubmatch($arg)[2])#1]; [$h(fromRegex.FindStringSubmatch($arg)[2])#0[\"SIZE\"] == \"\"]; call:ParseOrigin; [ParseOrigin(..)#1 == nil]; emit:BeforeMailFromAccepted; [BeforeMailFromAccepted.Emit(..) != nil]; [BeforeMailFromAccepted.Emit(..).Action == event.ActionDeny]; send:*; return",
        "[fromRegex.FindStringSubmatch($arg) != nil]; [fromRegex.FindStringSubmatch($arg)[2] != \"\"]; [$h(fromRegex.FindStringSubmatch($arg)[2])#1]; [$h(fromRegex.FindStringSubmatch($arg)[2])#0[\"SIZE\"] == \"\"]; call:ParseOrigin; [ParseOrigin(..)#1 == nil]; emit:BeforeMailFromAccepted; [BeforeMailFromAccepted.Emit(..) == nil]; set:from=ParseOrigin(..)#0; call:ShouldAccept; [!ShouldAccept(..)]; send:501; return",
        "[fromRegex.FindStringSubmatch($arg) != nil]; [fromRegex.FindStringSubmatch($arg)[2] != \"\"]; [$h(fromRegex.FindStringSubmatch($arg)[2])#1]; [$h(fromRegex.FindStringSubmatch($arg)[2])#0[\"SIZE\"] == \"\"]; call:ParseOrigin; [ParseOrigin(..)#1 == nil]; emit:BeforeMailFromAccepted; [BeforeMailFromAccepted.Emit(..) == nil]; set:from=ParseOrigin(..)#0; call:ShouldAccept; [ShouldAccept(..)]; send:250; state:MAIL; return",
        "[fromRegex.FindStringSubmatch($arg) != nil]; [fromRegex.FindStringSubmatch($arg)[2] == \"\"]; call:ParseOrigin; [ParseOrigin(..)#1 != nil]; send:501; return",
        "[fromRegex.FindStringSubmatch($arg) != nil]; [fromRegex.FindStringSubmatch($arg)[2] == \"\"]; call:ParseOrigin; [ParseOrigin(..)#1 == nil]; emit:BeforeMailFromAccepted; [BeforeMailFromAccepted.Emit(..) != nil]; [BeforeMailFromAccepted.Emit(..).Action != event.ActionDeny]; set:from=ParseOrigin(..)#0; [BeforeMailFromAccepted.Emit(..).Action != event.ActionDefer]; send:250; state:MAIL; return",
        "[fromRegex.FindStringSubmatch($arg) != nil]; [fromRegex.FindStringSubmatch($arg)[2] == \"\"]; call:ParseOrigin; [ParseOrigin(..)#1 == nil]; emit:BeforeMailFromAccepted; [BeforeMailFromAccepted.Emit(..) != nil]; [BeforeMailFromAccepted.Emit(..).Action != event.ActionDeny]; set:from=ParseOrigin(..)#0; [BeforeMailFromAccepted.Emit(..).Action == event.ActionDefer]; call:ShouldAccept; [!ShouldAccept(..)]; send:501; return",
        "[fromRegex.FindStringSubmatch($arg) != nil]; [fromRegex.FindStringSubmatch($arg)[2] == \"\"]; call:ParseOrigin; [ParseOrigin(..)#1 == nil]; emit:BeforeMailFromAccepted; [BeforeMailFromAccepted.Emit(..) != nil]; [BeforeMailFromAccepted.Emit(..).Action != event.ActionDeny]; set:from=ParseOrigin(..)#0; [BeforeMailFromAccepted.Emit(..).Action == event.ActionDefer]; call:ShouldAccept; [ShouldAccept(..)]; send:250; state:MAIL; return",
        "[fromRegex.FindStringSubmatch($arg) != nil]; [fromRegex.FindStringSubmatch($arg)[2] == \"\"]; call:ParseOrigin; [ParseOrigin(..)#1 == nil]; emit:BeforeMailFromAccepted; [BeforeMailFromAccepted.Emit(..) != nil]; [BeforeMailFromAccepted.Emit(..).Action == event.ActionDeny]; send:*; return",
        "[fromRegex.FindStringSubmatch($arg) != nil]; [fromRegex.FindStringSubmatch($arg)[2] == \"\"]; call:ParseOrigin; [ParseOrigin(..)#1 == nil]; emit:BeforeMailFromAccepted; [BeforeMailFromAccepted.Emit(..) == nil]; set:from=ParseOrigin(..)#0; call:ShouldAccept; [!ShouldAccept(..)]; send:501; return",
        "[fromRegex.FindStringSubmatch($arg) != nil]; [fromRegex.FindStringSubmatch($arg)[2] == \"\"]; call:ParseOrigin; [ParseOrigin(..)#1 == nil]; emit:BeforeMailFromAccepted; [BeforeMailFromAccepted.Emit(..) == nil]; set:from=ParseOrigin(..)#0; call:ShouldAccept; [ShouldAccept(..)]; send:250; state:MAIL; return",
        "[fromRegex.FindStringSubmatch($arg) == nil]; send:501; return"]),
     ("READY", "STARTTLS", ["[!$r.Server.config.TLSEnabled]; send:454; return",
        "[$r.Server.config.TLSEnabled]; [$r.tlsState != nil]; send:454; return",
        "[$r.Server.config.TLSEnabled]; [$r.tlsState == nil]; send:220; state:GREET; return"]),
     ("MAIL", "<default>", ["send:503; return"]),
     ("MAIL", "DATA", ["[$arg != \"\"]; send:501; return",
        "[$arg == \"\"]; [len($rcpts) != 0]; state:DATA; return",
        "[$arg == \"\"]; [len($rcpts) == 0]; send:503; return"]),
     ("MAIL", "EHLO", ["reset; send:250; return"]),
     ("MAIL", "RCPT", rcptExits)] := by rfl

/-- reset() keeps a session that has not greeted in GREET (repaired defect F-03) -/
theorem resetFromGreet_tie : Gen.Smtp.resetFromGreet = "keepsGreet" := by decide
/-- the DATA phase enforces MaxMessageBytes (repaired defect F-06), and resets on each of its three exits -/
theorem dataSizeCheck_tie : Gen.Smtp.dataSizeCheck = "afterRead" := by decide
theorem dataHandlerResets_tie : Gen.Smtp.dataHandlerResets = 3 := by decide
/-- the exits of the DATA phase (`Model.Smtp.handleData`), path by path: 354, then the read (its deadline could not be
    set, or the read failed: 221 only on a timeout, QUIT); oversized → 552, reset; Deliver failed → 451, reset; otherwise
    250, reset — in this order, with these guards -/
theorem dataPaths_tie : Gen.Smtp.dataPaths =
    ["send:354; [$r.conn.SetReadDeadline(time.Now().Add($r.config.Timeout)) != nil]; [!$r.conn.SetReadDeadline(time.Now().Add($r.config.Timeout)).(net.Error)#1]; state:QUIT; return",
     "send:354; [$r.conn.SetReadDeadline(time.Now().Add($r.config.Timeout)) != nil]; [$r.conn.SetReadDeadline(time.Now().Add($r.config.Timeout)).(net.Error)#1]; [!$r.conn.SetReadDeadline(time.Now().Add($r.config.Timeout)).(net.Error)#0.Timeout()]; state:QUIT; return",
     "send:354; [$r.conn.SetReadDeadline(time.Now().Add($r.config.Timeout)) != nil]; [$r.conn.SetReadDeadline(time.Now().Add($r.config.Timeout)).(net.Error)#1]; [$r.conn.SetReadDeadline(time.Now().Add($r.config.Timeout)).(net.Error)#0.Timeout()]; send:221; state:QUIT; return",
     "send:354; [$r.conn.SetReadDeadline(time.Now().Add($r.config.Timeout)) == nil]; call:ReadDotBytes; [ReadDotBytes(..)#1 != nil]; [!ReadDotBytes(..)#1.(net.Error)#1]; state:QUIT; return",
     "send:354; [$r.conn.SetReadDeadline(time.Now().Add($r.config.Timeout)) == nil]; call:ReadDotBytes; [ReadDotBytes(..)#1 != nil]; [ReadDotBytes(..)#1.(net.Error)#1]; [!ReadDotBytes(..)#1.(net.Error)#0.Timeout()]; state:QUIT; return",
     "send:354; [$r.conn.SetReadDeadline(time.Now().Add($r.config.Timeout)) == nil]; call:ReadDotBytes; [ReadDotBytes(..)#1 != nil]; [ReadDotBytes(..)#1.(net.Error)#1]; [ReadDotBytes(..)#1.(net.Error)#0.Timeout()]; send:221; state:QUIT; return",
     "send:354; [$r.conn.SetReadDeadline(time.Now().Add($r.config.Timeout)) == nil]; call:ReadDotBytes; [ReadDotBytes(..)#1 == nil]; [len(ReadDotBytes(..)#0) <= $r.config.MaxMessageBytes]; call:Deliver; [Deliver(..) != nil]; send:451; reset; return",
     "send:354; [$r.conn.SetReadDeadline(time.Now().Add($r.config.Timeout)) == nil]; call:ReadDotBytes; [ReadDotBytes(..)#1 == nil]; [len(ReadDotBytes(..)#0) <= $r.config.MaxMessageBytes]; call:Deliver; [Deliver(..) == nil]; send:250; reset; return",
     "send:354; [$r.conn.SetReadDeadline(time.Now().Add($r.config.Timeout)) == nil]; call:ReadDotBytes; [ReadDotBytes(..)#1 == nil]; [len(ReadDotBytes(..)#0) > $r.config.MaxMessageBytes]; send:552; reset; return"] := by rfl
theorem rcptLimitTest_tie : Gen.Smtp.rcptLimitTest = (">=", "MaxRecipients") := by decide
/-- the RCPT row on its own (the recipient limit and the argument test below are read off its guards) -/
theorem rcptPaths_tie : Gen.Smtp.rcptPaths = rcptExits := by rfl
theorem rcptArgMin_tie : Gen.Smtp.rcptArgMin = some ("<", 4) := by decide
theorem cmdMinLen_tie : Gen.Smtp.cmdMinLen = some ("<", 4) := by decide

/-- the two regular expressions `Ibx.Model.MailArgs.mailRe` / `parseArgs` are hand-written recognisers for: a changed
    expression is a changed obligation (what the recognisers compute is proved in Props.C06Args against Spec.MailArgs; that
    Go's engine computes the same for these texts is compared on every run by harness/cmd/drive/c06_args.go) -/
theorem fromRegex_tie : Gen.Smtp.fromRegex =
    some "(?i)^FROM:\\s*<((?:(?:\\\\>|[^>])+|\"[^\"]+\"@[^>])+)?>( ([\\w= ]|=<>)+)?$" := by decide
theorem argsRegex_tie : Gen.Smtp.argsRegex = some " (\\w+)=(\\w+|<>)" := by decide

/-- the index / slice expressions the model accounts for (guards proved in Props.C03) -/
def accountedSites : List String :=
    ["$arg[0:3]",
     "$arg[3:]",
     "$arg[:strings.IndexRune($arg, ' ')]",
     "$each(regexp.MustCompile(\" (\\\\w+)=(\\\\w+|<>)\").FindAllStringSubmatch(fromRegex.FindStringSubmatch($arg)[2], -1))[1]",
     "$each(regexp.MustCompile(\" (\\\\w+)=(\\\\w+|<>)\").FindAllStringSubmatch(fromRegex.FindStringSubmatch($arg)[2], -1))[2]",
     "$h(fromRegex.FindStringSubmatch($arg)[2])#0[\"SIZE\"]",
     "$pv[$v + 1:]",
     "$pv[0:$v]",
     "$res[strings.ToUpper($each(regexp.MustCompile(\" (\\\\w+)=(\\\\w+|<>)\").FindAllStringSubmatch(fromRegex.FindStringSubmatch($arg)[2], -1))[1])]",
     "commands[$cmd]",
     "fromRegex.FindStringSubmatch($arg)[1]",
     "fromRegex.FindStringSubmatch($arg)[2]",
     "strings.SplitN($arg, \" \", 3)[0]",
     "strings.SplitN($arg, \" \", 3)[1]"]

/-- every index / slice expression of the package is one of those.  (A SUBSET, not the list itself: an expression
    that is no longer there — `strings.Cut` instead of `IndexByte` + two slices — cannot panic; what the parsers
    compute is compared byte for byte by the correspondence runs of C03.  A NEW expression is in no list and leaves
    this obligation without a proof; an extraction that found nothing — no command loop — does not pass either: the
    lookup in the command set is always there.) -/
theorem sliceSites_tie : Gen.Smtp.sliceSites.all (fun s => accountedSites.contains s) = true ∧
    Gen.Smtp.sliceSites.contains "commands[$cmd]" = true := by decide +kernel

/-- the statements of StoreManager.Deliver the model mirrors are all present -/
theorem deliverShape_tie : Gen.Smtp.deliverShape.length = 8 := by decide

/-- the accepting exit of the STARTTLS clause (after its "220"): tls.Server on the session's connection, the connection
    field replaced, a NEW textproto.Conn on the wrapped connection assigned to the field lines are read from — what the old
    reader had buffered is gone (`Model.Smtp.runWire`) —, the *tls.ConnectionState field assigned; no explicit handshake
    (it runs inside the next read or write) -/
theorem starttls_switch_tie : Gen.Smtp.starttlsSwitch = ["wrap", "conn", "reader", "state"] := by decide

/-- the TLS state is a field of the session: `Model.Smtp.Sess.tls` -/
theorem tls_scope_tie : Gen.Smtp.tlsStateScope = "perSession" := by decide

end Ibx.Tie.Smtp
