import Ibx.Gen.Smtp
import Ibx.Model.Smtp
/-
  T1 tie for the SMTP session model: the facts regenerated from pkg/server/smtp and pkg/message/manager.go on every
  run are the ones Ibx/Model/Smtp.lean was written from.  The facts are structural (harness/cmd/extract/k1kit.go,
  smtp.go): handlers and helpers are found by what they do (the state dispatch of the command loop, the method that
  writes a reply, the one that assigns the state, the one RSET calls), expressions are rendered canonically
  ($s session, $r receiver, $cmd / $arg the handler's parameters, $p a parameter, $v / $pv a re-assigned local /
  parameter, single-assignment locals replaced by their definitions, helpers of the package looked through), and an
  exit of a handler is the list of its replies (send:code), calls of interest and state changes with the guard [c]
  under which it is taken.  Renaming locals or helpers, extracting or inlining a helper, merging nested ifs into &&
  or rewording a reply / log text leaves every fact unchanged; changing a code, a comparison, an order or a guard
  does not.
-/
namespace Ibx.Tie.Smtp
open Ibx Ibx.Model.Smtp

/-- the model's command table is the source's `commands` map -/
theorem commands_tie : Gen.Smtp.commands.map Bytes.ofAscii = commandNames := by decide

/-- the command loop hands GREET, READY and MAIL to a handler(cmd, arg); LOGIN / PASSWORD / DATA do not read a command -/
theorem dispatchStates_tie : Gen.Smtp.dispatchStates = ["GREET", "READY", "MAIL"] := by decide
theorem anyState_tie : Gen.Smtp.anyStateCases =
    [["SEND", "SOML", "SAML", "EXPN", "HELP", "TURN"], ["VRFY"], ["NOOP"], ["RSET"], ["QUIT"]] := by decide
theorem notImplemented_tie : (Gen.Smtp.anyStateCases.headD []).map Bytes.ofAscii = notImplemented := by decide
theorem greetCases_tie : Gen.Smtp.greetCases = [["HELO"], ["EHLO"], ["<default>"]] := by decide
theorem readyCases_tie : Gen.Smtp.readyCases = [["STARTTLS"], ["AUTH"], ["MAIL"], ["EHLO"], ["<default>"]] := by decide
/-- (the 503 behind the MAIL table counts as its default clause) -/
theorem mailCases_tie : Gen.Smtp.mailCases = [["RCPT"], ["DATA"], ["EHLO"], ["<default>"]] := by decide
theorem authCases_tie : Gen.Smtp.authCases = [["PLAIN"], ["LOGIN"], ["<default>"]] := by decide
/-- the AUTH method is the first of at most three space-separated words of the argument -/
theorem authTag_tie : Gen.Smtp.authTag = "strings.SplitN($arg, \" \", 3)[0]" := by decide

/-- the transition table of DESIGN.md C.1 as the source has it: for every clause of the any-state table (`*`) and of
    the GREET / READY / MAIL tables its exits — the replies by code, the calls of the address policy and of the
    extension hooks, the changes of state, sender and recipient list, in execution order, each under the guards that
    lead to it (`Model.Smtp.handleLine`; the relation `Lemmas.Smtp.Step`).  What the MAIL handler does behind its
    table is `<after>` (503).  Found through the structure of the package: no local, parameter or helper name and no
    reply / log text takes part. -/
theorem transitions_tie : Gen.Smtp.transitions =
    [
     ("*", "SEND,SOML,SAML,EXPN,HELP,TURN", ["send:502; continue"]),
     ("*", "VRFY", ["send:252; continue"]),
     ("*", "NOOP", ["send:250; continue"]),
     ("*", "RSET", ["reset; send:250; continue"]),
     ("*", "QUIT", ["send:221; state:QUIT; continue"]),
     ("GREET", "HELO", ["[$h($arg)#1 != nil]; send:501; return", "send:250; state:READY; return"]),
     ("GREET", "EHLO", ["[$h($arg)#1 != nil]; send:501; return", "send:250-; send:250-; send:250-; ?[$r.Server.config.TLSEnabled][!$r.Server.config.ForceTLS][$r.Server.tlsConfig != nil][$r.tlsState == nil]send:250-; send:250; state:READY; return"]),
     ("GREET", "<default>", ["send:503; return"]),
     ("READY", "STARTTLS", ["[!$r.Server.config.TLSEnabled]; send:454; return", "[$r.tlsState != nil]; send:454; return", "send:220; state:GREET; return"]),
     ("READY", "AUTH", ["[strings.SplitN($arg, \" \", 3)[0] == \"PLAIN\"]; [len(strings.SplitN($arg, \" \", 3)) != 2]; send:500; return", "[strings.SplitN($arg, \" \", 3)[0] == \"PLAIN\"]; send:235; return", "[strings.SplitN($arg, \" \", 3)[0] == \"LOGIN\"]; send:334; state:LOGIN; return", "[default]; send:500; return"]),
     ("READY", "MAIL", ["[fromRegex.FindStringSubmatch($arg) == nil]; send:501; return", "[fromRegex.FindStringSubmatch($arg)[2] != \"\"]; [!$h(fromRegex.FindStringSubmatch($arg)[2])#1]; send:501; return", "[fromRegex.FindStringSubmatch($arg)[2] != \"\"]; [$h(fromRegex.FindStringSubmatch($arg)[2])#0[\"SIZE\"] != \"\"]; [strconv.ParseInt($h(fromRegex.FindStringSubmatch($arg)[2])#0[\"SIZE\"], 10, 32)#1 != nil]; send:501; return", "[fromRegex.FindStringSubmatch($arg)[2] != \"\"]; [$h(fromRegex.FindStringSubmatch($arg)[2])#0[\"SIZE\"] != \"\"]; [int(strconv.ParseInt($h(fromRegex.FindStringSubmatch($arg)[2])#0[\"SIZE\"], 10, 32)#0) > $r.config.MaxMessageBytes]; send:552; return", "call:ParseOrigin; [ParseOrigin(..)#1 != nil]; send:501; return", "call:ParseOrigin; emit:BeforeMailFromAccepted; [$v == event.ActionDeny]; send:*; return", "call:ParseOrigin; emit:BeforeMailFromAccepted; set:from=ParseOrigin(..)#0; call:ShouldAccept; [$v == event.ActionDefer]; [!ShouldAccept(..)]; send:501; return", "call:ParseOrigin; emit:BeforeMailFromAccepted; set:from=ParseOrigin(..)#0; call:ShouldAccept; send:250; state:MAIL; return"]),
     ("READY", "EHLO", ["reset; send:250; return"]),
     ("READY", "<default>", ["send:503; return"]),
     ("MAIL", "RCPT", ["[len($arg) < 4 || strings.ToUpper($arg[0:3]) != \"TO:\"]; send:501; return", "call:NewRecipient; [NewRecipient(..)#1 != nil]; send:501; return", "call:NewRecipient; emit:BeforeRcptToAccepted; [$v == event.ActionDeny]; send:*; return", "call:NewRecipient; emit:BeforeRcptToAccepted; call:ShouldAccept; [$v == event.ActionDefer]; [!ShouldAccept(..)]; send:550; return", "call:NewRecipient; emit:BeforeRcptToAccepted; call:ShouldAccept; [len($rcpts) >= $r.config.MaxRecipients]; send:552; return", "call:NewRecipient; emit:BeforeRcptToAccepted; call:ShouldAccept; set:rcpts=append($rcpts, NewRecipient(..)#0); send:250; return"]),
     ("MAIL", "DATA", ["[$arg != \"\"]; send:501; return", "[len($rcpts) == 0]; send:503; return", "state:DATA; return"]),
     ("MAIL", "EHLO", ["reset; send:250; return"]),
     ("MAIL", "<default>", ["send:503; return"])] := by decide +kernel

/-- reset() keeps a session that has not greeted in GREET (repaired defect F-03) -/
theorem resetFromGreet_tie : Gen.Smtp.resetFromGreet = "keepsGreet" := by decide
/-- the DATA phase enforces MaxMessageBytes (repaired defect F-06), and resets on each of its three exits -/
theorem dataSizeCheck_tie : Gen.Smtp.dataSizeCheck = "afterRead" := by decide
theorem dataHandlerResets_tie : Gen.Smtp.dataHandlerResets = 3 := by decide
/-- the four exits of the DATA phase (`Model.Smtp.handleData`): read error → (221 on timeout) QUIT; oversized → 552,
    reset; Deliver failed → 451, reset; otherwise 250, reset — in this order, with these guards -/
theorem dataPaths_tie : Gen.Smtp.dataPaths =
    ["send:354; ?call:ReadDotBytes; [$h()#1 != nil]; ?[$h()#1.(net.Error)#1][$h()#1.(net.Error)#0.Timeout()]send:221; state:QUIT; return",
     "send:354; ?call:ReadDotBytes; [len(ReadDotBytes(..)#0) > $r.config.MaxMessageBytes]; send:552; reset; return",
     "send:354; ?call:ReadDotBytes; call:Deliver; [Deliver(..) != nil]; send:451; reset; return",
     "send:354; ?call:ReadDotBytes; call:Deliver; send:250; reset; return"] := by decide +kernel
theorem rcptLimitTest_tie : Gen.Smtp.rcptLimitTest = (">=", "MaxRecipients") := by decide
/-- the six exits of RCPT (`Model.Smtp.handleRcpt`): syntax 501, address 501, extension deny, relay 550 (only when the
    extension deferred), limit 552 (after the hook and the policy, before the append), accepted 250 after the append -/
theorem rcptPaths_tie : Gen.Smtp.rcptPaths =
    ["[len($arg) < 4 || strings.ToUpper($arg[0:3]) != \"TO:\"]; send:501; return",
     "call:NewRecipient; [NewRecipient(..)#1 != nil]; send:501; return",
     "call:NewRecipient; emit:BeforeRcptToAccepted; [$v == event.ActionDeny]; send:*; return",
     "call:NewRecipient; emit:BeforeRcptToAccepted; call:ShouldAccept; [$v == event.ActionDefer]; [!ShouldAccept(..)]; send:550; return",
     "call:NewRecipient; emit:BeforeRcptToAccepted; call:ShouldAccept; [len($rcpts) >= $r.config.MaxRecipients]; send:552; return",
     "call:NewRecipient; emit:BeforeRcptToAccepted; call:ShouldAccept; set:rcpts=append($rcpts, NewRecipient(..)#0); send:250; return"] := by decide +kernel
theorem rcptArgMin_tie : Gen.Smtp.rcptArgMin = some ("<", 4) := by decide
theorem cmdMinLen_tie : Gen.Smtp.cmdMinLen = some ("<", 4) := by decide

/-- the two regular expressions whose results are parameters of the model (`mailRe`, `parseArgs`) are the
    ones the harness evaluates: a changed expression is a changed obligation -/
theorem fromRegex_tie : Gen.Smtp.fromRegex =
    some "(?i)^FROM:\\s*<((?:(?:\\\\>|[^>])+|\"[^\"]+\"@[^>])+)?>( ([\\w= ]|=<>)+)?$" := by decide
theorem argsRegex_tie : Gen.Smtp.argsRegex = some " (\\w+)=(\\w+|<>)" := by decide

/-- every index / slice expression of handler.go is one the model accounts for (guards proved in Props.C03) -/
theorem sliceSites_tie : Gen.Smtp.sliceSites =
    ["$arg[0:3]",
     "$arg[3:]",
     "$arg[:strings.IndexRune($arg, ' ')]",
     "$each(regexp.MustCompile(\" (\\\\w+)=(\\\\w+|<>)\").FindAllStringSubmatch(fromRegex.FindStringSubmatch($arg)[2], -1))[1]",
     "$each(regexp.MustCompile(\" (\\\\w+)=(\\\\w+|<>)\").FindAllStringSubmatch(fromRegex.FindStringSubmatch($arg)[2], -1))[2]",
     "$h(fromRegex.FindStringSubmatch($arg)[2])#0[\"SIZE\"]",
     "$pv[$v + 1:]",
     "$pv[0:$v]",
     "$res[strings.ToUpper($each(regexp.MustCompile(\" (\\\\w+)=(\\\\w+|<>)\").FindAllStringSubmatch(fromRegex.FindStringSubmatch($arg)[2], -1))[1])]",
     "commands[$cmd]",
     "fromRegex.FindStringSubmatch($arg)[1]",
     "fromRegex.FindStringSubmatch($arg)[2]",
     "strings.SplitN($arg, \" \", 3)[0]",
     "strings.SplitN($arg, \" \", 3)[1]"] := by decide +kernel

/-- the statements of StoreManager.Deliver the model mirrors are all present -/
theorem deliverShape_tie : Gen.Smtp.deliverShape.length = 8 := by decide

/-- the accepting exit of the STARTTLS clause (after its "220"): tls.Server on the session's connection, the connection
    field replaced, a NEW textproto.Conn on the wrapped connection assigned to the field lines are read from — what the old
    reader had buffered is gone (`Model.Smtp.runWire`) —, the *tls.ConnectionState field assigned; no explicit handshake
    (it runs inside the next read or write) -/
theorem starttls_switch_tie : Gen.Smtp.starttlsSwitch = ["wrap", "conn", "reader", "state"] := by decide

/-- the TLS state is a field of the session: `Model.Smtp.Sess.tls` -/
theorem tls_scope_tie : Gen.Smtp.tlsStateScope = "perSession" := by decide

end Ibx.Tie.Smtp
