import Ibx.Gen.Addr
import Ibx.Model.Addr
/-
  T1 tie: the hand-written address model uses exactly the character classes and limits that the
  regenerated facts (Ibx/Gen/Addr.lean, re-read from pkg/policy/address.go on every run) report.
  If the source changes one of them, these obligations stop checking.
  The facts are located structurally (harness/cmd/extract/addr2.go, addrEmitTables): the two parsers are found by
  following the calls of Addressing.ExtractMailbox, the compared quantities by role (len of the parameter, the index of
  the loop over the parameter, the counter that is incremented and reset) — not by the names of locals or helpers.
-/
namespace Ibx.Tie.Addr
open Ibx.Model.Addr

theorem specials_tie : ∀ c < 256, isSpecialB c = (Gen.Addr.specials.getD []).contains c := by decide +kernel
theorem specials_known : Gen.Addr.specials.isSome = true := by decide
theorem nameSpecials_tie : ∀ c < 256, isNameSpecialB c = (Gen.Addr.nameSpecials.getD []).contains c := by decide +kernel
theorem nameSpecials_known : Gen.Addr.nameSpecials.isSome = true := by decide
theorem maxAddr_tie : Gen.Addr.maxAddr = some (">", 320) := by decide
theorem maxLocal_tie : Gen.Addr.maxLocal = some (">", 128) := by decide
theorem maxDomain_tie : Gen.Addr.maxDomain = some (">", 255) := by decide
theorem minBracket_tie : Gen.Addr.minBracket = some (">=", 4) := by decide
theorem maxLabel_tie : Gen.Addr.maxLabel = some (">", 63) := by decide

end Ibx.Tie.Addr
