import Ibx.Gen.Pop3
import Ibx.Model.Pop3Conc
/-
  T1 tie for the concurrent POP3 model (C13 / C19): `Model.Pop3Conc.processDeletes` runs the deletion loop in the variant
  the regenerated facts (Ibx/Gen/Pop3.lean, re-read from pkg/server/pop3/*.go on every run by
  harness/cmd/extract/pop3_del.go) describe, QUIT's row of the TRANSACTION handler runs that loop on every one of its paths,
  and nothing else in the package removes messages.  The facts are structural: the loop is found as the innermost
  for / range statement around the package's one `Store.RemoveMessage` call site (helpers followed upwards), so a rename
  or an extracted helper leaves them unchanged, while a `return` / `break` / `goto` / panic inside the loop, a flag
  carried from one iteration to the next, a second removal site or a condition in front of the loop changes them.
-/
namespace Ibx.Tie.Pop3Conc
open Ibx Ibx.Model.Pop3Conc

/-- the variant of the deletion loop the facts describe: no way out of the loop but the end of the range and nothing
    carried from one iteration to the next = it goes on after a failed removal; a `return` / `break` inside = it may stop;
    anything else (several loops, a flag, a goto, a panic) is not a variant the model has -/
def loopOfFacts (exits carried : Option (List String)) : Option DelLoop :=
  match exits, carried with
  | some [], some [] => some .goesOn
  | some ["return"], some [] => some .stopsAtFirstFailure
  | some ["break"], some [] => some .stopsAtFirstFailure
  | _, _ => none

/-- the deletion loop of the source is the variant the model is instantiated with (`sourceDelLoop`) — the one
    `Props.C19Pop.quit_applies_every_pending_deletion` needs and `stopping_at_first_failure_loses_deletions` refutes for
    the other.  When the source grows an early exit this obligation fails. -/
theorem delete_loop_tie : loopOfFacts Gen.Pop3.deleteLoopExits Gen.Pop3.deleteLoopCarried = some sourceDelLoop := by decide

/-- … and it is `goesOn` -/
theorem delete_loop_goes_on : sourceDelLoop = .goesOn := rfl

/-- every path of QUIT's row in the TRANSACTION handler runs the deletion loop: no condition stands between the command
    and `processDeletes` (`Model.Pop3.cmdQuit` hands the marked ids over unconditionally, `Pop3Conc.clientStep` runs
    `processDeletes` whether or not the reply could be written) -/
theorem quit_runs_delete_loop_tie : Gen.Pop3.quitRowStore = ["RemoveMessage"] := by decide

/-- messages are removed from QUIT's row of the TRANSACTION handler and from nowhere else in the package (not from
    another command, not from the command loop's exits, not from a function the loop cannot reach) -/
theorem remove_only_from_quit_tie :
    Gen.Pop3.storeReach.filter (fun t => t.2.2 == "RemoveMessage") = [("TRANSACTION", "QUIT", "RemoveMessage")] := by decide

end Ibx.Tie.Pop3Conc
