import Ibx.Gen.Pop3
import Ibx.Gen.Pop3Share
import Ibx.Model.Pop3Conc
/-
  T1 tie for the concurrent POP3 model (C13 / C19): `Model.Pop3Conc.processDeletes` runs the deletion loop in the variant
  the regenerated facts (Ibx/Gen/Pop3.lean, re-read from pkg/server/pop3/*.go on every run by
  harness/cmd/extract/pop3_del.go) describe, QUIT's row of the TRANSACTION handler runs that loop on every one of its paths,
  and nothing else in the package removes messages.  The facts are structural: the loop is found as the innermost
  for / range statement around the package's one `Store.RemoveMessage` call site (helpers followed upwards), so a rename
  or an extracted helper leaves them unchanged, while a `return` / `break` / `goto` / panic inside the loop, a flag
  carried from one iteration to the next, a second removal site or a condition in front of the loop changes them.
-/
namespace Ibx.Tie.Pop3Conc
open Ibx Ibx.Model.Pop3Conc

/-- the variant of the deletion loop the facts describe: no way out of the loop but the end of the range and nothing
    carried from one iteration to the next = it goes on after a failed removal; a `return` / `break` inside = it may stop;
    anything else (several loops, a flag, a goto, a panic) is not a variant the model has -/
def loopOfFacts (exits carried : Option (List String)) : Option DelLoop :=
  match exits, carried with
  | some [], some [] => some .goesOn
  | some ["return"], some [] => some .stopsAtFirstFailure
  | some ["break"], some [] => some .stopsAtFirstFailure
  | _, _ => none

/-- the deletion loop of the source is the variant the model is instantiated with (`sourceDelLoop`) — the one
    `Props.C19Pop.quit_applies_every_pending_deletion` needs and `stopping_at_first_failure_loses_deletions` refutes for
    the other.  When the source grows an early exit this obligation fails. -/
theorem delete_loop_tie : loopOfFacts Gen.Pop3.deleteLoopExits Gen.Pop3.deleteLoopCarried = some sourceDelLoop := by decide

/-- … and it is `goesOn` -/
theorem delete_loop_goes_on : sourceDelLoop = .goesOn := rfl

/-- every path of QUIT's row in the TRANSACTION handler runs the deletion loop: no condition stands between the command
    and `processDeletes` (`Model.Pop3.cmdQuit` hands the marked ids over unconditionally, `Pop3Conc.clientStep` runs
    `processDeletes` whether or not the reply could be written) -/
theorem quit_runs_delete_loop_tie : Gen.Pop3.quitRowStore = ["RemoveMessage"] := by decide

/-- messages are removed from QUIT's row of the TRANSACTION handler and from nowhere else in the package (not from
    another command, not from the command loop's exits, not from a function the loop cannot reach) -/
theorem remove_only_from_quit_tie :
    Gen.Pop3.storeReach.filter (fun t => t.2.2 == "RemoveMessage") = [("TRANSACTION", "QUIT", "RemoveMessage")] := by decide

/-! ### what one POP3 session can share with another (facts of Ibx/Gen/Pop3Share.lean, found by role like those of the SMTP
    server: server type = receiver of the function that calls Accept(), session type = the struct embedding it, session
    code = what the accept loop's go statement runs and all it reaches — harness/cmd/extract/smtpconc.go)

  `Model.Pop3Conc` gives a session step the session's own state, its pending input and the store, and nothing else: a
  session starts from `Pop3.init` whatever earlier sessions of the same server did, and no session sees another's
  snapshot, marks or write error.  That is true of the source because every field of the session literal comes from the
  constructor's parameters, a fresh allocation, a constant or the configuration, no package-level variable is written
  after initialisation, and the ONE server field that is assigned outside the constructor and read by sessions is the TLS
  state (`TlsScope.perServer` of `Model.Pop3`: STLS works once per server — modelled as the source has it).  A free list
  of finished Session objects (seeded change C13-r9m2), a shared scratch buffer or a package-level cache changes these
  facts. -/

/-- verdicts of a package-level variable under which sessions cannot influence each other through it -/
def harmlessVar (v : String) : Bool :=
  ["regexp", "readOnlyTable", "constant", "metricWriteOnly", "notReachedFromSessions"].contains v

/-- sources of a session field under which the value is the session's own (or immutable configuration) -/
def privateSource (v : String) : Bool := ["server", "param", "fresh", "config", "const"].contains v

/-- the roles were found in pkg/server/pop3 -/
theorem pop3_roles_found_tie : Gen.Pop3Share.sessionFunctions.isEmpty = false := by decide

/-- no package-level variable of pkg/server/pop3 is written after initialisation or handed to sessions by reference -/
theorem pop3_package_variables_tie : Gen.Pop3Share.pkgVars.all (fun p => harmlessVar p.2) = true := by decide

/-- every session starts from a state of its own: each field of the one session literal comes from the constructor's
    parameters, a fresh allocation, a constant, the configuration, or is the server pointer -/
theorem pop3_session_fields_tie :
    Gen.Pop3Share.sessionInit.map (fun l => l.all (fun p => privateSource p.2)) = some true := by decide

/-- what two sessions share through the server is immutable after NewServer, except the TLS state (per server in the
    source and in the model: `TlsScope.perServer`) -/
theorem pop3_server_fields_tie : Gen.Pop3Share.serverFieldsSharedMutable = some ["tlsState"] := by decide

/-- session code has no select, channel operation or go statement and no context: a session can neither see the
    cancellation nor hand anything to a later session through a channel -/
theorem pop3_session_has_no_channel_tie :
    Gen.Pop3Share.sessionChanOps = some 0 ∧ Gen.Pop3Share.sessionReachesCtx = some false := by decide

/-- **POP3 sessions share nothing but the store and the server's TLS state** -/
theorem pop3_sessions_share_nothing_tie :
    Gen.Pop3Share.pkgVars.all (fun p => harmlessVar p.2) = true ∧
    Gen.Pop3Share.sessionInit.map (fun l => l.all (fun p => privateSource p.2)) = some true ∧
    Gen.Pop3Share.serverFieldsSharedMutable = some ["tlsState"] ∧
    Gen.Pop3Share.sessionChanOps = some 0 :=
  ⟨pop3_package_variables_tie, pop3_session_fields_tie, pop3_server_fields_tie, pop3_session_has_no_channel_tie.1⟩

end Ibx.Tie.Pop3Conc
