import Ibx.Gen.Notify
import Ibx.Gen.Shutdown
import Ibx.Props.C19Accept
import Ibx.Tie.Shutdown
/-
  T1 tie for the accept-failure / session-exit part of C19 (Props/C19Accept.lean): the model instances the
  theorems are proved for are the ones the regenerated facts (Ibx/Gen/Notify.lean, re-read from both
  listener.go / handler.go on every run by harness/cmd/extract/notify.go) name.

  * every `close(<the field Notify() returns>)` of the package stands either on a bind-failure path of Start
    that never reaches the go statement, or — exactly once — in the accept loop's fatal path (the `default` of
    the select beside `<-ctx.Done()`, right after the send, followed by return); each is preceded by the only
    sends there are; the channel has a buffer.  Any other site (Start closing the channel after `<-ctx.Done()`,
    a close in another function or inside a function literal) selects the variant `startClosesNotify`, for which
    no theorem is available — the failing schedule is `Props.C19Accept.start_closing_notify_panics`.
  * the statement skeleton of the session goroutine (wrapper literal, then `startSession`, helpers inlined)
    parses and passes `Balance.covers`: no `return` stands above the top-level `defer` that runs `Done`, and none
    between the function's own `Add` and its `defer`.  An early `return` above the `defer` makes
    `*_every_exit_counts_down` stop checking — the failing schedule is `failed_handshake_blocks_drain_forever`.
-/
namespace Ibx.Tie.Notify
open Ibx.Model.Shutdown Ibx.Model.ShutdownNotify Ibx.Props.C19Accept

/-! ### the Notify channel -/

/-- the two places where the model closes the channel -/
def siteOk : String → Bool
  | "start:beforeAcceptLoop" => true
  | "acceptLoop:fatalPath" => true
  | _ => false

def fatalSites (l : List String) : Nat := (l.filter (fun s => s == "acceptLoop:fatalPath")).length

/-- the variant the source names: anything but the understood sites falls to the unsafe variant -/
def smtpStartCloses : Bool := !(Gen.Notify.smtp_notifyCloses.all siteOk)
def pop3StartCloses : Bool := !(Gen.Notify.pop3_notifyCloses.all siteOk)

def smtpNotifyCfg (sig oth : Bool) : Notify.Cfg := ⟨Tie.Shutdown.smtpCfg, smtpStartCloses, sig, oth⟩
def pop3NotifyCfg (sig oth : Bool) : Notify.Cfg := ⟨Tie.Shutdown.pop3Cfg, pop3StartCloses, sig, oth⟩

/-- SMTP: every close of the Notify channel is a bind-failure close of Start or the accept loop's fatal close -/
theorem smtp_start_does_not_close_notify : smtpStartCloses = false := by decide
theorem pop3_start_does_not_close_notify : pop3StartCloses = false := by decide

/-- … the accept loop has exactly one such close … -/
theorem smtp_one_fatal_close : fatalSites Gen.Notify.smtp_notifyCloses = 1 := by decide
theorem pop3_one_fatal_close : fatalSites Gen.Notify.pop3_notifyCloses = 1 := by decide

/-- … the sends on the channel are exactly those in front of the closes … -/
theorem smtp_sends_match_closes : Gen.Notify.smtp_notifySends = Gen.Notify.smtp_notifyCloses := by decide
theorem pop3_sends_match_closes : Gen.Notify.pop3_notifySends = Gen.Notify.pop3_notifyCloses := by decide

/-- … and the channel has the one-slot buffer the model gives it (the single send never blocks) -/
theorem smtp_notify_buffered : Gen.Notify.smtp_notifyCap = some 1 := by decide
theorem pop3_notify_buffered : Gen.Notify.pop3_notifyCap = some 1 := by decide

/-- SMTP, as the source is now: on every schedule the Notify channel is closed at most once and no goroutine panics -/
theorem C19_smtp_notify_closed_at_most_once (sig oth : Bool) {s : Notify.St}
    (h : Notify.Reach (smtpNotifyCfg sig oth) s) :
    s.panicked = false ∧ s.closes ≤ 1 ∧ s.sends ≤ 1 ∧ (s.nclosed = true ↔ s.closes = 1) :=
  notify_closed_at_most_once _ smtp_start_does_not_close_notify h
theorem C19_pop3_notify_closed_at_most_once (sig oth : Bool) {s : Notify.St}
    (h : Notify.Reach (pop3NotifyCfg sig oth) s) :
    s.panicked = false ∧ s.closes ≤ 1 ∧ s.sends ≤ 1 ∧ (s.nclosed = true ↔ s.closes = 1) :=
  notify_closed_at_most_once _ pop3_start_does_not_close_notify h

/-- SMTP, as the source is now: main leaves its loop exactly when it has received the accept loop's error, once -/
theorem C19_smtp_failure_delivered_exactly_once {s : Notify.St} (h : Notify.Reach (smtpNotifyCfg false false) s) :
    (s.main ≠ .looping ↔ s.delivered = 1) ∧ s.delivered ≤ 1 :=
  accept_failure_delivered_exactly_once _ smtp_start_does_not_close_notify rfl rfl h
theorem C19_pop3_failure_delivered_exactly_once {s : Notify.St} (h : Notify.Reach (pop3NotifyCfg false false) s) :
    (s.main ≠ .looping ↔ s.delivered = 1) ∧ s.delivered ≤ 1 :=
  accept_failure_delivered_exactly_once _ pop3_start_does_not_close_notify rfl rfl h

/-- SMTP, as the source is now: after an accept-loop failure the shutdown can always complete, the process alive,
    every open session finished first -/
theorem C19_smtp_shutdown_completes_after_accept_failure (sig oth : Bool) {s : Notify.St}
    (h : Notify.Reach (smtpNotifyCfg sig oth) s) (hf : s.fat ≠ .none) (hm : s.main ≠ .finished) :
    ∃ s', Notify.Path (smtpNotifyCfg sig oth) s s' ∧ s'.main = .finished ∧ s'.panicked = false
      ∧ s'.d.drained = true ∧ s'.d.closed = true ∧ s'.closes = 1 ∧ s'.d.openConns = 0 ∧ s'.d.closing2 = 0
      ∧ s'.d.closing1 = 0 ∧ s'.d.ended = s'.d.accepted :=
  shutdown_completes_after_accept_failure _ smtp_start_does_not_close_notify Tie.Shutdown.smtp_wgAdd_before h hf hm
theorem C19_pop3_shutdown_completes_after_accept_failure (sig oth : Bool) {s : Notify.St}
    (h : Notify.Reach (pop3NotifyCfg sig oth) s) (hf : s.fat ≠ .none) (hm : s.main ≠ .finished) :
    ∃ s', Notify.Path (pop3NotifyCfg sig oth) s s' ∧ s'.main = .finished ∧ s'.panicked = false
      ∧ s'.d.drained = true ∧ s'.d.closed = true ∧ s'.closes = 1 ∧ s'.d.openConns = 0 ∧ s'.d.closing2 = 0
      ∧ s'.d.closing1 = 0 ∧ s'.d.ended = s'.d.accepted :=
  shutdown_completes_after_accept_failure _ pop3_start_does_not_close_notify Tie.Shutdown.pop3_wgAdd_before h hf hm

/-! ### every exit of the session goroutine counts down -/

/-- the skeleton the source names; a token that is not understood gives a program that does not pass -/
def smtpProg : List Balance.Stmt := (Balance.parseProg Gen.Notify.smtp_sessionSkeleton).getD [.ret .netError]
def pop3Prog : List Balance.Stmt := (Balance.parseProg Gen.Notify.pop3_sessionSkeleton).getD [.ret .netError]

def smtpBalCfg : Balance.Cfg := ⟨Tie.Shutdown.smtpCfg.wgAdd.before, smtpProg⟩
def pop3BalCfg : Balance.Cfg := ⟨Tie.Shutdown.pop3Cfg.wgAdd.before, pop3Prog⟩

theorem smtp_skeleton_known : (Balance.parseProg Gen.Notify.smtp_sessionSkeleton).isSome = true := by decide
theorem pop3_skeleton_known : (Balance.parseProg Gen.Notify.pop3_sessionSkeleton).isSome = true := by decide

/-- the skeleton and the `wgAdd` fact of Tie.Shutdown describe the same source: the goroutine has an `Add` of its own
    exactly in the variants `inSessionGoroutine` / `both` -/
theorem smtp_skeleton_agrees_wgAdd : smtpProg.contains .add = Tie.Shutdown.smtpCfg.wgAdd.inside := by decide
theorem pop3_skeleton_agrees_wgAdd : pop3Prog.contains .add = Tie.Shutdown.pop3Cfg.wgAdd.inside := by decide

/-- SMTP: no exit of the session goroutine bypasses the deferred `Done`s -/
theorem smtp_every_exit_counts_down : Balance.covers smtpBalCfg.owed smtpBalCfg.prog 0 0 = true := by decide
/-- POP3: no exit of `startSession` bypasses the deferred `Done` -/
theorem pop3_every_exit_counts_down : Balance.covers pop3BalCfg.owed pop3BalCfg.prog 0 0 = true := by decide

/-- SMTP, as the source is now: however the sessions ended, Drain is enabled once none runs and the accept loop is gone -/
theorem C19_smtp_drain_enabled_however_sessions_end {s : Balance.St} (h : Balance.Reach smtpBalCfg s)
    (hr : s.running = 0) (ha : s.accExited = true) (hd : s.died = false) :
    s.wg = 0 ∧ ∃ s', Balance.Step smtpBalCfg s s' ∧ s'.drained = true :=
  drain_enabled_however_sessions_end smtpBalCfg smtp_every_exit_counts_down h hr ha hd
theorem C19_pop3_drain_enabled_however_sessions_end {s : Balance.St} (h : Balance.Reach pop3BalCfg s)
    (hr : s.running = 0) (ha : s.accExited = true) (hd : s.died = false) :
    s.wg = 0 ∧ ∃ s', Balance.Step pop3BalCfg s s' ∧ s'.drained = true :=
  drain_enabled_however_sessions_end pop3BalCfg pop3_every_exit_counts_down h hr ha hd

end Ibx.Tie.Notify
