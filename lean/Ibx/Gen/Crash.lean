/- REGENERATED from /repo on every run by /verif/harness/cmd/extract — do not edit. -/
namespace Ibx.Gen.Crash

/-- (*mbox).writeIndex: "tmpRename" = the only os.Create is of a variable defined as mb.indexPath + ".tmp" and os.Rename(<it>, mb.indexPath) follows; "inPlace" = os.Create(mb.indexPath) -/
def fileIndexWrite : String := "tmpRename"

/-- (*mbox).removeDir: "indexFirst" = os.Remove(mb.indexPath) precedes os.RemoveAll(mb.path); "removeAllFirst" = no such call before it -/
def fileRemoveDir : String := "indexFirst"

/-- (*Store).AddMessage: calls among newMessage/createDir/os.Create/io.Copy/w.Flush/file.Close/writeIndex in source order, outside the bodies of `if err != nil` blocks -/
def fileAddOrder : List String := ["mb.newMessage", "mb.createDir", "os.Create", "io.Copy", "w.Flush", "file.Close", "mb.writeIndex"]

/-- (*mbox).removeMessage: calls among mb.writeIndex / os.Remove in source order on the success path (index first, then the raw file) -/
def fileRemoveMsgOrder : List String := ["mb.writeIndex", "os.Remove"]

/-- first arguments of the verifStep(...) calls in fstore.go, then mbox.go, in source order (one per file-system mutation) -/
def fileHookSites : List String := ["create-raw", "copy-raw", "flush-raw", "close-raw", "unlink-raw", "create-tmp", "flush-tmp", "close-tmp", "rename", "mkdirall", "unlink-index", "removeall", "rmdir-parent"]

end Ibx.Gen.Crash
