/- REGENERATED from /repo on every run by /verif/harness/cmd/extract — do not edit. -/
namespace Ibx.Gen.Smtp

/-- keys (value true) of the package's command set (its one package-level map[string]bool literal), in source order -/
def commands : List String := ["HELO", "EHLO", "MAIL", "RCPT", "DATA", "RSET", "SEND", "SOML", "SAML", "VRFY", "EXPN", "HELP", "NOOP", "QUIT", "TURN", "STARTTLS", "AUTH"]

/-- the states the command loop dispatches to a handler(cmd, arg), in source order -/
def dispatchStates : List String := ["GREET", "READY", "MAIL"]

/-- case labels of the any-state command switch of the command loop (the string switch on the command word outside the state dispatch) -/
def anyStateCases : List (List String) := [["SEND", "SOML", "SAML", "EXPN", "HELP", "TURN"], ["VRFY"], ["NOOP"], ["RSET"], ["QUIT"]]

/-- command table of the GREET handler -/
def greetCases : List (List String) := [["HELO"], ["EHLO"], ["<default>"]]

/-- command table of the READY handler -/
def readyCases : List (List String) := [["STARTTLS"], ["AUTH"], ["MAIL"], ["EHLO"], ["<default>"]]

/-- command table of the MAIL handler -/
def mailCases : List (List String) := [["RCPT"], ["DATA"], ["EHLO"], ["<default>"]]

/-- the string switch under the AUTH clause of the READY table (through helpers) -/
def authCases : List (List String) := [["PLAIN"], ["LOGIN"], ["<default>"]]

/-- what that switch looks at -/
def authTag : String := "strings.SplitN($arg, \" \", 3)[0]"

/-- (state, clause labels, exits) for every clause of the any-state table (*) and of the GREET / READY / MAIL tables, and for what a handler does outside its table (<after>); exits in the notation of dataPaths -/
def transitions : List (String × String × List String) := [
  ("*", "SEND,SOML,SAML,EXPN,HELP,TURN", ["send:502; continue"]),
  ("*", "VRFY", ["send:252; continue"]),
  ("*", "NOOP", ["send:250; continue"]),
  ("*", "RSET", ["reset; send:250; continue"]),
  ("*", "QUIT", ["send:221; state:QUIT; continue"]),
  ("GREET", "HELO", ["[$h($arg)#1 != nil]; send:501; return", "send:250; state:READY; return"]),
  ("GREET", "EHLO", ["[$h($arg)#1 != nil]; send:501; return", "send:250-; send:250-; send:250-; ?[$r.Server.config.TLSEnabled][!$r.Server.config.ForceTLS][$r.Server.tlsConfig != nil][$r.tlsState == nil]send:250-; send:250; state:READY; return"]),
  ("GREET", "<default>", ["send:503; return"]),
  ("READY", "STARTTLS", ["[!$r.Server.config.TLSEnabled]; send:454; return", "[$r.tlsState != nil]; send:454; return", "send:220; state:GREET; return"]),
  ("READY", "AUTH", ["[strings.SplitN($arg, \" \", 3)[0] == \"PLAIN\"]; [len(strings.SplitN($arg, \" \", 3)) != 2]; send:500; return", "[strings.SplitN($arg, \" \", 3)[0] == \"PLAIN\"]; send:235; return", "[strings.SplitN($arg, \" \", 3)[0] == \"LOGIN\"]; send:334; state:LOGIN; return", "[default]; send:500; return"]),
  ("READY", "MAIL", ["[fromRegex.FindStringSubmatch($arg) == nil]; send:501; return", "[fromRegex.FindStringSubmatch($arg)[2] != \"\"]; [!$h(fromRegex.FindStringSubmatch($arg)[2])#1]; send:501; return", "[fromRegex.FindStringSubmatch($arg)[2] != \"\"]; [$h(fromRegex.FindStringSubmatch($arg)[2])#0[\"SIZE\"] != \"\"]; [strconv.ParseInt($h(fromRegex.FindStringSubmatch($arg)[2])#0[\"SIZE\"], 10, 32)#1 != nil]; send:501; return", "[fromRegex.FindStringSubmatch($arg)[2] != \"\"]; [$h(fromRegex.FindStringSubmatch($arg)[2])#0[\"SIZE\"] != \"\"]; [int(strconv.ParseInt($h(fromRegex.FindStringSubmatch($arg)[2])#0[\"SIZE\"], 10, 32)#0) > $r.config.MaxMessageBytes]; send:552; return", "call:ParseOrigin; [ParseOrigin(..)#1 != nil]; send:501; return", "call:ParseOrigin; emit:BeforeMailFromAccepted; [$v == event.ActionDeny]; send:*; return", "call:ParseOrigin; emit:BeforeMailFromAccepted; set:from=ParseOrigin(..)#0; call:ShouldAccept; [$v == event.ActionDefer]; [!ShouldAccept(..)]; send:501; return", "call:ParseOrigin; emit:BeforeMailFromAccepted; set:from=ParseOrigin(..)#0; call:ShouldAccept; send:250; state:MAIL; return"]),
  ("READY", "EHLO", ["reset; send:250; return"]),
  ("READY", "<default>", ["send:503; return"]),
  ("MAIL", "RCPT", ["[len($arg) < 4 || strings.ToUpper($arg[0:3]) != \"TO:\"]; send:501; return", "call:NewRecipient; [NewRecipient(..)#1 != nil]; send:501; return", "call:NewRecipient; emit:BeforeRcptToAccepted; [$v == event.ActionDeny]; send:*; return", "call:NewRecipient; emit:BeforeRcptToAccepted; call:ShouldAccept; [$v == event.ActionDefer]; [!ShouldAccept(..)]; send:550; return", "call:NewRecipient; emit:BeforeRcptToAccepted; call:ShouldAccept; [len($rcpts) >= $r.config.MaxRecipients]; send:552; return", "call:NewRecipient; emit:BeforeRcptToAccepted; call:ShouldAccept; set:rcpts=append($rcpts, NewRecipient(..)#0); send:250; return"]),
  ("MAIL", "DATA", ["[$arg != \"\"]; send:501; return", "[len($rcpts) == 0]; send:503; return", "state:DATA; return"]),
  ("MAIL", "EHLO", ["reset; send:250; return"]),
  ("MAIL", "<default>", ["send:503; return"])]

/-- what the reset helper (the one the any-state RSET clause calls) does: keepsGreet = clears sender and recipients and enters READY unless the state is GREET | promotesToReady = clears them and enters READY | unknown -/
def resetFromGreet : String := "keepsGreet"

/-- the exits of the DATA handler: replies (send:code), helper and library calls of interest, state changes, in execution order; [c] = the guard of an exit, ?[c]e = e happens under c and execution goes on -/
def dataPaths : List String := ["send:354; ?call:ReadDotBytes; [$h()#1 != nil]; ?[$h()#1.(net.Error)#1][$h()#1.(net.Error)#0.Timeout()]send:221; state:QUIT; return", "send:354; ?call:ReadDotBytes; [len(ReadDotBytes(..)#0) > $r.config.MaxMessageBytes]; send:552; reset; return", "send:354; ?call:ReadDotBytes; call:Deliver; [Deliver(..) != nil]; send:451; reset; return", "send:354; ?call:ReadDotBytes; call:Deliver; send:250; reset; return"]

/-- the DATA handler refuses (552, reset, return) a block longer than MaxMessageBytes right after reading it: afterRead | none | unknown -/
def dataSizeCheck : String := "afterRead"

/-- number of exits of the DATA handler that end with the reset helper (552, 451, 250) -/
def dataHandlerResets : Nat := 3

/-- the exits of the RCPT clause of the MAIL table (same notation as dataPaths) -/
def rcptPaths : List String := ["[len($arg) < 4 || strings.ToUpper($arg[0:3]) != \"TO:\"]; send:501; return", "call:NewRecipient; [NewRecipient(..)#1 != nil]; send:501; return", "call:NewRecipient; emit:BeforeRcptToAccepted; [$v == event.ActionDeny]; send:*; return", "call:NewRecipient; emit:BeforeRcptToAccepted; call:ShouldAccept; [$v == event.ActionDefer]; [!ShouldAccept(..)]; send:550; return", "call:NewRecipient; emit:BeforeRcptToAccepted; call:ShouldAccept; [len($rcpts) >= $r.config.MaxRecipients]; send:552; return", "call:NewRecipient; emit:BeforeRcptToAccepted; call:ShouldAccept; set:rcpts=append($rcpts, NewRecipient(..)#0); send:250; return"]

/-- the recipient limit comparison `len(<recipients>) <op> <config>.MaxRecipients` -/
def rcptLimitTest : String × String := (">=", "MaxRecipients")

/-- minimum RCPT argument length test guarding $arg[0:3] (the only comparison of len($arg) with a literal among the guards of rcptPaths) -/
def rcptArgMin : Option (String × Nat) := some ("<", 4)

/-- the command parser: a command word shorter than this is garbled -/
def cmdMinLen : Option (String × Nat) := some ("<", 4)

/-- source text of the MAIL FROM expression -/
def fromRegex : Option String := some "(?i)^FROM:\\s*<((?:(?:\\\\>|[^>])+|\"[^\"]+\"@[^>])+)?>( ([\\w= ]|=<>)+)?$"

/-- source text of the ESMTP parameter expression -/
def argsRegex : Option String := some " (\\w+)=(\\w+|<>)"

/-- every index / slice expression of the package in canonical form ($cmd / $arg: the handler's parameters, $p: a parameter, $pv / $v: a re-assigned parameter / local, locals replaced by their definitions, helpers looked through) -/
def sliceSites : List String := ["$arg[0:3]", "$arg[3:]", "$arg[:strings.IndexRune($arg, ' ')]", "$each(regexp.MustCompile(\" (\\\\w+)=(\\\\w+|<>)\").FindAllStringSubmatch(fromRegex.FindStringSubmatch($arg)[2], -1))[1]", "$each(regexp.MustCompile(\" (\\\\w+)=(\\\\w+|<>)\").FindAllStringSubmatch(fromRegex.FindStringSubmatch($arg)[2], -1))[2]", "$h(fromRegex.FindStringSubmatch($arg)[2])#0[\"SIZE\"]", "$pv[$v + 1:]", "$pv[0:$v]", "$res[strings.ToUpper($each(regexp.MustCompile(\" (\\\\w+)=(\\\\w+|<>)\").FindAllStringSubmatch(fromRegex.FindStringSubmatch($arg)[2], -1))[1])]", "commands[$cmd]", "fromRegex.FindStringSubmatch($arg)[1]", "fromRegex.FindStringSubmatch($arg)[2]", "strings.SplitN($arg, \" \", 3)[0]", "strings.SplitN($arg, \" \", 3)[1]"]

/-- statements of StoreManager.Deliver the model relies on (present ones) -/
def deliverShape : List String := ["call enmime.DecodeHeaders", "call .BeforeMessageStored.Emit", "call .ShouldStore", "call .Store.AddMessage", "call .AfterMessageStored.Emit", "call io.MultiReader", "format %s  for <%s>; %s\r\n", "format Return-Path: <%s>\r\n"]

/-- what the accepting exit of the STARTTLS clause does to the connection, in source order (see harness/cmd/extract/tls.go) -/
def starttlsSwitch : List String := ["wrap", "conn", "reader", "state"]

/-- the struct declaring the *tls.ConnectionState field the STARTTLS clause assigns: perSession | perServer -/
def tlsStateScope : String := "perSession"

end Ibx.Gen.Smtp
