/- REGENERATED from /repo on every run by /verif/harness/cmd/extract — do not edit. -/
namespace Ibx.Gen.Smtp

/-- keys of the `commands` map (value true), in source order -/
def commands : List String := ["HELO", "EHLO", "MAIL", "RCPT", "DATA", "RSET", "SEND", "SOML", "SAML", "VRFY", "EXPN", "HELP", "NOOP", "QUIT", "TURN", "STARTTLS", "AUTH"]

/-- case labels of the any-state `switch cmd` in startSession -/
def anyStateCases : List (List String) := [["SEND", "SOML", "SAML", "EXPN", "HELP", "TURN"], ["VRFY"], ["NOOP"], ["RSET"], ["QUIT"]]

def greetCases : List (List String) := [["HELO"], ["EHLO"], ["<default>"]]

def readyCases : List (List String) := [["STARTTLS"], ["AUTH"], ["MAIL"], ["EHLO"], ["<default>"]]

def mailCases : List (List String) := [["RCPT"], ["DATA"], ["EHLO"]]

def authCases : List (List String) := [["PLAIN"], ["LOGIN"], ["<default>"]]

/-- shape of Session.reset(): keepsGreet | promotesToReady | unknown -/
def resetFromGreet : String := "keepsGreet"

/-- dataHandler enforces MaxMessageBytes after reading the block: afterRead | none | unknown -/
def dataSizeCheck : String := "afterRead"

/-- number of s.reset() calls in dataHandler (one per exit after a successful read: 552, 451, 250) -/
def dataHandlerResets : Nat := 3

/-- the recipient limit comparison `len(s.recipients) <op> s.config.MaxRecipients` -/
def rcptLimitTest : String × String := (">=", "s.config.MaxRecipients")

/-- minimum RCPT argument length test guarding arg[0:3] -/
def rcptArgMin : Option (String × Nat) := some ("<", 4)

/-- parseCmd: commands shorter than this are garbled -/
def cmdMinLen : Option (String × Nat) := some ("<", 4)

/-- source text of fromRegex -/
def fromRegex : Option String := some "(?i)^FROM:\\s*<((?:(?:\\\\>|[^>])+|\"[^\"]+\"@[^>])+)?>( ([\\w= ]|=<>)+)?$"

/-- source text of the parseArgs expression -/
def argsRegex : Option String := some " (\\w+)=(\\w+|<>)"

/-- every index / slice expression of handler.go -/
def sliceSites : List String := ["arg[0:3]", "arg[3:]", "arg[:idx]", "args[\"SIZE\"]", "args[0]", "args[1]", "args[strings.ToUpper(m[1])]", "commands[cmd]", "line[0:l]", "line[l+1:]", "m[1]", "m[2]"]

/-- statements of StoreManager.Deliver the model relies on (present ones) -/
def deliverShape : List String := ["call enmime.DecodeHeaders", "call .BeforeMessageStored.Emit", "call .ShouldStore", "call .Store.AddMessage", "call .AfterMessageStored.Emit", "call io.MultiReader", "format %s  for <%s>; %s\r\n", "format Return-Path: <%s>\r\n"]

end Ibx.Gen.Smtp
