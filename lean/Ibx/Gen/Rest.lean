/- REGENERATED from /repo on every run by /verif/harness/cmd/extract — do not edit. -/
namespace Ibx.Gen.Rest

inductive Seg | lit (b : List Nat) | var
  deriving DecidableEq, Repr

/-- (handler function, route name, method, sub-router prefix, template) in registration order: FullAssembly registers webui then rest -/
def routes : Option (List (String × String × String × List Nat × List Seg)) := some [
  ("RootGreeting", "RootGreeting", "GET", [115, 101, 114, 118, 101], [.lit [103, 114, 101, 101, 116, 105, 110, 103]]),
  ("RootStatus", "RootStatus", "GET", [115, 101, 114, 118, 101], [.lit [115, 116, 97, 116, 117, 115]]),
  ("MailboxMessage", "MailboxMessage", "GET", [115, 101, 114, 118, 101], [.lit [109, 97, 105, 108, 98, 111, 120], .var, .var]),
  ("MailboxHTML", "MailboxHTML", "GET", [115, 101, 114, 118, 101], [.lit [109, 97, 105, 108, 98, 111, 120], .var, .var, .lit [104, 116, 109, 108]]),
  ("MailboxSource", "MailboxSource", "GET", [115, 101, 114, 118, 101], [.lit [109, 97, 105, 108, 98, 111, 120], .var, .var, .lit [115, 111, 117, 114, 99, 101]]),
  ("MailboxViewAttach", "MailboxViewAttach", "GET", [115, 101, 114, 118, 101], [.lit [109, 97, 105, 108, 98, 111, 120], .var, .var, .lit [97, 116, 116, 97, 99, 104], .var, .var]),
  ("MailboxListV1", "MailboxListV1", "GET", [97, 112, 105], [.lit [118, 49], .lit [109, 97, 105, 108, 98, 111, 120], .var]),
  ("MailboxPurgeV1", "MailboxPurgeV1", "DELETE", [97, 112, 105], [.lit [118, 49], .lit [109, 97, 105, 108, 98, 111, 120], .var]),
  ("MailboxShowV1", "MailboxShowV1", "GET", [97, 112, 105], [.lit [118, 49], .lit [109, 97, 105, 108, 98, 111, 120], .var, .var]),
  ("MailboxMarkSeenV1", "MailboxMarkSeenV1", "PATCH", [97, 112, 105], [.lit [118, 49], .lit [109, 97, 105, 108, 98, 111, 120], .var, .var]),
  ("MailboxDeleteV1", "MailboxDeleteV1", "DELETE", [97, 112, 105], [.lit [118, 49], .lit [109, 97, 105, 108, 98, 111, 120], .var, .var]),
  ("MailboxSourceV1", "MailboxSourceV1", "GET", [97, 112, 105], [.lit [118, 49], .lit [109, 97, 105, 108, 98, 111, 120], .var, .var, .lit [115, 111, 117, 114, 99, 101]]),
  ("MonitorAllMessagesV1", "MonitorAllMessagesV1", "GET", [97, 112, 105], [.lit [118, 49], .lit [109, 111, 110, 105, 116, 111, 114], .lit [109, 101, 115, 115, 97, 103, 101, 115]]),
  ("MonitorMailboxMessagesV1", "MonitorMailboxMessagesV1", "GET", [97, 112, 105], [.lit [118, 49], .lit [109, 111, 110, 105, 116, 111, 114], .lit [109, 101, 115, 115, 97, 103, 101, 115], .var]),
  ("MonitorAllMessagesV2", "MonitorAllMessagesV2", "GET", [97, 112, 105], [.lit [118, 50], .lit [109, 111, 110, 105, 116, 111, 114], .lit [109, 101, 115, 115, 97, 103, 101, 115]]),
  ("MonitorMailboxMessagesV2", "MonitorMailboxMessagesV2", "GET", [97, 112, 105], [.lit [118, 50], .lit [109, 111, 110, 105, 116, 111, 114], .lit [109, 101, 115, 115, 97, 103, 101, 115], .var])]

/-- per handler the behaviour table: (answers of the message.Manager calls / body flag chosen on the path, Manager calls made with the role of each argument, outcomes: notFound | error | panic | done), sorted by the first two columns -/
def handlers : List (String × List (List String × List String × List String)) := [
  ("MailboxListV1", [
    (["canon=err"], ["MailboxForAddress(var:name)"], ["error"]),
    (["canon=ok", "GetMetadata:ioErr"], ["MailboxForAddress(var:name)", "GetMetadata(canon)"], ["error"]),
    (["canon=ok", "GetMetadata:notExist"], ["MailboxForAddress(var:name)", "GetMetadata(canon)"], ["error"]),
    (["canon=ok", "GetMetadata:ok"], ["MailboxForAddress(var:name)", "GetMetadata(canon)"], ["done"])]),
  ("MailboxShowV1", [
    (["canon=err"], ["MailboxForAddress(var:name)"], ["error"]),
    (["canon=ok", "GetMessage:found"], ["MailboxForAddress(var:name)", "GetMessage(canon,var:id)"], ["done"]),
    (["canon=ok", "GetMessage:ioErr"], ["MailboxForAddress(var:name)", "GetMessage(canon,var:id)"], ["error"]),
    (["canon=ok", "GetMessage:nilnil"], ["MailboxForAddress(var:name)", "GetMessage(canon,var:id)"], ["notFound"]),
    (["canon=ok", "GetMessage:notExist"], ["MailboxForAddress(var:name)", "GetMessage(canon,var:id)"], ["notFound"])]),
  ("MailboxMarkSeenV1", [
    (["canon=err"], ["MailboxForAddress(var:name)"], ["error"]),
    (["canon=ok", "seen=false"], ["MailboxForAddress(var:name)"], ["done"]),
    (["canon=ok", "seen=true", "MarkSeen:ioErr"], ["MailboxForAddress(var:name)", "MarkSeen(canon,var:id)"], ["error"]),
    (["canon=ok", "seen=true", "MarkSeen:notExist"], ["MailboxForAddress(var:name)", "MarkSeen(canon,var:id)"], ["notFound"]),
    (["canon=ok", "seen=true", "MarkSeen:ok"], ["MailboxForAddress(var:name)", "MarkSeen(canon,var:id)"], ["done"]),
    (["canon=ok"], ["MailboxForAddress(var:name)"], ["error"])]),
  ("MailboxPurgeV1", [
    (["canon=err"], ["MailboxForAddress(var:name)"], ["error"]),
    (["canon=ok", "PurgeMessages:ioErr"], ["MailboxForAddress(var:name)", "PurgeMessages(canon)"], ["error"]),
    (["canon=ok", "PurgeMessages:notExist"], ["MailboxForAddress(var:name)", "PurgeMessages(canon)"], ["error"]),
    (["canon=ok", "PurgeMessages:ok"], ["MailboxForAddress(var:name)", "PurgeMessages(canon)"], ["done"])]),
  ("MailboxSourceV1", [
    (["canon=err"], ["MailboxForAddress(var:name)"], ["error"]),
    (["canon=ok", "SourceReader:found"], ["MailboxForAddress(var:name)", "SourceReader(canon,var:id)"], ["done"]),
    (["canon=ok", "SourceReader:ioErr"], ["MailboxForAddress(var:name)", "SourceReader(canon,var:id)"], ["error"]),
    (["canon=ok", "SourceReader:nilnil"], ["MailboxForAddress(var:name)", "SourceReader(canon,var:id)"], ["notFound"]),
    (["canon=ok", "SourceReader:notExist"], ["MailboxForAddress(var:name)", "SourceReader(canon,var:id)"], ["notFound"])]),
  ("MailboxDeleteV1", [
    (["canon=err"], ["MailboxForAddress(var:name)"], ["error"]),
    (["canon=ok", "RemoveMessage:ioErr"], ["MailboxForAddress(var:name)", "RemoveMessage(canon,var:id)"], ["error"]),
    (["canon=ok", "RemoveMessage:notExist"], ["MailboxForAddress(var:name)", "RemoveMessage(canon,var:id)"], ["notFound"]),
    (["canon=ok", "RemoveMessage:ok"], ["MailboxForAddress(var:name)", "RemoveMessage(canon,var:id)"], ["done"])]),
  ("MailboxMessage", [
    (["canon=err"], ["MailboxForAddress(var:name)"], ["error"]),
    (["canon=ok", "GetMessage:found"], ["MailboxForAddress(var:name)", "GetMessage(canon,var:id)"], ["done"]),
    (["canon=ok", "GetMessage:ioErr"], ["MailboxForAddress(var:name)", "GetMessage(canon,var:id)"], ["error"]),
    (["canon=ok", "GetMessage:nilnil"], ["MailboxForAddress(var:name)", "GetMessage(canon,var:id)"], ["notFound"]),
    (["canon=ok", "GetMessage:notExist"], ["MailboxForAddress(var:name)", "GetMessage(canon,var:id)"], ["notFound"])]),
  ("MailboxHTML", [
    (["canon=err"], ["MailboxForAddress(var:name)"], ["error"]),
    (["canon=ok", "GetMessage:found"], ["MailboxForAddress(var:name)", "GetMessage(canon,var:id)"], ["done"]),
    (["canon=ok", "GetMessage:ioErr"], ["MailboxForAddress(var:name)", "GetMessage(canon,var:id)"], ["error"]),
    (["canon=ok", "GetMessage:nilnil"], ["MailboxForAddress(var:name)", "GetMessage(canon,var:id)"], ["panic"]),
    (["canon=ok", "GetMessage:notExist"], ["MailboxForAddress(var:name)", "GetMessage(canon,var:id)"], ["notFound"])]),
  ("MailboxSource", [
    (["canon=err"], ["MailboxForAddress(var:name)"], ["error"]),
    (["canon=ok", "SourceReader:found"], ["MailboxForAddress(var:name)", "SourceReader(canon,var:id)"], ["done"]),
    (["canon=ok", "SourceReader:ioErr"], ["MailboxForAddress(var:name)", "SourceReader(canon,var:id)"], ["error"]),
    (["canon=ok", "SourceReader:nilnil"], ["MailboxForAddress(var:name)", "SourceReader(canon,var:id)"], ["panic"]),
    (["canon=ok", "SourceReader:notExist"], ["MailboxForAddress(var:name)", "SourceReader(canon,var:id)"], ["notFound"])]),
  ("MailboxViewAttach", [
    (["canon=err"], ["MailboxForAddress(var:name)"], ["error"]),
    (["canon=ok", "GetMessage:found"], ["MailboxForAddress(var:name)", "GetMessage(canon,var:id)"], ["done", "error"]),
    (["canon=ok", "GetMessage:ioErr"], ["MailboxForAddress(var:name)", "GetMessage(canon,var:id)"], ["error"]),
    (["canon=ok", "GetMessage:nilnil"], ["MailboxForAddress(var:name)", "GetMessage(canon,var:id)"], ["panic"]),
    (["canon=ok", "GetMessage:notExist"], ["MailboxForAddress(var:name)", "GetMessage(canon,var:id)"], ["notFound"]),
    (["canon=ok"], ["MailboxForAddress(var:name)"], ["error"])])]

/-- MailboxMarkSeenV1 calls MarkSeen exactly on the paths where the decoded body's Seen is true -/
def seenRequiresFlag : Option Bool := some true

/-- the request body pkg/rest/client's MarkSeen hands to http.NewRequest (seenTrue = the JSON object {"seen":true}) -/
def clientMarkSeenBody : String := "seenTrue"

/-- request bodies of List, Get, MarkSeen, Source, Delete, Purge -/
def clientBodies : List String := ["none", "none", "seenTrue", "none", "none", "none"]

/-- HTTP method and URI of List, Get, MarkSeen, Source, Delete, Purge as they reach http.NewRequest: literal text, {QueryEscape:n} / {PathEscape:n} / {raw:n} = n-th string parameter -/
def clientEscapers : List String := ["GET /api/v1/mailbox/{QueryEscape:1}", "GET /api/v1/mailbox/{QueryEscape:1}/{raw:2}", "PATCH /api/v1/mailbox/{QueryEscape:1}/{raw:2}", "GET /api/v1/mailbox/{QueryEscape:1}/{raw:2}/source", "DELETE /api/v1/mailbox/{QueryEscape:1}/{raw:2}", "DELETE /api/v1/mailbox/{QueryEscape:1}"]

/-- how the request URL is built from the URI in every operation: JoinPath = <URL>.JoinPath(uri).String() -/
def clientJoin : String := "JoinPath"

end Ibx.Gen.Rest
