/- REGENERATED from /repo on every run by /verif/harness/cmd/extract — do not edit. -/
namespace Ibx.Gen.Rest

inductive Seg | lit (b : List Nat) | var
  deriving DecidableEq, Repr

/-- (handler function, route name, method, sub-router prefix, template) in registration order: FullAssembly registers webui then rest -/
def routes : Option (List (String × String × String × List Nat × List Seg)) := some [
  ("RootGreeting", "RootGreeting", "GET", [115, 101, 114, 118, 101], [.lit [103, 114, 101, 101, 116, 105, 110, 103]]),
  ("RootStatus", "RootStatus", "GET", [115, 101, 114, 118, 101], [.lit [115, 116, 97, 116, 117, 115]]),
  ("MailboxMessage", "MailboxMessage", "GET", [115, 101, 114, 118, 101], [.lit [109, 97, 105, 108, 98, 111, 120], .var, .var]),
  ("MailboxHTML", "MailboxHTML", "GET", [115, 101, 114, 118, 101], [.lit [109, 97, 105, 108, 98, 111, 120], .var, .var, .lit [104, 116, 109, 108]]),
  ("MailboxSource", "MailboxSource", "GET", [115, 101, 114, 118, 101], [.lit [109, 97, 105, 108, 98, 111, 120], .var, .var, .lit [115, 111, 117, 114, 99, 101]]),
  ("MailboxViewAttach", "MailboxViewAttach", "GET", [115, 101, 114, 118, 101], [.lit [109, 97, 105, 108, 98, 111, 120], .var, .var, .lit [97, 116, 116, 97, 99, 104], .var, .var]),
  ("MailboxListV1", "MailboxListV1", "GET", [97, 112, 105], [.lit [118, 49], .lit [109, 97, 105, 108, 98, 111, 120], .var]),
  ("MailboxPurgeV1", "MailboxPurgeV1", "DELETE", [97, 112, 105], [.lit [118, 49], .lit [109, 97, 105, 108, 98, 111, 120], .var]),
  ("MailboxShowV1", "MailboxShowV1", "GET", [97, 112, 105], [.lit [118, 49], .lit [109, 97, 105, 108, 98, 111, 120], .var, .var]),
  ("MailboxMarkSeenV1", "MailboxMarkSeenV1", "PATCH", [97, 112, 105], [.lit [118, 49], .lit [109, 97, 105, 108, 98, 111, 120], .var, .var]),
  ("MailboxDeleteV1", "MailboxDeleteV1", "DELETE", [97, 112, 105], [.lit [118, 49], .lit [109, 97, 105, 108, 98, 111, 120], .var, .var]),
  ("MailboxSourceV1", "MailboxSourceV1", "GET", [97, 112, 105], [.lit [118, 49], .lit [109, 97, 105, 108, 98, 111, 120], .var, .var, .lit [115, 111, 117, 114, 99, 101]]),
  ("MonitorAllMessagesV1", "MonitorAllMessagesV1", "GET", [97, 112, 105], [.lit [118, 49], .lit [109, 111, 110, 105, 116, 111, 114], .lit [109, 101, 115, 115, 97, 103, 101, 115]]),
  ("MonitorMailboxMessagesV1", "MonitorMailboxMessagesV1", "GET", [97, 112, 105], [.lit [118, 49], .lit [109, 111, 110, 105, 116, 111, 114], .lit [109, 101, 115, 115, 97, 103, 101, 115], .var]),
  ("MonitorAllMessagesV2", "MonitorAllMessagesV2", "GET", [97, 112, 105], [.lit [118, 50], .lit [109, 111, 110, 105, 116, 111, 114], .lit [109, 101, 115, 115, 97, 103, 101, 115]]),
  ("MonitorMailboxMessagesV2", "MonitorMailboxMessagesV2", "GET", [97, 112, 105], [.lit [118, 50], .lit [109, 111, 110, 105, 116, 111, 114], .lit [109, 101, 115, 115, 97, 103, 101, 115], .var])]

/-- (handler, MailboxForAddress-then-return-err dominates all Manager calls and feeds them, Manager calls, nilGuard, how ErrNotExist is answered) -/
def handlers : List (String × Bool × List String × String × String) := [
  ("MailboxListV1", true, ["GetMetadata"], "none", "none"),
  ("MailboxShowV1", true, ["GetMessage"], "guarded", "passNil"),
  ("MailboxMarkSeenV1", true, ["MarkSeen"], "none", "eq404"),
  ("MailboxPurgeV1", true, ["PurgeMessages"], "none", "none"),
  ("MailboxSourceV1", true, ["SourceReader"], "guarded", "passNil"),
  ("MailboxDeleteV1", true, ["RemoveMessage"], "none", "eq404"),
  ("MailboxMessage", true, ["GetMessage"], "guarded", "passNil"),
  ("MailboxHTML", true, ["GetMessage"], "unguarded", "eq404"),
  ("MailboxSource", true, ["SourceReader"], "unguarded", "eq404"),
  ("MailboxViewAttach", true, ["GetMessage"], "unguarded", "eq404")]

/-- MailboxMarkSeenV1 calls MarkSeen only under `if dm.Seen` -/
def seenRequiresFlag : Option Bool := some true

/-- the request body pkg/rest/client's MarkSeen sends -/
def clientMarkSeenBody : String := "seenTrue"

/-- escaping function and URI shape of List, Get, MarkSeen, Source, Delete, Purge -/
def clientEscapers : List String := ["QueryEscape:box", "QueryEscape:msg", "QueryEscape:msg", "QueryEscape:source", "QueryEscape:msg", "QueryEscape:box"]

/-- how restClient.do builds the request URL from the URI -/
def clientJoin : String := "JoinPath"

end Ibx.Gen.Rest
