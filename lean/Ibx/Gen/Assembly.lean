/- REGENERATED from /repo on every run by /verif/harness/cmd/extract — do not edit. -/
namespace Ibx.Gen.Assembly

/-- FullAssembly: every call of a component constructor / route set-up (sorted by callee, source order among equals), with the ORIGIN of each argument -/
def assemblyCalls : List (String × List String) := [("extension.NewHost", []), ("luahost.New", ["$0.Lua", "@extension.NewHost#1"]), ("msghub.New", ["$0.Web.MonitorHistory", "@extension.NewHost#1"]), ("pop3.NewServer", ["$0.POP3", "@storage.FromConfig#1"]), ("rest.SetupRoutes", ["web.Router.PathPrefix(@stringutil.MakePathPrefixer#1(\"/api/\")).Subrouter()"]), ("smtp.NewServer", ["$0.SMTP", "&message.StoreManager{AddrPolicy:&policy.Addressing{Config:$0}#1,ExtHost:@extension.NewHost#1,Store:@storage.FromConfig#1}#1", "&policy.Addressing{Config:$0}#1", "@extension.NewHost#1"]), ("storage.FromConfig", ["$0.Storage", "@extension.NewHost#1"]), ("storage.NewRetentionScanner", ["$0.Storage", "@storage.FromConfig#1"]), ("stringutil.MakePathPrefixer", ["$0.Web.BasePath"]), ("web.NewServer", ["$0", "&message.StoreManager{AddrPolicy:&policy.Addressing{Config:$0}#1,ExtHost:@extension.NewHost#1,Store:@storage.FromConfig#1}#1", "@msghub.New#1"]), ("webui.SetupRoutes", ["web.Router.PathPrefix(@stringutil.MakePathPrefixer#1(\"/serve/\")).Subrouter()"])]

/-- FullAssembly: the fields of the message.StoreManager literal, by origin -/
def managerLit : List (String × String) := [("AddrPolicy", "&policy.Addressing{Config:$0}#1"), ("ExtHost", "@extension.NewHost#1"), ("Store", "@storage.FromConfig#1")]

/-- FullAssembly: the fields of the policy.Addressing literal, by origin -/
def addressingLit : List (String × String) := [("Config", "$0")]

/-- FullAssembly: the fields of the Services literal, by origin; an unexported field appears as `~<its declared type>` -/
def servicesLit : List (String × String) := [("ExtHost", "@extension.NewHost#1"), ("LuaHost", "@luahost.New#1"), ("MsgHub", "@msghub.New#1"), ("POP3Server", "@pop3.NewServer#1"), ("RetentionScanner", "@storage.NewRetentionScanner#1"), ("SMTPServer", "@smtp.NewServer#1"), ("WebServer", "@web.NewServer#1"), ("~*sync.WaitGroup", "&sync.WaitGroup{}")]

/-- FullAssembly: writes through its parameter (the configuration is only read) -/
def assemblyParamWrites : List String := []

/-- Services.Start: the goroutines it starts (sorted), arguments by origin; `~readyFunc` = an unexported method that Add(1)s the *sync.WaitGroup field Start waits on and returns a function literal that calls that field's Done (through a sync.Once) -/
def startedServices : List String := ["$recv.MsgHub.Start($0)", "$recv.POP3Server.Start($0,$recv.~readyFunc())", "$recv.RetentionScanner.Start($0)", "$recv.SMTPServer.Start($0,$recv.~readyFunc())", "$recv.WebServer.Start($0,$recv.~readyFunc())"]

/-- the failure channels merged into Notify(): the receives of the select cases in the unexported helper(s) FullAssembly calls on the Services value it returns (sorted; $recv = that value) -/
def watchedServices : List String := ["$recv.POP3Server.Notify()", "$recv.SMTPServer.Notify()", "$recv.WebServer.Notify()"]

/-- FromConfig: the key the constructor table is indexed with (unique) -/
def fromConfigLookup : Option String := some "$0.Type"

/-- FromConfig: what the constructor found is called with (unique call) -/
def fromConfigCtorArgs : Option (List String) := some ["$0", "$1"]

/-- FromConfig: writes to its parameters (the configuration reaches the constructor untouched) -/
def fromConfigParamWrites : List String := []

/-- mem.New: the configuration items it reads -/
def memNewReads : List String := ["$0.MailboxMsgCap", "$0.Params[\"maxkb\"]"]

/-- mem.New: writes to its parameters -/
def memNewWrites : List String := []

/-- file.New: the configuration items it reads -/
def fileNewReads : List String := ["$0.MailboxMsgCap", "$0.Params[\"path\"]"]

/-- file.New: writes to its parameters -/
def fileNewWrites : List String := []

/-- the field DoScan subtracts from time.Now() for the cutoff is initialised by NewRetentionScanner from … -/
def scannerCutoffPeriodOrigin : List String := ["$0.RetentionPeriod"]

/-- the field DoScan sleeps for between mailboxes is initialised from … -/
def scannerSleepOrigin : List String := ["$0.RetentionSleep"]

/-- the field DoScan visits / removes through is initialised from … -/
def scannerStoreOrigin : List String := ["$1"]

/-- config.Process: the environment prefix handed to envconfig.Process -/
def envPrefix : String := "inbucket"

/-- config.Process: the fields of the Root being filled that go through stringutil.SliceToLower (sorted) -/
def loweredLists : List String := ["SMTP.AcceptDomains", "SMTP.DiscardDomains", "SMTP.RejectDomains", "SMTP.RejectOriginDomains", "SMTP.StoreDomains"]

/-- config.Process: LogLevel is replaced by its lower-case form -/
def logLevelLowered : Bool := true

/-- config.Root: every field of type []string (sorted) -/
def listFields : List String := ["SMTP.AcceptDomains", "SMTP.DiscardDomains", "SMTP.RejectDomains", "SMTP.RejectOriginDomains", "SMTP.StoreDomains"]

/-- config.Root: the `default:` tag of every field that has one, in declaration order -/
def defaults : List (String × String) := [("LogLevel", "info"), ("Lua.Path", "inbucket.lua"), ("MailboxNaming", "local"), ("SMTP.Addr", "0.0.0.0:2500"), ("SMTP.Domain", "inbucket"), ("SMTP.MaxRecipients", "200"), ("SMTP.MaxMessageBytes", "10240000"), ("SMTP.DefaultAccept", "true"), ("SMTP.DefaultStore", "true"), ("SMTP.Timeout", "300s"), ("SMTP.TLSEnabled", "false"), ("SMTP.TLSPrivKey", "cert.key"), ("SMTP.TLSCert", "cert.crt"), ("SMTP.ForceTLS", "false"), ("POP3.Addr", "0.0.0.0:1100"), ("POP3.Domain", "inbucket"), ("POP3.Timeout", "600s"), ("POP3.TLSEnabled", "false"), ("POP3.TLSPrivKey", "cert.key"), ("POP3.TLSCert", "cert.crt"), ("POP3.ForceTLS", "false"), ("Web.Addr", "0.0.0.0:9000"), ("Web.BasePath", ""), ("Web.UIDir", "ui/dist"), ("Web.GreetingFile", "ui/greeting.html"), ("Web.MonitorVisible", "true"), ("Web.MonitorHistory", "30"), ("Web.PProf", "false"), ("Storage.Type", "memory"), ("Storage.RetentionPeriod", "24h"), ("Storage.RetentionSleep", "50ms"), ("Storage.MailboxMsgCap", "500")]

/-- mbNaming.Decode: what the switch is on -/
def namingSwitchTag : Option String := some "strings.ToLower($0)"

/-- mbNaming.Decode: case literal -> the value stored through the receiver -/
def namingCases : List (String × String) := [("local", "LocalNaming"), ("full", "FullNaming"), ("domain", "DomainNaming")]

/-- mbNaming.Decode: the default branch returns a non-nil error -/
def namingDefaultIsError : Bool := true

/-- web.NewServer: the base path handed to MakePathPrefixer -/
def webPrefixArgs : List (String × List String) := [("stringutil.MakePathPrefixer", ["$0.Web.BasePath"])]

/-- web.NewServer: the package variables it sets, by origin -/
def webPackageVars : List (String × String) := [("manager", "$1"), ("msgHub", "$2"), ("rootConfig", "$0")]

/-- web.Server.Start: the Addr of the http.Server it builds (package variable rootConfig = NewServer's first parameter, see webPackageVars) -/
def webServerAddr : List String := ["rootConfig.Web.Addr"]

/-- smtp.NewServer: the parameters stored in the Server (sorted; `?x` = a parameter that was reassigned first) -/
def smtpServerKeeps : List String := ["$0", "$1", "$2", "$3"]

/-- pop3.NewServer: the parameters stored in the Server -/
def pop3ServerKeeps : List String := ["$0", "$1"]

/-- cmd/inbucket init(): storage.Constructors[key] = constructor (sorted by key) -/
def registeredConstructors : List (String × String) := [("file", "file.New"), ("memory", "mem.New")]

/-- cmd/inbucket main(): the configuration / assembly / start / cancel / drain calls in source order (repetitions collapsed) -/
def mainSequence : List String := ["config.Process", "server.FullAssembly(@config.Process#1)", "@server.FullAssembly#1.Start(@context.WithCancel#1)", "@context.WithCancel#1.1", "@server.FullAssembly#1.SMTPServer.Drain", "@server.FullAssembly#1.POP3Server.Drain", "@server.FullAssembly#1.RetentionScanner.Join"]

/-- cmd/inbucket main(): every way out of the loop around the select that receives from the signal.Notify channel / from services.Notify(), with `true` when on EVERY path leaving the loop that way the cancel function of the services' context (2nd result of context.WithCancel) is called — inside the loop before the break, or unconditionally right after the loop before the first Drain / Join call.  signal:<S> = the signal case when the received value is <S> (conditions on it evaluated: switch, if/else, guard-clause and De Morgan forms alike; S ranges over the signals handed to signal.Notify); notify = the services.Notify() case; anything not understood gives an entry no tie accepts -/
def mainLoopWays : List (String × Bool) := [("notify", true), ("signal:syscall.SIGINT", true), ("signal:syscall.SIGTERM", true)]

/-- cmd/inbucket main(): (ways out of the signal loop as listed in mainLoopWays, those on which the services' context is NOT cancelled) -/
def mainLoopExits : Nat × Nat := (3, 0)

/-- cmd/inbucket main(): the signals handed to signal.Notify (sorted) -/
def mainSignals : List String := ["syscall.SIGINT", "syscall.SIGTERM"]

/-- cmd/inbucket main(): the loop has a branch receiving from services.Notify() -/
def mainWatchesServiceFailure : Bool := true

/-- cmd/inbucket timedExit: how long a clean shutdown may take before the exit is forced -/
def timedExitSleep : String := "15 * time.Second"

end Ibx.Gen.Assembly
