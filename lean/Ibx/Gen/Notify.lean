/- REGENERATED from /repo on every run by /verif/harness/cmd/extract — do not edit. -/
namespace Ibx.Gen.Notify

/-- every close(<the field Notify() returns>) of package smtp, by position: start:beforeAcceptLoop (bind failure path, never reaches the go statement) | start:afterGo | start:onPathToGo | acceptLoop:fatalPath (default case of the select beside <-ctx.Done(), right after the send, then return) | acceptLoop:other | other | hidden | unknown:… -/
def smtp_notifyCloses : List String := ["acceptLoop:fatalPath", "start:beforeAcceptLoop", "start:beforeAcceptLoop"]

/-- every send on that field, classified the same way -/
def smtp_notifySends : List String := ["acceptLoop:fatalPath", "start:beforeAcceptLoop", "start:beforeAcceptLoop"]

/-- capacity the field is made with in the server's composite literal (none: not a make(chan …, <int literal>) there, or assigned elsewhere) -/
def smtp_notifyCap : Option Nat := some 1

/-- WaitGroup balance skeleton of the session goroutine (wrapper literal, then the session function, helpers inlined), in source order: add | deferDone (top-level defer running exactly one Done) | return | unknown:… -/
def smtp_sessionSkeleton : List String := ["deferDone", "add", "deferDone"]

/-- every close(<the field Notify() returns>) of package pop3, by position: start:beforeAcceptLoop (bind failure path, never reaches the go statement) | start:afterGo | start:onPathToGo | acceptLoop:fatalPath (default case of the select beside <-ctx.Done(), right after the send, then return) | acceptLoop:other | other | hidden | unknown:… -/
def pop3_notifyCloses : List String := ["acceptLoop:fatalPath", "start:beforeAcceptLoop", "start:beforeAcceptLoop"]

/-- every send on that field, classified the same way -/
def pop3_notifySends : List String := ["acceptLoop:fatalPath", "start:beforeAcceptLoop", "start:beforeAcceptLoop"]

/-- capacity the field is made with in the server's composite literal (none: not a make(chan …, <int literal>) there, or assigned elsewhere) -/
def pop3_notifyCap : Option Nat := some 1

/-- WaitGroup balance skeleton of the session goroutine (wrapper literal, then the session function, helpers inlined), in source order: add | deferDone (top-level defer running exactly one Done) | return | unknown:… -/
def pop3_sessionSkeleton : List String := ["deferDone"]

end Ibx.Gen.Notify
