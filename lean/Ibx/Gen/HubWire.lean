/- REGENERATED from /repo on every run by /verif/harness/cmd/extract — do not edit. -/
namespace Ibx.Gen.HubWire

/-- cases of the writer loop (the select, inside a for, reachable from WSWriter, that has a case receiving from the event queue) of the listener type of pkg/rest/socketv1_controller.go, sorted: queue = receive from the event queue, done = receive from the done channel, ticker = receive from <x>.C, default, other; unknown = no such loop or more than one -/
def writerSelectV1 : String := "done,queue,ticker"

/-- cases of the writer loop (the select, inside a for, reachable from WSWriter, that has a case receiving from the event queue) of the listener type of pkg/rest/socketv2_controller.go, sorted: queue = receive from the event queue, done = receive from the done channel, ticker = receive from <x>.C, default, other; unknown = no such loop or more than one -/
def writerSelectV2 : String := "done,queue,ticker"

/-- number of WebSocket message writes (WriteJSON / WriteMessage / WriteControl / WritePreparedMessage / NextWriter…Close on a *websocket.Conn) on EVERY path through the queue case of the writer loop (the select, inside a for, reachable from WSWriter, that has a case receiving from the event queue) of the listener type of pkg/rest/socketv1_controller.go, same-file helpers executed in place; none = paths differ, or a loop / goroutine / closure writes or receives, or the connection escapes -/
def writerQueueWritesV1 : Option Nat := some 1

/-- number of WebSocket message writes (WriteJSON / WriteMessage / WriteControl / WritePreparedMessage / NextWriter…Close on a *websocket.Conn) on EVERY path through the queue case of the writer loop (the select, inside a for, reachable from WSWriter, that has a case receiving from the event queue) of the listener type of pkg/rest/socketv2_controller.go, same-file helpers executed in place; none = paths differ, or a loop / goroutine / closure writes or receives, or the connection escapes -/
def writerQueueWritesV2 : Option Nat := some 1

/-- number of FURTHER receives from the event queue on every path through the queue case of the writer loop (the select, inside a for, reachable from WSWriter, that has a case receiving from the event queue) of the listener type of pkg/rest/socketv1_controller.go (the case's own receive not counted) -/
def writerQueueExtraRecvsV1 : Option Nat := some 0

/-- number of FURTHER receives from the event queue on every path through the queue case of the writer loop (the select, inside a for, reachable from WSWriter, that has a case receiving from the event queue) of the listener type of pkg/rest/socketv2_controller.go (the case's own receive not counted) -/
def writerQueueExtraRecvsV2 : Option Nat := some 0

/-- every message write in the queue case of the writer loop (the select, inside a for, reachable from WSWriter, that has a case receiving from the event queue) of the listener type of pkg/rest/socketv1_controller.go is WriteJSON of the value the case received (the variable, its address, or a one-argument same-file conversion of it) -/
def writerWritesReceivedV1 : Option Bool := some true

/-- every message write in the queue case of the writer loop (the select, inside a for, reachable from WSWriter, that has a case receiving from the event queue) of the listener type of pkg/rest/socketv2_controller.go is WriteJSON of the value the case received (the variable, its address, or a one-argument same-file conversion of it) -/
def writerWritesReceivedV2 : Option Bool := some true

/-- done case of the writer loop (the select, inside a for, reachable from WSWriter, that has a case receiving from the event queue) of the listener type of pkg/rest/socketv1_controller.go: closeThenReturn = every path writes exactly one message, of type websocket.CloseMessage, receives nothing from the queue and ends in return -/
def writerDoneBranchV1 : String := "closeThenReturn"

/-- done case of the writer loop (the select, inside a for, reachable from WSWriter, that has a case receiving from the event queue) of the listener type of pkg/rest/socketv2_controller.go: closeThenReturn = every path writes exactly one message, of type websocket.CloseMessage, receives nothing from the queue and ends in return -/
def writerDoneBranchV2 : String := "closeThenReturn"

/-- ticker case of the writer loop (the select, inside a for, reachable from WSWriter, that has a case receiving from the event queue) of the listener type of pkg/rest/socketv1_controller.go: pingFrame = every path writes exactly one message, of type websocket.PingMessage, and receives nothing from the queue -/
def writerTickBranchV1 : String := "pingFrame"

/-- ticker case of the writer loop (the select, inside a for, reachable from WSWriter, that has a case receiving from the event queue) of the listener type of pkg/rest/socketv2_controller.go: pingFrame = every path writes exactly one message, of type websocket.PingMessage, and receives nothing from the queue -/
def writerTickBranchV2 : String := "pingFrame"

/-- the error of every message write in the queue and ticker cases of the writer loop (the select, inside a for, reachable from WSWriter, that has a case receiving from the event queue) of the listener type of pkg/rest/socketv1_controller.go (and of every helper that writes and returns an error) is compared with nil by an if whose body ends in return, or is returned to such a caller; in the done case it may be discarded -/
def writerWriteErrorReturnsV1 : Option Bool := some true

/-- the error of every message write in the queue and ticker cases of the writer loop (the select, inside a for, reachable from WSWriter, that has a case receiving from the event queue) of the listener type of pkg/rest/socketv2_controller.go (and of every helper that writes and returns an error) is compared with nil by an if whose body ends in return, or is returned to such a caller; in the done case it may be discarded -/
def writerWriteErrorReturnsV2 : Option Bool := some true

/-- receive expressions from the event queue in pkg/rest/socketv1_controller.go (1 = the writer's select case is the only consumer) -/
def queueReceivesV1 : Option Nat := some 1

/-- receive expressions from the event queue in pkg/rest/socketv2_controller.go (1 = the writer's select case is the only consumer) -/
def queueReceivesV2 : Option Nat := some 1

/-- message writes on a websocket connection in pkg/rest/socketv1_controller.go that are not in one of the three cases of the writer loop (nor in a helper executed from there) -/
def writesOutsideWriterLoopV1 : Option Nat := some 0

/-- message writes on a websocket connection in pkg/rest/socketv2_controller.go that are not in one of the three cases of the writer loop (nor in a helper executed from there) -/
def writesOutsideWriterLoopV2 : Option Nat := some 0

end Ibx.Gen.HubWire
