/- REGENERATED from /repo on every run by /verif/harness/cmd/extract — do not edit. -/
namespace Ibx.Gen.SanFilter

/-- semantic summary of sanitize.HTML (html.go), unexported helpers inlined: the token loop L1, the attribute loop L2, then the policy; <sanitizeStyle> is the function of cssSem -/
def filterSem : List String := ["ret(L1) == nil => loop L1(); <membuf>.String(); o5.Sanitize(#String) -> return (#Sanitize, nil)", "ret(L1) != nil => loop L1() -> return (\"\", ret(L1))", "L1: ##Next == html.ErrorToken && ##Err == io.EOF => o6.Next(); o6.Err(); o7.Flush() -> return ##Flush", "L1: ##Next == html.ErrorToken && ##Err != io.EOF => o6.Next(); o6.Err() -> return ##Err", "L1: ##Next == html.SelfClosingTagToken && ##TagName.1 && ##Write.1 == nil => o6.Next(); o6.TagName(); loop L2(@@1 = \"<\" ++ ##TagName.0); o7.Write(L2.@@1 ++ \"/>\") -> next", "L1: ##Next == html.SelfClosingTagToken && ##TagName.1 && ##Write.1 != nil => o6.Next(); o6.TagName(); loop L2(@@1 = \"<\" ++ ##TagName.0); o7.Write(L2.@@1 ++ \"/>\") -> return ##Write.1", "L1: ##Next == html.SelfClosingTagToken && !##TagName.1 && ##Write.1 == nil => o6.Next(); o6.TagName(); o6.Raw(); o7.Write(##Raw) -> next", "L1: ##Next == html.SelfClosingTagToken && !##TagName.1 && ##Write.1 != nil => o6.Next(); o6.TagName(); o6.Raw(); o7.Write(##Raw) -> return ##Write.1", "L1: ##Next == html.StartTagToken && ##TagName.1 && ##Write.1 == nil => o6.Next(); o6.TagName(); loop L2(@@1 = \"<\" ++ ##TagName.0); o7.Write(L2.@@1 ++ \">\") -> next", "L1: ##Next == html.StartTagToken && ##TagName.1 && ##Write.1 != nil => o6.Next(); o6.TagName(); loop L2(@@1 = \"<\" ++ ##TagName.0); o7.Write(L2.@@1 ++ \">\") -> return ##Write.1", "L1: ##Next == html.StartTagToken && !##TagName.1 && ##Write.1 == nil => o6.Next(); o6.TagName(); o6.Raw(); o7.Write(##Raw) -> next", "L1: ##Next == html.StartTagToken && !##TagName.1 && ##Write.1 != nil => o6.Next(); o6.TagName(); o6.Raw(); o7.Write(##Raw) -> return ##Write.1", "L1: ##Next notin {html.ErrorToken, html.SelfClosingTagToken, html.StartTagToken} && ##Write.1 == nil => o6.Next(); o6.Raw(); o7.Write(##Raw) -> next", "L1: ##Next notin {html.ErrorToken, html.SelfClosingTagToken, html.StartTagToken} && ##Write.1 != nil => o6.Next(); o6.Raw(); o7.Write(##Raw) -> return ##Write.1", "L2: ###TagAttr.2 && <sanitizeStyle>(###TagAttr.1) == \"\" && strings.ToLower(###TagAttr.0) == \"style\" => o6.TagAttr() -> next", "L2: ###TagAttr.2 && <sanitizeStyle>(###TagAttr.1) == \"\" && strings.ToLower(###TagAttr.0) != \"style\" => o6.TagAttr(); @@1 := @@1 ++ \" \" ++ ###TagAttr.0 ++ \"=\\\"\" ++ html.EscapeString(###TagAttr.1) ++ \"\\\"\" -> next", "L2: ###TagAttr.2 && <sanitizeStyle>(###TagAttr.1) != \"\" && strings.ToLower(###TagAttr.0) == \"style\" => o6.TagAttr(); @@1 := @@1 ++ \" \" ++ ###TagAttr.0 ++ \"=\\\"\" ++ html.EscapeString(<sanitizeStyle>(###TagAttr.1)) ++ \"\\\"\" -> next", "L2: ###TagAttr.2 && <sanitizeStyle>(###TagAttr.1) != \"\" && strings.ToLower(###TagAttr.0) != \"style\" => o6.TagAttr(); @@1 := @@1 ++ \" \" ++ ###TagAttr.0 ++ \"=\\\"\" ++ html.EscapeString(###TagAttr.1) ++ \"\\\"\" -> next", "L2: !###TagAttr.2 && <sanitizeStyle>(###TagAttr.1) == \"\" && strings.ToLower(###TagAttr.0) == \"style\" => o6.TagAttr() -> exit", "L2: !###TagAttr.2 && <sanitizeStyle>(###TagAttr.1) == \"\" && strings.ToLower(###TagAttr.0) != \"style\" => o6.TagAttr(); @@1 := @@1 ++ \" \" ++ ###TagAttr.0 ++ \"=\\\"\" ++ html.EscapeString(###TagAttr.1) ++ \"\\\"\" -> exit", "L2: !###TagAttr.2 && <sanitizeStyle>(###TagAttr.1) != \"\" && strings.ToLower(###TagAttr.0) == \"style\" => o6.TagAttr(); @@1 := @@1 ++ \" \" ++ ###TagAttr.0 ++ \"=\\\"\" ++ html.EscapeString(<sanitizeStyle>(###TagAttr.1)) ++ \"\\\"\" -> exit", "L2: !###TagAttr.2 && <sanitizeStyle>(###TagAttr.1) != \"\" && strings.ToLower(###TagAttr.0) != \"style\" => o6.TagAttr(); @@1 := @@1 ++ \" \" ++ ###TagAttr.0 ++ \"=\\\"\" ++ html.EscapeString(###TagAttr.1) ++ \"\\\"\" -> exit", "o1 = bluemonday.UGCPolicy()", "o2 = o1.AllowElements(\"center\")", "o3 = o2.AllowAttrs(\"style\")", "o4 = o3.Matching(regexp.MustCompile(\".*\"))", "o5 = o4.Globally()", "o6 = html.NewTokenizer(strings.NewReader($1))", "o7 = bufio.NewWriter(<membuf>)", "import bluemonday = github.com/microcosm-cc/bluemonday", "import bufio = bufio", "import html = golang.org/x/net/html", "import io = io", "import regexp = regexp", "import strings = strings"]

/-- the x/net/html tokenizer constructors sanitize.HTML reaches, as importpath.Name/arity -/
def filterTokenizerCtors : List String := ["golang.org/x/net/html.NewTokenizer/1"]

/-- methods called on a tokenizer so constructed, anywhere under sanitize.HTML, sorted (an option setter — AllowCDATA, NextIsNotRawText, SetMaxBuf — would appear here) -/
def filterTokenizerMethods : List String := ["Err", "Next", "Raw", "TagAttr", "TagName"]

/-- every x/net/html NewTokenizer… call of bluemonday's sanitize.go, as importpath.Name/arity -/
def policyTokenizerCtors : List String := ["golang.org/x/net/html.NewTokenizer/1"]

/-- methods called in bluemonday's sanitize.go on a variable defined by such a call, sorted -/
def policyTokenizerMethods : List String := ["Err", "Next", "Token"]

/-- version of golang.org/x/net selected by the repository's go.mod -/
def xnetVersion : String := "v0.29.0"

/-- exported methods of x/net/html *Tokenizer (token.go), sorted: the option setters among them are AllowCDATA, NextIsNotRawText, SetMaxBuf -/
def tokenizerMethods : List String := ["AllowCDATA", "Buffered", "Err", "Next", "NextIsNotRawText", "Raw", "SetMaxBuf", "TagAttr", "TagName", "Text", "Token"]

/-- exported functions of token.go returning *Tokenizer, sorted -/
def tokenizerCtors : List String := ["NewTokenizer", "NewTokenizerFragment"]

/-- arguments of the startTagIn calls in readStartTag: the elements whose content the tokenizer reads as raw text, sorted -/
def tokenizerRawTags : List String := ["iframe", "noembed", "noframes", "noscript", "plaintext", "script", "style", "textarea", "title", "xmp"]

/-- the constant escapedChars of x/net/html escape.go, as bytes -/
def escapedChars : List Nat := [38, 39, 60, 62, 34, 13]

/-- `case c: esc = s` clauses of x/net/html escape(), in source order, as "c->s" -/
def escapeCases : List String := ["'&'->&amp;", "'\\''->&#39;", "'<'->&lt;", "'>'->&gt;", "'\"'->&#34;", "'\\r'->&#13;"]

end Ibx.Gen.SanFilter
