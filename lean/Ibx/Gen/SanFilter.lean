/- REGENERATED from /repo on every run by /verif/harness/cmd/extract — do not edit. -/
namespace Ibx.Gen.SanFilter

/-- imports of html.go, sorted (`html` must be golang.org/x/net/html, whose EscapeString escapes six bytes) -/
def htmlImports : List String := ["bufio", "bytes", "github.com/microcosm-cc/bluemonday", "golang.org/x/net/html", "io", "regexp", "strings"]

/-- every html.NewTokenizer…(…) call of styleTagFilter -/
def filterTokenizerCtors : List String := ["html.NewTokenizer(r)"]

/-- methods called on the tokenizer `z` in styleTagFilter, sorted (an option setter — AllowCDATA, NextIsNotRawText, SetMaxBuf — would appear here) -/
def filterTokenizerMethods : List String := ["Err", "Next", "Raw", "TagAttr", "TagName"]

/-- case lists of `switch tt` in styleTagFilter, in source order -/
def filterCases : List String := ["html.ErrorToken", "html.StartTagToken,html.SelfClosingTagToken", "default"]

/-- body of styleTagFilter, printed with single spaces -/
def filterSrc : String := "{ bw := bufio.NewWriter(w) b := make([]byte, 0, 256) z := html.NewTokenizer(r) for { b = b[:0] tt := z.Next() switch tt { case html.ErrorToken: err := z.Err() if err == io.EOF { return bw.Flush() } return err case html.StartTagToken, html.SelfClosingTagToken: name, hasAttr := z.TagName() if !hasAttr { if _, err := bw.Write(z.Raw()); err != nil { return err } continue } b = append(b, '<') b = append(b, name...) for { key, val, more := z.TagAttr() strval := string(val) style := false if strings.ToLower(string(key)) == \"style\" { style = true strval = sanitizeStyle(strval) } if !style || strval != \"\" { b = append(b, ' ') b = append(b, key...) b = append(b, '=', '\"') b = append(b, []byte(html.EscapeString(strval))...) b = append(b, '\"') } if !more { break } } if tt == html.SelfClosingTagToken { b = append(b, '/') } if _, err := bw.Write(append(b, '>')); err != nil { return err } default: if _, err := bw.Write(z.Raw()); err != nil { return err } } } }"

/-- results of the return statements of sanitizeStyleTags -/
def sanitizeStyleTagsReturns : List String := ["\"\",err", "b.String(),nil"]

/-- every html.NewTokenizer…(…) call of bluemonday's sanitize.go -/
def policyTokenizerCtors : List String := ["html.NewTokenizer(r)"]

/-- methods called on `tokenizer` in the bluemonday function(s) constructing one, sorted -/
def policyTokenizerMethods : List String := ["Err", "Next", "Token"]

/-- version of golang.org/x/net selected by the repository's go.mod -/
def xnetVersion : String := "v0.29.0"

/-- exported methods of x/net/html *Tokenizer (token.go), sorted: the option setters among them are AllowCDATA, NextIsNotRawText, SetMaxBuf -/
def tokenizerMethods : List String := ["AllowCDATA", "Buffered", "Err", "Next", "NextIsNotRawText", "Raw", "SetMaxBuf", "TagAttr", "TagName", "Text", "Token"]

/-- exported functions of token.go returning *Tokenizer, sorted -/
def tokenizerCtors : List String := ["NewTokenizer", "NewTokenizerFragment"]

/-- arguments of z.startTagIn in readStartTag: the elements whose content the tokenizer reads as raw text, sorted -/
def tokenizerRawTags : List String := ["iframe", "noembed", "noframes", "noscript", "plaintext", "script", "style", "textarea", "title", "xmp"]

/-- the constant escapedChars of x/net/html escape.go, as bytes -/
def escapedChars : List Nat := [38, 39, 60, 62, 34, 13]

/-- `case c: esc = s` clauses of x/net/html escape(), in source order, as "c->s" -/
def escapeCases : List String := ["'&'->&amp;", "'\\''->&#39;", "'<'->&lt;", "'>'->&gt;", "'\"'->&#34;", "'\\r'->&#13;"]

end Ibx.Gen.SanFilter
