/- REGENERATED from /repo on every run by /verif/harness/cmd/extract — do not edit. -/
namespace Ibx.Gen.Lua

/-- one control-flow path of a function after inlining the package's own helpers.
    conds: what must hold (sorted); effects: the calls / stores that matter, in execution order; ret: what is returned
    (`-` = nothing, `?…` = a shape the extractor does not understand).
    Names: $recv / $0 / $1 = receiver and parameters; S = the state handed out by the pool's get; `fn->T(…)` = a helper of
    the package that is not inlined, named by its result types (`.err` = its error result); `<T>` = the receiver's unexported
    field of type T (`<free>` = the pool's free list); get / put / new / flush = the pool's methods, found by what they do. -/
structure Path where
  conds : List String
  effects : List String
  ret : String
  deriving DecidableEq, Repr

/-- a listener registered with AddListener: the slot tested for non-nil in front of the registration, the event broker,
    and what the registered method does -/
structure Listener where
  slot : String            -- `<inbucket>.A.B != nil` guarding the registration
  event : String           -- Events.<event>.AddListener
  fn : String              -- slot passed as Fn of lua.P to CallByParam
  nret : Option Nat
  protect : Bool           -- every Lua entry of every path is CallByParam with Protect: true (and there is one)
  deferPut : Bool          -- on every path `defer put(S)` comes before the first call on S
  gets : Nat               -- pool gets on a path (max)
  puts : Nat               -- pool puts on a path (max)
  paths : List Path
  deriving DecidableEq, Repr

/-- every AddListener call of the package, sorted by slot -/
def listeners : List Listener := [
  { slot := "After.MessageDeleted", event := "AfterMessageDeleted", fn := "After.MessageDeleted", nret := some 0, protect := true, deferPut := true, gets := 1, puts := 1,
    paths := [
    { conds := ["(S.err != nil)"], effects := ["get()"], ret := "-" },
    { conds := ["(S.err == nil)", "(fn->*Inbucket(S).err != nil)"], effects := ["get()", "fn->*Inbucket(S)"], ret := "-" },
    { conds := ["(S.err == nil)", "(fn->*Inbucket(S).err == nil)"], effects := ["get()", "fn->*Inbucket(S)", "defer put(S)", "S.CallByParam(gopher-lua.P{Fn: fn->*Inbucket(S).After.MessageDeleted, NRet: 0, Protect: true}, fn->*gopher-lua.LUserData(S, &$0))"], ret := "-" }] },
  { slot := "After.MessageStored", event := "AfterMessageStored", fn := "After.MessageStored", nret := some 0, protect := true, deferPut := true, gets := 1, puts := 1,
    paths := [
    { conds := ["(S.err != nil)"], effects := ["get()"], ret := "-" },
    { conds := ["(S.err == nil)", "(fn->*Inbucket(S).err != nil)"], effects := ["get()", "fn->*Inbucket(S)"], ret := "-" },
    { conds := ["(S.err == nil)", "(fn->*Inbucket(S).err == nil)"], effects := ["get()", "fn->*Inbucket(S)", "defer put(S)", "S.CallByParam(gopher-lua.P{Fn: fn->*Inbucket(S).After.MessageStored, NRet: 0, Protect: true}, fn->*gopher-lua.LUserData(S, &$0))"], ret := "-" }] },
  { slot := "Before.MailFromAccepted", event := "BeforeMailFromAccepted", fn := "Before.MailFromAccepted", nret := some 1, protect := true, deferPut := true, gets := 1, puts := 1,
    paths := [
    { conds := ["(S.CallByParam(..) != nil)", "(S.err == nil)", "(fn->*Inbucket(S).err == nil)"], effects := ["get()", "fn->*Inbucket(S)", "defer put(S)", "S.CallByParam(gopher-lua.P{Fn: fn->*Inbucket(S).Before.MailFromAccepted, NRet: 1, Protect: true}, fn->*gopher-lua.LUserData(S, &$0))"], ret := "nil" },
    { conds := ["(S.CallByParam(..) == nil)", "(S.err == nil)", "(fn->*Inbucket(S).err == nil)"], effects := ["get()", "fn->*Inbucket(S)", "defer put(S)", "S.CallByParam(gopher-lua.P{Fn: fn->*Inbucket(S).Before.MailFromAccepted, NRet: 1, Protect: true}, fn->*gopher-lua.LUserData(S, &$0))", "S.Get(-1)", "S.Pop(1)", "fn->*event.SMTPResponse(S.Get(-1))"], ret := "fn->*event.SMTPResponse(S.Get(-1))" },
    { conds := ["(S.err != nil)"], effects := ["get()"], ret := "nil" },
    { conds := ["(S.err == nil)", "(fn->*Inbucket(S).err != nil)"], effects := ["get()", "fn->*Inbucket(S)"], ret := "nil" }] },
  { slot := "Before.MessageStored", event := "BeforeMessageStored", fn := "Before.MessageStored", nret := some 1, protect := true, deferPut := true, gets := 1, puts := 1,
    paths := [
    { conds := ["!gopher-lua.LVIsFalse(S.Get(-1))", "(S.CallByParam(..) == nil)", "(S.err == nil)", "(fn->*Inbucket(S).err == nil)"], effects := ["get()", "fn->*Inbucket(S)", "defer put(S)", "S.CallByParam(gopher-lua.P{Fn: fn->*Inbucket(S).Before.MessageStored, NRet: 1, Protect: true}, fn->*gopher-lua.LUserData(S, &$0))", "S.Get(-1)", "S.Pop(1)", "fn->*event.InboundMessage(S.Get(-1))"], ret := "fn->*event.InboundMessage(S.Get(-1))" },
    { conds := ["(S.CallByParam(..) != nil)", "(S.err == nil)", "(fn->*Inbucket(S).err == nil)"], effects := ["get()", "fn->*Inbucket(S)", "defer put(S)", "S.CallByParam(gopher-lua.P{Fn: fn->*Inbucket(S).Before.MessageStored, NRet: 1, Protect: true}, fn->*gopher-lua.LUserData(S, &$0))"], ret := "nil" },
    { conds := ["(S.CallByParam(..) == nil)", "(S.err == nil)", "(fn->*Inbucket(S).err == nil)", "gopher-lua.LVIsFalse(S.Get(-1))"], effects := ["get()", "fn->*Inbucket(S)", "defer put(S)", "S.CallByParam(gopher-lua.P{Fn: fn->*Inbucket(S).Before.MessageStored, NRet: 1, Protect: true}, fn->*gopher-lua.LUserData(S, &$0))", "S.Get(-1)", "S.Pop(1)"], ret := "nil" },
    { conds := ["(S.err != nil)"], effects := ["get()"], ret := "nil" },
    { conds := ["(S.err == nil)", "(fn->*Inbucket(S).err != nil)"], effects := ["get()", "fn->*Inbucket(S)"], ret := "nil" }] },
  { slot := "Before.RcptToAccepted", event := "BeforeRcptToAccepted", fn := "Before.RcptToAccepted", nret := some 1, protect := true, deferPut := true, gets := 1, puts := 1,
    paths := [
    { conds := ["(S.CallByParam(..) != nil)", "(S.err == nil)", "(fn->*Inbucket(S).err == nil)"], effects := ["get()", "fn->*Inbucket(S)", "defer put(S)", "S.CallByParam(gopher-lua.P{Fn: fn->*Inbucket(S).Before.RcptToAccepted, NRet: 1, Protect: true}, fn->*gopher-lua.LUserData(S, &$0))"], ret := "nil" },
    { conds := ["(S.CallByParam(..) == nil)", "(S.err == nil)", "(fn->*Inbucket(S).err == nil)"], effects := ["get()", "fn->*Inbucket(S)", "defer put(S)", "S.CallByParam(gopher-lua.P{Fn: fn->*Inbucket(S).Before.RcptToAccepted, NRet: 1, Protect: true}, fn->*gopher-lua.LUserData(S, &$0))", "S.Get(-1)", "S.Pop(1)", "fn->*event.SMTPResponse(S.Get(-1))"], ret := "fn->*event.SMTPResponse(S.Get(-1))" },
    { conds := ["(S.err != nil)"], effects := ["get()"], ret := "nil" },
    { conds := ["(S.err == nil)", "(fn->*Inbucket(S).err != nil)"], effects := ["get()", "fn->*Inbucket(S)"], ret := "nil" }] }]

/-- Lua entry points anywhere in the package that are not protected calls (CallByParam without a literal Protect: true, Call, DoString, DoFile, Resume) -/
def unprotectedCalls : List String := []

/-- Lua entries of the package: each CallByParam call site once per listener whose paths go through it (helpers looked through), and once if no listener reaches it -/
def callByParamSites : Nat := 5

/-- (Lua name, slot of the Inbucket struct): `inbucket.<k1>.<k2> = f` stores f (CheckFunction(3)) in that slot — from the __index / __newindex functions -/
def luaNames : List (String × String) := [("after.message_deleted", "After.MessageDeleted"), ("after.message_stored", "After.MessageStored"), ("before.mail_from_accepted", "Before.MailFromAccepted"), ("before.message_stored", "Before.MessageStored"), ("before.rcpt_to_accepted", "Before.RcptToAccepted")]

/-- __index of the `inbucket` global: (key, field of Inbucket whose address is wrapped and pushed) -/
def inbucketIndex : List (String × String) := [("after", "After"), ("before", "Before")]

/-- the functions func(lua.LValue) (*event.T, error): (T, paths) -/
def unwraps : List (String × List Path) := [
  ("*event.InboundMessage", [
    { conds := ["!is($0, *gopher-lua.LUserData)"], effects := [], ret := "nil, <error>" },
    { conds := ["!is($0.(*gopher-lua.LUserData).Value, *event.InboundMessage)", "is($0, *gopher-lua.LUserData)"], effects := [], ret := "nil, <error>" },
    { conds := ["is($0, *gopher-lua.LUserData)", "is($0.(*gopher-lua.LUserData).Value, *event.InboundMessage)"], effects := [], ret := "$0.(*gopher-lua.LUserData).Value.(*event.InboundMessage), nil" }]),
  ("*event.SMTPResponse", [
    { conds := ["!is($0, *gopher-lua.LUserData)"], effects := [], ret := "nil, <error>" },
    { conds := ["!is($0.(*gopher-lua.LUserData).Value, *event.SMTPResponse)", "is($0, *gopher-lua.LUserData)"], effects := [], ret := "nil, <error>" },
    { conds := ["is($0, *gopher-lua.LUserData)", "is($0.(*gopher-lua.LUserData).Value, *event.SMTPResponse)"], effects := [], ret := "$0.(*gopher-lua.LUserData).Value.(*event.SMTPResponse), nil" }])]

/-- the closure that builds smtp.allow / defer / deny results ($o0 = the action it was made for) -/
def smtpCtor : List Path := [
    { conds := ["($o0 != event.ActionDeny)"], effects := ["$0.Push(fn->*gopher-lua.LUserData($0, &event.SMTPResponse{Action: $o0}))"], ret := "1" },
    { conds := ["($o0 == event.ActionDeny)"], effects := ["$0.OptInt(1, 550)", "&event.SMTPResponse{Action: $o0}.ErrorCode := $0.OptInt(1, 550)", "$0.OptString(2, \"Mail denied by policy\")", "&event.SMTPResponse{Action: $o0}.ErrorMsg := $0.OptString(2, \"Mail denied by policy\")", "$0.Push(fn->*gopher-lua.LUserData($0, &event.SMTPResponse{Action: $o0}))"], ret := "1" }]

/-- n of `.ErrorCode = S.OptInt(1, n)`, executed only when the action is ActionDeny -/
def denyCode : Option Nat := some 550

/-- s of `.ErrorMsg = S.OptString(2, s)`, executed only when the action is ActionDeny -/
def denyMsg : Option String := some "Mail denied by policy"

/-- the pool method with role `get` -/
def poolGet : List Path := [
    { conds := ["(len($recv.<free>) != 0)"], effects := ["$recv.Lock()", "defer $recv.Unlock()", "$recv.<free> := $recv.<free>[:(len($recv.<free>) - 1)]"], ret := "$recv.<free>[(len($recv.<free>) - 1)], nil" },
    { conds := ["(len($recv.<free>) == 0)"], effects := ["$recv.Lock()", "defer $recv.Unlock()", "new()"], ret := "N, N.err" }]

/-- the pool method with role `put` -/
def poolPut : List Path := [
    { conds := ["!$0.IsClosed()"], effects := ["$0.IsClosed()", "$0.GetTop()", "$0.Pop($0.GetTop())", "$recv.Lock()", "defer $recv.Unlock()", "$recv.<free> := append($recv.<free>, $0)"], ret := "-" },
    { conds := ["$0.IsClosed()"], effects := ["$0.IsClosed()"], ret := "-" }]

/-- the pool method with role `flush` -/
def poolFlush : List Path := [
    { conds := [], effects := ["$recv.Lock()", "defer $recv.Unlock()", "$recv.<map[string]chan gopher-lua.LValue>[$0] := make(chan gopher-lua.LValue, 10)", "loop $recv.<free> { [] |- [each($recv.<free>).Close()] => next }", "$recv.<free> := $recv.<free>[:0]"], ret := "make(chan gopher-lua.LValue, 10)" }]

/-- other functions of the package (verif_* files excluded) that touch the free list -/
def otherStatesUsers : List String := []

/-- functions not reachable from a listener that call the pool's get / put: (exported name or `fn`, gets, puts) -/
def poolSitesOutsideListeners : List (String × Nat × Nat) := [("NewFromReader", 1, 1)]

/-- EventBroker.Emit -/
def emit : List Path := [
    { conds := [], effects := ["$recv.RLock()", "defer $recv.RUnlock()", "loop $recv.<[]func> { [(each($recv.<[]func>)(*$0) != nil)] |- [each($recv.<[]func>)(*$0)] => return each($recv.<[]func>)(*$0) | [(each($recv.<[]func>)(*$0) == nil)] |- [each($recv.<[]func>)(*$0)] => next }"], ret := "nil" }]

/-- (event, verdict) for every listener that takes an event.MessageMetadata: `detached` = before the value is wrapped for Lua its From is replaced by a pointer to a copy and its To by a fresh slice of pointers to copies (inline or in a helper called with its address); `shared` = neither is touched; else `unknown:…` -/
def afterHandlersDetach : List (String × String) := [("AfterMessageDeleted", "detached"), ("AfterMessageStored", "detached")]

/-- an __index / __newindex function of a userdata: the Go type its first argument must hold (anything else ends in
    ArgError iff selfChecked), and per Lua key (`*` = the default branch) the extra conditions and what is done; `#` = the Go object -/
structure FieldTable where
  obj : String
  kind : String
  selfChecked : Bool
  rows : List (String × List String × String)
  deriving DecidableEq, Repr

/-- the index / newindex functions of the message_metadata, address, inbucket.after and inbucket.before userdata -/
def fieldTables : List FieldTable := [
  { obj := "*InbucketAfterFuncs", kind := "index", selfChecked := true,
    rows := [
      ("*", [], "$0.Push(gopher-lua.LNil) => 1"),
      ("message_deleted", [], "$0.Push(fn->gopher-lua.LValue(#.MessageDeleted)) => 1"),
      ("message_stored", [], "$0.Push(fn->gopher-lua.LValue(#.MessageStored)) => 1")] },
  { obj := "*InbucketAfterFuncs", kind := "newindex", selfChecked := true,
    rows := [
      ("*", [], "$0.RaiseError(\"invalid inbucket.after index %q\", $0.CheckString(2)) => 0"),
      ("message_deleted", [], "$0.CheckFunction(3); #.MessageDeleted := $0.CheckFunction(3) => 0"),
      ("message_stored", [], "$0.CheckFunction(3); #.MessageStored := $0.CheckFunction(3) => 0")] },
  { obj := "*InbucketBeforeFuncs", kind := "index", selfChecked := true,
    rows := [
      ("*", [], "$0.Push(gopher-lua.LNil) => 1"),
      ("mail_from_accepted", [], "$0.Push(fn->gopher-lua.LValue(#.MailFromAccepted)) => 1"),
      ("message_stored", [], "$0.Push(fn->gopher-lua.LValue(#.MessageStored)) => 1"),
      ("rcpt_to_accepted", [], "$0.Push(fn->gopher-lua.LValue(#.RcptToAccepted)) => 1")] },
  { obj := "*InbucketBeforeFuncs", kind := "newindex", selfChecked := true,
    rows := [
      ("*", [], "$0.RaiseError(\"invalid inbucket.before index %q\", $0.CheckString(2)) => 0"),
      ("mail_from_accepted", [], "$0.CheckFunction(3); #.MailFromAccepted := $0.CheckFunction(3) => 0"),
      ("message_stored", [], "$0.CheckFunction(3); #.MessageStored := $0.CheckFunction(3) => 0"),
      ("rcpt_to_accepted", [], "$0.CheckFunction(3); #.RcptToAccepted := $0.CheckFunction(3) => 0")] },
  { obj := "*event.MessageMetadata", kind := "index", selfChecked := true,
    rows := [
      ("*", [], "$0.Push(gopher-lua.LNil) => 1"),
      ("date", [], "$0.Push(gopher-lua.LNumber(#.Date.Unix())) => 1"),
      ("from", [], "$0.Push(fn->*gopher-lua.LUserData($0, #.From)) => 1"),
      ("id", [], "$0.Push(gopher-lua.LString(#.ID)) => 1"),
      ("mailbox", [], "$0.Push(gopher-lua.LString(#.Mailbox)) => 1"),
      ("size", [], "$0.Push(gopher-lua.LNumber(#.Size)) => 1"),
      ("subject", [], "$0.Push(gopher-lua.LString(#.Subject)) => 1"),
      ("to", [], "loop #.To { [] |- [] => next }; $0.Push(&gopher-lua.LTable{}) => 1")] },
  { obj := "*event.MessageMetadata", kind := "newindex", selfChecked := true,
    rows := [
      ("*", [], "$0.RaiseError(\"invalid index %q\", $0.CheckString(2)) => 0"),
      ("date", [], "$0.CheckInt64(3); #.Date := time.Unix($0.CheckInt64(3), 0) => 0"),
      ("from", ["!is($0.CheckUserData(3).Value, *mail.Address)"], "$0.CheckUserData(3); $0.ArgError(1, (\"address\" + \" expected\")); #.From := nil => 0"),
      ("from", ["is($0.CheckUserData(3).Value, *mail.Address)"], "$0.CheckUserData(3); #.From := $0.CheckUserData(3).Value.(*mail.Address) => 0"),
      ("id", [], "$0.CheckString(3); #.ID := $0.CheckString(3) => 0"),
      ("mailbox", [], "$0.CheckString(3); #.Mailbox := $0.CheckString(3) => 0"),
      ("size", [], "$0.CheckInt64(3); #.Size := $0.CheckInt64(3) => 0"),
      ("subject", [], "$0.CheckString(3); #.Subject := $0.CheckString(3) => 0"),
      ("to", [], "$0.CheckTable(3); #.To := make([]*mail.Address, 0, 16) => 0")] },
  { obj := "*mail.Address", kind := "index", selfChecked := true,
    rows := [
      ("*", [], "$0.Push(gopher-lua.LNil) => 1"),
      ("address", [], "$0.Push(gopher-lua.LString(#.Address)) => 1"),
      ("name", [], "$0.Push(gopher-lua.LString(#.Name)) => 1")] },
  { obj := "*mail.Address", kind := "newindex", selfChecked := true,
    rows := [
      ("*", [], "$0.RaiseError(\"invalid index %q\", $0.CheckString(2)) => 0"),
      ("address", [], "$0.CheckString(3); #.Address := $0.CheckString(3) => 0"),
      ("name", [], "$0.CheckString(3); #.Name := $0.CheckString(3) => 0")] }]

/-- what the ForEach closure of message_metadata's `to` assignment does with the table entries -/
def toAssignForEach : String := "skip-non-addresses"

/-- message_metadata.new: the function(s) of the package that build an event.MessageMetadata literal -/
def newMetaCtor : String := "[] |- [$0.Push(fn->*gopher-lua.LUserData($0, &event.MessageMetadata{}))] => 1"

end Ibx.Gen.Lua
