/- REGENERATED from /repo on every run by /verif/harness/cmd/extract — do not edit. -/
namespace Ibx.Gen.Lua

structure Handler where
  goName : String
  luaName : String         -- argument of prepareInbucketFuncCall (first statement)
  notOkReturns : Bool      -- second statement: if !ok { return [nil] }
  deferPut : Bool          -- third statement: defer h.pool.putState(ls)
  fn : String              -- Fn of the lua.P literal
  nret : Option Nat
  protect : Bool
  errReturnsNil : Bool     -- the err != nil branch of CallByParam ends with return nil
  getTopPop : Bool         -- lval := ls.Get(-1); ls.Pop(1)
  lvIsFalse : Bool         -- if lua.LVIsFalse(lval) { return nil }
  unwrap : String          -- result, err := <unwrap>(lval)
  returnsResult : Bool     -- last statement: return result
  gets : Nat               -- direct calls of h.pool.getState in the body
  puts : Nat               -- calls of h.pool.putState in the body
  deriving DecidableEq, Repr

/-- wireFunctions: (function slot tested for non-nil, event broker, listener registered), in source order -/
def wired : List (String × String × String) := [("ib.After.MessageDeleted", "AfterMessageDeleted", "handleAfterMessageDeleted"), ("ib.After.MessageStored", "AfterMessageStored", "handleAfterMessageStored"), ("ib.Before.MailFromAccepted", "BeforeMailFromAccepted", "handleBeforeMailFromAccepted"), ("ib.Before.MessageStored", "BeforeMessageStored", "handleBeforeMessageStored"), ("ib.Before.RcptToAccepted", "BeforeRcptToAccepted", "handleBeforeRcptToAccepted")]

/-- every method of Host whose name starts with `handle`, in source order -/
def handlers : List Handler := [
  { goName := "handleAfterMessageDeleted", luaName := "after.message_deleted", notOkReturns := true, deferPut := true, fn := "ib.After.MessageDeleted", nret := some 0, protect := true, errReturnsNil := false, getTopPop := false, lvIsFalse := false, unwrap := "", returnsResult := false, gets := 0, puts := 1 },
  { goName := "handleAfterMessageStored", luaName := "after.message_stored", notOkReturns := true, deferPut := true, fn := "ib.After.MessageStored", nret := some 0, protect := true, errReturnsNil := false, getTopPop := false, lvIsFalse := false, unwrap := "", returnsResult := false, gets := 0, puts := 1 },
  { goName := "handleBeforeMailFromAccepted", luaName := "before.mail_from_accepted", notOkReturns := true, deferPut := true, fn := "ib.Before.MailFromAccepted", nret := some 1, protect := true, errReturnsNil := true, getTopPop := true, lvIsFalse := false, unwrap := "unwrapSMTPResponse", returnsResult := true, gets := 0, puts := 1 },
  { goName := "handleBeforeRcptToAccepted", luaName := "before.rcpt_to_accepted", notOkReturns := true, deferPut := true, fn := "ib.Before.RcptToAccepted", nret := some 1, protect := true, errReturnsNil := true, getTopPop := true, lvIsFalse := false, unwrap := "unwrapSMTPResponse", returnsResult := true, gets := 0, puts := 1 },
  { goName := "handleBeforeMessageStored", luaName := "before.message_stored", notOkReturns := true, deferPut := true, fn := "ib.Before.MessageStored", nret := some 1, protect := true, errReturnsNil := true, getTopPop := true, lvIsFalse := true, unwrap := "unwrapInboundMessage", returnsResult := true, gets := 0, puts := 1 }]

/-- statements of prepareInbucketFuncCall (whitespace-normalised) -/
def prepare : List String := ["logger = h.logContext.Logger().With().Str(\"event\", funcName).Logger()", "ls, err := h.pool.getState()", "if err != nil { logger.Error().Err(err).Msg(\"Failed to get Lua state instance from pool\") return logger, nil, nil, false }", "ib, err = getInbucket(ls)", "if err != nil { logger.Error().Err(err).Msg(\"Failed to obtain Lua inbucket object\") return logger, nil, nil, false }", "return logger, ls, ib, true"]

/-- Lua entry points in lua.go / pool.go that are not protected calls (CallByParam without Protect: true, Call, DoString, DoFile) -/
def unprotectedCalls : List String := []

/-- __newindex of inbucket.before / inbucket.after: (Lua name, function slot of the Inbucket struct assigned with CheckFunction) -/
def luaNames : List (String × String) := [("before.mail_from_accepted", "ib.Before.MailFromAccepted"), ("before.message_stored", "ib.Before.MessageStored"), ("before.rcpt_to_accepted", "ib.Before.RcptToAccepted"), ("after.message_deleted", "ib.After.MessageDeleted"), ("after.message_stored", "ib.After.MessageStored")]

/-- cases of the __index of the `inbucket` global -/
def inbucketIndex : List String := ["\"after\" => ls.Push(wrapInbucketAfter(ls, &ib.After))", "\"before\" => ls.Push(wrapInbucketBefore(ls, &ib.Before))"]

/-- unwrapSMTPResponse: types asserted (in order), and the final statement (failure result) -/
def unwrapResponse : List String × String := (["*lua.LUserData", "*event.SMTPResponse"], "return nil, fmt.Errorf(...)")

/-- unwrapInboundMessage: types asserted (in order), and the final statement (failure result) -/
def unwrapInbound : List String × String := (["*lua.LUserData", "*event.InboundMessage"], "return nil, fmt.Errorf(...)")

/-- newSMTPResponse: statements executed only for ActionDeny -/
def denyDefaults : List String := ["val.ErrorCode = ls.OptInt(1, 550)", "val.ErrorMsg = ls.OptString(2, \"Mail denied by policy\")"]

/-- statements of statePool.getState -/
def getState : List String := ["lp.Lock()", "defer lp.Unlock()", "ln := len(lp.states)", "if ln == 0 { return lp.newState() }", "state := lp.states[ln-1]", "lp.states = lp.states[0 : ln-1]", "return state, nil"]

/-- statements of statePool.putState -/
def putState : List String := ["if state.IsClosed() { return }", "state.Pop(state.GetTop())", "lp.Lock()", "defer lp.Unlock()", "lp.states = append(lp.states, state)"]

/-- statements of statePool.createChannel -/
def createChannel : List String := ["lp.Lock()", "defer lp.Unlock()", "ch := make(chan lua.LValue, 10)", "lp.channels[name] = ch", "for _, s := range lp.states { s.Close() }", "lp.states = lp.states[:0]", "return ch"]

/-- other functions of pool.go that touch the free list -/
def otherStatesUsers : List String := []

/-- functions of lua.go other than the handlers that call getState / putState: (name, gets, puts) -/
def poolSitesOutsideHandlers : List (String × Nat × Nat) := [("NewFromReader", 1, 1), ("prepareInbucketFuncCall", 1, 0)]

/-- statements of EventBroker.Emit -/
def emit : List String := ["eb.RLock()", "defer eb.RUnlock()", "for _, l := range eb.listenerFuncs { if result := l(*event); result != nil { return result } }", "return nil"]

end Ibx.Gen.Lua
