/- REGENERATED from /repo on every run by /verif/harness/cmd/extract — do not edit. -/
namespace Ibx.Gen.SmtpConc

/-- the functions of pkg/server/smtp counted as session code: what the go statement of the accept loop runs and everything that reaches, every method of the session type, every method of a package type session code builds a value of (empty = the roles were not found) -/
def sessionFunctions : List String := ["NewSession", "Server.startSession", "Session.String", "Session.dataHandler", "Session.enterState", "Session.extSession", "Session.greet", "Session.greetHandler", "Session.loginHandler", "Session.mailHandler", "Session.nextDeadline", "Session.ooSeq", "Session.parseArgs", "Session.parseCmd", "Session.parseMailFromCmd", "Session.passwordHandler", "Session.readDataBlock", "Session.readLine", "Session.readyHandler", "Session.reset", "Session.send", "State.String", "logHook.Run", "parseHelloArgument"]

/-- every package-level variable of pkg/server/smtp with a verdict: regexp | readOnlyTable | constant | metricWriteOnly | notReachedFromSessions | unknown (see harness/cmd/extract/smtpconc.go) -/
def pkgVars : List (String × String) := [("commands", "readOnlyTable"), ("connectsHist", "notReachedFromSessions"), ("deliveredHist", "notReachedFromSessions"), ("errorsHist", "notReachedFromSessions"), ("expConnectsCurrent", "metricWriteOnly"), ("expConnectsHist", "notReachedFromSessions"), ("expConnectsTotal", "metricWriteOnly"), ("expErrorsHist", "notReachedFromSessions"), ("expErrorsTotal", "metricWriteOnly"), ("expReceivedHist", "notReachedFromSessions"), ("expReceivedTotal", "metricWriteOnly"), ("expWarnsHist", "notReachedFromSessions"), ("expWarnsTotal", "metricWriteOnly"), ("fromRegex", "regexp"), ("warnsHist", "notReachedFromSessions")]

/-- the fields the one composite literal of the session type sets, with where each value comes from: server | param | fresh | config | const | pkgvar:<name> | unknown (none = no / several literals) -/
def sessionInit : Option (List (String × String)) := some [("Server", "server"), ("conn", "param"), ("debug", "config"), ("id", "param"), ("logger", "param"), ("reader", "fresh"), ("recipients", "fresh"), ("remoteHost", "fresh"), ("state", "const"), ("text", "fresh")]

/-- fields of the server type that are assigned outside the server constructor AND mentioned in session code (none = no / several literals of the server type) -/
def serverFieldsSharedMutable : Option (List String) := some []

/-- select statements, channel receives / sends and go statements in session code -/
def sessionChanOps : Option Nat := some 0

/-- session code has a context.Context parameter or mentions an identifier ctx / context / Context -/
def sessionReachesCtx : Option Bool := some false

/-- the methods session code calls on the server's message.Manager field, sorted; `<escapes>` = the field is used otherwise than as the receiver of a call (none = no such field) -/
def sessionManagerCalls : Option (List String) := some ["Deliver"]

end Ibx.Gen.SmtpConc
