/- REGENERATED from /repo on every run by /verif/harness/cmd/extract — do not edit. -/
namespace Ibx.Gen.Addr

/-- bytes of the one literal whose membership the raw address parser (the 3-result function ExtractMailbox calls with its parameter: parseEmailAddress) tests with strings.IndexByte — the specials copied unquoted -/
def specials : Option (List Nat) := some [33, 35, 36, 37, 38, 39, 42, 43, 45, 47, 61, 63, 94, 95, 96, 123, 124, 125, 126]

/-- bytes of the one literal whose membership the mailbox-name parser (the function ExtractMailbox calls with result 0 of the raw parser: parseMailboxName) tests with strings.IndexByte -/
def nameSpecials : Option (List Nat) := some [33, 35, 36, 37, 38, 39, 42, 43, 45, 61, 47, 63, 94, 95, 96, 46, 123, 124, 125, 126]

/-- raw address parser: the one comparison of len(parameter) with an integer (operator, bound) -/
def maxAddr : Option (String × Nat) := some (">", 320)

/-- raw address parser: the one `>` comparison of the index of the loop over the parameter with an integer (local-part length, index of the unquoted '@') -/
def maxLocal : Option (String × Nat) := some (">", 128)

/-- ValidateDomainPart: the one `len(parameter) > N` (a local holding len(parameter) counts as len(parameter)) -/
def maxDomain : Option (String × Nat) := some (">", 255)

/-- ValidateDomainPart: the one `len(parameter) >= N` (minimum length of a bracketed IP literal) -/
def minBracket : Option (String × Nat) := some (">=", 4)

/-- ValidateDomainPart: the one comparison of the label-length counter (the local that is ++'ed and reset to 0) with an integer -/
def maxLabel : Option (String × Nat) := some (">", 63)

end Ibx.Gen.Addr
