/- REGENERATED from /repo on every run by /verif/harness/cmd/extract — do not edit. -/
namespace Ibx.Gen.Addr

/-- bytes of the literal `parseEmailAddress` passes to strings.IndexByte (copied unquoted) -/
def specials : Option (List Nat) := some [33, 35, 36, 37, 38, 39, 42, 43, 45, 47, 61, 63, 94, 95, 96, 123, 124, 125, 126]

/-- bytes of the literal `parseMailboxName` passes to strings.IndexByte -/
def nameSpecials : Option (List Nat) := some [33, 35, 36, 37, 38, 39, 42, 43, 45, 61, 47, 63, 94, 95, 96, 46, 123, 124, 125, 126]

/-- address length test in parseEmailAddress -/
def maxAddr : Option (String × Nat) := some (">", 320)

/-- local-part length test in parseEmailAddress (index of the unquoted '@') -/
def maxLocal : Option (String × Nat) := some (">", 128)

/-- domain length test in ValidateDomainPart -/
def maxDomain : Option (String × Nat) := some (">", 255)

/-- minimum length of a bracketed IP-literal domain -/
def minBracket : Option (String × Nat) := some (">=", 4)

/-- label length test in ValidateDomainPart -/
def maxLabel : Option (String × Nat) := some (">", 63)

end Ibx.Gen.Addr
