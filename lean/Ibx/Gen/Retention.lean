/- REGENERATED from /repo on every run by /verif/harness/cmd/extract — do not edit. -/
namespace Ibx.Gen.Retention

/-- right-hand side of `cutoff :=` in DoScan -/
def cutoffExpr : Option String := some "time.Now().Add(-1 * rs.retentionPeriod)"

/-- how DoScan calls VisitMailboxes -/
def visitCall : String := "err := rs.ds.VisitMailboxes"

/-- the statement right after the VisitMailboxes call -/
def visitErrCheck : Option String := some "if err != nil { return err }"

/-- the loop of the callback over its argument -/
def rangeLoop : Option String := some "for _, msg := range messages"

/-- condition of the `if` whose then-branch calls RemoveMessage -/
def removeGuard : Option String := some "msg.Date().Before(cutoff)"

/-- the RemoveMessage call of the callback -/
def removeCall : Option String := some "rs.ds.RemoveMessage(msg.Mailbox(), msg.ID())"

/-- number of RemoveMessage calls in the callback -/
def removeCalls : Nat := 1

/-- a RemoveMessage call in the else branch (messages not before the cutoff) -/
def removeInElse : Bool := false

/-- non-logging statements executed when RemoveMessage returns an error -/
def removeErrBranch : String := "err != nil => []"

/-- every return statement of the callback as value@select-case -/
def callbackReturns : List String := ["false@<-ctx.Done()", "true@-"]

/-- every select of DoScan: (has a ctx.Done case, body of that case without logging, the other cases) -/
def doScanSelects : List (Bool × String × String) := [(true, "return false", "<-time.After(rs.retentionSleep)")]

/-- blocking operations of DoScan outside a select (receive, send, Sleep, Wait, Lock) -/
def doScanBareBlocking : List String := []

/-- every select of Start -/
def startSelects : List (Bool × String × String) := [(true, "break retentionLoop", "<-time.After(dur)"), (true, "break retentionLoop", "default")]

/-- blocking operations of Start outside a select -/
def startBareBlocking : List String := []

/-- condition of the first `if` of Start -/
def disableCond : Option String := some "rs.retentionPeriod <= 0"

/-- its body without logging -/
def disableBody : String := "close(rs.retentionShutdown); return"

/-- statements of retentionLoop -/
def loopShape : List String := ["since := time.Since(start)", "if since < time.Minute", "start = time.Now()", "scan", "select"]

/-- the test that makes the loop wait -/
def throttleCond : String := "since < time.Minute"

/-- number of DoScan calls in Start -/
def startScanCalls : Nat := 1

end Ibx.Gen.Retention
