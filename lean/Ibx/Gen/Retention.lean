/- REGENERATED from /repo on every run by /verif/harness/cmd/extract — do not edit. -/
namespace Ibx.Gen.Retention

/-- DoScan, its visitor callback, Start and Join were found and contain no goto / fallthrough / type switch (the path conditions below are then exact) -/
def flowRecognised : Bool := true

/-- the value the removal guard compares dates with, followed through locals / helper parameters: nowMinusPeriod = time.Now().Add(e) with e one of -1*f, f*-1, -f for a scanner field f; nowPlusPeriod = Add(f); unknown -/
def cutoffShape : String := "nowMinusPeriod"

/-- that time.Now() is evaluated once per DoScan, outside the visitor callback -/
def cutoffAtScanLevel : Bool := true

/-- the field f of the cutoff is the field the constructor initialises from <config>.RetentionPeriod -/
def cutoffIsConfigPeriod : Bool := true

/-- calls of VisitMailboxes in DoScan (unexported helpers followed) -/
def visitCalls : Nat := 1

/-- DoScan returns the error VisitMailboxes returned, under exactly the condition `that error != nil` (or returns the call itself) -/
def visitErrPropagated : Bool := true

/-- rangeOverSnapshot: the unique RemoveMessage call sits in exactly one loop, a `range` with a value variable over the callback's own parameter, reached unconditionally -/
def sweepLoop : String := "rangeOverSnapshot"

/-- statements in the body of that loop that leave it (return, break out of it, goto, continue of an outer loop) -/
def sweepLoopExits : Nat := 0

/-- the whole path condition of the RemoveMessage call inside the loop body, if it is one Before/After comparison of <loop message>.Date() with the cutoff: dateBeforeCutoff (d.Before(c) or c.After(d)) | dateNotAfterCutoff | dateAfterCutoff | dateNotBeforeCutoff | unknown -/
def removeGuard : String := "dateBeforeCutoff"

/-- RemoveMessage calls in DoScan and its callback (unexported helpers followed) -/
def removeCalls : Nat := 1

/-- EVERY method of the visited store (the scanner field VisitMailboxes is called on; local aliases and unexported helpers followed) that DoScan and its visitor callback call, as (method, number of call sites, guard), sorted by method; guard: once = reached unconditionally outside every loop | removeGuard = the site described by sweepLoop / removeGuard / removeArgs (inside the range loop over the snapshot, under exactly the date comparison) | always | conditional (":loop" appended inside a loop) | mixed; a use of the store that is not the receiver of a method call appears as ("<escapes>", n, "-") -/
def storeCalls : List (String × Nat × String) := [("RemoveMessage", 1, "removeGuard"), ("VisitMailboxes", 1, "once")]

/-- RemoveMessage is called on the same scanner field VisitMailboxes is called on -/
def removeOnVisitedStore : Bool := true

/-- mailboxAndIdOfLoopMessage: the arguments are (<loop message>.Mailbox(), <loop message>.ID()) -/
def removeArgs : String := "mailboxAndIdOfLoopMessage"

/-- what is reachable under `RemoveMessage's error != nil`: logOnly (logging chains, plain continue) | ignored | leavesLoop | returns | other | unknown -/
def removeErrEffect : String := "logOnly"

/-- the set of return statements of the callback as value@where, where = plain (unconditional) | ctxDoneCase (directly in a select case receiving from <context.Context parameter>.Done()) | otherCase | defaultCase | conditional -/
def callbackReturns : List String := ["false@ctxDoneCase", "true@plain"]

/-- every blocking operation of DoScan and its callback: (kind, what the ctx.Done() case does, the other cases); kind = select | recv | send | sleep | wgWait | lock | join; sleepField = the field initialised from <config>.RetentionSleep -/
def doScanWaits : List (String × String × List String) := [("select", "returnFalse", ["timeAfter:sleepField"])]

/-- every blocking operation of Start, in order; breakLoop = a break labelled with Start's outermost loop; minuteMinusSince = time.Minute - time.Since(x) -/
def startWaits : List (String × String × List String) := [("select", "breakLoop", ["timeAfter:minuteMinusSince"]), ("select", "breakLoop", ["default"])]

/-- the relation to literal 0 under which Start leaves before its loop: leZero | ltZero | eqZero | unknown -/
def disableCond : String := "leZero"

/-- the field of that test is the field initialised from <config>.RetentionPeriod -/
def disableIsConfigPeriod : Bool := true

/-- what Start does under that condition, logging ignored: closeJoinChanThenReturn (close of the channel field Join receives from, then return) | returnWithoutClose | unknown -/
def disablePath : String := "closeJoinChanThenReturn"

/-- loops in Start -/
def startLoops : Nat := 1

/-- Start's loop has no condition -/
def loopInfinite : Bool := true

/-- the unconditional steps of one turn of Start's loop in order (logging, pure local definitions, select-case bodies and the scan's error branch left out): since = x := time.Since(..) | throttleWait = a select under one condition | stamp = <stamp> = time.Now() | scan = DoScan(<ctx parameter>) | poll = unconditional select with default | wait | other -/
def loopOrder : List String := ["since", "throttleWait", "stamp", "scan", "poll"]

/-- sinceStampLtMinute: the throttle select is entered iff time.Since(<stamp>) < time.Minute, <stamp> being a local set to time.Now() before the loop and re-set only by the `stamp` step -/
def throttleGuard : String := "sinceStampLtMinute"

/-- what Start does with DoScan's error: logOnly | ignored | leavesLoop | returns | other | unknown -/
def scanErrEffect : String := "logOnly"

/-- DoScan calls in Start -/
def startScanCalls : Nat := 1

/-- closeJoinChan: after the loop Start only logs and closes the channel field Join receives from -/
def afterLoop : String := "closeJoinChan"

/-- close(<that field>) calls in Start, deferred ones included -/
def closesOfJoinChan : Nat := 2

/-- blocking operations of Join: recvField = a receive from a scanner field (the Join channel) -/
def joinWaits : List String := ["recvField"]

end Ibx.Gen.Retention
