/- REGENERATED from /repo on every run by /verif/harness/cmd/extract — do not edit. -/
namespace Ibx.Gen.FileStore

/-- fields of `type Store struct` (fstore.go) as (name, kind); kind = map | slice | chan | plain -/
def storeFields : List (String × String) := [("hashLock", "plain"), ("path", "plain"), ("mailPath", "plain"), ("messageCap", "plain"), ("bufReaderPool", "plain"), ("extHost", "plain")]

/-- "no" iff no Store field is a map / slice / channel and no field type mentions mbox or Message -/
def storeHasCache : String := "no"

/-- "fresh" iff (*Store).mbox and (*Store).mboxFromHash both end in `return &mbox{…}` setting neither messages nor indexLoaded -/
def mboxPerCall : String := "fresh"

/-- per function: a top-level `if !mb.indexLoaded { … mb.readIndex() … }` precedes the first use of mb.messages -/
def loadsIndexFirst : List (String × Bool) := [("getMessages", true), ("getMessage", true), ("removeMessage", true), ("newMessage", true), ("MarkSeen", true), ("PurgeMessages", true)]

/-- "truncates" iff the first statement of mbox.readIndex is `mb.messages = mb.messages[:0]` -/
def readIndexResets : String := "truncates"

/-- mbox.writeIndex: "tempThenRename" = os.Create(mb.indexPath + lit) … os.Rename(tmp, mb.indexPath); "createInPlace" = os.Create(mb.indexPath), no rename -/
def fileIndexWrite : String := "tempThenRename"

/-- "yes" iff mbox.writeIndex is `if len(mb.messages) > 0 { … } else { … return mb.removeDir() }` -/
def writeIndexEmptyRemovesDir : String := "yes"

/-- mbox.removeDir: "indexFirst" = os.Remove(mb.indexPath) before os.RemoveAll(mb.path); "removeAll" = only os.RemoveAll(mb.path) -/
def fileRemoveDir : String := "indexFirst"

/-- last statement of Store.MarkSeen -/
def markSeenNotFound : String := "errNotExist"

/-- last statement of mbox.getMessage -/
def getNotFound : String := "errNotExist"

/-- mbox.removeMessage: `if msg == nil { return … }` -/
def removeNotFound : String := "errNotExist"

/-- newMessage: `if cap > 0 { for len(mb.messages) >= cap { id := mb.messages[0].ID(); mb.removeMessage(id) } }` before generateID -/
def capLoopShape : String := "evictFirstBeforeAdd"

/-- newMessage: is the drawn id compared with the ids already in the mailbox index (`for mb.hasID(id) { id = generateID(..) }`) -/
def fileIdCollisionCheck : String := "skipsExisting"

/-- generateID = generatePrefix(date) + "-" + Sprintf("%04d", <-countChannel); layout 20060102T150405 (one-second resolution); process-wide counter i = (i + 1) % 10000 started from 0 in init() -/
def idGenerator : String := "secondPlusCounterMod10000"

end Ibx.Gen.FileStore
