/- REGENERATED from /repo on every run by /verif/harness/cmd/extract — do not edit. -/
namespace Ibx.Gen.FileStore

/-- the kinds (map | slice | chan | plain) that occur among the fields of `type Store struct`, sorted, without duplicates -/
def storeFields : List String := ["plain"]

/-- "no" iff no Store field type contains a map / slice / channel type or names a type declared in package file (the mailbox struct, Message, …) -/
def storeHasCache : String := "no"

/-- "fresh" iff every composite literal of the mailbox struct (the struct embedding sync.RWMutex) in the package is keyed and sets neither its message list (only slice field) nor its loaded flag (only bool field) -/
def mboxPerCall : String := "fresh"

/-- per exported Store method that touches the message list (helpers inlined): on every path the first touch comes after `if !<loaded flag> { <loader>() }` (any equivalent layout, e.g. a helper `if <flag> { return nil }; return <loader>()`) or after an unconditional call of the loader; the loader is the function that sets the flag to true -/
def loadsIndexFirst : List (String × Bool) := [("AddMessage", true), ("GetMessage", true), ("GetMessages", true), ("MarkSeen", true), ("PurgeMessages", true), ("RemoveMessage", true), ("VisitMailboxes", true)]

/-- "truncates" iff the first top-level statement of the index loader that touches the message list is `<list> = <list>[:0]` (or `= nil`) -/
def readIndexResets : String := "truncates"

/-- the index writer (the function calling os.Rename, else the one creating dir/index.gob), helpers inlined: "tempThenRename" = the only file it creates is dir/index.gob<suffix> and os.Rename(<that file>, dir/index.gob) follows; "createInPlace" = it creates dir/index.gob itself, no rename -/
def fileIndexWrite : String := "tempThenRename"

/-- "yes" iff the index writer is one two-way test of len(<message list>) against 0 whose [empty] side only unlinks / os.RemoveAll(dir)s (the directory remover) and whose [nonempty] side removes nothing -/
def writeIndexEmptyRemovesDir : String := "yes"

/-- the function calling os.RemoveAll: "indexFirst" = os.Remove(dir/index.gob) before the only os.RemoveAll(dir); "removeAll" = no unlink of the index before it -/
def fileRemoveDir : String := "indexFirst"

/-- Store.MarkSeen: the answer when the search loop over the message list (in the method or a helper it calls) matches nothing — the return guarded by the found-marker test right after the loop, or the final return the loop falls through to; "errNotExist" = storage.ErrNotExist (other results nil), "nil" = all nil -/
def markSeenNotFound : String := "errNotExist"

/-- Store.GetMessage: the answer when the search loop over the message list (in the method or a helper it calls) matches nothing — the return guarded by the found-marker test right after the loop, or the final return the loop falls through to; "errNotExist" = storage.ErrNotExist (other results nil), "nil" = all nil -/
def getNotFound : String := "errNotExist"

/-- Store.RemoveMessage: the answer when the search loop over the message list (in the method or a helper it calls) matches nothing — the return guarded by the found-marker test right after the loop, or the final return the loop falls through to; "errNotExist" = storage.ErrNotExist (other results nil), "nil" = all nil -/
def removeNotFound : String := "errNotExist"

/-- the message constructor (the function building `Message{… Fid: id …}`): "evictFirstBeforeAdd" iff before the id is drawn there is a `for` loop whose condition, together with the `if`s around it, is exactly { len(<list>) >= C, C > 0 } (folded into the loop condition or not), without break / return, whose body passes <list>[0].ID() to a package function that rewrites the index -/
def capLoopShape : String := "evictFirstBeforeAdd"

/-- the message constructor: "skipsExisting" = the variable that becomes Fid is drawn by a package function G and then re-drawn by `for <has>(id) { … id = G(..) … }` (no break / return) where <has> is `for _, m := range <list> { if m.Fid == id { return true } }; return false`; "none" = one draw, no loop after it -/
def fileIdCollisionCheck : String := "skipsExisting"

/-- how the method asked by the re-draw loop of the message constructor looks an id up in the loaded index: "linearScan" = `for _, m := range <recv>.<list> { if m.Fid == id { return true } }; return false` (whole list, equality on the id field, true exactly there, false after the loop) or slices.ContainsFunc / slices.IndexFunc(…) >= 0 over <recv>.<list> with that equality; "binarySearchAssumingSorted" = it calls sort.Search / sort.Find / slices.BinarySearch(Func); "unknown" = anything else -/
def hasIDSearch : String := "linearScan"

/-- the loop after the first draw of the message constructor: its condition is <recv>.<has>(id), a method of the constructor's own receiver (the mailbox whose index was loaded) asked about the id variable; its body assigns the id variable only from the generator function and has no break / return; the Message{… Fid: id …} literal is returned after the loop with the id variable untouched in between; the loader has run before the first draw (directly or through one package helper); there is no other loop after the first draw -/
def redrawLoop : List (String × Bool) := [("condIsHasIDOfReceiver", true), ("bodyRedrawsThroughGenerator", true), ("returnsLoopId", true), ("indexLoadedBefore", true), ("noOtherLoopAfterDraw", true)]

/-- the function G that draws Fid is `return P(t) + "-" + fmt.Sprintf("%04d", <-CH)` with P = `return t.Format("20060102T150405")` (one-second resolution) and CH a package-level `chan int` fed by a package function `for i := 0; ; i = (i + 1) % 10000 { c <- i }` that an init() starts with `go`: a process-wide counter that restarts at 0 with the process -/
def idGenerator : String := "secondPlusCounterMod10000"

end Ibx.Gen.FileStore
