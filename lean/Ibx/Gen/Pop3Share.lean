/- REGENERATED from /repo on every run by /verif/harness/cmd/extract — do not edit. -/
namespace Ibx.Gen.Pop3Share

/-- the functions of pkg/server/pop3 counted as session code: what the go statement of the accept loop runs and everything that reaches, every method of the session type, every method of a package type session code builds a value of (empty = the roles were not found) -/
def sessionFunctions : List String := ["NewSession", "Server.startSession", "Session.String", "Session.authorizationHandler", "Session.enterState", "Session.loadMailbox", "Session.nextDeadline", "Session.ooSeq", "Session.parseCmd", "Session.processDeletes", "Session.readLine", "Session.reset", "Session.retainAll", "Session.send", "Session.sendMessage", "Session.sendMessageTop", "Session.transactionHandler", "State.String"]

/-- every package-level variable of pkg/server/pop3 with a verdict: regexp | readOnlyTable | constant | metricWriteOnly | notReachedFromSessions | unknown (see harness/cmd/extract/smtpconc.go) -/
def pkgVars : List (String × String) := [("commands", "readOnlyTable")]

/-- the fields the one composite literal of the session type sets, with where each value comes from: server | param | fresh | config | const | pkgvar:<name> | unknown (none = no / several literals) -/
def sessionInit : Option (List (String × String)) := some [("Server", "server"), ("conn", "param"), ("debug", "config"), ("id", "param"), ("logger", "param"), ("reader", "fresh"), ("remoteHost", "fresh"), ("state", "const")]

/-- fields of the server type that are assigned outside the server constructor AND mentioned in session code (none = no / several literals of the server type) -/
def serverFieldsSharedMutable : Option (List String) := some ["tlsState"]

/-- select statements, channel receives / sends and go statements in session code -/
def sessionChanOps : Option Nat := some 0

/-- session code has a context.Context parameter or mentions an identifier ctx / context / Context -/
def sessionReachesCtx : Option Bool := some false

/-- the methods session code calls on the server's message.Manager field, sorted; `<escapes>` = the field is used otherwise than as the receiver of a call (none = no such field) -/
def sessionManagerCalls : Option (List String) := none

end Ibx.Gen.Pop3Share
