/- REGENERATED from /repo on every run by /verif/harness/cmd/extract — do not edit. -/
namespace Ibx.Gen.Conc

/-- mem store.go: are s.enforcerDeliver / s.enforcerRemove called inside a closure passed to s.withMailbox ("insideLock") or only outside ("outsideLock") -/
def memEnforcerCallSite : String := "outsideLock"

/-- maxSizeEnforcer, case <-s.remove: "goneFlag" = `if m.el == nil { m.gone = true } else all.Remove(m.el)`; "unguarded" = all.Remove(m.el) with no nil test -/
def memEnforcerRemove : String := "goneFlag"

/-- maxSizeEnforcer, case <-s.incoming: `if m.gone { close(md.done); continue }` precedes all.PushBack -/
def memIncomingSkipsGone : Bool := true

/-- maxSizeEnforcer, `for curSize > maxSize`: `el := all.Front(); if el == nil { break }` precedes all.Remove(el) -/
def memEvictStopsOnEmpty : Bool := true

/-- mem AddMessage cap loop: "collectsAndNotifies" = evicted messages are collected under the lock, then emitDeleted + enforcerRemove after it; "silent" = deleted from the map only -/
def memCapEvict : String := "collectsAndNotifies"

/-- mem Message.seen is an atomic.Bool, written by Store(true) in MarkSeen and read by Load() in Seen -/
def memSeenAtomic : Bool := true

/-- mem withMailbox: s.Unlock() precedes the mailbox lock, mailbox unlock is deferred, f(mb) is the last statement -/
def memStoreLockReleasedBeforeBoxLock : Bool := true

/-- mem AddMessage: s.enforcerDeliver(m) comes after the `range evicted` notification loop -/
def memDeliverIsLast : Bool := true

/-- file VisitMailboxes: level-1 and level-2 readDirNames errors satisfying os.IsNotExist are skipped with continue ("tolerated") or returned ("fatal") -/
def fileVisitENOENT : String := "tolerated"

/-- every exported method of file.Store except VisitMailboxes starts with mb := fs.mbox(..); mb.(R)Lock(); defer mb.(R)Unlock() -/
def fileOpsHoldBucketLock : Bool := true

/-- exported methods of file.Store that hold the bucket lock for their whole body (sorted) -/
def fileLockedOps : List String := ["AddMessage", "GetMessage", "GetMessages", "MarkSeen", "PurgeMessages", "RemoveMessage"]

/-- file VisitMailboxes innermost loop: mb.RLock(); msgs, err := mb.getMessages(); mb.RUnlock() -/
def fileVisitReadsLocked : Bool := true

/-- HashLock.Get indexes by hash[0:3] and file.Store.mbox uses hash[0:3] as the level-1 directory: one lock bucket = one level-1 directory -/
def fileBucketIsLevel1Dir : Bool := true

end Ibx.Gen.Conc
