/- REGENERATED from /repo on every run by /verif/harness/cmd/extract — do not edit. -/
namespace Ibx.Gen.Conc

/-- mem store: "insideLock" = some send on one of the two channels the size-enforcer goroutine selects on is reached (through unexported helpers) from inside a closure passed to the lock wrapper (the method that calls its func parameter on the mailbox it has just locked); "outsideLock" = none is, and AddMessage reaches the registering send, RemoveMessage the un-registering send and PurgeMessages the un-registering send in a loop, all outside such closures -/
def memEnforcerCallSite : String := "outsideLock"

/-- size enforcer, the select case that does not PushBack: "goneFlag" = every <list>.Remove(<msg>.<el>) of the received message is only reached when <msg>.<el> is known non-nil, where it is nil a bool field of the message is set to true, and the request's channel is closed unconditionally at the end; "unguarded" = Remove(<msg>.<el>) with no nil test of that field at all -/
def memEnforcerRemove : String := "goneFlag"

/-- size enforcer, the select case that calls PushBack: PushBack(<msg>) is only reached when the flag field set by the other case is false; when it is true the request's channel is closed and the loop continues; the element returned by PushBack is stored in the field the other case passes to Remove; the request's channel is closed after the registration -/
def memIncomingSkipsGone : Bool := true

/-- size enforcer, registering case: every <list>.Remove(e) has e := <list>.Front() and sits in a loop whose condition is <running total> > <parameter of the goroutine>, reached only when e is known non-nil, the nil side leaving that loop with break -/
def memEvictStopsOnEmpty : Bool := true

/-- mem AddMessage, inside the closure passed to the lock wrapper (unexported helpers walked as if inlined): one delete(<box>.<map>, key) in a loop whose condition has the conjunct len(<box>.<map>) > <recv>.<cap> (cap = the field initialised from MailboxMsgCap) with <recv>.<cap> > 0 known, key = strconv.Itoa(<box>.<first>) and <box>.<first>++ once per iteration; "collectsAndNotifies" = the deleted value is appended (under the same conditions as the delete) to a slice declared outside the closure (directly, or in a helper the closure calls that returns the slice on every path and whose result the closure assigns to such a slice), and after the wrapper call a range over that slice reaches AfterMessageDeleted.Emit of the element and the un-registering send carrying the element; "silent" = nothing is collected and AddMessage reaches neither an Emit nor an un-registering send -/
def memCapEvict : String := "collectsAndNotifies"

/-- mem Message has exactly one field of type atomic.Bool (sync/atomic); Message.Seen is `return <recv>.<that field>.Load()` and Store.MarkSeen reaches exactly one <x>.<that field>.Store(true) -/
def memSeenAtomic : Bool := true

/-- mem lock wrapper: exactly one unconditional <recv>.Lock() ... <recv>.Unlock() pair (no RLock, none deferred) with every access to a map of the store and every binding of the mailbox in between; then the mailbox's Lock() where the bool parameter is true / RLock() where it is false; the matching Unlock / RUnlock deferred under the same test; then the unconditional call of the func parameter on that mailbox -/
def memStoreLockReleasedBeforeBoxLock : Bool := true

/-- mem AddMessage: exactly one registering send is reached, outside the closure, carrying the message that the closure stored into the map, after the range over the evicted messages -/
def memDeliverIsLast : Bool := true

/-- mem: for every exported method of the store the literal bool arguments of the lock-wrapper calls it reaches (itself or through unexported helpers), in order: W = true (write lock), R = false (read lock), ? = not a literal -/
def memLockModes : List String := ["AddMessage:W", "GetMessage:R", "GetMessages:R", "MarkSeen:W", "PurgeMessages:W", "RemoveMessage:W", "VisitMailboxes:"]

/-- file VisitMailboxes: three directory listings (calls of a helper that calls Readdirnames) at range-nesting depth 0, 1, 2; depth 0 returns the error; at depth 1 and 2 a failed listing (err != nil) `continue`s where os.IsNotExist(err) / errors.Is(err, ErrNotExist) is known true and returns err where it is known false ("tolerated"), or returns err without such a test ("fatal") -/
def fileVisitENOENT : String := "tolerated"

/-- every exported method of file.Store except VisitMailboxes: builds the mailbox by a store method, takes its Lock / RLock unconditionally before anything else mentions the mailbox or the store, registers the matching deferred Unlock / RUnlock immediately, and never locks, unlocks or rebinds it again -/
def fileOpsHoldBucketLock : Bool := true

/-- exported methods of file.Store that hold the bucket lock for their whole body in that sense (sorted) -/
def fileLockedOps : List String := ["AddMessage", "GetMessage", "GetMessages", "MarkSeen", "PurgeMessages", "RemoveMessage"]

/-- the same methods with the lock they hold: W = Lock, R = RLock -/
def fileLockModes : List String := ["AddMessage:W", "GetMessage:R", "GetMessages:R", "MarkSeen:W", "PurgeMessages:W", "RemoveMessage:W"]

/-- file VisitMailboxes, innermost loop: the mailbox built by a store method is (R)Lock()ed and (R)Unlock()ed in the same block, not deferred; every method call on the mailbox lies between the two; the callback parameter is called outside them -/
def fileVisitReadsLocked : Bool := true

/-- HashLock is an array of 4096 locks and Get(h) returns &<recv>[i] with i from strconv.ParseInt(h[0:3], 16, ..); every file-store function that asks the HashLock field for Get(h) builds the mailbox path as filepath.Join(<recv>.<root>, h[0:3], .., h) from the same never-reassigned h and returns it inside the mailbox: one lock bucket = one level-1 directory -/
def fileBucketIsLevel1Dir : Bool := true

end Ibx.Gen.Conc
