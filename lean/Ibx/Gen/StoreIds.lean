/- REGENERATED from /repo on every run by /verif/harness/cmd/extract — do not edit. -/
namespace Ibx.Gen.StoreIds

/-- every use of the requested id (second string parameter) in the mem store's GetMessage / MarkSeen / RemoveMessage, followed through closures, aliases and same-package helpers: eqLit:<text> | eqField:<F> | mapIndex:<K> | mapDelete:<K> | mapStore:<K> | call:<callee> | other:<…> -/
def memIdUses : List (String × List String) := [("GetMessage", ["eqLit:latest", "mapIndex:string"]), ("MarkSeen", ["mapIndex:string"]), ("RemoveMessage", ["mapDelete:string", "mapIndex:string"])]

/-- every use of the requested id (second string parameter) in the file store's GetMessage / MarkSeen / RemoveMessage, followed through closures, aliases and same-package helpers: eqLit:<text> | eqField:<F> | mapIndex:<K> | mapDelete:<K> | mapStore:<K> | call:<callee> | other:<…> -/
def fileIdUses : List (String × List String) := [("GetMessage", ["eqField:Fid", "eqLit:latest"]), ("MarkSeen", ["eqField:Fid"]), ("RemoveMessage", ["eqField:Fid"])]

/-- every use of the id AddMessage of the memory store returns (its named string result): from:<callee> = assigned from that call, mapStore:<K> = the key under which the message is filed -/
def memAddIdUses : List String := ["fieldStore:id", "from:strconv.Itoa", "mapStore:string", "returned"]

end Ibx.Gen.StoreIds
