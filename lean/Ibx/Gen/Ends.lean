/- REGENERATED from /repo on every run by /verif/harness/cmd/extract — do not edit. -/
namespace Ibx.Gen.Ends

/-- the condition of the command loop: roles ($state, $sendError), operators, constants -/
def smtpLoopCond : List String := ["$state", "!=", "QUIT", "&&", "$sendError", "==", "nil"]

/-- what the paths of the command loop on which reading the line failed with something other than io.EOF reply: the distinct (class of the path, literal); timeout first -/
def smtpReadErrSends : List (String × List Nat) := [("timeout", [50, 50, 49, 32, 73, 100, 108, 101, 32, 116, 105, 109, 101, 111, 117, 116, 44, 32, 98, 121, 101, 32, 98, 121, 101]), ("other", [50, 50, 49, 32, 67, 111, 110, 110, 101, 99, 116, 105, 111, 110, 32, 101, 114, 114, 111, 114, 44, 32, 115, 111, 114, 114, 121])]

/-- replies on the paths where it failed with io.EOF -/
def smtpEofSends : List String := []

/-- number of classes (eof, timeout, other) of failed-read paths, all of which leave the loop (-1: one does not, or not understood) -/
def smtpReadErrBreaks : Int := 3

/-- other events on the failed-read paths -/
def smtpReadErrOther : List String := []

/-- (I/O call, armed | unarmed) for every function that reads or writes the connection: is a Set{Read,Write}Deadline call made before the I/O call -/
def smtpDeadlines : List (String × String) := [("PrintfLine", "armed"), ("ReadDotBytes", "armed"), ("ReadLine", "armed")]

/-- the distinct deadlines those calls set (helpers looked through) -/
def smtpNextDeadline : List String := ["time.Now().Add($r.config.Timeout)"]

/-- replies of the DATA handler, after the 354, on the paths without delivery and without reset (the block could not be read): (class of the path, literal) -/
def smtpDataErrSends : List (String × List Nat) := [("timeout", [50, 50, 49, 32, 73, 100, 108, 101, 32, 116, 105, 109, 101, 111, 117, 116, 44, 32, 98, 121, 101, 32, 98, 121, 101])]

/-- what else those paths do and how they end -/
def smtpDataErrExit : List String := ["state:QUIT; return"]

/-- the condition of the command loop: roles ($state, $sendError), operators, constants -/
def popLoopCond : List String := ["$state", "!=", "QUIT", "&&", "$sendError", "==", "nil"]

/-- what the paths of the command loop on which reading the line failed with something other than io.EOF reply: the distinct (class of the path, literal); timeout first -/
def popReadErrSends : List (String × List Nat) := [("timeout", [45, 69, 82, 82, 32, 73, 100, 108, 101, 32, 116, 105, 109, 101, 111, 117, 116, 44, 32, 98, 121, 101, 32, 98, 121, 101]), ("other", [45, 69, 82, 82, 32, 67, 111, 110, 110, 101, 99, 116, 105, 111, 110, 32, 101, 114, 114, 111, 114, 44, 32, 115, 111, 114, 114, 121])]

/-- replies on the paths where it failed with io.EOF -/
def popEofSends : List String := []

/-- number of classes (eof, timeout, other) of failed-read paths, all of which leave the loop (-1: one does not, or not understood) -/
def popReadErrBreaks : Int := 3

/-- other events on the failed-read paths -/
def popReadErrOther : List String := []

/-- (I/O call, armed | unarmed) for every function that reads or writes the connection: is a Set{Read,Write}Deadline call made before the I/O call -/
def popDeadlines : List (String × String) := [("Fprint", "armed"), ("ReadString", "armed")]

/-- the distinct deadlines those calls set (helpers looked through) -/
def popNextDeadline : List String := ["time.Now().Add($r.config.Timeout)"]

/-- result 0 of the reading helper on the paths where ReadString failed: lit: = the empty string literal, the partial line is dropped -/
def popReadLineErr : List String := ["lit:"]

/-- the body function of RETR (the helper of that clause that builds a bufio.Scanner): the replies outside the line loop on each of its exits; sorted, duplicates removed -/
def popSendMessageExits : List (List String) := [["-ERR Failed to RETR that message, internal error"], [".", "-ERR Failed to RETR that message, internal error"], ["."]]

/-- the same for the body function of TOP -/
def popSendMessageTopExits : List (List String) := [["-ERR Failed to RETR that message, internal error"], [".", "-ERR Failed to RETR that message, internal error"], ["."]]

/-- for the RETR and TOP rows of the TRANSACTION handler: the event immediately before the body function on every path that reaches it: the +OK status line is sent before the body function runs -/
def popBodyCalls : List (String × String) := [("RETR", "send:+OK %s bytes follows ; body"), ("TOP", "send:+OK Top of message follows ; body")]

end Ibx.Gen.Ends
