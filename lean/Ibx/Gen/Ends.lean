/- REGENERATED from /repo on every run by /verif/harness/cmd/extract — do not edit. -/
namespace Ibx.Gen.Ends

/-- the condition of the command loop: field names, operators, constants -/
def smtpLoopCond : List String := ["state", "!=", "QUIT", "&&", "sendError", "==", "nil"]

/-- sends of the loop's read-error branch after the io.EOF test: (guard, literal) -/
def smtpReadErrSends : List (String × List Nat) := [("timeout", [50, 50, 49, 32, 73, 100, 108, 101, 32, 116, 105, 109, 101, 111, 117, 116, 44, 32, 98, 121, 101, 32, 98, 121, 101]), ("other", [50, 50, 49, 32, 67, 111, 110, 110, 101, 99, 116, 105, 111, 110, 32, 101, 114, 114, 111, 114, 44, 32, 115, 111, 114, 114, 121])]

/-- sends inside the `== io.EOF` block -/
def smtpEofSends : List String := []

/-- break statements leaving the loop from the read-error branch -/
def smtpReadErrBreaks : Int := 3

/-- shape of nextDeadline() -/
def smtpNextDeadline : String := "Now.Add(Timeout)"

/-- is the deadline armed (Set…Deadline(nextDeadline())) before the first I/O call of the function -/
def smtpDeadlines : List (String × String) := [("readLine", "armed"), ("readDataBlock", "armed"), ("send", "armed")]

/-- sends in dataHandler's read-error block -/
def smtpDataErrSends : List (String × List Nat) := [("timeout", [50, 50, 49, 32, 73, 100, 108, 101, 32, 116, 105, 109, 101, 111, 117, 116, 44, 32, 98, 121, 101, 32, 98, 121, 101])]

/-- other method calls of that block, then whether it ends with return -/
def smtpDataErrCalls : List String := ["enterState", "return"]

/-- argument of the enterState call in that block -/
def smtpDataErrState : String := "QUIT"

/-- the condition of the command loop: field names, operators, constants -/
def popLoopCond : List String := ["state", "!=", "QUIT", "&&", "sendError", "==", "nil"]

/-- sends of the loop's read-error branch after the io.EOF test: (guard, literal) -/
def popReadErrSends : List (String × List Nat) := [("timeout", [45, 69, 82, 82, 32, 73, 100, 108, 101, 32, 116, 105, 109, 101, 111, 117, 116, 44, 32, 98, 121, 101, 32, 98, 121, 101]), ("other", [45, 69, 82, 82, 32, 67, 111, 110, 110, 101, 99, 116, 105, 111, 110, 32, 101, 114, 114, 111, 114, 44, 32, 115, 111, 114, 114, 121])]

/-- sends inside the `== io.EOF` block -/
def popEofSends : List String := []

/-- break statements leaving the loop from the read-error branch -/
def popReadErrBreaks : Int := 3

/-- shape of nextDeadline() -/
def popNextDeadline : String := "Now.Add(Timeout)"

/-- is the deadline armed before the first I/O call of the function -/
def popDeadlines : List (String × String) := [("readLine", "armed"), ("send", "armed")]

/-- first result of readLine's error return: lit: = the empty string literal, the partial line is dropped -/
def popReadLineErr : List String := ["lit:"]

/-- sendMessage: send literals of each top-level `if … return` block, then the final sends -/
def popSendMessageExits : List (List String) := [["-ERR Failed to RETR that message, internal error"], [".", "-ERR Failed to RETR that message, internal error"], ["."]]

/-- the same for sendMessageTop -/
def popSendMessageTopExits : List (List String) := [["-ERR Failed to RETR that message, internal error"], [".", "-ERR Failed to RETR that message, internal error"], ["."]]

/-- the last two calls of the RETR and TOP cases: the +OK status line is sent before the body function runs -/
def popBodyCalls : List (String × String) := [("RETR", "send:+OK %v bytes follows ; sendMessage"), ("TOP", "send:+OK Top of message follows ; sendMessageTop")]

end Ibx.Gen.Ends
