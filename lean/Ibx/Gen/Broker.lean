/- REGENERATED from /repo on every run by /verif/harness/cmd/extract — do not edit. -/
namespace Ibx.Gen.Broker

/-- how AsyncEventBroker.Emit hands an event to a listener (Emit only pushes; one worker per queue pops the head and calls) -/
def asyncEmit : String := "perListenerQueue"

/-- Emit passes a copy (`*event`) to the listeners -/
def asyncCopiesEvent : Bool := true

/-- the AsyncEventBroker fields of extension.Events -/
def asyncBrokerFields : List String := ["AfterMessageDeleted", "AfterMessageStored"]

/-- NewHost gives all of them one queue set (a listener name has ONE queue for stored and deleted) -/
def hostSharesQueues : Bool := true

/-- EventBroker.Emit returns the first non-nil listener result, in slice order, else nil -/
def syncEmitFirstResult : Bool := true

/-- AddListener of both brokers removes the first same-named entry, then appends -/
def registryRemoveFirstThenAppend : Bool := true

end Ibx.Gen.Broker
