/- REGENERATED from /repo on every run by /verif/harness/cmd/extract — do not edit. -/
namespace Ibx.Gen.Broker

/-- how AsyncEventBroker.Emit hands an event to a listener (Emit only pushes; one worker per queue pops the head and calls) -/
def asyncEmit : String := "perListenerQueue"

/-- Emit itself passes a copy (`*<event parameter>`) to the listeners -/
def asyncCopiesEvent : Bool := true

/-- the AsyncEventBroker fields of extension.Events -/
def asyncBrokerFields : List String := ["AfterMessageDeleted", "AfterMessageStored"]

/-- NewHost assigns one and the same variable to the queue-set field of all of them (a listener name has ONE queue for stored and deleted) -/
def hostSharesQueues : Bool := true

/-- pkg/msghub/hub.go calls AddListener exactly once on every AsyncEventBroker field of Events, each time with the same string literal as name (whatever it is) -/
def msghubOneListenerName : Bool := true

/-- EventBroker.Emit returns the first non-nil listener result, in slice order, else nil -/
def syncEmitFirstResult : Bool := true

/-- AddListener of both brokers removes the first same-named entry, then appends -/
def registryRemoveFirstThenAppend : Bool := true

end Ibx.Gen.Broker
