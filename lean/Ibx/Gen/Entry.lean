/- REGENERATED from /repo on every run by /verif/harness/cmd/extract — do not edit. -/
namespace Ibx.Gen.Entry

/-- every package under pkg/ and cmd/ (default build: no test files, no `verif` files) parsed and type-checked with go/types, dependencies from `go list -export` -/
def loaded : Bool := true

/-- first problem met while loading (empty when loaded) -/
def loadError : String := ""

/-- packages analysed -/
def analysed : Nat := 24

/-- analysed packages that no program of cmd/ links (not in the import closure of a main package): test support; their code cannot run in the server and is left out of the tables below -/
def unlinked : List String := ["pkg/test"]

/-- every use of the Deliver method of a message.Manager (the interface, a type implementing it, any interface such a type satisfies) in linked code: (package, function it is reachable from — `<DATA handler>` = the function the SMTP session loop calls while the state is DATA, whose exits are Gen.Smtp.dataPaths —, kind: call | go | defer | value), one entry per use and root -/
def deliverSites : List (String × String × String) := [("pkg/server/smtp", "<DATA handler>", "call")]

/-- every use of the AddMessage method of a storage.Store (same resolution); the stores' own AddMessage methods are declarations, not uses -/
def addMessageSites : List (String × String × String) := [("pkg/message", "StoreManager.Deliver", "call")]

/-- the named types of linked packages that implement message.Manager -/
def managerImpls : List String := ["pkg/message.StoreManager"]

/-- the named types of linked packages that implement storage.Store -/
def storeImpls : List String := ["pkg/storage/file.Store", "pkg/storage/mem.Store"]

/-- per linked package the methods of message.Manager / storage.Store its code uses (packages that use none are absent) -/
def packageUses : List (String × List String) := [
  ("pkg/message", ["Store.AddMessage", "Store.GetMessage", "Store.GetMessages", "Store.MarkSeen", "Store.PurgeMessages", "Store.RemoveMessage"]),
  ("pkg/rest", ["Manager.GetMessage", "Manager.GetMetadata", "Manager.MailboxForAddress", "Manager.MarkSeen", "Manager.PurgeMessages", "Manager.RemoveMessage", "Manager.SourceReader"]),
  ("pkg/server/pop3", ["Store.GetMessages", "Store.RemoveMessage"]),
  ("pkg/server/smtp", ["Manager.Deliver"]),
  ("pkg/storage", ["Store.RemoveMessage", "Store.VisitMailboxes"]),
  ("pkg/storage/mem", ["Store.GetMessages"]),
  ("pkg/webui", ["Manager.GetMessage", "Manager.MailboxForAddress", "Manager.SourceReader"])]

/-- every function converted to web.Handler (the only way a function with a *web.Context becomes an http.Handler): (function, the message.Manager / storage.Store methods reachable from it through references inside the repository, whether that code reads the request body: Request.Body / ParseForm / FormValue / MultipartReader …), sorted by function -/
def handlerCalls : List (String × List String × Bool) := [
  ("MailboxDeleteV1", ["Manager.MailboxForAddress", "Manager.RemoveMessage"], false),
  ("MailboxHTML", ["Manager.GetMessage", "Manager.MailboxForAddress"], false),
  ("MailboxListV1", ["Manager.GetMetadata", "Manager.MailboxForAddress"], false),
  ("MailboxMarkSeenV1", ["Manager.MailboxForAddress", "Manager.MarkSeen"], true),
  ("MailboxMessage", ["Manager.GetMessage", "Manager.MailboxForAddress"], false),
  ("MailboxPurgeV1", ["Manager.MailboxForAddress", "Manager.PurgeMessages"], false),
  ("MailboxShowV1", ["Manager.GetMessage", "Manager.MailboxForAddress"], false),
  ("MailboxSource", ["Manager.MailboxForAddress", "Manager.SourceReader"], false),
  ("MailboxSourceV1", ["Manager.MailboxForAddress", "Manager.SourceReader"], false),
  ("MailboxViewAttach", ["Manager.GetMessage", "Manager.MailboxForAddress"], false),
  ("MonitorAllMessagesV1", [], false),
  ("MonitorAllMessagesV2", [], false),
  ("MonitorMailboxMessagesV1", ["Manager.MailboxForAddress"], false),
  ("MonitorMailboxMessagesV2", ["Manager.MailboxForAddress"], false),
  ("RootGreeting", [], false),
  ("RootStatus", [], false)]

/-- the other registrations on a mux.Router / mux.Route / http.ServeMux (Handler, HandlerFunc, Handle, HandleFunc with an argument that is not a web.Handler conversion: static files, the SPA page, redirects, expvar, pprof): (package, function they are written in, how many, the Manager / Store methods reachable from that function) -/
def otherHttpHandlers : List (String × String × Nat × List String) := [("pkg/server/web", "NewServer", 14, [])]

/-- per linked package: http.Server literals and calls of http.ListenAndServe / Serve (…TLS) -/
def httpServers : List (String × Nat) := [("pkg/server/web", 1)]

/-- per linked package: calls of net.Listen… / tls.Listen… / ListenConfig.Listen — the network interfaces of the program -/
def listeners : List (String × Nat) := [("pkg/server/pop3", 1), ("pkg/server/smtp", 2), ("pkg/server/web", 1)]

/-- Go function values handed to gopher-lua (arguments of LState.NewFunction / NewClosure / SetFuncs / RegisterModule / PreloadModule / Register) anywhere in linked code -/
def luaExposed : Nat := 22

/-- the message.Manager / storage.Store methods reachable from any of them -/
def luaExposedUses : List String := []

/-- names of the modules preloaded into every Lua state -/
def luaPreloads : List String := ["http", "json", "logger"]

/-- repository packages in the import closure of pkg/extension/luahost: neither pkg/message nor pkg/storage, so no value of a store or manager type can be named there -/
def luaLinks : List String := ["pkg/config", "pkg/extension", "pkg/extension/event", "pkg/stringutil"]

/-- imports of reflect / unsafe / plugin in the linked packages that use a Manager / Store method (calls made through them are invisible to go/types) -/
def escapeHatches : List (String × String) := []

end Ibx.Gen.Entry
