/- REGENERATED from /repo on every run by /verif/harness/cmd/extract — do not edit. -/
namespace Ibx.Gen.Addr2

/-- (file, function, canon, onlyCanon) for every function of packages pkg/rest and pkg/webui that has a *web.Context parameter C and gets at the URL name (reads C.Vars["name"], or calls a helper that is exactly `return C.Manager.MailboxForAddress(C.Vars["name"])`): canon = the first such use is an unconditional statement `v, err := C.Manager.MailboxForAddress(C.Vars["name"])` (or `:= helper(C)`, or the argument is a local defined as C.Vars["name"] and used nowhere else); onlyCanon = that is the only use, and nothing mentions C.Manager / C.MsgHub before it -/
def handlers : List (String × String × Bool × Bool) := [
  ("pkg/rest/apiv1_controller.go", "MailboxDeleteV1", true, true),
  ("pkg/rest/apiv1_controller.go", "MailboxListV1", true, true),
  ("pkg/rest/apiv1_controller.go", "MailboxMarkSeenV1", true, true),
  ("pkg/rest/apiv1_controller.go", "MailboxPurgeV1", true, true),
  ("pkg/rest/apiv1_controller.go", "MailboxShowV1", true, true),
  ("pkg/rest/apiv1_controller.go", "MailboxSourceV1", true, true),
  ("pkg/rest/socketv1_controller.go", "MonitorMailboxMessagesV1", true, true),
  ("pkg/rest/socketv2_controller.go", "MonitorMailboxMessagesV2", true, true),
  ("pkg/webui/mailbox_controller.go", "MailboxHTML", true, true),
  ("pkg/webui/mailbox_controller.go", "MailboxMessage", true, true),
  ("pkg/webui/mailbox_controller.go", "MailboxSource", true, true),
  ("pkg/webui/mailbox_controller.go", "MailboxViewAttach", true, true)]

/-- number of rows of `handlers` -/
def handlerCount : Nat := 12

/-- number of index expressions `<x>["name"]` (any x) in pkg/rest and pkg/webui that are NOT the argument of the canonical MailboxForAddress call of a row with canon && onlyCanon (or of the canonical helper): 0 when nobody reads the name through an alias, mux.Vars or a second time -/
def strayNameReads : Nat := 0

/-- (routes file, handler function) for every `<r>.Path("…{name}…").Handler(web.Handler(F))` registration -/
def routesWithName : List (String × String) := [("pkg/rest/routes.go", "MailboxDeleteV1"), ("pkg/rest/routes.go", "MailboxListV1"), ("pkg/rest/routes.go", "MailboxMarkSeenV1"), ("pkg/rest/routes.go", "MailboxPurgeV1"), ("pkg/rest/routes.go", "MailboxShowV1"), ("pkg/rest/routes.go", "MailboxSourceV1"), ("pkg/rest/routes.go", "MonitorMailboxMessagesV1"), ("pkg/rest/routes.go", "MonitorMailboxMessagesV2"), ("pkg/webui/routes.go", "MailboxHTML"), ("pkg/webui/routes.go", "MailboxMessage"), ("pkg/webui/routes.go", "MailboxSource"), ("pkg/webui/routes.go", "MailboxViewAttach")]

/-- number of string literals containing "{name}" in the two routes files (each must be one recognised registration) -/
def routeNameLits : Nat := 12

/-- (R *StoreManager) MailboxForAddress(P string) returns exactly R.AddrPolicy.ExtractMailbox(P): `return R.AddrPolicy.ExtractMailbox(P)`, or `v, err := R.AddrPolicy.ExtractMailbox(P)` followed by `return v, err` / `if err != nil { return "", err }; return v, nil` -/
def mailboxForAddressIsExtract : Bool := true

/-- canonicalDomain (= the one (string) string helper both naming returns go through; parameter D) is "LIT + strings.ToLower(D[N:]) when strings.HasPrefix(D, LIT), strings.ToLower(D) otherwise" in any if / else / switch arrangement: (LIT, N); `T, ok := strings.CutPrefix(D, LIT)` counts as HasPrefix(D, LIT) and, under ok, D[len(LIT):] -/
def canonicalDomainShape : Option (String × Nat) := some ("[IPv6:", 6)

/-- bytes of that LIT -/
def canonicalDomainLit : Option (List Nat) := some [91, 73, 80, 118, 54, 58]

/-- ValidateDomainPart (parameter D), or the unexported helper it hands D to: the argument of the one net.ParseIP call is the text D[a : len(D)-1] where a is N when the text behind the opening bracket starts with LIT and 1 otherwise — found by evaluating the statements in front of the call symbolically, so an offset variable set under strings.HasPrefix(D[1:], LIT), a text variable cut with strings.CutPrefix / TrimPrefix / HasPrefix + slice (N = 1 + len(LIT)) are the same fact: (LIT, N) -/
def validateTag : Option (String × Nat) := some ("IPv6:", 6)

/-- bytes of that LIT -/
def validateTagLit : Option (List Nat) := some [73, 80, 118, 54, 58]

/-- ExtractMailbox: after `X, E := <mailbox-name parser>(result 0 of the raw parser)` and `if E != nil { return "", E }` come only exits that return ("", error); the SET of their conditions ('||' in one guard, consecutive ifs, a switch and an unexported (string) bool / (string) error helper are all the same), sorted, each named from a closed vocabulary — empty: X == "" | len(X) == 0; leadDot: X[0] == '.' | strings.HasPrefix(X, "."); trailDot: X[len(X)-1] == '.' | strings.HasSuffix(X, "."); dotDot: strings.Contains(X, "..") — and anything else as its canonical text with X printed as $x -/
def nameShapeTest : Option (List String) := some ["dotDot", "empty", "leadDot", "trailDot"]

/-- the same conditions in evaluation order as canonical text (informative; not pinned) -/
def nameShapeConds : List String := ["$x == \"\"", "$x[0] == '.'", "$x[len($x) - 1] == '.'", "strings.Contains($x, \"..\")"]

/-- every condition that indexes X (X[0], X[len(X)-1]) is evaluated after the emptiness condition -/
def nameShapeIndexGuarded : Bool := true

/-- before the last of those exits no statement returns a name (other than the domain-naming dispatch) and nothing mentions config.LocalNaming / config.FullNaming; after it there is an exit `R.Config.MailboxNaming == config.LocalNaming` (if or switch case) returning (X, nil) -/
def nameShapeBeforeNamingSwitch : Bool := true

/-- the first thing ExtractMailbox(P) does is `R.Config.MailboxNaming == config.DomainNaming` (if or switch case) => `return F(P)`, F an unexported (string) (string, error) function (extractDomainMailbox) -/
def domainDispatchFirst : Bool := true

/-- ExtractMailbox: result 0 of the one `return E, nil` with E other than X itself, printed with X = $x, result 1 of the raw parser = $dom, the (string) string helper = $canon -/
def fullReturn : Option String := some "$x + \"@\" + $canon($dom)"

/-- the domain extractor: result 0 of its one `return E, nil`, printed with the variable passed to ValidateDomainPart = $dom and the SAME helper as in fullReturn = $canon -/
def domainReturn : Option String := some "$canon($dom)"

/-- some non-test file of pkg/server/pop3 imports pkg/policy or mentions ExtractMailbox / MailboxForAddress -/
def pop3UsesPolicy : Bool := false

/-- pkg/server/pop3: the session field handed to GetMessages (the mailbox key) is only ever assigned `A[0]`, inside the handler that has the USER clause (once in that clause), where A is that handler's never-written []string parameter; A is result 1 of the command parser at every call of the handler, and the parser returns (strings.ToUpper(W[0]), W[1:]) for W = strings.Split(line, " ") after at most trimming CR / LF (or the strings.Cut spelling of that pair: the text in front of the first space, and the empty list without a space / strings.Split of the text behind it with one) -/
def pop3UserVerbatim : Bool := true

end Ibx.Gen.Addr2
