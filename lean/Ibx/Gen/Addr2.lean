/- REGENERATED from /repo on every run by /verif/harness/cmd/extract — do not edit. -/
namespace Ibx.Gen.Addr2

/-- (file, function, canon, onlyCanon) for every function of the REST / websocket / web-UI controllers that reads ctx.Vars["name"]: canon = the first use is `v, err := ctx.Manager.MailboxForAddress(ctx.Vars["name"])` as a statement of the function body; onlyCanon = that is the only use, and nothing mentions ctx.Manager / ctx.MsgHub before it -/
def handlers : List (String × String × Bool × Bool) := [
  ("pkg/rest/apiv1_controller.go", "MailboxDeleteV1", true, true),
  ("pkg/rest/apiv1_controller.go", "MailboxListV1", true, true),
  ("pkg/rest/apiv1_controller.go", "MailboxMarkSeenV1", true, true),
  ("pkg/rest/apiv1_controller.go", "MailboxPurgeV1", true, true),
  ("pkg/rest/apiv1_controller.go", "MailboxShowV1", true, true),
  ("pkg/rest/apiv1_controller.go", "MailboxSourceV1", true, true),
  ("pkg/rest/socketv1_controller.go", "MonitorMailboxMessagesV1", true, true),
  ("pkg/rest/socketv2_controller.go", "MonitorMailboxMessagesV2", true, true),
  ("pkg/webui/mailbox_controller.go", "MailboxHTML", true, true),
  ("pkg/webui/mailbox_controller.go", "MailboxMessage", true, true),
  ("pkg/webui/mailbox_controller.go", "MailboxSource", true, true),
  ("pkg/webui/mailbox_controller.go", "MailboxViewAttach", true, true)]

/-- number of rows of `handlers` -/
def handlerCount : Nat := 12

/-- number of index expressions `<x>["name"]` (any x) anywhere in the four controller files; one per handler when every name is read as ctx.Vars["name"] exactly once -/
def varsNameUses : Nat := 12

/-- (routes file, handler function) for every `r.Path("…{name}…").Handler(web.Handler(F))` registration -/
def routesWithName : List (String × String) := [("pkg/rest/routes.go", "MailboxDeleteV1"), ("pkg/rest/routes.go", "MailboxListV1"), ("pkg/rest/routes.go", "MailboxMarkSeenV1"), ("pkg/rest/routes.go", "MailboxPurgeV1"), ("pkg/rest/routes.go", "MailboxShowV1"), ("pkg/rest/routes.go", "MailboxSourceV1"), ("pkg/rest/routes.go", "MonitorMailboxMessagesV1"), ("pkg/rest/routes.go", "MonitorMailboxMessagesV2"), ("pkg/webui/routes.go", "MailboxHTML"), ("pkg/webui/routes.go", "MailboxMessage"), ("pkg/webui/routes.go", "MailboxSource"), ("pkg/webui/routes.go", "MailboxViewAttach")]

/-- number of string literals containing "{name}" in the two routes files (each must be one recognised registration) -/
def routeNameLits : Nat := 12

/-- (s *StoreManager) MailboxForAddress(mailbox string) is exactly `return s.AddrPolicy.ExtractMailbox(mailbox)` -/
def mailboxForAddressIsExtract : Bool := true

/-- canonicalDomain(domain) is `if strings.HasPrefix(domain, LIT) { return LIT + strings.ToLower(domain[N:]) }; return strings.ToLower(domain)`: (LIT, N) -/
def canonicalDomainShape : Option (String × Nat) := some ("[IPv6:", 6)

/-- bytes of that LIT -/
def canonicalDomainLit : Option (List Nat) := some [91, 73, 80, 118, 54, 58]

/-- ValidateDomainPart, bracketed branch: `s := 1; if strings.HasPrefix(domain[1:], LIT) { s = N }; net.ParseIP(domain[s : ln-1])`: (LIT, N) -/
def validateTag : Option (String × Nat) := some ("IPv6:", 6)

/-- bytes of that LIT -/
def validateTagLit : Option (List Nat) := some [73, 80, 118, 54, 58]

/-- ExtractMailbox: right after `local, err = parseMailboxName(local)` and its error check come `if C0 { return "", error }` and `if C1 || C2 || … { return "", error }`: [C0, C1, C2, …] -/
def nameShapeTest : Option (List String) := some ["local == \"\"", "local[0] == '.'", "local[len(local)-1] == '.'", "strings.Contains(local, \"..\")"]

/-- both ifs lie between the parseMailboxName call and the first `if a.Config.MailboxNaming == config.LocalNaming { return local, nil }`, and no statement before them returns a name (other than the domain-naming dispatch) -/
def nameShapeBeforeNamingSwitch : Bool := true

/-- the first statement of ExtractMailbox is `if a.Config.MailboxNaming == config.DomainNaming { return extractDomainMailbox(address) }` -/
def domainDispatchFirst : Bool := true

/-- first result of the last statement (a return) of ExtractMailbox -/
def fullReturn : Option String := some "local + \"@\" + canonicalDomain(domain)"

/-- first result of the last statement (a return) of extractDomainMailbox -/
def domainReturn : Option String := some "canonicalDomain(domain)"

/-- some non-test file of pkg/server/pop3 imports pkg/policy or mentions ExtractMailbox / MailboxForAddress -/
def pop3UsesPolicy : Bool := false

/-- pkg/server/pop3/handler.go: every assignment to the session's user field is `s.user = args[0]` (one of them in the USER clause), args is the untouched parameter holding words[1:] of the space-split line, and loadMailbox calls s.store.GetMessages(s.user) -/
def pop3UserVerbatim : Bool := true

end Ibx.Gen.Addr2
