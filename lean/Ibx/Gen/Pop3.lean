/- REGENERATED from /repo on every run by /verif/harness/cmd/extract — do not edit. -/
namespace Ibx.Gen.Pop3

/-- keys of the package's command set (its one package-level map[string]bool literal), in source order -/
def commandKeys : Option (List (List Nat)) := some [[81, 85, 73, 84], [83, 84, 65, 84], [76, 73, 83, 84], [82, 69, 84, 82], [68, 69, 76, 69], [78, 79, 79, 80], [82, 83, 69, 84], [84, 79, 80], [85, 73, 68, 76], [85, 83, 69, 82], [80, 65, 83, 83], [65, 80, 79, 80], [67, 65, 80, 65], [83, 84, 76, 83]]

/-- their values as written -/
def commandVals : List String := ["true", "true", "true", "true", "true", "true", "true", "true", "true", "true", "true", "true", "true", "true"]

/-- the states the command loop dispatches to a handler(cmd, args), in source order -/
def dispatchStates : List String := ["AUTHORIZATION", "TRANSACTION"]

/-- the command words the paths of the AUTHORIZATION handler compare the command equal to (sorted), and whether some path compares it equal to none (the default) -/
def authCases : Option (List (List Nat) × Bool) := some ([[65, 80, 79, 80], [80, 65, 83, 83], [81, 85, 73, 84], [83, 84, 76, 83], [85, 83, 69, 82]], true)

/-- the command words the paths of the TRANSACTION handler compare the command equal to (sorted), and whether some path compares it equal to none (the default) -/
def transCases : Option (List (List Nat) × Bool) := some ([[68, 69, 76, 69], [76, 73, 83, 84], [78, 79, 79, 80], [81, 85, 73, 84], [82, 69, 84, 82], [82, 83, 69, 84], [83, 84, 65, 84], [84, 79, 80], [85, 73, 68, 76]], true)

/-- what every path through the command loop that reaches the state dispatch has decided about the command word ($cmd), in the order it was decided -/
def loopTests : List String := ["$cmd != \"CAPA\"", "$cmd != \"\"", "commands[$cmd]"]

/-- condition of the command loop ($s = the session) -/
def loopCond : String := "$s.state != QUIT && $s.sendError == nil"

/-- (state, command word, Store method) for every method of storage.Store called on a path of that row of a handler's table (the package's own functions executed in place); ("", "loop", m) for a call on a path of the command loop that does not go through the dispatch, ("", "elsewhere", m) for one in a function the loop cannot reach; sorted -/
def storeReach : List (String × String × String) := [("AUTHORIZATION", "APOP", "GetMessages"), ("AUTHORIZATION", "PASS", "GetMessages"), ("TRANSACTION", "QUIT", "RemoveMessage")]

/-- distinct (base,bitSize) of the strconv.ParseInt calls -/
def parseIntArgs : List String := ["10,32"]

/-- some non-test file of pkg/server/pop3 imports pkg/policy or mentions ExtractMailbox / MailboxForAddress -/
def usesPolicy : Bool := false

/-- the session field handed to Store.GetMessages (the mailbox key) is only ever assigned `A[0]`, inside the handler that has the USER clause (once in that clause), where A is that handler's never-written argument-list parameter; A is result 1 of the command parser at the one call of the handler, and the parser returns the words after the first blank of the line (after at most trimming CR / LF) unchanged: strings.Split(line, " ")[1:], or strings.Cut(line, " ") followed by strings.Split(rest, " ") -/
def userVerbatim : Bool := true

/-- the ways a statement inside the deletion loop (the innermost for / range around the package's one Store.RemoveMessage call site, helpers followed upwards) can leave it other than by finishing the iteration: return / break / continue-outer / goto / panic; [] = none; none = the package does not have exactly one deletion loop -/
def deleteLoopExits : Option (List String) := some []

/-- one entry per variable or field outliving an iteration that the body of the deletion loop (or a helper between it and the RemoveMessage call) assigns; [] = no iteration leaves anything for a later one -/
def deleteLoopCarried : Option (List String) := some []

/-- for every executed path of the QUIT row of the handler whose QUIT touches the store: the Store methods called on that path joined by +, as a sorted set; ["RemoveMessage"] = every path of the row runs the deletion loop -/
def quitRowStore : List String := ["RemoveMessage"]

/-- what the accepting exit of the STLS clause does to the connection, in source order (see harness/cmd/extract/tls.go) -/
def stlsSwitch : List String := ["wrap", "handshake", "conn", "reader", "state"]

/-- the struct declaring the *tls.ConnectionState field the STLS clause assigns: perSession | perServer -/
def tlsStateScope : String := "perServer"

/-- the condition(s) under which the command loop sends the capability line STLS -/
def capaStlsCond : List String := ["$r.tlsConfig != nil && $r.tlsState == nil && !$r.config.ForceTLS"]

end Ibx.Gen.Pop3
