/- REGENERATED from /repo on every run by /verif/harness/cmd/extract — do not edit. -/
namespace Ibx.Gen.Pop3

/-- keys of the `commands` map literal, in source order -/
def commandKeys : Option (List (List Nat)) := some [[81, 85, 73, 84], [83, 84, 65, 84], [76, 73, 83, 84], [82, 69, 84, 82], [68, 69, 76, 69], [78, 79, 79, 80], [82, 83, 69, 84], [84, 79, 80], [85, 73, 68, 76], [85, 83, 69, 82], [80, 65, 83, 83], [65, 80, 79, 80], [67, 65, 80, 65], [83, 84, 76, 83]]

/-- their values as written -/
def commandVals : List String := ["true", "true", "true", "true", "true", "true", "true", "true", "true", "true", "true", "true", "true", "true"]

/-- case labels of `switch cmd` in authorizationHandler (source order) and whether it has a default clause -/
def authCases : Option (List (List Nat) × Bool) := some ([[81, 85, 73, 84], [83, 84, 76, 83], [85, 83, 69, 82], [80, 65, 83, 83], [65, 80, 79, 80]], true)

/-- case labels of `switch cmd` in transactionHandler (source order) and whether it has a default clause -/
def transCases : Option (List (List Nat) × Bool) := some ([[83, 84, 65, 84], [76, 73, 83, 84], [85, 73, 68, 76], [68, 69, 76, 69], [82, 69, 84, 82], [84, 79, 80], [81, 85, 73, 84], [78, 79, 79, 80], [82, 83, 69, 84]], true)

/-- `if` conditions mentioning cmd inside startSession, in source order -/
def loopTests : List String := ["cmd == \"CAPA\"", "cmd == \"\"", "!commands[cmd]"]

/-- condition of the command loop -/
def loopCond : String := "ssn.state != QUIT && ssn.sendError == nil"

/-- call sites of processDeletes: (function, enclosing case of switch cmd) -/
def processDeletesCalls : List (String × String) := [("transactionHandler", "QUIT")]

/-- call sites of loadMailbox -/
def loadMailboxCalls : List (String × String) := [("authorizationHandler", "PASS"), ("authorizationHandler", "APOP")]

/-- every <x>.store.<Method>(…) call in the package: (function, method) -/
def storeCalls : List (String × String) := [("loadMailbox", "GetMessages"), ("processDeletes", "RemoveMessage")]

/-- distinct (base,bitSize) of the strconv.ParseInt calls -/
def parseIntArgs : List String := ["10,32"]

end Ibx.Gen.Pop3
