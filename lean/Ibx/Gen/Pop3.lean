/- REGENERATED from /repo on every run by /verif/harness/cmd/extract — do not edit. -/
namespace Ibx.Gen.Pop3

/-- keys of the package's command set (its one package-level map[string]bool literal), in source order -/
def commandKeys : Option (List (List Nat)) := some [[81, 85, 73, 84], [83, 84, 65, 84], [76, 73, 83, 84], [82, 69, 84, 82], [68, 69, 76, 69], [78, 79, 79, 80], [82, 83, 69, 84], [84, 79, 80], [85, 73, 68, 76], [85, 83, 69, 82], [80, 65, 83, 83], [65, 80, 79, 80], [67, 65, 80, 65], [83, 84, 76, 83]]

/-- their values as written -/
def commandVals : List String := ["true", "true", "true", "true", "true", "true", "true", "true", "true", "true", "true", "true", "true", "true"]

/-- the states the command loop dispatches to a handler(cmd, args), in source order -/
def dispatchStates : List String := ["AUTHORIZATION", "TRANSACTION"]

/-- case labels of the switch on the command word in the AUTHORIZATION handler (source order) and whether it has a default clause -/
def authCases : Option (List (List Nat) × Bool) := some ([[81, 85, 73, 84], [83, 84, 76, 83], [85, 83, 69, 82], [80, 65, 83, 83], [65, 80, 79, 80]], true)

/-- case labels of the switch on the command word in the TRANSACTION handler (source order) and whether it has a default clause -/
def transCases : Option (List (List Nat) × Bool) := some ([[83, 84, 65, 84], [76, 73, 83, 84], [85, 73, 68, 76], [68, 69, 76, 69], [82, 69, 84, 82], [84, 79, 80], [81, 85, 73, 84], [78, 79, 79, 80], [82, 83, 69, 84]], true)

/-- `if` conditions on the command word ($cmd) inside the command loop's function, in source order -/
def loopTests : List String := ["$cmd == \"CAPA\"", "$cmd == \"\"", "!commands[$cmd]"]

/-- condition of the command loop ($s = the session) -/
def loopCond : String := "$s.state != QUIT && $s.sendError == nil"

/-- (state, clause, Store method) for every method of storage.Store a clause can reach through the package's own functions; ("", "loop" | "elsewhere", m) for calls outside the handlers' tables -/
def storeReach : List (String × String × String) := [("AUTHORIZATION", "PASS", "GetMessages"), ("AUTHORIZATION", "APOP", "GetMessages"), ("TRANSACTION", "QUIT", "RemoveMessage")]

/-- distinct (base,bitSize) of the strconv.ParseInt calls -/
def parseIntArgs : List String := ["10,32"]

/-- what the accepting exit of the STLS clause does to the connection, in source order (see harness/cmd/extract/tls.go) -/
def stlsSwitch : List String := ["wrap", "handshake", "conn", "reader", "state"]

/-- the struct declaring the *tls.ConnectionState field the STLS clause assigns: perSession | perServer -/
def tlsStateScope : String := "perServer"

/-- the condition(s) under which the command loop sends the capability line STLS -/
def capaStlsCond : List String := ["$r.tlsConfig != nil && $r.tlsState == nil && !$r.config.ForceTLS"]

end Ibx.Gen.Pop3
