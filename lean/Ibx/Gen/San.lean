/- REGENERATED from /repo on every run by /verif/harness/cmd/extract — do not edit. -/
namespace Ibx.Gen.San

/-- keys of allowedProperties (css.go), sorted, as bytes -/
def allowedProperties : Option (List (List Nat)) := some [[97, 108, 105, 103, 110], [98, 97, 99, 107, 103, 114, 111, 117, 110, 100, 45, 99, 111, 108, 111, 114], [98, 111, 114, 100, 101, 114], [98, 111, 114, 100, 101, 114, 45, 98, 111, 116, 116, 111, 109], [98, 111, 114, 100, 101, 114, 45, 108, 101, 102, 116], [98, 111, 114, 100, 101, 114, 45, 114, 97, 100, 105, 117, 115], [98, 111, 114, 100, 101, 114, 45, 114, 105, 103, 104, 116], [98, 111, 114, 100, 101, 114, 45, 116, 111, 112], [98, 111, 120, 45, 115, 105, 122, 105, 110, 103], [99, 108, 101, 97, 114], [99, 111, 108, 111, 114], [99, 111, 110, 116, 101, 110, 116], [100, 105, 115, 112, 108, 97, 121], [102, 111, 110, 116, 45, 102, 97, 109, 105, 108, 121], [102, 111, 110, 116, 45, 115, 105, 122, 101], [102, 111, 110, 116, 45, 119, 101, 105, 103, 104, 116], [104, 101, 105, 103, 104, 116], [108, 105, 110, 101, 45, 104, 101, 105, 103, 104, 116], [109, 97, 114, 103, 105, 110], [109, 97, 114, 103, 105, 110, 45, 98, 111, 116, 116, 111, 109], [109, 97, 114, 103, 105, 110, 45, 108, 101, 102, 116], [109, 97, 114, 103, 105, 110, 45, 114, 105, 103, 104, 116], [109, 97, 114, 103, 105, 110, 45, 116, 111, 112], [109, 97, 120, 45, 104, 101, 105, 103, 104, 116], [109, 97, 120, 45, 119, 105, 100, 116, 104], [111, 118, 101, 114, 102, 108, 111, 119], [112, 97, 100, 100, 105, 110, 103], [112, 97, 100, 100, 105, 110, 103, 45, 98, 111, 116, 116, 111, 109], [112, 97, 100, 100, 105, 110, 103, 45, 108, 101, 102, 116], [112, 97, 100, 100, 105, 110, 103, 45, 114, 105, 103, 104, 116], [112, 97, 100, 100, 105, 110, 103, 45, 116, 111, 112], [116, 97, 98, 108, 101, 45, 108, 97, 121, 111, 117, 116], [116, 101, 120, 116, 45, 97, 108, 105, 103, 110], [116, 101, 120, 116, 45, 100, 101, 99, 111, 114, 97, 116, 105, 111, 110], [116, 101, 120, 116, 45, 115, 104, 97, 100, 111, 119], [118, 101, 114, 116, 105, 99, 97, 108, 45, 97, 108, 105, 103, 110], [119, 105, 100, 116, 104], [119, 111, 114, 100, 45, 98, 114, 101, 97, 107]]

/-- the same, readable -/
def allowedPropertyNames : List String := ["align", "background-color", "border", "border-bottom", "border-left", "border-radius", "border-right", "border-top", "box-sizing", "clear", "color", "content", "display", "font-family", "font-size", "font-weight", "height", "line-height", "margin", "margin-bottom", "margin-left", "margin-right", "margin-top", "max-height", "max-width", "overflow", "padding", "padding-bottom", "padding-left", "padding-right", "padding-top", "table-layout", "text-align", "text-decoration", "text-shadow", "vertical-align", "width", "word-break"]

/-- functions of css.go returning a stateHandler, in source order -/
def stateHandlers : List String := ["stateStart", "stateEat", "stateValid"]

/-- string literals of sanitizeStyle, in source order -/
def sanitizeStyleLits : List String := ["", ""]

/-- scanner.X selectors of sanitizeStyle, in source order -/
def sanitizeStyleTypes : List String := ["New", "TokenEOF", "TokenError"]

/-- results of the return statements of sanitizeStyle, in source order -/
def sanitizeStyleReturns : List String := ["b.String()", "\"\"", "\"\""]

/-- callees of sanitizeStyle, in source order -/
def sanitizeStyleCalls : List String := ["scanner.New", "scan.Next", "b.String", "state"]

/-- string literals of stateStart, in source order -/
def stateStartLits : List String := ["/*", "*/"]

/-- scanner.X selectors of stateStart, in source order -/
def stateStartTypes : List String := ["Token", "TokenIdent", "TokenS"]

/-- results of the return statements of stateStart, in source order -/
def stateStartReturns : List String := ["stateEat", "stateValid", "stateStart", "stateEat"]

/-- callees of stateStart, in source order -/
def stateStartCalls : List String := ["strings.ToLower", "b.WriteString", "b.WriteString", "t.Type.String"]

/-- string literals of stateEat, in source order -/
def stateEatLits : List String := [";"]

/-- scanner.X selectors of stateEat, in source order -/
def stateEatTypes : List String := ["Token", "TokenChar"]

/-- results of the return statements of stateEat, in source order -/
def stateEatReturns : List String := ["stateStart", "stateEat"]

/-- callees of stateEat, in source order -/
def stateEatCalls : List String := []

/-- string literals of stateValid, in source order -/
def stateValidLits : List String := [";"]

/-- scanner.X selectors of stateValid, in source order -/
def stateValidTypes : List String := ["Token", "TokenChar"]

/-- results of the return statements of stateValid, in source order -/
def stateValidReturns : List String := ["state"]

/-- callees of stateValid, in source order -/
def stateValidCalls : List String := ["b.WriteString"]

/-- Token* constants of gorilla/css scanner.go in iota order -/
def tokenConsts : List String := ["TokenError", "TokenEOF", "TokenIdent", "TokenAtKeyword", "TokenString", "TokenHash", "TokenNumber", "TokenPercentage", "TokenDimension", "TokenURI", "TokenUnicodeRange", "TokenCDO", "TokenCDC", "TokenS", "TokenComment", "TokenFunction", "TokenIncludes", "TokenDashMatch", "TokenPrefixMatch", "TokenSuffixMatch", "TokenSubstringMatch", "TokenChar", "TokenBOM"]

/-- tokenNames[c] for each of them, as bytes (what tokenType.String() returns) -/
def tokenNames : Option (List (List Nat)) := some [[101, 114, 114, 111, 114], [69, 79, 70], [73, 68, 69, 78, 84], [65, 84, 75, 69, 89, 87, 79, 82, 68], [83, 84, 82, 73, 78, 71], [72, 65, 83, 72], [78, 85, 77, 66, 69, 82], [80, 69, 82, 67, 69, 78, 84, 65, 71, 69], [68, 73, 77, 69, 78, 83, 73, 79, 78], [85, 82, 73], [85, 78, 73, 67, 79, 68, 69, 45, 82, 65, 78, 71, 69], [67, 68, 79], [67, 68, 67], [83], [67, 79, 77, 77, 69, 78, 84], [70, 85, 78, 67, 84, 73, 79, 78], [73, 78, 67, 76, 85, 68, 69, 83], [68, 65, 83, 72, 77, 65, 84, 67, 72], [80, 82, 69, 70, 73, 88, 77, 65, 84, 67, 72], [83, 85, 70, 70, 73, 88, 77, 65, 84, 67, 72], [83, 85, 66, 83, 84, 82, 73, 78, 71, 77, 65, 84, 67, 72], [67, 72, 65, 82], [66, 79, 77]]

/-- initialiser of `policy` in html.go, white space removed -/
def policySrc : Option String := some "bluemonday.UGCPolicy().AllowElements(\"center\").AllowAttrs(\"style\").Matching(cssSafe).Globally()"

/-- initialiser of `cssSafe` in html.go -/
def cssSafeSrc : Option String := some "regexp.MustCompile(\".*\")"

/-- callees of sanitize.HTML, in source order -/
def htmlCalls : List String := ["sanitizeStyleTags", "policy.Sanitize"]

/-- callees of styleTagFilter, in source order -/
def filterCalls : List String := ["bufio.NewWriter", "make", "html.NewTokenizer", "z.Next", "z.Err", "bw.Flush", "z.TagName", "bw.Write", "z.Raw", "append", "append", "z.TagAttr", "string", "strings.ToLower", "string", "sanitizeStyle", "append", "append", "append", "append", "[]byte", "html.EscapeString", "append", "append", "bw.Write", "append", "bw.Write", "z.Raw"]

/-- string literals of styleTagFilter -/
def filterLits : List String := ["style", ""]

/-- callees of TextToHTML, in source order -/
def textToHTMLCalls : List String := ["html.EscapeString", "urlRE.ReplaceAllStringFunc", "strings.NewReplacer", "replacer.Replace"]

/-- string literals of TextToHTML (the replacer's arguments), as bytes -/
def textToHTMLLits : List (List Nat) := [[13, 10], [60, 98, 114, 47, 62, 10], [13], [60, 98, 114, 47, 62, 10], [10], [60, 98, 114, 47, 62, 10]]

/-- second argument of urlRE.ReplaceAllStringFunc in TextToHTML -/
def textToHTMLReplaceFunc : String := "wrapMatch"

/-- string literals of wrapMatch (the case list), as bytes -/
def wrapMatchLits : List (List Nat) := [[38, 97, 109, 112], [38, 108, 116], [38, 103, 116], [38, 35, 51, 52], [38, 35, 51, 57]]

/-- callees of wrapMatch, in source order -/
def wrapMatchCalls : List String := ["strings.LastIndexByte", "WrapURL", "WrapURL"]

/-- results of wrapMatch's return statements -/
def wrapMatchReturns : List String := ["WrapURL(match[:i]) + match[i:]", "WrapURL(match)"]

/-- callees of WrapURL, in source order -/
def wrapURLCalls : List String := ["linkable", "strings.ReplaceAll", "fmt.Sprintf"]

/-- string literals of WrapURL, as bytes -/
def wrapURLLits : List (List Nat) := [[38, 97, 109, 112, 59], [38], [60, 97, 32, 104, 114, 101, 102, 61, 34, 37, 115, 34, 32, 116, 97, 114, 103, 101, 116, 61, 34, 95, 98, 108, 97, 110, 107, 34, 62, 37, 115, 60, 47, 97, 62]]

/-- results of WrapURL's return statements -/
def wrapURLReturns : List String := ["url", "fmt.Sprintf(\"<a href=\\\"%s\\\" target=\\\"_blank\\\">%s</a>\", unescaped, url)"]

/-- string literals of linkable, as bytes -/
def linkableLits : List (List Nat) := [[58, 47, 63, 35, 38]]

/-- body of linkable, printed with single spaces -/
def linkableSrc : String := "{ i := strings.IndexAny(url, \":/?#&\") if i < 0 { return true } switch url[i] { case ':': return linkSchemes[strings.ToLower(url[:i])] case '&': return false } return true }"

/-- keys of linkSchemes (helpers.go), sorted, as bytes -/
def linkSchemes : Option (List (List Nat)) := some [[102, 116, 112], [104, 116, 116, 112], [104, 116, 116, 112, 115], [109, 97, 105, 108, 116, 111]]

end Ibx.Gen.San
