/- REGENERATED from /repo on every run by /verif/harness/cmd/extract — do not edit. -/
namespace Ibx.Gen.Hub

/-- const opChanLen in pkg/msghub/hub.go (capacity of the hub's operation queue) -/
def opChanLen : Option Nat := some 100

/-- does (*Hub).Start contain close(hub.opChan)?  (a late Dispatch would then panic) -/
def startClosesOpChan : Option Bool := some false

/-- capacity literal of the make(chan …, N) assigned to field c in newMsgListenerV1 -/
def chanCapV1 : Option Nat := some 100

/-- capacity literal of the make(chan …, N) assigned to field c in newMsgListenerV2 -/
def chanCapV2 : Option Nat := some 100

/-- shape of (*msgListenerV1).Close: selectOnDataChan = tests `already closed` by receiving from the event queue; doneChan = sync.Once-guarded close of a separate done channel + RemoveListener, event queue never closed -/
def wsCloseV1 : String := "doneChan"

/-- shape of (*msgListenerV2).Close: selectOnDataChan = tests `already closed` by receiving from the event queue; doneChan = sync.Once-guarded close of a separate done channel + RemoveListener, event queue never closed -/
def wsCloseV2 : String := "doneChan"

/-- all sends on the event queue in pkg/rest/socketv1_controller.go: nonBlockingSend = each is a select comm with a default clause; blockingSend = at least one plain send statement -/
def wsReceiveV1 : String := "nonBlockingSend"

/-- all sends on the event queue in pkg/rest/socketv2_controller.go: nonBlockingSend = each is a select comm with a default clause; blockingSend = at least one plain send statement -/
def wsReceiveV2 : String := "nonBlockingSend"

/-- any close(<x>.c) in pkg/rest/socketv1_controller.go -/
def closesDataChanV1 : Option Bool := some false

/-- any close(<x>.c) in pkg/rest/socketv2_controller.go -/
def closesDataChanV2 : Option Bool := some false

/-- (*msgListenerV1).WSWriter selects on a receive from <recv>.done -/
def writerSelectsDoneV1 : Option Bool := some true

/-- (*msgListenerV2).WSWriter selects on a receive from <recv>.done -/
def writerSelectsDoneV2 : Option Bool := some true

/-- Receive, Delete or a same-receiver helper they call mention <recv>.hub (they run on the hub goroutine: calling the hub from there would self-deadlock) -/
def receiveCallsHubV1 : Option Bool := some false

/-- Receive, Delete or a same-receiver helper they call mention <recv>.hub (they run on the hub goroutine: calling the hub from there would self-deadlock) -/
def receiveCallsHubV2 : Option Bool := some false

end Ibx.Gen.Hub
