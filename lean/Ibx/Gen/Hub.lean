/- REGENERATED from /repo on every run by /verif/harness/cmd/extract — do not edit. -/
namespace Ibx.Gen.Hub

/-- capacity (literal or constant) of the make(chan func(…), N) that initialises the Hub's operation queue — the Hub field of type chan func(…) — in pkg/msghub/hub.go -/
def opChanLen : Option Nat := some 100

/-- does (*Hub).Start, or a same-file function it calls, close the operation queue?  (a late Dispatch would then panic) -/
def startClosesOpChan : Option Bool := some false

/-- capacity of the make(chan …, N) that initialises the event queue (the channel field that is sent on) of the listener type (the one with methods Receive and Delete) of pkg/rest/socketv1_controller.go -/
def chanCapV1 : Option Nat := some 100

/-- capacity of the make(chan …, N) that initialises the event queue (the channel field that is sent on) of the listener type (the one with methods Receive and Delete) of pkg/rest/socketv2_controller.go -/
def chanCapV2 : Option Nat := some 100

/-- shape of Close of the listener type (the one with methods Receive and Delete) of pkg/rest/socketv1_controller.go: selectOnDataChan = tests `already closed` by receiving from the event queue; doneChan = sync.Once-guarded close of a separate chan struct{} field + <hub field>.RemoveListener(itself), event queue never closed -/
def wsCloseV1 : String := "doneChan"

/-- shape of Close of the listener type (the one with methods Receive and Delete) of pkg/rest/socketv2_controller.go: selectOnDataChan = tests `already closed` by receiving from the event queue; doneChan = sync.Once-guarded close of a separate chan struct{} field + <hub field>.RemoveListener(itself), event queue never closed -/
def wsCloseV2 : String := "doneChan"

/-- all send statements in pkg/rest/socketv1_controller.go: nonBlockingSend = each is on the event queue and is a select comm with a default clause; blockingSend = at least one is a plain statement or in a select without default -/
def wsReceiveV1 : String := "nonBlockingSend"

/-- all send statements in pkg/rest/socketv2_controller.go: nonBlockingSend = each is on the event queue and is a select comm with a default clause; blockingSend = at least one is a plain statement or in a select without default -/
def wsReceiveV2 : String := "nonBlockingSend"

/-- any close(<x>.<event queue>) in pkg/rest/socketv1_controller.go -/
def closesDataChanV1 : Option Bool := some false

/-- any close(<x>.<event queue>) in pkg/rest/socketv2_controller.go -/
def closesDataChanV2 : Option Bool := some false

/-- WSWriter (or a same-file function it calls) of the listener type (the one with methods Receive and Delete) of pkg/rest/socketv1_controller.go selects on a receive from the done channel (the chan struct{} field the file closes) -/
def writerSelectsDoneV1 : Option Bool := some true

/-- WSWriter (or a same-file function it calls) of the listener type (the one with methods Receive and Delete) of pkg/rest/socketv2_controller.go selects on a receive from the done channel (the chan struct{} field the file closes) -/
def writerSelectsDoneV2 : Option Bool := some true

/-- Receive, Delete or a same-file function they (transitively) call mention the field of type *msghub.Hub (they run on the hub goroutine: calling the hub from there would self-deadlock) -/
def receiveCallsHubV1 : Option Bool := some false

/-- Receive, Delete or a same-file function they (transitively) call mention the field of type *msghub.Hub (they run on the hub goroutine: calling the hub from there would self-deadlock) -/
def receiveCallsHubV2 : Option Bool := some false

end Ibx.Gen.Hub
