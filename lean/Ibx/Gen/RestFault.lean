/- REGENERATED from /repo on every run by /verif/harness/cmd/extract — do not edit. -/
namespace Ibx.Gen.RestFault

/-- web.Handler.ServeHTTP: the fallible calls and the writes to the ResponseWriter in execution order as (kind, callee, reaction to its error); kind = mgr | store | w | call | ctl; reactions: `<cond> => <action> ; …` over err / res / ErrNotExist / nil (the decision table of the call as a first-match rule list), `tail` (the call's results are the function's), `ignored`, `then return-err` (harness/cmd/extract/rest_fault.go has the notation) -/
def wrapper : List (String × String × String) := [("call", "web.NewContext", "err != nil => http.Error:500+return"), ("w", "handler", "err != nil => http.Error:500+return")]

/-- the store-facing methods of message.StoreManager -/
def manager : List (String × List (String × String × String)) := [
  ("GetMetadata", [("store", "Store.GetMessages", "err != nil => return-err")]),
  ("GetMessage", [("store", "Store.GetMessage", "err != nil || res == nil => return-err"), ("store", "Message.Source", "err != nil => return-err"), ("store", "enmime.ReadEnvelope", "err != nil => return-err"), ("call", "io.ReadCloser.Close", "ignored")]),
  ("SourceReader", [("store", "Store.GetMessage", "err != nil || res == nil => return-err"), ("store", "Message.Source", "tail")]),
  ("MarkSeen", [("store", "Store.MarkSeen", "tail")]),
  ("RemoveMessage", [("store", "Store.RemoveMessage", "tail")]),
  ("PurgeMessages", [("store", "Store.PurgeMessages", "tail")])]

/-- the ten mailbox handlers of pkg/rest and pkg/webui -/
def handlers : List (String × List (String × String × String)) := [
  ("MailboxListV1", [("mgr", "MailboxForAddress", "err != nil => return-err"), ("mgr", "GetMetadata", "err != nil => return-wrapped"), ("w", "web.RenderJSON", "tail")]),
  ("MailboxShowV1", [("mgr", "MailboxForAddress", "err != nil => return-err"), ("mgr", "GetMessage", "err != nil && err != ErrNotExist => return-wrapped ; res == nil => http.NotFound+return-nil"), ("w", "web.RenderJSON", "tail")]),
  ("MailboxMarkSeenV1", [("mgr", "MailboxForAddress", "err != nil => return-err"), ("call", "json.Decoder.Decode", "err != nil => return-wrapped"), ("ctl", "if", ""), ("mgr", "MarkSeen", "err == ErrNotExist => http.NotFound+return-nil ; err != nil => return-wrapped"), ("ctl", "end", ""), ("w", "web.RenderJSON", "tail")]),
  ("MailboxPurgeV1", [("mgr", "MailboxForAddress", "err != nil => return-err"), ("mgr", "PurgeMessages", "err != nil => return-wrapped"), ("w", "web.RenderJSON", "tail")]),
  ("MailboxSourceV1", [("mgr", "MailboxForAddress", "err != nil => return-err"), ("mgr", "SourceReader", "err != nil && err != ErrNotExist => return-wrapped ; res == nil => http.NotFound+return-nil"), ("w", "io.Copy", "then return-err")]),
  ("MailboxDeleteV1", [("mgr", "MailboxForAddress", "err != nil => return-err"), ("mgr", "RemoveMessage", "err == ErrNotExist => http.NotFound+return-nil ; err != nil => return-wrapped"), ("w", "web.RenderJSON", "tail")]),
  ("MailboxMessage", [("mgr", "MailboxForAddress", "err != nil => return-err"), ("mgr", "GetMessage", "err != nil && err != ErrNotExist => return-wrapped ; res == nil => http.NotFound+return-nil"), ("ctl", "if", ""), ("call", "sanitize.HTML", "err == nil => assign ; else => assign"), ("ctl", "end", ""), ("w", "web.RenderJSON", "tail")]),
  ("MailboxHTML", [("mgr", "MailboxForAddress", "err != nil => return-err"), ("mgr", "GetMessage", "err == ErrNotExist => http.NotFound+return-nil ; err != nil => return-wrapped"), ("w", "ResponseWriter.Write", "then return-err")]),
  ("MailboxSource", [("mgr", "MailboxForAddress", "err != nil => return-err"), ("mgr", "SourceReader", "err == ErrNotExist => http.NotFound+return-nil ; err != nil => return-wrapped"), ("w", "io.Copy", "then return-err")]),
  ("MailboxViewAttach", [("mgr", "MailboxForAddress", "err != nil => return-err"), ("call", "strconv.ParseUint", "err != nil => return-err"), ("mgr", "GetMessage", "err == ErrNotExist => http.NotFound+return-nil ; err != nil => return-wrapped"), ("ctl", "if", ""), ("ctl", "return-wrapped", ""), ("ctl", "end", ""), ("w", "ResponseWriter.Write", "then return-err")])]

/-- per handler HOW storage.ErrNotExist is used in it and in the unexported functions of its package it reaches, as a sorted set: == (a comparison of identity: ==, != or a case of a tagged switch) | Is (errors.Is) | other -/
def notExistTests : List (String × List String) := [
  ("MailboxListV1", []),
  ("MailboxShowV1", ["=="]),
  ("MailboxMarkSeenV1", ["=="]),
  ("MailboxPurgeV1", []),
  ("MailboxSourceV1", ["=="]),
  ("MailboxDeleteV1", ["=="]),
  ("MailboxMessage", ["=="]),
  ("MailboxHTML", ["=="]),
  ("MailboxSource", ["=="]),
  ("MailboxViewAttach", ["=="])]

end Ibx.Gen.RestFault
