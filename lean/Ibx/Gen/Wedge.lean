/- REGENERATED from /repo on every run by /verif/harness/cmd/extract — do not edit. -/
namespace Ibx.Gen.Wedge

/-- file store, the mailbox method R that the exported RemoveMessage calls: "shrinksAlways" = R assigns a receiver field F exactly once, by the splice F = append(F[:i], F[i+1:]...) inside `range F`, and neither R nor anything reachable from a call after the splice assigns that field again; "restoresOnFailure" = R assigns F from a local that was bound to F earlier -/
def removeListEffect : String := "shrinksAlways"

/-- the splice is reached under `<parameter of R> == <range value>.ID()` -/
def removeMatchesByID : Bool := true

/-- calls of R that can return an error and precede the splice: none / loadGuardOnly (all inside one leading `if !<recv>.<bool field> {...}` that returns the error) / other -/
def removeFallibleBeforeSplice : String := "loadGuardOnly"

/-- the one `for` of the package whose condition measures len(<recv>.F), F the spliced field: no init / post, condition len(<recv>.F) >= <cap> with cap the field initialised from MailboxMsgCap, inside `if <cap> > 0` -/
def capLoopCond : String := "len(F)>=cap"

/-- "removeHead" = the body calls R exactly once with <recv>.F[0].ID(), makes no other same-package call but ID(), assigns no receiver field and has no break / return / continue / goto / nested loop: R's error is at most logged -/
def capLoopBody : String := "removeHead"

/-- the function of that loop starts with the same load guard as R (same flag, same loader), the loader sets the flag to true right before each `return nil` and never clears it, and neither R nor the loop body assigns the flag -/
def capLoopLoadsFirst : Bool := true

/-- every for / range statement of pkg/storage/file and pkg/storage/mem in source order with its shape -/
def storeLoops : List String := ["file.mbox.newMessage:len>=cap:removeHead", "file.mbox.newMessage:redraw", "file.mbox.hasID:range", "file.-.countGenerator:counter:forever", "file.Store.MarkSeen:range", "file.Store.PurgeMessages:range", "file.Store.VisitMailboxes:range", "file.Store.VisitMailboxes:range", "file.Store.VisitMailboxes:range", "file.mbox.getMessages:range", "file.mbox.getMessage:range", "file.mbox.removeMessage:range", "file.mbox.readIndex:untilError", "file.mbox.writeIndex:range", "mem.Store.maxSizeEnforcer:selectForever", "mem.Store.maxSizeEnforcer:drainList", "mem.Store.AddMessage:len>cap:cursor++", "mem.Store.AddMessage:range", "mem.Store.GetMessages:range", "mem.Store.PurgeMessages:range", "mem.Store.PurgeMessages:range", "mem.Store.VisitMailboxes:range", "mem.Store.VisitMailboxes:range"]

/-- functions of those packages started by a `go` statement -/
def goroutineFuncs : List String := ["file.countGenerator", "mem.maxSizeEnforcer"]

/-- blocking operations reachable from AsyncEventBroker.Emit through same-file functions, outside function literals and go statements, other than mutex Lock / RLock -/
def emitBlockingOps : List String := []

/-- the queue's worker makes the dynamic call of the popped function between an Unlock() and a Lock() of the same mutex -/
def workerCallsOutsideQueueMutex : Bool := true

end Ibx.Gen.Wedge
