/- REGENERATED from /repo on every run by /verif/harness/cmd/extract — do not edit. -/
namespace Ibx.Gen.Dot

/-- format of `returnPath := fmt.Sprintf(…)` in Deliver: some "Return-Path: <%s>\r\n" -/
def returnPathFmt : Option (List Nat) := some [82, 101, 116, 117, 114, 110, 45, 80, 97, 116, 104, 58, 32, 60, 37, 115, 62, 13, 10]

/-- its arguments -/
def returnPathArgs : List String := ["from.Address.Address"]

/-- format of `recvd := fmt.Sprintf(…)` in Deliver: some "%s  for <%s>; %s\r\n" -/
def recvdFmt : Option (List Nat) := some [37, 115, 32, 32, 102, 111, 114, 32, 60, 37, 115, 62, 59, 32, 37, 115, 13, 10]

/-- its arguments -/
def recvdArgs : List String := ["recvdHeader", "mb", "tstamp"]

/-- the readers concatenated into the stored source, in order -/
def multiReaderArgs : Option (List String) := some ["strings.NewReader(returnPath)", "strings.NewReader(recvd)", "bytes.NewReader(source)"]

/-- time layout of the Received timestamp (rendered in UTC: fixed width) -/
def recvdTimeFmt : Option String := some "Mon, 02 Jan 2006 15:04:05 -0700 (MST)"

/-- format of `recvdHeader := fmt.Sprintf(…)` in dataHandler: some "Received: from %s ([%s]) by %s\r\n" -/
def recvdHeaderFmt : Option (List Nat) := some [82, 101, 99, 101, 105, 118, 101, 100, 58, 32, 102, 114, 111, 109, 32, 37, 115, 32, 40, 91, 37, 115, 93, 41, 32, 98, 121, 32, 37, 115, 13, 10]

/-- its arguments -/
def recvdHeaderArgs : List String := ["s.remoteDomain", "s.remoteHost", "s.config.Domain"]

/-- what dataHandler passes to Deliver -/
def deliverArgs : Option (List String) := some ["s.from", "s.recipients", "recvdHeader", "mailData.Bytes()"]

/-- every definition of mailData in dataHandler -/
def mailDataDefs : List String := ["bytes.NewBuffer(msgBuf)"]

/-- readDataBlock calls s.text.ReadDotBytes() exactly once -/
def readsDotBytes : Bool := true

/-- arguments of scanner.Buffer in sendMessage (none = default 64 KiB token limit, or not recognised) -/
def sendMessageBuffer : Option (List String) := some ["nil", "int(msg.Size()) + 1"]

/-- literals of strings.HasPrefix(line, …) in sendMessage -/
def sendMessageDotTest : List (List Nat) := [[46]]

/-- every `line = …` in sendMessage -/
def sendMessageLineRewrites : List String := ["\".\" + line"]

/-- argument of bufio.NewScanner in sendMessage (no Split call = ScanLines) -/
def sendMessageScanner : Option (List String) := some ["reader"]

/-- a scanner.Split call would replace ScanLines -/
def sendMessageHasSplit : Bool := false

/-- arguments of scanner.Buffer in sendMessageTop (none = default 64 KiB token limit, or not recognised) -/
def sendMessageTopBuffer : Option (List String) := some ["nil", "int(msg.Size()) + 1"]

/-- literals of strings.HasPrefix(line, …) in sendMessageTop -/
def sendMessageTopDotTest : List (List Nat) := [[46]]

/-- every `line = …` in sendMessageTop -/
def sendMessageTopLineRewrites : List String := ["\".\" + line"]

/-- argument of bufio.NewScanner in sendMessageTop (no Split call = ScanLines) -/
def sendMessageTopScanner : Option (List String) := some ["reader"]

/-- a scanner.Split call would replace ScanLines -/
def sendMessageTopHasSplit : Bool := false

/-- what POP3 send writes for a line -/
def pop3SendArgs : Option (List String) := some ["s.conn", "msg + \"\\r\\n\""]

end Ibx.Gen.Dot
