/- REGENERATED from /repo on every run by /verif/harness/cmd/extract — do not edit. -/
namespace Ibx.Gen.Dot

/-- format (+ arguments form of the Sprintf / concatenation) of the first built string that Deliver's MultiReader reads (format#0): some "Return-Path: <%s>\r\n" -/
def returnPathFmt : Option (List Nat) := some [82, 101, 116, 117, 114, 110, 45, 80, 97, 116, 104, 58, 32, 60, 37, 115, 62, 13, 10]

/-- its arguments ($p<i> = i-th parameter of Deliver) -/
def returnPathArgs : List String := ["$p0.Address.Address"]

/-- format of the second one (format#1): some "%s  for <%s>; %s\r\n" -/
def recvdFmt : Option (List Nat) := some [37, 115, 32, 32, 102, 111, 114, 32, 60, 37, 115, 62, 59, 32, 37, 115, 13, 10]

/-- its arguments -/
def recvdArgs : List String := ["$p2", "$each($v.Mailboxes)", "$outer(time.Now().UTC().Format(recvdTimeFmt))"]

/-- the readers concatenated into the stored source, in order -/
def multiReaderArgs : Option (List String) := some ["strings.NewReader(format#0)", "strings.NewReader(format#1)", "bytes.NewReader($p3)"]

/-- time layout of the Received timestamp (package-level constant recvdTimeFmt; rendered in UTC: fixed width) -/
def recvdTimeFmt : Option String := some "Mon, 02 Jan 2006 15:04:05 -0700 (MST)"

/-- format of the built string the DATA handler passes to Deliver (format#hdr): some "Received: from %s ([%s]) by %s\r\n" -/
def recvdHeaderFmt : Option (List Nat) := some [82, 101, 99, 101, 105, 118, 101, 100, 58, 32, 102, 114, 111, 109, 32, 37, 115, 32, 40, 91, 37, 115, 93, 41, 32, 98, 121, 32, 37, 115, 13, 10]

/-- its arguments ($r = the session) -/
def recvdHeaderArgs : List String := ["$r.remoteDomain", "$r.remoteHost", "$r.config.Domain"]

/-- what the DATA handler passes to Deliver, each argument traced to where it comes from (locals and the block-reading helper looked through) -/
def deliverArgs : Option (List String) := some ["$r.from", "$r.recipients", "format#hdr", "$r.text.ReadDotBytes()#0"]

/-- arguments of <scanner>.Buffer in the helper behind RETR (none = default 64 KiB token limit, or not recognised); $p = a parameter of the helper -/
def sendMessageBuffer : Option (List String) := some ["nil", "int($p.Size()) + 1"]

/-- literals of strings.HasPrefix(<line>, …) in the helper behind RETR -/
def sendMessageDotTest : List (List Nat) := [[46]]

/-- where <line> comes from and every later assignment to it -/
def sendMessageLineRewrites : List String := ["$line := $outer(bufio.NewScanner($p.Source()#0)).Text()", "$line = \".\" + $line"]

/-- what the scan loop hands to the reply helper -/
def sendMessageLoopSends : List String := ["$line"]

/-- argument of bufio.NewScanner in the helper behind RETR (no Split call = ScanLines) -/
def sendMessageScanner : Option (List String) := some ["$p.Source()#0"]

/-- a <scanner>.Split call would replace ScanLines -/
def sendMessageHasSplit : Bool := false

/-- arguments of <scanner>.Buffer in the helper behind TOP (none = default 64 KiB token limit, or not recognised); $p = a parameter of the helper -/
def sendMessageTopBuffer : Option (List String) := some ["nil", "int($p.Size()) + 1"]

/-- literals of strings.HasPrefix(<line>, …) in the helper behind TOP -/
def sendMessageTopDotTest : List (List Nat) := [[46]]

/-- where <line> comes from and every later assignment to it -/
def sendMessageTopLineRewrites : List String := ["$line := $outer(bufio.NewScanner($p.Source()#0)).Text()", "$line = \".\" + $line"]

/-- what the scan loop hands to the reply helper -/
def sendMessageTopLoopSends : List String := ["$line"]

/-- argument of bufio.NewScanner in the helper behind TOP (no Split call = ScanLines) -/
def sendMessageTopScanner : Option (List String) := some ["$p.Source()#0"]

/-- a <scanner>.Split call would replace ScanLines -/
def sendMessageTopHasSplit : Bool := false

/-- what the POP3 reply helper (the unexported method that calls fmt.Fprint) writes for a line -/
def pop3SendArgs : Option (List String) := some ["$r.conn", "$p + \"\\r\\n\""]

end Ibx.Gen.Dot
