/- REGENERATED from /repo on every run by /verif/harness/cmd/extract — do not edit. -/
namespace Ibx.Gen.Shutdown

/-- position of wg.Add(1) relative to the go statement of smtp.serve — Add before go: 1, Add inside goroutine: 1, deferred Done: 2, wg calls elsewhere: 1 -/
def smtp_wgAdd : String := "both"

/-- is the accept loop itself counted in the WaitGroup (Add in Start, deferred Done in serve) -/
def smtp_serveCounted : Option Bool := some true

/-- startSession's deferred function closes the connection, then calls wg.Done() -/
def smtp_closeBeforeDone : Bool := true

/-- Start waits for ctx.Done() and then closes the listener -/
def smtp_startClosesListenerAfterDone : Bool := true

/-- serve returns when Accept fails and ctx.Done() is readable -/
def smtp_serveReturnsOnDone : Bool := true

/-- Drain() = s.wg.Wait() (plus logging) -/
def smtp_drainIsWait : Bool := true

/-- pkg/server/smtp/handler.go contains an identifier ctx/context/Context or imports "context" -/
def smtp_handlerMentionsCtx : Bool := false

/-- position of wg.Add(1) relative to the go statement of pop3.serve — Add before go: 1, Add inside goroutine: 0, deferred Done: 1, wg calls elsewhere: 1 -/
def pop3_wgAdd : String := "beforeSpawn"

/-- is the accept loop itself counted in the WaitGroup (Add in Start, deferred Done in serve) -/
def pop3_serveCounted : Option Bool := some true

/-- startSession's deferred function closes the connection, then calls wg.Done() -/
def pop3_closeBeforeDone : Bool := true

/-- Start waits for ctx.Done() and then closes the listener -/
def pop3_startClosesListenerAfterDone : Bool := true

/-- serve returns when Accept fails and ctx.Done() is readable -/
def pop3_serveReturnsOnDone : Bool := true

/-- Drain() = s.wg.Wait() (plus logging) -/
def pop3_drainIsWait : Bool := true

/-- pkg/server/pop3/handler.go contains an identifier ctx/context/Context or imports "context" -/
def pop3_handlerMentionsCtx : Bool := false

/-- what Hub.Start does in `case <-ctx.Done():` before returning -/
def hub_onCancel : String := "closesDone"

/-- number of close(….opChan) calls in hub.go -/
def hub_closesOfOpChan : Nat := 0

/-- sends on opChan that are not a case of a select that also has `<-hub.done` -/
def hub_bareSends : Nat := 0

/-- enqueue is exactly `select { case hub.opChan <- op: case <-hub.done: }` -/
def hub_enqueueSelectsDone : Bool := true

/-- Sync enqueues through enqueue and then waits in a select that has `<-hub.done` -/
def hub_syncSelectsDone : Bool := true

/-- select statements in RetentionScanner.Start and DoScan -/
def ret_selects : Nat := 3

/-- … of which have a `case <-ctx.Done():` -/
def ret_selectsWithDone : Nat := 3

/-- channel receives/sends outside a select, time.Sleep, Wait/Join calls in Start and DoScan -/
def ret_blockingOutsideSelect : Nat := 0

/-- last statement of each `case <-ctx.Done():` branch, in source order (Start, then DoScan) -/
def ret_doneBranches : List String := ["break retentionLoop", "break retentionLoop", "return false"]

/-- close(rs.retentionShutdown) calls in Start (disabled path + end of loop) -/
def ret_closesShutdown : Nat := 2

/-- Join blocks on `<-rs.retentionShutdown` only -/
def ret_joinWaitsShutdown : Bool := true

end Ibx.Gen.Shutdown
