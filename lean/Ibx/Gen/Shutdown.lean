/- REGENERATED from /repo on every run by /verif/harness/cmd/extract — do not edit. -/
namespace Ibx.Gen.Shutdown

/-- where <WaitGroup field>.Add(1) sits relative to the go statement of the accept loop (beforeSpawn | inSessionGoroutine | both | unknown) — Add before go: 1, Add inside goroutine: 1, deferred Done: 2, WaitGroup calls in other functions: 0 -/
def smtp_wgAdd : String := "both"

/-- is the accept loop itself counted: one <WaitGroup>.Add in Start on the same path as (and before) the go statement, one unconditional deferred Done in the accept-loop function, no other WaitGroup call in Start (none = anything else) -/
def smtp_serveCounted : Option Bool := some true

/-- the session function closes its net.Conn parameter (or a once-assigned copy of it) in a deferred function, unconditionally and before the <WaitGroup>.Done() of that function -/
def smtp_closeBeforeDone : Bool := true

/-- Start receives from <context.Context parameter>.Done() as a statement and then, on the same path, calls Close() on the field Accept() is called on -/
def smtp_startClosesListenerAfterDone : Bool := true

/-- the accept loop returns on the path through a select case receiving from <context.Context parameter>.Done(): the return stands in that case, or the case does nothing but log and the statement the select rejoins at is the return -/
def smtp_serveReturnsOnDone : Bool := true

/-- Drain's only blocking operation is one <WaitGroup field>.Wait(); no loop, no goroutine -/
def smtp_drainIsWait : Bool := true

/-- the session function takes a context.Context, or is started with an argument mentioning the context.Context parameter, or the file declaring it imports "context" / contains an identifier ctx, context or Context -/
def smtp_handlerMentionsCtx : Bool := false

/-- where <WaitGroup field>.Add(1) sits relative to the go statement of the accept loop (beforeSpawn | inSessionGoroutine | both | unknown) — Add before go: 1, Add inside goroutine: 0, deferred Done: 1, WaitGroup calls in other functions: 0 -/
def pop3_wgAdd : String := "beforeSpawn"

/-- is the accept loop itself counted: one <WaitGroup>.Add in Start on the same path as (and before) the go statement, one unconditional deferred Done in the accept-loop function, no other WaitGroup call in Start (none = anything else) -/
def pop3_serveCounted : Option Bool := some true

/-- the session function closes its net.Conn parameter (or a once-assigned copy of it) in a deferred function, unconditionally and before the <WaitGroup>.Done() of that function -/
def pop3_closeBeforeDone : Bool := true

/-- Start receives from <context.Context parameter>.Done() as a statement and then, on the same path, calls Close() on the field Accept() is called on -/
def pop3_startClosesListenerAfterDone : Bool := true

/-- the accept loop returns on the path through a select case receiving from <context.Context parameter>.Done(): the return stands in that case, or the case does nothing but log and the statement the select rejoins at is the return -/
def pop3_serveReturnsOnDone : Bool := true

/-- Drain's only blocking operation is one <WaitGroup field>.Wait(); no loop, no goroutine -/
def pop3_drainIsWait : Bool := true

/-- the session function takes a context.Context, or is started with an argument mentioning the context.Context parameter, or the file declaring it imports "context" / contains an identifier ctx, context or Context -/
def pop3_handlerMentionsCtx : Bool := false

/-- what Hub.Start does in the `<-ctx.Done()` case of its loop's select before leaving: closesOpChan = closes the field the other case receives operations from; closesDone = closes another channel field (the done channel); unknown -/
def hub_onCancel : String := "closesDone"

/-- close(<operation channel field>) calls in package msghub (the field Hub.Start receives operations from) -/
def hub_closesOfOpChan : Nat := 0

/-- sends on the operation channel that are not a case of a default-less select that also receives from the done channel -/
def hub_bareSends : Nat := 0

/-- every function that sends on the operation channel has exactly one blocking operation: an unconditional two-case select { send on the operation channel; receive from the done channel } -/
def hub_enqueueSelectsDone : Bool := true

/-- Sync hands its operation to a producer function once and then waits in one default-less select that also receives from the done channel; it has no other blocking operation -/
def hub_syncSelectsDone : Bool := true

/-- select statements in RetentionScanner.Start and DoScan (visitor callback and unexported helpers followed) -/
def ret_selects : Nat := 3

/-- … of which have a case receiving from <context.Context parameter>.Done() -/
def ret_selectsWithDone : Nat := 3

/-- channel receives / sends outside a select, time.Sleep, Wait / Join / Lock calls in Start and DoScan (999: functions not found or control flow not understood) -/
def ret_blockingOutsideSelect : Nat := 0

/-- what each ctx.Done() case does, logging aside, in source order (Start, then DoScan): breakLoop = break labelled with Start's outermost loop | returnFalse | return | fallsThrough | breakSelect | other -/
def ret_doneBranches : List String := ["breakLoop", "breakLoop", "returnFalse"]

/-- close(<channel field Join receives from>) calls in Start -/
def ret_closesShutdown : Nat := 2

/-- Join's only blocking operation is a receive from a scanner field, and Start closes that very field on the disabled path (before returning) and after its loop -/
def ret_joinWaitsShutdown : Bool := true

end Ibx.Gen.Shutdown
