#!/usr/bin/env python3
"""
hrck.py <area> <n>    try a behaviour-preserving change (/tmp/hr/<area>/out/h<n>/patch.diff, written by an independent
sub-agent) against the checks of its area: apply to /repo, run the quick checks, undo.  Records the outcome in
/verif/harmless/<area>-h<n>/ (patch.diff, meta.json).  A VIOLATION with a failing input would be a FALSE ALARM of the
machinery; a `no-failing-input-found` violation is the brief's "a harmless rewrite can break a proof obligation".
"""
import json, os, re, shutil, subprocess, sys, time

AREAS = {
    "smtp": ["C01", "C03", "C05", "C06", "C17", "C02", "C19"],
    "pop3": ["C13", "C02", "C19", "C04"],
    "mem": ["C07", "C08", "C09", "C16", "C12"],
    "file": ["C07", "C10", "C11", "C09", "C12"],
    "hub": ["C15", "C16", "C19"],
    "policy": ["C04", "C05", "C01"],
    "rest": ["C14", "C04", "C01", "C17", "C02"],
    "lua": ["C17"],
    "san": ["C18"],
    "life": ["C12", "C19"],
}
GOENV = dict(os.environ, GOFLAGS="-mod=mod", GOPROXY="off", GOSUMDB="off", GOTOOLCHAIN="local")


def sh(cmd, cwd=None, timeout=3000, env=None):
    p = subprocess.run(cmd, cwd=cwd, shell=isinstance(cmd, str), env=env or dict(os.environ), stdout=subprocess.PIPE, stderr=subprocess.STDOUT, text=True, errors="replace", timeout=timeout)
    return p.returncode, p.stdout


def main():
    area, n = sys.argv[1], sys.argv[2]
    out = "/tmp/hr/%s/out/h%s" % (area, n)
    patch = os.path.join(out, "patch.diff")
    meta = json.load(open(os.path.join(out, "meta.json")))
    assert sh("git status --porcelain", cwd="/repo")[1].strip() == "", "/repo not clean"
    rc, o = sh(["git", "-C", "/repo", "apply", patch])
    if rc != 0:
        print("patch does not apply:", o)
        sys.exit(2)
    results = {}
    try:
        rc, o = sh("go build ./... && go build -tags verif ./...", cwd="/repo", env=GOENV)
        if rc != 0:
            print("does not build:", o[-500:])
            sys.exit(2)
        for c in AREAS[area]:
            t = time.time()
            rc, o = sh(["./check", c], cwd="/verif")
            line = [l for l in o.splitlines() if l.startswith("VIOLATION")]
            r = {"exit": rc, "violation": line[0] if line else "", "wall_s": round(time.time() - t, 1)}
            rp = re.search(r"replay=(\S+)", line[0]) if line else None
            if rp and os.path.exists(rp.group(1)):
                j = json.load(open(rp.group(1)))
                r["kind"] = j.get("kind")
                r["what"] = (j.get("oracle") or j.get("no_longer_checks") or "")[:200]
                r["detail"] = (j.get("detail") or "")[:600]
            results[c] = r
            print(c, r)
    finally:
        sh("git checkout -- . && git clean -qfd pkg cmd", cwd="/repo")
    sd = "/verif/harmless/%s-h%s" % (area, n)
    if os.path.isdir(sd):
        shutil.rmtree(sd)
    os.makedirs(sd)
    shutil.copy(patch, os.path.join(sd, "patch.diff"))
    verdict = "silent"
    if any(r["exit"] == 1 and "no-failing-input-found" in r["violation"] for r in results.values()):
        verdict = "obligation-or-correspondence-broken (no failing input)"
    if any(r["exit"] == 1 and r["violation"] and "no-failing-input-found" not in r["violation"] for r in results.values()):
        verdict = "FALSE ALARM with failing input"
    json.dump({"area": area, "title": meta.get("title"), "kind": meta.get("kind"), "why_equivalent": meta.get("why_equivalent"), "files": meta.get("files"),
               "checks": results, "verdict": verdict}, open(os.path.join(sd, "meta.json"), "w"), indent=1)
    for c in AREAS[area]:
        if results.get(c, {}).get("exit"):
            sh(["./check", c], cwd="/verif")  # restore the evidence file of the unchanged tree
    print("verdict:", verdict)


if __name__ == "__main__":
    main()
