#!/usr/bin/env python3
"""
regress.py [-j N] [seeded|harmless|all] [name-prefix ...]
Regression of the machinery itself, in private copies (never touches /repo or /verif's build): N workers, each a copy of the COMMITTED+working
/verif under /tmp/rg/w<i>/verif and a git worktree of /repo under /tmp/rg/w<i>/repo.
  seeded/<id>    : apply patch.diff, run the checks recorded in meta.json `caught_by` (first that reports a VIOLATION wins; if none does, all the
                   checks that were tried at recording time) -> must be CAUGHT.
  harmless/<id>  : apply patch.diff, run the area's checks -> a VIOLATION with a failing input is a FALSE ALARM; `no-failing-input-found` is tolerated noise.
Results: /tmp/rg/results.json and a table on stdout.  Workspaces are removed at the end.
"""
import json, os, re, shutil, subprocess, sys, threading, queue, glob, time

V = os.path.dirname(os.path.abspath(__file__))
GOENV = dict(os.environ, GOFLAGS="-mod=mod", GOPROXY="off", GOSUMDB="off", GOTOOLCHAIN="local")
sys.path.insert(0, V)


def sh(cmd, cwd=None, timeout=3000, env=None):
    p = subprocess.run(cmd, cwd=cwd, shell=isinstance(cmd, str), env=env or GOENV, stdout=subprocess.PIPE, stderr=subprocess.STDOUT, text=True, errors="replace", timeout=timeout)
    return p.returncode, p.stdout


def mkws(i):
    d = "/tmp/rg/w%d" % i
    sh("git -C /repo worktree remove --force %s/repo" % d)
    shutil.rmtree(d, ignore_errors=True)
    os.makedirs(d)
    sh("cp -a %s %s/verif && rm -rf %s/verif/.git %s/verif/.build %s/verif/replays" % (V, d, d, d, d))
    rc, o = sh("git -C /repo worktree add -q --detach %s/repo HEAD" % d)
    assert rc == 0, o
    return d


def run_check(ws, c):
    env = dict(GOENV, VERIF_REPO=ws + "/repo")
    rc, o = sh(["./check", c], cwd=ws + "/verif", env=env)
    line = [l for l in o.splitlines() if l.startswith("VIOLATION")]
    r = {"exit": rc, "violation": line[0] if line else ""}
    rp = re.search(r"replay=(\S+)", line[0]) if line else None
    if rp and os.path.exists(rp.group(1)):
        j = json.load(open(rp.group(1)))
        r["kind"] = j.get("kind")
        r["what"] = (j.get("oracle") or j.get("no_longer_checks") or "")[:160]
        r["detail"] = (j.get("detail") or "")[:300]
    if rc not in (0, 1):
        r["tail"] = o[-400:]
    return r


def job(ws, kind, d):
    name = os.path.basename(d)
    meta = json.load(open(os.path.join(d, "meta.json")))
    repo = ws + "/repo"
    sh("git checkout -q -- . && git clean -qfd pkg cmd", cwd=repo)
    rc, o = sh(["git", "apply", os.path.join(d, "patch.diff")], cwd=repo)
    if rc != 0:
        return {"name": name, "kind": kind, "verdict": "PATCH-DOES-NOT-APPLY", "detail": o[-300:]}
    res = {}
    try:
        if kind == "seeded":
            own = meta.get("property")
            order = list(meta.get("caught_by") or []) + [c for c in meta.get("checks", {}) if c not in (meta.get("caught_by") or [])]
            if UPDATE:  # the property's own check first, then every check that was ever tried; all of them are run and recorded
                order = [own] + [c for c in order if c != own]
            verdict = "MISSED"
            for c in order:
                res[c] = run_check(ws, c)
                if res[c]["exit"] == 1 and res[c]["violation"]:
                    if verdict == "MISSED":
                        verdict = "caught:%s:%s" % (c, "input" if "no-failing-input-found" not in res[c]["violation"] else "obligation")
                    if not UPDATE:
                        break
            if UPDATE:
                meta["checks"] = {c: {"exit": r["exit"], "violation": r["violation"].replace(ws, ""), "kind": r.get("kind"), "oracle": r.get("what"), "detail": r.get("detail")} for c, r in res.items()}
                meta["caught_by"] = [c for c, r in res.items() if r["exit"] == 1 and r["violation"]]
                meta["rechecked_at_verif_commit"] = HEAD
                json.dump(meta, open(os.path.join(d, "meta.json"), "w"), indent=1)
        else:
            import hrck
            verdict = "silent"
            for c in hrck.AREAS[meta["area"]]:
                res[c] = run_check(ws, c)
                res[c]["violation"] = res[c]["violation"].replace(ws, "")
                if res[c]["exit"] == 1:
                    if "no-failing-input-found" in res[c]["violation"]:
                        if verdict == "silent":
                            verdict = "obligation-broken"
                    else:
                        verdict = "FALSE-ALARM"
                elif res[c]["exit"] != 0:
                    verdict = "CHECK-ERROR"
    finally:
        sh("git checkout -q -- . && git clean -qfd pkg cmd", cwd=repo)
    if UPDATE and kind == "harmless":
        meta["checks"] = res
        meta["verdict"] = {"silent": "silent", "obligation-broken": "obligation-or-correspondence-broken"}.get(verdict, verdict)
        meta["rechecked_at_verif_commit"] = HEAD
        json.dump(meta, open(os.path.join(d, "meta.json"), "w"), indent=1)
    return {"name": name, "kind": kind, "verdict": verdict, "checks": res}


UPDATE = False
HEAD = subprocess.run(["git", "-C", V, "rev-parse", "--short", "HEAD"], stdout=subprocess.PIPE, text=True).stdout.strip()


def main():
    global UPDATE
    args = sys.argv[1:]
    if args and args[0] == "--update":  # rewrite seeded/*/meta.json and harmless/*/meta.json with what the checks say NOW
        UPDATE = True
        args = args[1:]
    n = 4
    if args and args[0] == "-j":
        n = int(args[1]); args = args[2:]
    what = args[0] if args else "all"
    pref = args[1:]
    jobs = []
    if what in ("seeded", "all"):
        jobs += [("seeded", d) for d in sorted(glob.glob(V + "/seeded/*")) if os.path.exists(d + "/patch.diff")]
    if what in ("harmless", "all"):
        jobs += [("harmless", d) for d in sorted(glob.glob(V + "/harmless/*")) if os.path.exists(d + "/patch.diff")]
    if pref:
        jobs = [j for j in jobs if any(os.path.basename(j[1]).startswith(p) for p in pref)]
    q = queue.Queue()
    for j in jobs:
        q.put(j)
    results, lock = [], threading.Lock()

    def worker(i):
        ws = mkws(i)
        # warm: one full setup in the private copy (the Lean build is copied warm)
        sh(["./check", "--setup"], cwd=ws + "/verif", env=dict(GOENV, VERIF_REPO=ws + "/repo"))
        while True:
            try:
                kind, d = q.get_nowait()
            except queue.Empty:
                break
            t = time.time()
            try:
                r = job(ws, kind, d)
            except Exception as e:
                r = {"name": os.path.basename(d), "kind": kind, "verdict": "ERROR", "detail": repr(e)}
            r["wall_s"] = round(time.time() - t, 1)
            with lock:
                results.append(r)
                print("%-9s %-16s %-28s %5.0fs" % (r["kind"], r["name"], r["verdict"], r["wall_s"]), flush=True)
                json.dump(results, open("/tmp/rg/results.json", "w"), indent=1)
        sh("git -C /repo worktree remove --force %s/repo" % ws)
        shutil.rmtree(ws, ignore_errors=True)

    os.makedirs("/tmp/rg", exist_ok=True)
    ts = [threading.Thread(target=worker, args=(i,)) for i in range(n)]
    for t in ts: t.start()
    for t in ts: t.join()
    bad = [r for r in results if r["verdict"] in ("MISSED", "FALSE-ALARM", "ERROR", "CHECK-ERROR", "PATCH-DOES-NOT-APPLY")]
    print("\n%d jobs; problems: %d" % (len(results), len(bad)))
    for r in bad:
        print("  ", r["kind"], r["name"], r["verdict"], json.dumps(r.get("checks") or r.get("detail"))[:400])
    sys.exit(1 if bad else 0)


if __name__ == "__main__":
    main()
