#!/bin/sh
# merge_orig.sh <agent>: bring a builder's work in: NEW files are copied, files it CHANGED (originals kept under /tmp/ag/<agent>/orig/) are merged three-way
a="$1"; src=/tmp/ag/$a/verif; orig=/tmp/ag/$a/orig
EX="--exclude .lake --exclude .build --exclude evidence --exclude replays --exclude lean/Ibx/Gen --exclude __pycache__ --exclude harness/go.sum --exclude harness/go.mod --exclude MANIFEST.json --exclude seeded --exclude harmless"
echo "== new files"; rsync -a --ignore-existing -v $EX "$src/" /verif/ | grep -v '/$' | grep -v '^sending\|^sent\|^total\|^$'
echo "== changed files"
(cd "$orig" && find . -type f | sed 's|^\./||') | while read f; do
  case "$f" in MANIFEST.json|evidence/*|replays/*|lean/Ibx/Gen/*) continue;; esac
  [ -f "$src/$f" ] || continue
  if cmp -s "$orig/$f" "$src/$f"; then continue; fi
  if git merge-file -p "/verif/$f" "$orig/$f" "$src/$f" > /tmp/merge_orig.out; then cp /tmp/merge_orig.out "/verif/$f"; echo "$f: merged"; else cp /tmp/merge_orig.out "/verif/$f"; echo "$f: CONFLICTS $(grep -c '^<<<<<<<' /verif/$f)"; fi
done
