#!/usr/bin/env python3
"""Regenerates DESIGN.md Appendix D (what each check proves and compares) from meta/*.json and evidence/*.json."""
import json, os
V = os.path.dirname(os.path.abspath(__file__))
out = ["## Appendix D — inventory per property (generated from meta/ and the last evidence files)", "",
       "Per property: the Lean modules whose theorems are the obligations, the theorems (each audited for axioms on every run),",
       "what the last quick run compared, and the assumptions the claim rests on.  `_partial` marks a theorem proved for less than the",
       "property states; counter-example theorems (`…_fails`, `orig_…`, `…_window`, `…_unsafe`) document the guards and the repaired defects.", ""]
props = {}
for l in open(os.path.join(V, "properties.jsonl")):
    p = json.loads(l); props[p["id"]] = p
for i in sorted(props):
    mp = os.path.join(V, "meta", i + ".json")
    if not os.path.exists(mp):
        continue
    m = json.load(open(mp))
    ev = {}
    ep = os.path.join(V, "evidence", i + ".json")
    if os.path.exists(ep):
        ev = json.load(open(ep))
    cov = ev.get("coverage", {})
    names = [t["name"].replace("Ibx.Props.", "").replace("Ibx.Tie.", "Tie.") for t in cov.get("theorems", [])]
    out.append("### %s — %s" % (i, props[i]["title"]))
    out.append("")
    out.append("* **Lean modules:** " + ", ".join("`%s`" % x for x in m["lean_modules"]))
    out.append("* **Obligations (last run):** %s discharged of %s; **cases** %s (distinct non-trivial %s), **compared with the implementation** %s, divergences %s, wall %s s"
               % (cov.get("discharged", "?"), cov.get("obligations", "?"), cov.get("evaluations", "?"), cov.get("distinct_nontrivial", "?"),
                  cov.get("traces_validated_against_impl", "?"), cov.get("divergences", "?"), ev.get("wall_s", "?")))
    if names:
        out.append("* **Theorems:** " + ", ".join("`%s`" % n for n in names))
    if m.get("explanation"):
        out.append("* **What is shown:** " + m["explanation"].replace("\n", " "))
    if m.get("assumptions"):
        out.append("* **Assumptions:** " + "; ".join(a.replace("\n", " ") for a in m["assumptions"]))
    out.append("")
p = os.path.join(V, "DESIGN.md")
s = open(p).read()
body = "\n".join(out)
if "## Appendix D — inventory" in s:
    s = s[:s.index("## Appendix D — inventory")] + body + "\n"
else:
    s = s.rstrip("\n") + "\n\n" + body + "\n"
open(p, "w").write(s)
print("ok", len(out))
