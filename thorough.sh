#!/bin/sh
# thorough.sh [ids...]: run the thorough tier of the claimed checks on the unchanged tree, one after the other; one line per check.
# Intended for `vp run --with-repo --timeout 5h -- ./thorough.sh` (builds the framework in the snapshot first).
[ -n "$VP_RUN_REPO" ] && export VERIF_REPO="$VP_RUN_REPO"
./setup.sh > setup.log 2>&1 || { echo "setup failed"; tail -20 setup.log; exit 1; }
ids="$@"; [ -n "$ids" ] || ids=$(python3 -c "import json;print(' '.join(c['property_id'] for c in json.load(open('MANIFEST.json'))['checks']))")
for p in $ids; do
  t0=$(date +%s)
  out=$(./check $p --tier thorough 2>&1 | grep -v '^KNOWN-FINDING' | tail -2 | tr '\n' ' ')
  echo "$(( $(date +%s) - t0 ))s $out"
done
