#!/usr/bin/env python3
"""mkharmless.py <area> <first-n>  prepare the scratch worktree and the prompt for an independent sub-agent that writes BEHAVIOUR-PRESERVING rewrites."""
import json, os, subprocess, sys
AREAS = {
    "smtp": "pkg/server/smtp (handler.go, listener.go)",
    "pop3": "pkg/server/pop3 (handler.go, listener.go)",
    "mem": "pkg/storage/mem (store.go, maxsize.go, message.go)",
    "file": "pkg/storage/file (fstore.go, mbox.go, fmessage.go) and pkg/storage/lock.go",
    "hub": "pkg/msghub/hub.go, pkg/extension (broker.go, async_broker.go, host.go), pkg/rest/socketv1_controller.go, socketv2_controller.go",
    "policy": "pkg/policy (address.go, origin.go, recipient.go), pkg/stringutil/utils.go, pkg/config/config.go",
    "rest": "pkg/rest (apiv1_controller.go, routes.go), pkg/webui (mailbox_controller.go, root_controller.go), pkg/message (manager.go, message.go), pkg/server/web (handlers.go, server.go, context.go, rest.go), pkg/rest/client",
    "lua": "pkg/extension/luahost (lua.go, pool.go, bind_*.go)",
    "san": "pkg/webui/sanitize (html.go, css.go) and pkg/server/web/helpers.go",
    "life": "pkg/storage/retention.go, pkg/server/lifecycle.go, cmd/inbucket/main.go",
}
area, first = sys.argv[1], int(sys.argv[2])
base = "/tmp/hr/%s" % area
wt, out = base + "/wt", base + "/out"
os.makedirs(out, exist_ok=True)
subprocess.run(["git", "-C", "/repo", "worktree", "remove", "--force", wt], stdout=subprocess.DEVNULL, stderr=subprocess.DEVNULL)
subprocess.run(["rm", "-rf", wt])
subprocess.check_call(["git", "-C", "/repo", "worktree", "add", "-q", "--detach", wt, "HEAD"])
ns = [first, first + 1, first + 2]
P = """You are a maintainer of the Go project inbucket (disposable-email test server).  Your job: write THREE independent, purely BEHAVIOUR-PRESERVING changes (refactorings) to one area of the code — the kind of clean-up commits a maintainer makes all the time.  They are used to measure whether a verification tool raises false alarms on code whose behaviour has not changed, so they must REALLY preserve behaviour: same outputs, same state changes, same order of externally visible effects (network replies, file-system operations, events, log-independent), same concurrency structure (locks taken in the same order around the same effects, same goroutines), for ALL inputs.

Work ONLY in your scratch git worktree: %(wt)s (never touch /repo or /verif, never commit).
Env for every shell call (no network): export GOFLAGS=-mod=mod GOPROXY=off GOSUMDB=off GOTOOLCHAIN=local
Build: go build ./... && go build -tags verif ./...     Test suite: go test -mod=mod -vet=off -count=1 ./...   (must stay green; pkg/test binds fixed ports 2500/9000 and other people run the suite on this machine too: if it fails ONLY with "address already in use", wait half a minute and re-run)

AREA: %(files)s
Files named verif_*.go and lines calling verifStep(...) are instrumentation: leave them exactly as they are (same place relative to the operation that follows them).

Make the three changes DIFFERENT IN KIND, each realistic and non-trivial (10-60 changed lines), choosing from for example:
  - extracting a helper function / method out of a long function, or inlining a small helper that has one caller;
  - restructuring control flow: if/else chains <-> switch, guard clauses and early returns, merging or splitting conditions, loop forms (range <-> index), De Morgan rewrites;
  - renaming unexported functions, methods, fields, types, locals and parameters consistently;
  - replacing an idiom by an equivalent one (strings.Index+slicing <-> strings.Cut, fmt.Sprintf <-> concatenation, bytes.Buffer <-> strings.Builder, a local closure <-> a method, errors.New <-> fmt.Errorf without verbs, sort.Slice <-> slices.SortFunc if the Go version allows, time arithmetic spelled differently);
  - moving declarations, regrouping struct fields, moving a function to another file of the same package, changing the order of INDEPENDENT statements that have no externally visible effect;
  - rewording log messages, comments and the text of error values that are only logged (do NOT change protocol replies' codes; wording of human-readable reply text may change only if you choose the 'rewording' kind).
Do not 'fix' anything, do not change behaviour in corner cases, do not change exported API used by other packages' tests.

DELIVERABLES for n = %(n0)d, %(n1)d, %(n2)d in %(out)s/h<n>/ :
  patch.diff   `git diff` of that change alone, applying with `git apply` to the unchanged worktree
  meta.json    {"area": "%(area)s", "title": one line, "kind": "extract-helper|control-flow|rename|idiom|move|reword|...", "why_equivalent": a careful argument that behaviour is preserved for all inputs and schedules, "files": [...], "ran": [commands and outcomes]}
For each change separately, starting from a clean worktree (git checkout -- . && git clean -fd): apply, build (with and without -tags verif), run the WHOLE test suite (must pass).  Leave the worktree clean at the end.  Final answer: one short paragraph per change.
""" % dict(wt=wt, out=out, files=AREAS[area], area=area, n0=ns[0], n1=ns[1], n2=ns[2])
open(base + "/prompt.txt", "w").write(P)
print(base + "/prompt.txt")
