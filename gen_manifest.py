#!/usr/bin/env python3
"""Regenerates MANIFEST.json's checks / engines / not_applicable from meta/*.json (and not_claimed.json)."""
import json, os
V = os.path.dirname(os.path.abspath(__file__))
import sys; sys.path.insert(0, V)
from props_meta import PROPS
m = json.load(open(os.path.join(V, "MANIFEST.json")))
ids = ["C%02d" % i for i in range(1, 20)]
nc = {}
p = os.path.join(V, "not_claimed.json")
if os.path.exists(p):
    nc = json.load(open(p))
checks = []
for i in ids:
    if i in PROPS and PROPS[i].get("manifest"):
        mf = PROPS[i]["manifest"]
        checks.append({
            "property_id": i, "quick_cmd": "./check %s --tier quick" % i, "thorough_cmd": "./check %s --tier thorough" % i,
            "evidence_file": "/verif/evidence/%s.json" % i, "replay_cmd_template": "./check %s --replay {path}" % i,
            "engine": "lean4-ibx",
            "level_claimed": {"category": "proof", "text": mf["level_text"], "design_ref": mf.get("design_ref", "DESIGN.md §7")},
            "level_note": mf["level_note"], "technique": mf["technique"]})
m["checks"] = checks
claimed = [c["property_id"] for c in checks]
m["engines"] = [{"name": "lean4-ibx", "path": "/verif/lean", "serves_properties": claimed,
                 "kind_free_text": "Lean 4 model + theorems (lake project Ibx), compiled line-protocol driver ibxdrv, Go correspondence harness /verif/harness, orchestrated by /verif/check"}]
import subprocess
try:
    log = subprocess.check_output(["git", "-C", "/repo", "log", "--format=%h %s"], text=True).splitlines()
    m["hooks"]["source_commits"] = [l.split()[0] for l in log if " verif hook:" in " " + l]
    m["notes"] = ("Machine-checked proof in Lean 4 (lake project /verif/lean, core Lean only) over executable models tied to /repo on every run by regenerated facts (T1), "
                  "differential correspondence (T2) and step traces (T3); see DESIGN.md §0. Genuine defects repaired by `fix:` commits in /repo: "
                  + ", ".join(l.split()[0] for l in log if " fix:" in " " + l) + "; open findings are listed in known_findings.json and replayed on every run.")
except Exception:
    pass
m["not_applicable"] = [{"property_id": i, "reason": nc.get(i, "not yet claimed: machinery for this property is under construction (see DESIGN.md)")} for i in ids if i not in claimed]
json.dump(m, open(os.path.join(V, "MANIFEST.json"), "w"), indent=1)
print("claimed:", claimed)
