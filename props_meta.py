# Per-property configuration of ./check: which Lean modules hold the obligations, what is trusted.
KERNEL = "Lean 4.33.0 kernel (lake build; axioms of every property theorem audited against {propext, Classical.choice, Quot.sound}; no native_decide / bv_decide; thorough tier re-checks the .olean files with leanchecker)"
TIE_T1 = "T1 extractor /verif/harness/cmd/extract (go/ast facts -> lean/Ibx/Gen, regenerated on every run)"
TIE_T2 = "T2 correspondence harness /verif/harness/cmd/drive + line-protocol driver lean/Driver (canonicalisers, generators) — differential testing, bounds what is seen of the model/code agreement"

PROPS = {
    "C05": {
        "lean_modules": ["Ibx.Props.C05", "Ibx.Tie.Addr"],
        "trusted_base": [KERNEL, TIE_T1, TIE_T2,
                         "models written by hand: Ibx/Model/{Policy,Wild,Addr}.lean (policy decisions, the wildcard DP, ValidateDomainPart)",
                         "modelled, not verified: strings.ToLower beyond ASCII, envconfig's comma splitting, net.ParseIP (parameter `ip`)"],
        "assumptions": ["configuration entries are ASCII (generated so)", "bracketed IP-literal sender domains contain no '*' (net.ParseIP accepts none)"],
        "explanation": "Theorems: accept_rule/store_rule/origin_rule equate the code-shaped decisions with the sentences of doc/config.md for all configurations and domains; wild_correct proves the DP matcher equals textbook glob for all patterns and all star-free subjects (unbounded); T2 runs the real functions against the model.",
        "timeout": {"quick": 600, "thorough": 3000},
    },
}
