# Per-property configuration of ./check, one file per property: meta/<ID>.json
#   lean_modules   modules holding this property's obligations (Props + Tie modules)
#   trusted_base / assumptions / explanation   copied into the evidence file
#   timeout {quick, thorough}   seconds for the harness run;  race: build the harness with -race
#   manifest {level_text, level_note, technique, design_ref}   used by gen_manifest.py
import json, os
_D = os.path.join(os.path.dirname(os.path.abspath(__file__)), "meta")
KERNEL = "Lean 4.33.0 kernel (lake build; axioms of every property theorem audited against {propext, Classical.choice, Quot.sound}; no native_decide / bv_decide; thorough tier re-checks the .olean files with leanchecker)"
TIE_T1 = "T1 extractor /verif/harness/cmd/extract (go/ast facts -> lean/Ibx/Gen, regenerated on every run, tied by the theorems of Ibx/Tie)"
TIE_T2 = "T2 correspondence harness /verif/harness/cmd/drive + line-protocol driver lean/Driver (canonicalisers, generators): differential testing, bounds what is seen of the model/code agreement"
PROPS = {}
for _f in sorted(os.listdir(_D)):
    if _f.endswith(".json"):
        _m = json.load(open(os.path.join(_D, _f)))
        _m["trusted_base"] = [KERNEL, TIE_T1, TIE_T2] + _m.get("trusted_base", [])
        _m.setdefault("assumptions", [])
        PROPS[_f[:-5]] = _m
