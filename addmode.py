#!/usr/bin/env python3
# addmode.py <import> <match-line>: register a driver mode in lean/Driver/Main.lean
import sys
p='/verif/lean/Driver/Main.lean'
s=open(p).read()
imp,line=sys.argv[1],sys.argv[2]
if imp not in s:
    s=s.replace("open Driver\n", "", 1) if False else s
    # put import after the last import line
    lines=s.split("\n")
    idx=max(i for i,l in enumerate(lines) if l.startswith("import "))
    lines.insert(idx+1, imp)
    s="\n".join(lines)
if line not in s:
    s=s.replace("  | _ => IO.eprintln", "  "+line+"\n  | _ => IO.eprintln")
open(p,'w').write(s)
