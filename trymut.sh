#!/bin/sh
# trymut.sh <seeded-id|path/to/patch.diff> <check ids...>: run checks against one seeded change in a private copy (/tmp/my/tmv + /tmp/my/repo); /verif and /repo stay untouched
set -e
s="$1"; shift
p="/verif/seeded/$s/patch.diff"; [ -f "$p" ] || p="$s"
export GOFLAGS=-mod=mod GOPROXY=off GOSUMDB=off GOTOOLCHAIN=local
mkdir -p /tmp/my
[ -d /tmp/my/repo ] || git -C /repo worktree add -q --detach /tmp/my/repo HEAD
(cd /tmp/my/repo && git checkout -q -- . && git clean -qfd pkg cmd && git apply "$p")
rsync -a --delete --exclude .git --exclude replays --exclude seeded --exclude harmless /verif/ /tmp/my/tmv/
for c in "$@"; do
  (cd /tmp/my/tmv && VERIF_REPO=/tmp/my/repo timeout 1500 ./check $c 2>&1 | grep -v '^KNOWN-FINDING' | tail -2)
  f=$(ls -t /tmp/my/tmv/replays/$c-*.json 2>/dev/null | head -1)
  [ -n "$f" ] && python3 -c "
import json,sys;j=json.load(open('$f'));print('  ->',j.get('kind'),'|',j.get('oracle') or j.get('no_longer_checks'),'|',(j.get('detail') or '')[:400].replace('\n',' '))"
  rm -rf /tmp/my/tmv/replays
done
(cd /tmp/my/repo && git checkout -q -- . && git clean -qfd pkg cmd)
