#!/usr/bin/env python3
"""
seedck.py <PROP> <n> [check ids...]   confirm a seeded change produced by an independent sub-agent and try the checks on it.

 1. in a scratch worktree (/tmp/seedck/wt, reset to /repo's HEAD): apply OUT/m<n>/patch.diff, `go build ./...`, the whole test
    suite (must pass), the demonstration (must FAIL); then without the patch the demonstration must PASS.
 2. keep it as /verif/seeded/<PROP>-m<n>/ (patch.diff, demo/, meta.json incl. what was run here).
 3. apply the patch to /repo, run ./check for the given ids (default: PROP), undo it (git checkout), record which checks caught it.
"""
import json, os, re, shutil, subprocess, sys, time

GOENV = dict(os.environ, GOFLAGS="-mod=mod", GOPROXY="off", GOSUMDB="off", GOTOOLCHAIN="local")
WT = "/tmp/seedck/wt"  # per seed: see main


def sh(cmd, cwd=None, timeout=1800, env=GOENV):
    p = subprocess.run(cmd, cwd=cwd, shell=isinstance(cmd, str), env=env, stdout=subprocess.PIPE, stderr=subprocess.STDOUT, text=True, errors="replace", timeout=timeout)
    return p.returncode, p.stdout


def main():
    global WT
    prop, n = sys.argv[1], sys.argv[2]
    WT = "/tmp/seedck/wt-%s-%s" % (prop, n.replace(":", ""))
    checks = sys.argv[3:] or [prop]
    rnd = ""
    mr = re.match(r"(r[0-9]+):(.*)$", n)
    if mr:
        rnd, n = mr.group(1), mr.group(2)
    out = "/tmp/mut/%s/out%s/m%s" % (prop, rnd[1:] if rnd else "", n)
    patch = os.path.join(out, "patch.diff")
    meta = json.load(open(os.path.join(out, "meta.json")))
    readme = ""
    for f in os.listdir(os.path.join(out, "demo")):
        if f.lower().startswith("readme") or f.endswith(".txt") or f.endswith(".md"):
            readme += open(os.path.join(out, "demo", f), errors="replace").read()
    demo_files = [f for f in os.listdir(os.path.join(out, "demo")) if f.endswith(".go")]
    # destination package: the ./pkg/... argument of the `go test` command in the note
    cands = re.findall(r"go test[^\n]*?\./((?:pkg|cmd)/[A-Za-z0-9_/-]+)", readme) or re.findall(r"\./((?:pkg|cmd)/[A-Za-z0-9_/-]+)", readme)
    dest = cands[-1].rstrip("/") if cands else None
    m2 = re.search(r"-run[ =]+['\"]?([A-Za-z0-9_|^$().]+)", readme)
    run = m2.group(1) if m2 else "Demo"
    if not dest:
        print("cannot find destination dir in README:\n" + readme)
        sys.exit(2)
    ran = []
    head = subprocess.check_output(["git", "-C", "/repo", "rev-parse", "HEAD"], text=True).strip()
    if not os.path.isdir(WT):
        os.makedirs("/tmp/seedck", exist_ok=True)
        sh(["git", "-C", "/repo", "worktree", "add", "-q", "--detach", WT, head])
    sh("git checkout -q --detach %s && git checkout -q -- . && git clean -qfd" % head, cwd=WT)
    rc, o = sh(["git", "apply", patch], cwd=WT)
    if rc != 0:
        print("patch does not apply to current HEAD:\n" + o)
        sys.exit(2)
    rc, o = sh("go build ./...", cwd=WT)
    ran.append("with patch: go build ./... -> %s" % ("ok" if rc == 0 else "FAILED"))
    ok_build = rc == 0
    # pkg/test binds the fixed ports 2500 / 9000: one suite at a time (flock), and a run that lost a port to somebody else's suite is repeated
    for attempt in range(4):
        rc, o = sh("flock /tmp/seedck/suite.lock go test -mod=mod -vet=off -count=1 ./... 2>&1 | grep -v 'no test files'", cwd=WT)
        bad = [l for l in o.splitlines() if not l.startswith("ok")]
        if not bad or "address already in use" not in o:
            break
        time.sleep(20 + 15 * attempt)
    ok_suite = not bad
    ran.append("with patch: go test -mod=mod -vet=off -count=1 ./... -> %s" % ("ok for every package" if ok_suite else "NOT ok: " + "; ".join(bad[:5])))
    for f in demo_files:
        shutil.copy(os.path.join(out, "demo", f), os.path.join(WT, dest, f))
    pkg = "./" + dest
    cmd = "go test -vet=off -count=1 -run '%s' %s" % (run, pkg)
    rc1, o1 = sh(cmd, cwd=WT, timeout=900)
    ran.append("with patch + demo: %s -> %s" % (cmd, "FAIL (as it should)" if rc1 != 0 else "passed (NOT a demonstration)"))
    sh(["git", "apply", "-R", patch], cwd=WT)
    rc2, o2 = sh(cmd, cwd=WT, timeout=900)
    ran.append("unchanged tree + demo: %s -> %s" % (cmd, "ok" if rc2 == 0 else "FAILS even without the change"))
    sh("git checkout -q -- . && git clean -qfd", cwd=WT)
    confirmed = ok_build and ok_suite and rc1 != 0 and rc2 == 0
    print("\n".join(ran))
    print("CONFIRMED" if confirmed else "NOT CONFIRMED")
    if not confirmed:
        print(o1[-1500:])
        sys.exit(1)
    # keep it
    sd = "/verif/seeded/%s-%sm%s" % (prop, rnd, n)
    if os.path.isdir(sd):
        shutil.rmtree(sd)
    os.makedirs(sd)
    shutil.copy(patch, os.path.join(sd, "patch.diff"))
    shutil.copytree(os.path.join(out, "demo"), os.path.join(sd, "demo"))
    # try the checks — in a private copy of /verif (as it is now, warm build included) against a private worktree of /repo, so that
    # /verif and /repo stay free for other work while this runs
    ws = "/tmp/seedck/ws-%s-%s%s" % (prop, rnd, n)
    sh("git -C /repo worktree remove --force %s/repo" % ws)
    shutil.rmtree(ws, ignore_errors=True)
    os.makedirs(ws)
    sh("rsync -a --exclude .git --exclude replays --exclude seeded --exclude harmless /verif/ %s/verif/" % ws)
    rc, o = sh("git -C /repo worktree add -q --detach %s/repo HEAD" % ws)
    assert rc == 0, o
    results = {}
    rc, o = sh(["git", "apply", patch], cwd=ws + "/repo")
    assert rc == 0, o
    env = dict(GOENV, VERIF_REPO=ws + "/repo")
    try:
        for c in checks:
            t = time.time()
            rc, o = sh(["./check", c], cwd=ws + "/verif", env=env, timeout=3000)
            line = [l for l in o.splitlines() if l.startswith("VIOLATION")]
            results[c] = {"exit": rc, "violation": line[0].replace(ws, "") if line else "", "summary": o.strip().splitlines()[-1] if o.strip() else "", "wall_s": round(time.time() - t, 1)}
            rp = re.search(r"replay=(\S+)", line[0]) if line else None
            if rp and os.path.exists(rp.group(1)):
                r = json.load(open(rp.group(1)))
                results[c]["kind"] = r.get("kind")
                results[c]["oracle"] = r.get("oracle") or r.get("no_longer_checks")
                results[c]["detail"] = (r.get("detail") or "")[:400]
            print(c, results[c])
    finally:
        sh("git -C /repo worktree remove --force %s/repo" % ws)
        shutil.rmtree(ws, ignore_errors=True)
    meta_out = {"property": prop, "title": meta.get("title"), "breaks": meta.get("breaks"), "needs": meta.get("needs"), "files": meta.get("files"),
                "author": "independent sub-agent given only the property text and a scratch worktree", "agent_ran": meta.get("ran"),
                "confirmed_here": ran, "repo_head": head, "checks": results,
                "caught_by": [c for c, r in results.items() if r["exit"] == 1 and r["violation"]]}
    json.dump(meta_out, open(os.path.join(sd, "meta.json"), "w"), indent=1)
    sh("git -C /repo worktree remove --force %s" % WT)
    print("caught_by:", meta_out["caught_by"])


if __name__ == "__main__":
    main()
