#!/bin/sh
# sweep.sh <tier> <seeds...> : run every claimed check on the unchanged tree for several seeds; prints one line per run.
# Intended for `vp run --with-repo -- ./sweep.sh quick 2 3 4` (builds the framework in the snapshot first).
tier="$1"; shift
[ -n "$VP_RUN_REPO" ] && export VERIF_REPO="$VP_RUN_REPO"
./setup.sh > setup.log 2>&1 || { echo "setup failed"; tail -20 setup.log; exit 1; }
for s in "$@"; do
  for p in $(python3 -c "import json;print(' '.join(c['property_id'] for c in json.load(open('MANIFEST.json'))['checks']))"); do
    out=$(VERIF_SEED=$s ./check $p --tier $tier 2>&1 | grep -v '^KNOWN-FINDING' | tail -2 | tr '\n' ' ')
    echo "seed=$s $out"
  done
done
