#!/bin/sh
# mkagent.sh <name>: private workspace for a builder sub-agent: copy of /verif (warm Lean build) + git worktree of /repo
set -e
n="$1"; d=/tmp/ag/$n
rm -rf "$d"; mkdir -p "$d"
cp -a /verif "$d/verif"
rm -rf "$d/verif/.git" "$d/verif/.build" "$d/verif/replays"
git -C /repo worktree add -q --detach "$d/repo" HEAD
echo "$d"
