#!/bin/sh
# seedq.sh <round> [total]: watch /tmp/mut/*/out<round>/m*/meta.json; confirm and try each new seeded change (two at a time) as it appears
r="$1"; total="${2:-38}"; mkdir -p /tmp/seedck
while :; do
  todo=""
  for m in /tmp/mut/C*/out$r/m*/meta.json; do
    [ -f "$m" ] || continue
    [ -f "$(dirname $m)/patch.diff" ] || continue
    p=$(echo $m | sed 's|/tmp/mut/\(C[0-9]*\)/.*|\1|'); n=$(echo $m | sed 's|.*/m\([0-9]*\)/meta.json|\1|')
    [ -f /tmp/seedck/log-$p-r${r}m$n.txt ] || todo="$todo $p:$n"
  done
  if [ -n "$todo" ]; then /verif/seedbatch.sh $r $todo; fi
  done_n=$(ls /tmp/seedck/log-C*-r${r}m*.txt 2>/dev/null | wc -l)
  [ "$done_n" -ge "$total" ] && break
  sleep 30
done
echo "all $done_n processed"
