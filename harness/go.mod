module verif/harness

go 1.21

require github.com/inbucket/inbucket/v3 v3.0.0

require github.com/kelseyhightower/envconfig v1.4.0 // indirect

replace github.com/inbucket/inbucket/v3 => /repo
