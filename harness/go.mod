module verif/harness

go 1.21

require (
	github.com/gorilla/css v1.0.1
	github.com/gorilla/mux v1.8.1
	github.com/gorilla/websocket v1.5.3
	github.com/inbucket/inbucket/v3 v3.0.0
	github.com/jhillyerd/enmime/v2 v2.0.0
	github.com/rs/zerolog v1.33.0
	github.com/yuin/gopher-lua v1.1.1
	golang.org/x/net v0.29.0
)

require (
	github.com/aymerick/douceur v0.2.0 // indirect
	github.com/cention-sany/utf7 v0.0.0-20170124080048-26cad61bd60a // indirect
	github.com/cjoudrey/gluahttp v0.0.0-20201111170219-25003d9adfa9 // indirect
	github.com/cosmotek/loguago v1.0.0 // indirect
	github.com/gogs/chardet v0.0.0-20211120154057-b7413eaefb8f // indirect
	github.com/inbucket/gopher-json v0.2.0 // indirect
	github.com/jaytaylor/html2text v0.0.0-20230321000545-74c2419ad056 // indirect
	github.com/kelseyhightower/envconfig v1.4.0 // indirect
	github.com/mattn/go-colorable v0.1.13 // indirect
	github.com/mattn/go-isatty v0.0.20 // indirect
	github.com/mattn/go-runewidth v0.0.16 // indirect
	github.com/microcosm-cc/bluemonday v1.0.27 // indirect
	github.com/mitchellh/mapstructure v1.5.0 // indirect
	github.com/olekukonko/tablewriter v0.0.5 // indirect
	github.com/pkg/errors v0.9.1 // indirect
	github.com/rivo/uniseg v0.4.7 // indirect
	github.com/ssor/bom v0.0.0-20170718123548-6386211fdfcf // indirect
	github.com/yuin/gluamapper v0.0.0-20150323120927-d836955830e7 // indirect
	golang.org/x/sys v0.25.0 // indirect
	golang.org/x/text v0.18.0 // indirect
)

replace github.com/inbucket/inbucket/v3 => /repo
