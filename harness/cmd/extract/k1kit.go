package main

// k1kit: name-independent views of go/ast, shared by the SMTP / POP3 / Dot extractors.
//
// A T1 fact must describe what the code DOES, not how it is spelled.  The kit provides
//   * k1Pkg      all non-test sources of one package, with call resolution to the package's own functions;
//   * k1Env      a canonical renderer of expressions: the receiver is `$r`, a parameter of an exported function is
//                `$p<i>` and of an unexported one `$p`, a named result is `$res`, a local that is defined exactly once
//                is replaced by (the canonical form of) its definition, a local that is assigned more than once is
//                `$v`, a range variable is `$each(X)` / `$key(X)`, a call of an unexported helper of the package is
//                replaced by what the helper returns when that is a single expression and is `$h(args)` otherwise.
//                Redundant parentheses, raw-vs-quoted string literals and formatting vanish.  Package-level names
//                (constants, variables, types) and selectors of other packages are kept: they are the anchors.
//   * k1Paths    the exits of a block as event lists: the calls of interest (classified by a callback: exported
//                selector names, "the helper that writes a reply", …) in execution order, a `[cond]` item for every
//                guard whose branch leaves the block, `?e` for an event under a branch that rejoins, `*e` inside a
//                loop.  Helpers of the package are expanded in place, so extracting or inlining one changes nothing.
//   * k1StrSwitch the string-labelled `switch` statements of a function (the command tables), found through helpers.
// Log calls, error texts, comments and local names never reach a fact.

import (
	"fmt"
	"go/ast"
	"go/token"
	"os"
	"path/filepath"
	"sort"
	"strconv"
	"strings"
	"unicode"
)

// ---------------------------------------------------------------------------------------------------------- package

type k1Pkg struct {
	rel   string
	files []*ast.File
	funcs []*ast.FuncDecl
	named map[string][]*ast.FuncDecl // function / method name -> declarations
}

func k1LoadPkg(rel string) *k1Pkg {
	p := &k1Pkg{rel: rel, named: map[string][]*ast.FuncDecl{}}
	ents, err := os.ReadDir(filepath.Join(repo, rel))
	if err != nil {
		return p
	}
	names := []string{}
	for _, e := range ents {
		n := e.Name()
		if e.IsDir() || !strings.HasSuffix(n, ".go") || strings.HasSuffix(n, "_test.go") || strings.HasPrefix(n, "verif_export") {
			continue
		}
		names = append(names, n)
	}
	sort.Strings(names)
	for _, n := range names {
		f := parse(rel + "/" + n)
		if f == nil {
			continue
		}
		p.files = append(p.files, f)
		for _, d := range f.Decls {
			if fd, ok := d.(*ast.FuncDecl); ok && fd.Body != nil {
				p.funcs = append(p.funcs, fd)
				p.named[fd.Name.Name] = append(p.named[fd.Name.Name], fd)
			}
		}
	}
	return p
}

func k1Exported(name string) bool {
	for _, r := range name {
		return unicode.IsUpper(r)
	}
	return false
}

// resolve: the package's own function a call goes to.  `f(…)` resolves to the package-level function f; `x.m(…)`
// resolves to the unique method m of the package when m is unexported (an unexported method can only be the
// package's own).  Anything else (other packages, exported methods, function values) is not resolved.
func (p *k1Pkg) resolve(ce *ast.CallExpr) *ast.FuncDecl {
	if p == nil || ce == nil {
		return nil
	}
	switch f := ce.Fun.(type) {
	case *ast.Ident:
		if f.Obj != nil && f.Obj.Kind != ast.Fun {
			return nil
		}
		for _, fd := range p.named[f.Name] {
			if fd.Recv == nil {
				return fd
			}
		}
	case *ast.SelectorExpr:
		if k1Exported(f.Sel.Name) {
			return nil
		}
		var ms []*ast.FuncDecl
		for _, fd := range p.named[f.Sel.Name] {
			if fd.Recv != nil {
				ms = append(ms, fd)
			}
		}
		if len(ms) == 1 {
			return ms[0]
		}
	}
	return nil
}

// pkgMapKeys: keys (value `true`) of the package-level `map[string]bool` literal the package declares; ok only when
// there is exactly one such variable.
func (p *k1Pkg) boolMapKeys() (keys []string, vals []string, ok bool) {
	n := 0
	for _, f := range p.files {
		for _, d := range f.Decls {
			gd, isGen := d.(*ast.GenDecl)
			if !isGen || gd.Tok != token.VAR {
				continue
			}
			for _, sp := range gd.Specs {
				vs, isVS := sp.(*ast.ValueSpec)
				if !isVS || len(vs.Names) != 1 || len(vs.Values) != 1 {
					continue
				}
				cl, isCL := vs.Values[0].(*ast.CompositeLit)
				if !isCL {
					continue
				}
				mt, isMT := cl.Type.(*ast.MapType)
				if !isMT || src(mt.Key) != "string" || src(mt.Value) != "bool" {
					continue
				}
				n++
				ok = true
				for _, el := range cl.Elts {
					kv, isKV := el.(*ast.KeyValueExpr)
					if !isKV {
						ok = false
						continue
					}
					k, isStr := k1Str(kv.Key)
					if !isStr {
						ok = false
						continue
					}
					keys = append(keys, k)
					vals = append(vals, src(kv.Value))
				}
			}
		}
	}
	return keys, vals, ok && n == 1
}

func k1Str(e ast.Expr) (string, bool) {
	lit, ok := e.(*ast.BasicLit)
	if !ok || lit.Kind != token.STRING {
		return "", false
	}
	s, err := strconv.Unquote(lit.Value)
	return s, err == nil
}

func k1Unparen(e ast.Expr) ast.Expr {
	for {
		p, ok := e.(*ast.ParenExpr)
		if !ok {
			return e
		}
		e = p.X
	}
}

// ------------------------------------------------------------------------------------------------------ environment

type k1Def struct {
	pos  token.Pos
	rhs  ast.Expr // defining expression (nil: declared without value)
	idx  int      // position among the left-hand sides
	n    int      // number of left-hand sides
	kind int      // 0 value, 1 range key, 2 range value
}

type k1Env struct {
	pkg      *k1Pkg
	fd       *ast.FuncDecl
	recv     *ast.Object
	recvC    string
	params   map[*ast.Object]string
	results  map[*ast.Object]bool
	defs     map[*ast.Object][]k1Def
	dirty    map[*ast.Object]bool // address taken, ++/--, op-assign
	override map[*ast.Object]string
	loops    []*ast.BlockStmt // bodies of the loops of fd
	skip     map[ast.Node]bool
	depth    int // inlining depth inside one rendering
	level    int // helper nesting below the function the fact is about
	// elide: short label for calls a fact reports as events anyway (nil = render in full)
	elide func(*ast.CallExpr) (string, bool)
}

func k1NewEnv(p *k1Pkg, fd *ast.FuncDecl) *k1Env {
	e := &k1Env{pkg: p, fd: fd, recvC: "$r", params: map[*ast.Object]string{}, results: map[*ast.Object]bool{},
		defs: map[*ast.Object][]k1Def{}, dirty: map[*ast.Object]bool{}, override: map[*ast.Object]string{}}
	if fd == nil {
		return e
	}
	if fd.Recv != nil && len(fd.Recv.List) == 1 && len(fd.Recv.List[0].Names) == 1 {
		e.recv = fd.Recv.List[0].Names[0].Obj
	}
	i := 0
	if fd.Type.Params != nil {
		for _, f := range fd.Type.Params.List {
			if len(f.Names) == 0 {
				i++
			}
			for _, nm := range f.Names {
				if k1Exported(fd.Name.Name) {
					e.params[nm.Obj] = "$p" + strconv.Itoa(i)
				} else {
					e.params[nm.Obj] = "$p"
				}
				i++
			}
		}
	}
	if fd.Type.Results != nil {
		for _, f := range fd.Type.Results.List {
			for _, nm := range f.Names {
				e.results[nm.Obj] = true
			}
		}
	}
	if fd.Body != nil {
		e.collect(fd.Body)
	}
	return e
}

func (e *k1Env) collect(body ast.Node) {
	note := func(lhs ast.Expr, d k1Def) {
		id, ok := k1Unparen(lhs).(*ast.Ident)
		if !ok || id.Obj == nil || id.Name == "_" {
			return
		}
		d.pos = id.Pos()
		e.defs[id.Obj] = append(e.defs[id.Obj], d)
	}
	ast.Inspect(body, func(n ast.Node) bool {
		switch v := n.(type) {
		case *ast.ForStmt:
			e.loops = append(e.loops, v.Body)
		case *ast.AssignStmt:
			if v.Tok != token.DEFINE && v.Tok != token.ASSIGN {
				for _, l := range v.Lhs {
					if id, ok := k1Unparen(l).(*ast.Ident); ok && id.Obj != nil {
						e.dirty[id.Obj] = true
					}
				}
				return true
			}
			for i, l := range v.Lhs {
				switch {
				case len(v.Rhs) == len(v.Lhs):
					note(l, k1Def{rhs: v.Rhs[i], idx: 0, n: 1})
				case len(v.Rhs) == 1:
					note(l, k1Def{rhs: v.Rhs[0], idx: i, n: len(v.Lhs)})
				}
			}
		case *ast.RangeStmt:
			e.loops = append(e.loops, v.Body)
			if v.Key != nil {
				note(v.Key, k1Def{rhs: v.X, kind: 1, n: 1})
			}
			if v.Value != nil {
				note(v.Value, k1Def{rhs: v.X, kind: 2, n: 1})
			}
		case *ast.ValueSpec:
			for i, nm := range v.Names {
				switch {
				case len(v.Values) == len(v.Names):
					note(nm, k1Def{rhs: v.Values[i], idx: 0, n: 1})
				case len(v.Values) == 1:
					note(nm, k1Def{rhs: v.Values[0], idx: i, n: len(v.Names)})
				default:
					note(nm, k1Def{rhs: nil, n: 1})
				}
			}
		case *ast.IncDecStmt:
			if id, ok := k1Unparen(v.X).(*ast.Ident); ok && id.Obj != nil {
				e.dirty[id.Obj] = true
			}
		case *ast.UnaryExpr:
			if v.Op == token.AND {
				if id, ok := k1Unparen(v.X).(*ast.Ident); ok && id.Obj != nil {
					e.dirty[id.Obj] = true
				}
			}
		}
		return true
	})
}

// sub: the environment of a helper called from e, its parameters bound to the canonical actual arguments.
func (e *k1Env) sub(fd *ast.FuncDecl, ce *ast.CallExpr) *k1Env {
	s := k1NewEnv(e.pkg, fd)
	s.depth = e.depth
	s.level = e.level + 1
	s.elide = e.elide
	if sel, ok := ce.Fun.(*ast.SelectorExpr); ok && fd.Recv != nil {
		s.recvC = e.canon(sel.X)
	}
	i := 0
	if fd.Type.Params != nil {
		for _, f := range fd.Type.Params.List {
			if len(f.Names) == 0 {
				i++
			}
			for _, nm := range f.Names {
				if _, variadic := f.Type.(*ast.Ellipsis); !variadic && i < len(ce.Args) && !ce.Ellipsis.IsValid() {
					s.params[nm.Obj] = e.canon(ce.Args[i])
				} else {
					s.params[nm.Obj] = "$p"
				}
				i++
			}
		}
	}
	return s
}

const k1MaxDepth = 10

func k1Prec(op token.Token) int { return op.Precedence() }

// canon: the canonical rendering of an expression (see the head of this file).
func (e *k1Env) canon(x ast.Expr) string {
	if x == nil {
		return ""
	}
	switch v := x.(type) {
	case *ast.ParenExpr:
		return e.canon(v.X)
	case *ast.Ident:
		return e.ident(v)
	case *ast.BasicLit:
		if v.Kind == token.STRING {
			if s, err := strconv.Unquote(v.Value); err == nil {
				return strconv.Quote(s)
			}
		}
		return v.Value
	case *ast.SelectorExpr:
		return e.canon(v.X) + "." + v.Sel.Name
	case *ast.StarExpr:
		return "*" + e.canon(v.X)
	case *ast.UnaryExpr:
		in := e.canon(v.X)
		if _, bin := k1Unparen(v.X).(*ast.BinaryExpr); bin {
			in = "(" + in + ")"
		}
		return v.Op.String() + in
	case *ast.BinaryExpr:
		side := func(s ast.Expr, right bool) string {
			r := e.canon(s)
			if b, ok := k1Unparen(s).(*ast.BinaryExpr); ok {
				if k1Prec(b.Op) < k1Prec(v.Op) || (right && k1Prec(b.Op) == k1Prec(v.Op)) {
					r = "(" + r + ")"
				}
			}
			return r
		}
		return side(v.X, false) + " " + v.Op.String() + " " + side(v.Y, true)
	case *ast.IndexExpr:
		return e.canon(v.X) + "[" + e.canon(v.Index) + "]"
	case *ast.SliceExpr:
		s := e.canon(v.X) + "[" + e.canon(v.Low) + ":" + e.canon(v.High)
		if v.Slice3 {
			s += ":" + e.canon(v.Max)
		}
		return s + "]"
	case *ast.TypeAssertExpr:
		if v.Type == nil {
			return e.canon(v.X) + ".(type)"
		}
		return e.canon(v.X) + ".(" + src(v.Type) + ")"
	case *ast.CallExpr:
		return e.call(v, -1)
	case *ast.CompositeLit:
		t := ""
		if v.Type != nil {
			t = src(v.Type)
		}
		if len(v.Elts) == 0 {
			return t + "{}"
		}
		return t + "{…}"
	case *ast.FuncLit:
		return "func{…}"
	case *ast.KeyValueExpr:
		return e.canon(v.Key) + ": " + e.canon(v.Value)
	}
	return src(x)
}

func (e *k1Env) ident(id *ast.Ident) string {
	o := id.Obj
	if o == nil {
		return id.Name // universe, imported package, or package-level name of another file
	}
	if s, ok := e.override[o]; ok {
		return s
	}
	if o == e.recv {
		return e.recvC
	}
	if s, ok := e.params[o]; ok {
		if len(e.defs[o]) > 0 || e.dirty[o] {
			return "$pv" // a parameter that is assigned to
		}
		return s
	}
	if e.results[o] {
		return "$res"
	}
	if o.Kind != ast.Var {
		return id.Name // package-level constant, type, function
	}
	if e.fd == nil || e.fd.Body == nil || o.Pos() < e.fd.Body.Pos() || o.Pos() > e.fd.Body.End() {
		if _, isField := o.Decl.(*ast.Field); isField {
			return "$c" // parameter of some other function (closure)
		}
		return id.Name // package-level variable of this file
	}
	if _, isField := o.Decl.(*ast.Field); isField {
		return "$c" // parameter of a function literal
	}
	ds := e.defs[o]
	if len(ds) != 1 || e.dirty[o] || ds[0].rhs == nil {
		return "$v"
	}
	if e.depth >= k1MaxDepth {
		return "$x"
	}
	d := ds[0]
	e.depth++
	defer func() { e.depth-- }()
	switch d.kind {
	case 1:
		return "$key(" + e.canon(d.rhs) + ")"
	case 2:
		return "$each(" + e.canon(d.rhs) + ")"
	}
	// a value computed before a loop and used inside it is computed ONCE: not the same as computing it per iteration
	for _, l := range e.loops {
		if l.Pos() <= id.Pos() && id.Pos() <= l.End() && !(l.Pos() <= d.pos && d.pos <= l.End()) {
			return "$outer(" + e.defCanon(d) + ")"
		}
	}
	return e.defCanon(d)
}

func (e *k1Env) defCanon(d k1Def) string {
	if d.n > 1 {
		if ce, ok := k1Unparen(d.rhs).(*ast.CallExpr); ok {
			return e.call(ce, d.idx)
		}
		return e.canon(d.rhs) + "#" + strconv.Itoa(d.idx)
	}
	return e.canon(d.rhs)
}

func k1NumResults(fd *ast.FuncDecl) int {
	n := 0
	if fd.Type.Results != nil {
		for _, f := range fd.Type.Results.List {
			if len(f.Names) == 0 {
				n++
			} else {
				n += len(f.Names)
			}
		}
	}
	return n
}

// call: canonical form of result idx (-1: the call as a whole) of a call.
func (e *k1Env) call(ce *ast.CallExpr, idx int) string {
	suffix := ""
	if idx >= 0 {
		suffix = "#" + strconv.Itoa(idx)
	}
	if e.elide != nil {
		if s, ok := e.elide(ce); ok {
			return s + suffix
		}
	}
	args := []string{}
	for _, a := range ce.Args {
		args = append(args, e.canon(a))
	}
	al := strings.Join(args, ", ")
	if ce.Ellipsis.IsValid() {
		al += "..."
	}
	fd := e.pkg.resolve(ce)
	if fd == nil || k1Exported(fd.Name.Name) {
		switch f := ce.Fun.(type) {
		case *ast.ArrayType, *ast.MapType, *ast.ChanType, *ast.FuncType, *ast.InterfaceType, *ast.StructType:
			return src(f) + "(" + al + ")" + suffix
		}
		return e.canon(ce.Fun) + "(" + al + ")" + suffix
	}
	// an unexported helper of the package: what does it return?
	nres := k1NumResults(fd)
	want := idx
	if want < 0 && nres == 1 {
		want = 0
	}
	if want >= 0 && e.depth < k1MaxDepth && e.level < 4 {
		e.depth++
		s := e.sub(fd, ce)
		e.depth--
		set := map[string]bool{}
		known := true
		ast.Inspect(fd.Body, func(n ast.Node) bool {
			if _, lit := n.(*ast.FuncLit); lit {
				return false
			}
			r, ok := n.(*ast.ReturnStmt)
			if !ok {
				return true
			}
			if len(r.Results) != nres {
				known = false
				return true
			}
			c := s.canon(r.Results[want])
			if c == "nil" || c == `""` {
				return true
			}
			set[c] = true
			return true
		})
		if known && len(set) == 1 {
			for c := range set {
				if !strings.Contains(c, "$v") && !strings.Contains(c, "$res") && !strings.Contains(c, "$x") && !strings.Contains(c, "$pv") &&
					!strings.Contains(c, "errors.New(") && !strings.Contains(c, "fmt.Errorf(") {
					return c
				}
			}
		}
	}
	if nres <= 1 {
		suffix = ""
	}
	return "$h(" + al + ")" + suffix
}

// -------------------------------------------------------------------------------------------------- string switches

type k1Switch struct {
	sw      *ast.SwitchStmt
	env     *k1Env
	labels  [][]string // per clause; ["<default>"] for default
	clauses []*ast.CaseClause
}

func k1AsStrSwitch(sw *ast.SwitchStmt) ([][]string, []*ast.CaseClause, bool) {
	if sw.Tag == nil || sw.Body == nil {
		return nil, nil, false
	}
	var labels [][]string
	var ccs []*ast.CaseClause
	some := false
	for _, st := range sw.Body.List {
		cc, ok := st.(*ast.CaseClause)
		if !ok {
			return nil, nil, false
		}
		if cc.List == nil {
			labels = append(labels, []string{"<default>"})
			ccs = append(ccs, cc)
			continue
		}
		var ls []string
		for _, x := range cc.List {
			s, ok := k1Str(x)
			if !ok {
				return nil, nil, false
			}
			ls = append(ls, s)
			some = true
		}
		labels = append(labels, ls)
		ccs = append(ccs, cc)
	}
	return labels, ccs, some
}

// strSwitches: the OUTERMOST string-labelled switch statements reachable from the statements, in execution order,
// looking through calls of the package's unexported helpers (depth-limited).
func (e *k1Env) strSwitches(nodes []ast.Node, depth int) []k1Switch {
	var res []k1Switch
	for _, n := range nodes {
		if n == nil {
			continue
		}
		ast.Inspect(n, func(x ast.Node) bool {
			if x != nil && e.skip[x] {
				return false
			}
			switch v := x.(type) {
			case *ast.FuncLit:
				return false
			case *ast.SwitchStmt:
				if ls, ccs, ok := k1AsStrSwitch(v); ok {
					res = append(res, k1Switch{sw: v, env: e, labels: ls, clauses: ccs})
					return false
				}
			case *ast.CallExpr:
				if fd := e.pkg.resolve(v); fd != nil && !k1Exported(fd.Name.Name) && depth > 0 && fd != e.fd {
					s := e.sub(fd, v)
					s.depth = 0
					res = append(res, s.strSwitches([]ast.Node{fd.Body}, depth-1)...)
				}
			}
			return true
		})
	}
	return res
}

func k1ClauseNodes(cc *ast.CaseClause) []ast.Node {
	var ns []ast.Node
	for _, s := range cc.Body {
		ns = append(ns, s)
	}
	return ns
}

func (s k1Switch) clause(label string) *ast.CaseClause {
	for i, ls := range s.labels {
		for _, l := range ls {
			if l == label {
				return s.clauses[i]
			}
		}
	}
	return nil
}

func k1ListOfLists(l [][]string) string {
	p := []string{}
	for _, x := range l {
		p = append(p, strList(x))
	}
	return "[" + strings.Join(p, ", ") + "]"
}

// -------------------------------------------------------------------------------------------------------- paths

// k1Classify names the calls a fact wants to see.  It returns the event label ("" = not an event) and whether the
// walker should still look inside the callee (only meaningful for the package's own helpers).
type k1Classify func(e *k1Env, ce *ast.CallExpr) (label string, descend bool)

type k1Path struct {
	ev   []string
	term string // "" = falls off the end; "return", "break", "continue"
}

type k1Walker struct {
	classify k1Classify
	// assign: event for an assignment statement (e.g. a state change written directly); "" = none
	assign func(e *k1Env, lhs, rhs ast.Expr) string
	depth  int
}

func k1Mark(m string, ev []string) []string {
	out := []string{}
	for _, x := range ev {
		if strings.HasPrefix(x, "[") { // a guard inside a rejoining branch is not a guard of the block
			continue
		}
		if strings.HasPrefix(x, m) || (m == "?" && strings.HasPrefix(x, "*")) {
			out = append(out, x)
		} else {
			out = append(out, m+x)
		}
	}
	return out
}

// k1Under: the events of a branch that rejoins the block, each carrying the guards it sits under:
// `?[a][b]event` (the same for `if a && b {` and `if a { if b {`).
func k1Under(guard []string, ev []string) []string {
	g := strings.Join(guard, "")
	out := []string{}
	for _, x := range ev {
		switch {
		case strings.HasPrefix(x, "["): // a guard met on the way applies to what follows it
			g += x
		case strings.HasPrefix(x, "?"):
			out = append(out, "?"+g+x[1:])
		default:
			out = append(out, "?"+g+x)
		}
	}
	return out
}

// exprEvents: the events of the calls inside an expression / simple statement, innermost (= evaluated) first.
func (w *k1Walker) exprEvents(e *k1Env, n ast.Node) []string {
	var ev []string
	if n == nil {
		return ev
	}
	var visit func(x ast.Node)
	visit = func(x ast.Node) {
		if x == nil {
			return
		}
		switch v := x.(type) {
		case *ast.FuncLit:
			return
		case *ast.CallExpr:
			visit(v.Fun)
			for _, a := range v.Args {
				visit(a)
			}
			label, descend := w.classify(e, v)
			if label != "" {
				ev = append(ev, label)
			}
			if fd := e.pkg.resolve(v); fd != nil && descend && !k1Exported(fd.Name.Name) && e.level < 3 && fd != e.fd {
				s := e.sub(fd, v)
				s.depth = 0
				// a helper's own early exits do not leave the caller: all its events, in order, optional where guarded
				ps := w.block(s, fd.Body.List)
				ev = append(ev, k1Flatten(ps)...)
			}
			return
		}
		ast.Inspect(x, func(y ast.Node) bool {
			if y == x {
				return true
			}
			if y != nil {
				visit(y)
			}
			return false
		})
	}
	visit(n)
	return ev
}

// k1Flatten: several paths as one event list: the common prefix as is, the rest optional.
func k1Flatten(ps []k1Path) []string {
	if len(ps) == 0 {
		return nil
	}
	if len(ps) == 1 {
		return k1Mark("", k1NoGuards(ps[0].ev))
	}
	// longest common prefix
	pre := 0
	for {
		ok := true
		for _, p := range ps {
			if pre >= len(p.ev) || p.ev[pre] != ps[0].ev[pre] {
				ok = false
				break
			}
		}
		if !ok {
			break
		}
		pre++
	}
	out := k1NoGuards(ps[0].ev[:pre])
	seen := map[string]bool{}
	for _, p := range ps {
		for _, x := range k1Mark("?", p.ev[pre:]) {
			if !seen[x] {
				seen[x] = true
				out = append(out, x)
			}
		}
	}
	return out
}

func k1NoGuards(ev []string) []string {
	out := []string{}
	for _, x := range ev {
		if !strings.HasPrefix(x, "[") {
			out = append(out, x)
		}
	}
	return out
}

// conj: the conjuncts of a condition (`a && b` and `if a { if b {` are the same thing).
func k1Conj(x ast.Expr) []ast.Expr {
	x = k1Unparen(x)
	if b, ok := x.(*ast.BinaryExpr); ok && b.Op == token.LAND {
		return append(k1Conj(b.X), k1Conj(b.Y)...)
	}
	return []ast.Expr{x}
}

func (w *k1Walker) guard(e *k1Env, cond ast.Expr, neg bool) []string {
	if cond == nil {
		return nil
	}
	if neg {
		return []string{"[!(" + e.canon(cond) + ")]"}
	}
	out := []string{}
	for _, c := range k1Conj(cond) {
		out = append(out, "["+e.canon(c)+"]")
	}
	return out
}

// block: the exits of a statement list.  Every returned path carries the events from the start of the list.
func (w *k1Walker) block(e *k1Env, stmts []ast.Stmt) []k1Path {
	cur := []string{}
	var done []k1Path
	emit := func(tail []string, term string) {
		ev := append(append([]string{}, cur...), tail...)
		done = append(done, k1Path{ev: ev, term: term})
	}
	// branch: a conditional part with its own sub-paths; leaving ones are emitted behind the guard, the others rejoin
	tailMode, tailT := false, ""
	branch := func(guard []string, ps []k1Path) (rejoin [][]string) {
		for _, p := range ps {
			if tailMode && p.term == "" {
				emit(append(append([]string{}, guard...), p.ev...), tailT)
				continue
			}
			if p.term != "" {
				emit(append(append([]string{}, guard...), p.ev...), p.term)
			} else if guard == nil {
				rejoin = append(rejoin, p.ev)
			} else {
				rejoin = append(rejoin, k1Under(guard, p.ev))
			}
		}
		return rejoin
	}
	for i, st := range stmts {
		// a helper call in tail position (last statement, or followed by a bare `return`) IS the rest of the block:
		// its exits are the block's exits, so moving a clause body into a helper changes nothing
		if es, ok := st.(*ast.ExprStmt); ok {
			tail := i == len(stmts)-1
			if !tail && i == len(stmts)-2 {
				if r, ok := stmts[i+1].(*ast.ReturnStmt); ok && len(r.Results) == 0 {
					tail = true
				}
			}
			if ce, ok := es.X.(*ast.CallExpr); ok && tail {
				label, descend := w.classify(e, ce)
				if fd := e.pkg.resolve(ce); fd != nil && label == "" && descend && !k1Exported(fd.Name.Name) && e.level < 3 && fd != e.fd {
					for _, a := range ce.Args {
						cur = append(cur, w.exprEvents(e, a)...)
					}
					s := e.sub(fd, ce)
					s.depth = 0
					for _, p := range w.block(s, fd.Body.List) {
						t := p.term
						if t == "" && !(i == len(stmts)-1) {
							t = "return"
						}
						if t == "return" && i == len(stmts)-1 {
							t = "" // returning from the helper = falling off the end of this block
						}
						emit(p.ev, t)
					}
					return done
				}
			}
		}
		// a branching statement in tail position: its branches are exits of the block, not optional detours
		tailTerm, isTail := "", i == len(stmts)-1
		if !isTail && i == len(stmts)-2 {
			if r, ok := stmts[i+1].(*ast.ReturnStmt); ok && len(r.Results) == 0 {
				isTail, tailTerm = true, "return"
			}
		}
		switch v := st.(type) {
		case *ast.ReturnStmt:
			for _, r := range v.Results {
				cur = append(cur, w.exprEvents(e, r)...)
			}
			emit(nil, "return")
			return done
		case *ast.BranchStmt:
			switch v.Tok {
			case token.BREAK:
				emit(nil, "break")
				return done
			case token.CONTINUE:
				emit(nil, "continue")
				return done
			}
		case *ast.BlockStmt:
			ps := w.block(e, v.List)
			for _, ev := range branch(nil, ps) {
				cur = append(cur, ev...)
			}
		case *ast.IfStmt:
			// else-if chains become a list of (guard, body)
			var rejoin [][]string
			var neg []string
			var node ast.Stmt = v
			tailMode, tailT = isTail, tailTerm
			hasElse := false
			for node != nil {
				is, ok := node.(*ast.IfStmt)
				if !ok {
					// final else block
					ps := w.block(e, node.(*ast.BlockStmt).List)
					rejoin = append(rejoin, branch(neg, ps)...)
					hasElse = true
					node = nil
					break
				}
				if is.Init != nil {
					cur = append(cur, w.exprEvents(e, is.Init)...)
				}
				cur = append(cur, w.exprEvents(e, is.Cond)...)
				g := append(append([]string{}, neg...), w.guard(e, is.Cond, false)...)
				ps := w.block(e, is.Body.List)
				rejoin = append(rejoin, branch(g, ps)...)
				leaves := len(ps) > 0
				for _, p := range ps {
					if p.term == "" {
						leaves = false
					}
				}
				if !leaves { // after a branch that always leaves, "not that condition" goes without saying
					neg = append(neg, w.guard(e, is.Cond, true)...)
				}
				node = is.Else
			}
			tailMode = false
			if isTail {
				if !hasElse {
					emit(neg, tailTerm)
				}
				return done
			}
			seen := map[string]bool{}
			for _, ev := range rejoin {
				for _, x := range ev {
					if !seen[x] {
						seen[x] = true
						cur = append(cur, x)
					}
				}
			}
		case *ast.SwitchStmt:
			if v.Init != nil {
				cur = append(cur, w.exprEvents(e, v.Init)...)
			}
			if v.Tag != nil {
				cur = append(cur, w.exprEvents(e, v.Tag)...)
			}
			var rejoin [][]string
			tailMode, tailT = isTail, tailTerm
			hasDefault := false
			for _, cs := range v.Body.List {
				cc, ok := cs.(*ast.CaseClause)
				if !ok {
					continue
				}
				g := "[default]"
				if cc.List == nil {
					hasDefault = true
				}
				if cc.List != nil {
					ls := []string{}
					for _, x := range cc.List {
						ls = append(ls, e.canon(x))
					}
					if v.Tag != nil {
						g = "[" + e.canon(v.Tag) + " == " + strings.Join(ls, " | ") + "]"
					} else {
						g = "[" + strings.Join(ls, " | ") + "]"
					}
				}
				ps := w.block(e, cc.Body)
				for i := range ps {
					if ps[i].term == "break" { // leaves the switch, not the block
						ps[i].term = ""
					}
				}
				rejoin = append(rejoin, branch([]string{g}, ps)...)
			}
			tailMode = false
			if isTail {
				if !hasDefault {
					emit([]string{"[no case]"}, tailTerm)
				}
				return done
			}
			seen := map[string]bool{}
			for _, ev := range rejoin {
				for _, x := range ev {
					if !seen[x] {
						seen[x] = true
						cur = append(cur, x)
					}
				}
			}
		case *ast.ForStmt, *ast.RangeStmt:
			var body *ast.BlockStmt
			if f, ok := v.(*ast.ForStmt); ok {
				if f.Init != nil {
					cur = append(cur, w.exprEvents(e, f.Init)...)
				}
				if f.Cond != nil {
					cur = append(cur, k1Mark("*", w.exprEvents(e, f.Cond))...)
				}
				body = f.Body
			} else {
				r := v.(*ast.RangeStmt)
				cur = append(cur, w.exprEvents(e, r.X)...)
				body = r.Body
			}
			ps := w.block(e, body.List)
			seen := map[string]bool{}
			for _, p := range ps {
				if p.term == "return" {
					emit(append([]string{"[loop]"}, k1Mark("*", p.ev)...), "return")
					continue
				}
				for _, x := range k1Mark("*", p.ev) {
					if !seen[x] {
						seen[x] = true
						cur = append(cur, x)
					}
				}
			}
		case *ast.AssignStmt:
			for _, r := range v.Rhs {
				cur = append(cur, w.exprEvents(e, r)...)
			}
			if w.assign != nil && len(v.Lhs) == len(v.Rhs) {
				for i := range v.Lhs {
					if s := w.assign(e, v.Lhs[i], v.Rhs[i]); s != "" {
						cur = append(cur, s)
					}
				}
			}
		case *ast.DeferStmt:
			cur = append(cur, k1Mark("defer:", w.exprEvents(e, v.Call))...)
		case *ast.GoStmt:
			cur = append(cur, k1Mark("go:", w.exprEvents(e, v.Call))...)
		case *ast.LabeledStmt:
			ps := w.block(e, []ast.Stmt{v.Stmt})
			for _, ev := range branch(nil, ps) {
				cur = append(cur, ev...)
			}
		default:
			cur = append(cur, w.exprEvents(e, st)...)
		}
	}
	emit(nil, "")
	return done
}

// k1AsReturn: falling off the end of a function body (or of a clause nothing follows) IS returning.
func k1AsReturn(ps []string) []string {
	out := []string{}
	for _, x := range ps {
		if x == "end" {
			x = "return"
		} else if strings.HasSuffix(x, "; end") {
			x = x[:len(x)-3] + "return"
		}
		out = append(out, x)
	}
	return out
}

func k1PathStrings(ps []k1Path) []string {
	out := []string{}
	for _, p := range ps {
		t := p.term
		if t == "" {
			t = "end"
		}
		out = append(out, strings.Join(append(append([]string{}, p.ev...), t), "; "))
	}
	return out
}

// deref: follow locals that are defined exactly once to their defining expression.
func (e *k1Env) deref(x ast.Expr) ast.Expr {
	for i := 0; i < 8; i++ {
		x = k1Unparen(x)
		id, ok := x.(*ast.Ident)
		if !ok || id.Obj == nil {
			return x
		}
		ds := e.defs[id.Obj]
		if len(ds) != 1 || e.dirty[id.Obj] || ds[0].rhs == nil || ds[0].kind != 0 || ds[0].n != 1 {
			return x
		}
		if _, isParam := e.params[id.Obj]; isParam {
			return x
		}
		x = ds[0].rhs
	}
	return x
}

// selCall: is ce a call `<anything>.name(…)` / `pkg.name(…)`?
func k1SelCall(ce *ast.CallExpr, name string) bool {
	sel, ok := ce.Fun.(*ast.SelectorExpr)
	return ok && sel.Sel.Name == name
}

func k1QualCall(ce *ast.CallExpr, pkg, name string) bool {
	sel, ok := ce.Fun.(*ast.SelectorExpr)
	if !ok || sel.Sel.Name != name {
		return false
	}
	id, ok := sel.X.(*ast.Ident)
	return ok && id.Name == pkg && id.Obj == nil
}

// calls: every call inside n (function literals included), in source order.
func k1Calls(n ast.Node) []*ast.CallExpr {
	var res []*ast.CallExpr
	if n == nil || isNilNode(n) {
		return res
	}
	ast.Inspect(n, func(x ast.Node) bool {
		if ce, ok := x.(*ast.CallExpr); ok {
			res = append(res, ce)
		}
		return true
	})
	return res
}

// ------------------------------------------------------------------------------------------------ session dispatch

// k1Dispatch: the command loop of a line-protocol session: the function holding
//     switch <session>.<stateField> { case STATE_A: <session>.handlerA(cmd, arg) … }
type k1Dispatch struct {
	fn         *ast.FuncDecl
	env        *k1Env
	sw         *ast.SwitchStmt
	session    ast.Expr // receiver expression of the handler calls
	stateField string
	states     []string // case constants in source order
	handlers   map[string]*ast.FuncDecl
	calls      map[string]*ast.CallExpr
	cmd, arg   *ast.Object
	loop       *ast.ForStmt
}

func k1FindDispatch(p *k1Pkg) *k1Dispatch {
	var best *k1Dispatch
	for _, fd := range p.funcs {
		var loops []*ast.ForStmt
		ast.Inspect(fd.Body, func(n ast.Node) bool {
			if f, ok := n.(*ast.ForStmt); ok {
				loops = append(loops, f)
			}
			sw, ok := n.(*ast.SwitchStmt)
			if !ok || sw.Tag == nil {
				return true
			}
			tag, ok := k1Unparen(sw.Tag).(*ast.SelectorExpr)
			if !ok {
				return true
			}
			d := &k1Dispatch{fn: fd, sw: sw, stateField: tag.Sel.Name, handlers: map[string]*ast.FuncDecl{}, calls: map[string]*ast.CallExpr{}}
			for _, cs := range sw.Body.List {
				cc, ok := cs.(*ast.CaseClause)
				if !ok || len(cc.List) != 1 || len(cc.Body) == 0 {
					return true
				}
				st, ok := cc.List[0].(*ast.Ident)
				if !ok {
					return true
				}
				es, ok := cc.Body[0].(*ast.ExprStmt)
				if !ok {
					return true
				}
				ce, ok := es.X.(*ast.CallExpr)
				if !ok || len(ce.Args) != 2 {
					return true
				}
				h := p.resolve(ce)
				a0, ok0 := ce.Args[0].(*ast.Ident)
				a1, ok1 := ce.Args[1].(*ast.Ident)
				sel, okS := ce.Fun.(*ast.SelectorExpr)
				if h == nil || !ok0 || !ok1 || !okS || a0.Obj == nil || a1.Obj == nil {
					return true
				}
				if d.cmd == nil {
					d.cmd, d.arg, d.session = a0.Obj, a1.Obj, sel.X
				} else if d.cmd != a0.Obj || d.arg != a1.Obj || src(sel.X) != src(d.session) {
					return true
				}
				if src(tag.X) != src(sel.X) {
					return true
				}
				d.states = append(d.states, st.Name)
				d.handlers[st.Name] = h
				d.calls[st.Name] = ce
			}
			if len(d.states) >= 2 && (best == nil || len(d.states) > len(best.states)) {
				for _, l := range loops {
					if l.Body.Pos() <= sw.Pos() && sw.End() <= l.Body.End() {
						d.loop = l
					}
				}
				best = d
			}
			return true
		})
	}
	if best != nil {
		best.env = k1NewEnv(p, best.fn)
		best.env.override[best.cmd] = "$cmd"
		best.env.override[best.arg] = "$arg"
		if id, ok := best.session.(*ast.Ident); ok && id.Obj != nil {
			best.env.override[id.Obj] = "$s"
		}
	}
	return best
}

// handlerEnv: the environment of the handler of a state, its two parameters named $cmd and $arg.
func (d *k1Dispatch) handlerEnv(p *k1Pkg, state string) *k1Env {
	h := d.handlers[state]
	if h == nil {
		return nil
	}
	e := k1NewEnv(p, h)
	n := 0
	if h.Type.Params != nil {
		for _, f := range h.Type.Params.List {
			for _, nm := range f.Names {
				switch n {
				case 0:
					e.params[nm.Obj] = "$cmd"
				case 1:
					e.params[nm.Obj] = "$arg"
				}
				n++
			}
		}
	}
	return e
}

// topSwitch: the command table of a handler: the first outermost string switch whose tag is $cmd.
func k1TopSwitch(e *k1Env, body ast.Node) *k1Switch {
	if e == nil || body == nil {
		return nil
	}
	for _, s := range e.strSwitches([]ast.Node{body}, 2) {
		if s.env.canon(s.sw.Tag) == "$cmd" {
			s := s
			return &s
		}
	}
	return nil
}

// sites: the canonical forms of every index / slice expression reachable from fd's body through the package's
// unexported helpers (parameters bound to the actual arguments), into set.
func (e *k1Env) sites(body ast.Node, set map[string]bool, visiting map[*ast.FuncDecl]int) {
	if body == nil {
		return
	}
	ast.Inspect(body, func(x ast.Node) bool {
		switch v := x.(type) {
		case *ast.SliceExpr:
			set[e.canon(v)] = true
		case *ast.IndexExpr:
			set[e.canon(v)] = true
		case *ast.CallExpr:
			if fd := e.pkg.resolve(v); fd != nil && !k1Exported(fd.Name.Name) && visiting[fd] == 0 && e.level < 5 && k1HasIndex(e.pkg, fd, map[*ast.FuncDecl]bool{}) {
				visiting[fd]++
				s := e.sub(fd, v)
				s.depth = 0
				s.sites(fd.Body, set, visiting)
				visiting[fd]--
			}
		}
		return true
	})
}

func k1HasIndex(p *k1Pkg, fd *ast.FuncDecl, seen map[*ast.FuncDecl]bool) bool {
	if seen[fd] {
		return false
	}
	seen[fd] = true
	found := false
	ast.Inspect(fd.Body, func(x ast.Node) bool {
		switch v := x.(type) {
		case *ast.SliceExpr, *ast.IndexExpr:
			found = true
		case *ast.CallExpr:
			if c := p.resolve(v); c != nil && !k1Exported(c.Name.Name) && k1HasIndex(p, c, seen) {
				found = true
			}
		}
		return !found
	})
	return found
}

// k1Recover: an extractor that trips over a shape it does not understand leaves its facts unwritten (the ties of that
// file then fail to check) instead of taking the whole extraction down.
func k1Recover(who string) {
	if r := recover(); r != nil {
		fmt.Fprintln(os.Stderr, who+": source shape not understood:", r)
	}
}
