package main

// T1 facts for C14 / C04 (lean/Ibx/Gen/StoreIds.lean): HOW each store decides which message a requested id STRING names.
//
// For each of the storage.Store methods that take an id — GetMessage, MarkSeen, RemoveMessage (exported interface names) — of
// pkg/storage/mem and pkg/storage/file, the second string parameter (the requested id) is followed through the method body,
// through closures, through local aliases and into every same-package function or method it is handed to, and EVERY use of
// it is classified:
//
//	eqLit:<text>     compared (== / !=) with a string literal
//	eqField:<F>      compared with a field <F> of another value (also through a zero-argument accessor `return x.<F>`)
//	mapIndex:<K>     index of a map whose key type is <K>            mapDelete:<K>   second argument of the builtin delete
//	mapStore:<K>     index of a map on the left of an assignment
//	call:<callee>    handed to anything outside the package (strconv.Atoi, strings.ToLower, fmt.Sscanf, …)
//	from:<callee>    (AddMessage's result only) assigned from a call          fieldStore:<F>  copied into field <F> of a value
//	other:<node>     anything else (returned, stored in a struct, sliced, concatenated, …)
//
// The fact is the sorted set of uses.  It does not depend on the names of locals, parameters, receivers or helpers, nor on
// whether the comparison sits in the method or in a helper.  An unrecognised shape is an `other:` / `call:` entry or
// ["unknown"], which no tie theorem accepts.

import (
	"go/ast"
	"go/token"
	"os"
	"path/filepath"
	"sort"
	"strconv"
	"strings"
)

func init() { extractors = append(extractors, extractStoreIDs) }

type sidPkg struct {
	files []*ast.File
	funcs map[string][]*ast.FuncDecl // functions and methods by name
	// field name -> type expressions seen for it in the package's struct types
	fields map[string][]ast.Expr
}

func sidLoad(dir string) *sidPkg {
	p := &sidPkg{funcs: map[string][]*ast.FuncDecl{}, fields: map[string][]ast.Expr{}}
	ents, err := os.ReadDir(filepath.Join(repo, dir))
	if err != nil {
		return p
	}
	for _, e := range ents {
		n := e.Name()
		if e.IsDir() || !strings.HasSuffix(n, ".go") || strings.HasSuffix(n, "_test.go") || strings.HasPrefix(n, "verif_") {
			continue
		}
		f := parse(filepath.Join(dir, n))
		if f == nil {
			continue
		}
		p.files = append(p.files, f)
		for _, d := range f.Decls {
			switch v := d.(type) {
			case *ast.FuncDecl:
				if v.Body != nil {
					p.funcs[v.Name.Name] = append(p.funcs[v.Name.Name], v)
				}
			case *ast.GenDecl:
				for _, s := range v.Specs {
					ts, ok := s.(*ast.TypeSpec)
					if !ok {
						continue
					}
					st, ok := ts.Type.(*ast.StructType)
					if !ok || st.Fields == nil {
						continue
					}
					for _, fl := range st.Fields.List {
						for _, nm := range fl.Names {
							p.fields[nm.Name] = append(p.fields[nm.Name], fl.Type)
						}
					}
				}
			}
		}
	}
	return p
}

// key type of the map expression x ("?" when it cannot be told)
func (p *sidPkg) mapKey(x ast.Expr, locals map[*ast.Object]ast.Expr) string {
	x = axUnparen(x)
	var t ast.Expr
	switch v := x.(type) {
	case *ast.SelectorExpr:
		ts := p.fields[v.Sel.Name]
		if len(ts) == 0 {
			return "?"
		}
		t = ts[0]
		for _, o := range ts[1:] {
			if src(o) != src(t) {
				return "?"
			}
		}
	case *ast.Ident:
		if v.Obj != nil {
			t = locals[v.Obj]
		}
	}
	if mt, ok := t.(*ast.MapType); ok {
		return src(mt.Key)
	}
	return "?"
}

// accessor: a zero-argument method of the package whose body is `return <recv>.<F>` -> F
func (p *sidPkg) accessorField(name string) string {
	res := ""
	for _, fd := range p.funcs[name] {
		if fd.Recv == nil || fd.Type.Params == nil || len(fd.Type.Params.List) != 0 || len(fd.Body.List) != 1 {
			return ""
		}
		rs, ok := fd.Body.List[0].(*ast.ReturnStmt)
		if !ok || len(rs.Results) != 1 {
			return ""
		}
		x, f, ok := axSel(rs.Results[0])
		if !ok || !axIs(x, axRecvObj(fd)) {
			return ""
		}
		if res != "" && res != f {
			return ""
		}
		res = f
	}
	return res
}

type sidWalk struct {
	p       *sidPkg
	uses    map[string]bool
	visited map[string]bool
}

func (w *sidWalk) use(s string) { w.uses[s] = true }

// the other side of a comparison
func (w *sidWalk) eqKind(o ast.Expr) string {
	o = axUnparen(o)
	switch v := o.(type) {
	case *ast.BasicLit:
		if v.Kind == token.STRING {
			if s, err := strconv.Unquote(v.Value); err == nil {
				return "eqLit:" + s
			}
		}
	case *ast.SelectorExpr:
		return "eqField:" + v.Sel.Name
	case *ast.CallExpr:
		if len(v.Args) == 0 {
			if _, m, ok := axSel(v.Fun); ok {
				if f := w.p.accessorField(m); f != "" {
					return "eqField:" + f
				}
				return "eqCall:" + m
			}
		}
	}
	return "eq:?"
}

// follow the tainted parameter `idx` of fd
func (w *sidWalk) walk(fd *ast.FuncDecl, obj *ast.Object) {
	if fd == nil || obj == nil {
		w.use("unknown")
		return
	}
	key := fd.Name.Name + "@" + fset.Position(fd.Pos()).String() + "#" + obj.Name
	if w.visited[key] {
		return
	}
	w.visited[key] = true
	tainted := map[*ast.Object]bool{obj: true}
	locals := map[*ast.Object]ast.Expr{} // declared map types of local variables: `var x map[K]V`
	isT := func(e ast.Expr) bool {
		id, ok := axUnparen(e).(*ast.Ident)
		return ok && id.Obj != nil && tainted[id.Obj]
	}
	// aliases: x := id / x = id / x := string(id), to a fixpoint
	for changed := true; changed; {
		changed = false
		ast.Inspect(fd.Body, func(n ast.Node) bool {
			switch v := n.(type) {
			case *ast.AssignStmt:
				if len(v.Lhs) == len(v.Rhs) {
					for i, r := range v.Rhs {
						rr := axUnparen(r)
						if ce, ok := rr.(*ast.CallExpr); ok && len(ce.Args) == 1 && src(ce.Fun) == "string" {
							rr = ce.Args[0]
						}
						if isT(rr) {
							if id, ok := v.Lhs[i].(*ast.Ident); ok && id.Obj != nil && !tainted[id.Obj] {
								tainted[id.Obj] = true
								changed = true
							}
						}
					}
				}
			case *ast.ValueSpec:
				if v.Type != nil {
					for _, nm := range v.Names {
						if nm.Obj != nil {
							locals[nm.Obj] = v.Type
						}
					}
				}
			}
			return true
		})
	}
	// classify every use, knowing the parent chain
	var stack []ast.Node
	ast.Inspect(fd.Body, func(n ast.Node) bool {
		if n == nil {
			stack = stack[:len(stack)-1]
			return true
		}
		stack = append(stack, n)
		id, ok := n.(*ast.Ident)
		if !ok || id.Obj == nil || !tainted[id.Obj] {
			return true
		}
		// nearest parent that is not a ParenExpr
		pi := len(stack) - 2
		for pi >= 0 {
			if _, ok := stack[pi].(*ast.ParenExpr); !ok {
				break
			}
			pi--
		}
		if pi < 0 {
			w.use("other:root")
			return true
		}
		child := stack[pi+1]
		switch par := stack[pi].(type) {
		case *ast.BinaryExpr:
			if par.Op == token.EQL || par.Op == token.NEQ {
				if par.X == child {
					w.use(w.eqKind(par.Y))
				} else {
					w.use(w.eqKind(par.X))
				}
			} else {
				w.use("other:binary" + par.Op.String())
			}
		case *ast.IndexExpr:
			if par.Index == child {
				k := w.p.mapKey(par.X, locals)
				kind := "mapIndex:"
				if pi >= 1 {
					if as, ok := stack[pi-1].(*ast.AssignStmt); ok {
						for _, l := range as.Lhs {
							if l == ast.Expr(par) {
								kind = "mapStore:"
							}
						}
					}
				}
				w.use(kind + k)
			} else {
				w.use("other:indexed")
			}
		case *ast.CallExpr:
			argIdx := -1
			for i, a := range par.Args {
				if a == child {
					argIdx = i
				}
			}
			if argIdx < 0 {
				w.use("other:callee")
				break
			}
			if fid, ok := par.Fun.(*ast.Ident); ok && fid.Obj == nil {
				switch fid.Name {
				case "delete":
					if argIdx == 1 {
						w.use("mapDelete:" + w.p.mapKey(par.Args[0], locals))
						return true
					}
				case "string":
					return true // conversion; the alias pass has followed it
				}
			}
			name := ""
			switch f := par.Fun.(type) {
			case *ast.Ident:
				name = f.Name
			case *ast.SelectorExpr:
				// a method of a same-package type: the selector's root is not an imported package
				if root, ok := f.X.(*ast.Ident); !ok || root.Obj != nil {
					name = f.Sel.Name
				}
			}
			if cands := w.p.funcs[name]; name != "" && len(cands) > 0 {
				for _, c := range cands {
					off := 0
					w.walk(c, axParamObj(c, argIdx+off))
				}
			} else {
				w.use("call:" + src(par.Fun))
			}
		case *ast.AssignStmt:
			onLeft := false
			for i, l := range par.Lhs {
				if l == child {
					onLeft = true
					if i < len(par.Rhs) && len(par.Lhs) == len(par.Rhs) {
						if ce, ok := axUnparen(par.Rhs[i]).(*ast.CallExpr); ok {
							w.use("from:" + src(ce.Fun))
						} else if !isT(par.Rhs[i]) {
							w.use("from:expr")
						}
					}
				}
			}
			if !onLeft {
				// x := id (alias, followed) — anything else on the right is a plain copy into an untracked place
				for i, r := range par.Rhs {
					if r == child && len(par.Lhs) == len(par.Rhs) {
						if lid, ok := par.Lhs[i].(*ast.Ident); ok && lid.Obj != nil && tainted[lid.Obj] {
							continue
						}
						if _, f, ok := axSel(par.Lhs[i]); ok {
							w.use("fieldStore:" + f)
						} else {
							w.use("other:storedIn:" + strings.Join(strings.Fields(src(par.Lhs[i])), ""))
						}
					}
				}
			}
		case *ast.ReturnStmt:
			w.use("returned")
		default:
			w.use("other:" + strings.TrimPrefix(strings.TrimPrefix(typeName(par), "*ast."), "ast."))
		}
		return true
	})
}

func typeName(n ast.Node) string {
	switch n.(type) {
	case *ast.KeyValueExpr:
		return "KeyValueExpr"
	case *ast.CompositeLit:
		return "CompositeLit"
	case *ast.SliceExpr:
		return "SliceExpr"
	case *ast.RangeStmt:
		return "RangeStmt"
	case *ast.SwitchStmt:
		return "SwitchStmt"
	case *ast.CaseClause:
		return "CaseClause"
	case *ast.UnaryExpr:
		return "UnaryExpr"
	case *ast.SelectorExpr:
		return "SelectorExpr"
	}
	return "node"
}

// storeMethod: the method `name` whose receiver type has the exported methods of storage.Store (AddMessage among them)
func (p *sidPkg) storeMethod(name string) *ast.FuncDecl {
	var res *ast.FuncDecl
	for _, fd := range p.funcs[name] {
		if fd.Recv == nil {
			continue
		}
		rt := axRecvType(fd)
		ok := false
		for _, a := range p.funcs["AddMessage"] {
			if a.Recv != nil && axRecvType(a) == rt {
				ok = true
			}
		}
		if ok {
			if res != nil {
				return nil
			}
			res = fd
		}
	}
	return res
}

func sidUses(p *sidPkg, method string, param int) []string {
	w := &sidWalk{p: p, uses: map[string]bool{}, visited: map[string]bool{}}
	fd := p.storeMethod(method)
	if fd == nil {
		return []string{"unknown"}
	}
	w.walk(fd, axParamObj(fd, param))
	return sidSorted(w.uses)
}

func sidSorted(m map[string]bool) []string {
	res := []string{}
	for k := range m {
		res = append(res, k)
	}
	sort.Strings(res)
	if len(res) == 0 {
		res = []string{"unused"}
	}
	return res
}

// the named (or only) string result of AddMessage: where the id that is handed out comes from and where it is filed
func sidAddUses(p *sidPkg) []string {
	fd := p.storeMethod("AddMessage")
	if fd == nil || fd.Type.Results == nil {
		return []string{"unknown"}
	}
	var obj *ast.Object
	for _, f := range fd.Type.Results.List {
		if id, ok := f.Type.(*ast.Ident); ok && id.Name == "string" && len(f.Names) == 1 {
			obj = f.Names[0].Obj
		}
	}
	if obj == nil {
		return []string{"unnamed"}
	}
	w := &sidWalk{p: p, uses: map[string]bool{}, visited: map[string]bool{}}
	w.walk(fd, obj)
	return sidSorted(w.uses)
}

func extractStoreIDs() {
	g := gen("StoreIds")
	for _, st := range []struct{ tag, dir string }{{"mem", "pkg/storage/mem"}, {"file", "pkg/storage/file"}} {
		p := sidLoad(st.dir)
		rows := []string{}
		for _, m := range []string{"GetMessage", "MarkSeen", "RemoveMessage"} {
			rows = append(rows, "("+leanStr(m)+", "+strList(sidUses(p, m, 1))+")")
		}
		g.def(st.tag+"IdUses", "List (String × List String)", "["+strings.Join(rows, ", ")+"]",
			"every use of the requested id (second string parameter) in the "+st.tag+" store's GetMessage / MarkSeen / RemoveMessage, followed through closures, aliases and same-package helpers: eqLit:<text> | eqField:<F> | mapIndex:<K> | mapDelete:<K> | mapStore:<K> | call:<callee> | other:<…>")
	}
	pm := sidLoad("pkg/storage/mem")
	g.def("memAddIdUses", "List String", strList(sidAddUses(pm)),
		"every use of the id AddMessage of the memory store returns (its named string result): from:<callee> = assigned from that call, mapStore:<K> = the key under which the message is filed")
}
