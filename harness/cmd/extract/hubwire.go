package main

// T1 facts for C15, the last hop (Ibx/Model/WsWire.lean, Ibx/Tie/HubWire.lean): what the socket writer goroutine of
// pkg/rest/socketv{1,2}_controller.go puts on the connection per iteration of its loop.
//
// Everything is structural (see hub.go for how the listener type, its event queue and its done channel are found):
//   * the CONNECTION is any parameter of type *websocket.Conn, or a local assigned from an `.Upgrade(…)` call;
//   * a MESSAGE WRITE is a call of WriteJSON / WriteMessage / WriteControl / WritePreparedMessage / NextWriter on a
//     connection (NextWriter … Close counts as one); its kind is read off its arguments: `value` (WriteJSON of the
//     value received from the queue, of its address, or of a one-argument same-file conversion of it), `close` /
//     `ping` / `pong` (websocket.CloseMessage / PingMessage / PongMessage as message type), `text` (anything else);
//   * the WRITER LOOP is the one select (inside a `for`) reachable from the exported WSWriter that has a case
//     receiving from the event queue; its cases are classified by what they receive from: the event queue, the done
//     channel, a `<x>.C` (the ticker), default, other;
//   * each case body is EXECUTED symbolically path by path (if / else / switch arms, early returns; a call to a
//     same-file function or method of the listener is executed in place with the connection and the received value
//     bound to its parameters, every exit of the helper continuing in the caller), counting per path the message
//     writes, their kinds and the receives from the event queue.  A loop, goroutine, deferred call or function literal
//     that writes or receives, or a connection passed to something unknown, makes the path UNRECOGNISED (`none`).
// Renaming, extracting or inlining helpers, `if x != nil {return}` against `if err := x; err != nil {return}` change
// nothing; a second write, a further receive from the queue, a write of something else, a write whose error is
// dropped, or a shape that cannot be followed all change a fact or turn it into `none` / "unknown".

import (
	"go/ast"
	"go/token"
	"sort"
	"strings"
)

func init() { extractors = append(extractors, extractHubWire) }

var wwWriteMethods = map[string]bool{"WriteJSON": true, "WriteMessage": true, "WriteControl": true, "WritePreparedMessage": true, "NextWriter": true}

// connection methods that write nothing
var wwQuietMethods = map[string]bool{"SetWriteDeadline": true, "SetReadDeadline": true, "RemoteAddr": true, "LocalAddr": true, "SetReadLimit": true,
	"SetPongHandler": true, "SetPingHandler": true, "SetCloseHandler": true, "ReadMessage": true, "NextReader": true, "ReadJSON": true, "Close": true,
	"EnableWriteCompression": true, "SetCompressionLevel": true, "Subprotocol": true, "UnderlyingConn": true, "NetConn": true,
	"PongHandler": true, "PingHandler": true, "CloseHandler": true}

type wwPath struct {
	writes, recvs int
	kinds         string // kinds of the writes, in order, comma separated
	bad           bool
}

func (p wwPath) addWrite(kind string) wwPath {
	p.writes++
	if p.kinds == "" {
		p.kinds = kind
	} else {
		p.kinds += "," + kind
	}
	return p
}

type wwSite struct {
	call   *ast.CallExpr
	branch string
}

type wwCtx struct {
	l      *hbListener
	conn   map[*ast.Object]bool
	val    map[*ast.Object]bool
	parent map[ast.Node]ast.Node
	active map[*ast.FuncDecl]bool
	branch string
	sites  []wwSite
	inWr   map[*ast.CallExpr]bool // write call sites met while executing the three branches
}

func wwDedup(ps []wwPath) []wwPath {
	seen := map[wwPath]bool{}
	var res []wwPath
	for _, p := range ps {
		if !seen[p] {
			seen[p] = true
			res = append(res, p)
		}
	}
	return res
}

func wwAll(ps []wwPath, f func(wwPath) wwPath) []wwPath {
	res := make([]wwPath, len(ps))
	for i, p := range ps {
		res[i] = f(p)
	}
	return wwDedup(res)
}

func wwBad(ps []wwPath) []wwPath { return wwAll(ps, func(p wwPath) wwPath { p.bad = true; return p }) }

// wwConnObjs: every object of the file that denotes a websocket connection.
func wwConnObjs(f *ast.File) map[*ast.Object]bool {
	res := map[*ast.Object]bool{}
	ast.Inspect(f, func(x ast.Node) bool {
		switch v := x.(type) {
		case *ast.Field:
			if axIsQualified(v.Type, "websocket", "Conn", true) {
				for _, n := range v.Names {
					if n.Obj != nil {
						res[n.Obj] = true
					}
				}
			}
		case *ast.AssignStmt:
			if len(v.Rhs) == 1 && len(v.Lhs) >= 1 {
				if ce, ok := axUnparen(v.Rhs[0]).(*ast.CallExpr); ok {
					if _, name, ok := axSel(ce.Fun); ok && name == "Upgrade" {
						if o := axObj(v.Lhs[0]); o != nil {
							res[o] = true
						}
					}
				}
			}
		}
		return true
	})
	return res
}

func (x *wwCtx) isConn(e ast.Expr) bool {
	o := axObj(e)
	return o != nil && x.conn[o]
}

// isVal: e denotes the value received from the queue: the variable, its address, or a one-argument same-file conversion of it
func (x *wwCtx) isVal(e ast.Expr) bool {
	e = axUnparen(e)
	if o := axObj(e); o != nil {
		return x.val[o]
	}
	if u, ok := e.(*ast.UnaryExpr); ok && u.Op == token.AND {
		return x.isVal(u.X)
	}
	if ce, ok := e.(*ast.CallExpr); ok && len(ce.Args) == 1 {
		if fd := axCallee(x.l.f, x.l.typ, ce); fd != nil && !x.writesOrRecvs(fd) {
			return x.isVal(ce.Args[0])
		}
	}
	return false
}

// writesOrRecvs: fd (or what it reaches in the file) writes a message or receives from the event queue
func (x *wwCtx) writesOrRecvs(fd *ast.FuncDecl) bool {
	return axAny(axReach(x.l.f, x.l.typ, fd), func(n ast.Node) bool {
		switch v := n.(type) {
		case *ast.CallExpr:
			if base, name, ok := axSel(v.Fun); ok && wwWriteMethods[name] && x.isConn(base) {
				return true
			}
		case *ast.UnaryExpr:
			return v.Op == token.ARROW && axIsField(v.X, x.l.queue)
		}
		return false
	})
}

func wwMsgKind(t ast.Expr) string {
	if _, name, ok := axSel(t); ok {
		switch name {
		case "CloseMessage":
			return "close"
		case "PingMessage":
			return "ping"
		case "PongMessage":
			return "pong"
		}
	}
	return "text"
}

// touches: the node mentions a connection or the event queue
func (x *wwCtx) touches(n ast.Node) bool {
	found := false
	ast.Inspect(n, func(y ast.Node) bool {
		switch v := y.(type) {
		case *ast.Ident:
			if v.Obj != nil && x.conn[v.Obj] {
				found = true
			}
		case *ast.SelectorExpr:
			if v.Sel.Name == x.l.queue {
				found = true
			}
		case *ast.CallExpr:
			if fd := axCallee(x.l.f, x.l.typ, v); fd != nil && x.writesOrRecvs(fd) {
				found = true
			}
		}
		return !found
	})
	return found
}

// expr: the effects of evaluating the expressions under n (arguments before the call)
func (x *wwCtx) expr(n ast.Node, in []wwPath) []wwPath {
	if n == nil {
		return in
	}
	switch v := n.(type) {
	case *ast.FuncLit:
		if x.touches(v.Body) {
			return wwBad(in)
		}
		return in
	case *ast.UnaryExpr:
		in = x.expr(v.X, in)
		if v.Op == token.ARROW && axIsField(v.X, x.l.queue) {
			return wwAll(in, func(p wwPath) wwPath { p.recvs++; return p })
		}
		return in
	case *ast.CallExpr:
		in = x.expr(v.Fun, in)
		for _, a := range v.Args {
			in = x.expr(a, in)
		}
		if base, name, ok := axSel(v.Fun); ok && x.isConn(base) {
			switch {
			case wwWriteMethods[name]:
				kind := "text"
				switch name {
				case "WriteJSON":
					if len(v.Args) == 1 && x.isVal(v.Args[0]) {
						kind = "value"
					}
				case "WriteMessage", "WriteControl", "NextWriter":
					if len(v.Args) >= 1 {
						kind = wwMsgKind(v.Args[0])
					}
				}
				x.sites = append(x.sites, wwSite{v, x.branch})
				x.inWr[v] = true
				return wwAll(in, func(p wwPath) wwPath { return p.addWrite(kind) })
			case wwQuietMethods[name]:
				return in
			default:
				return wwBad(in) // a connection method this extractor does not know
			}
		}
		if fd := axCallee(x.l.f, x.l.typ, v); fd != nil && fd.Body != nil {
			if !x.writesOrRecvs(fd) {
				return in
			}
			if x.active[fd] || len(x.active) > 8 {
				return wwBad(in)
			}
			// bind the connection and the received value to the helper's parameters
			for i, a := range v.Args {
				po := axParamObj(fd, i)
				if po == nil {
					continue
				}
				if x.isConn(a) {
					x.conn[po] = true
				}
				if x.isVal(a) {
					if _, isCall := axUnparen(a).(*ast.CallExpr); !isCall {
						x.val[po] = true
					}
				}
			}
			if fd.Type.Results != nil && len(fd.Type.Results.List) > 0 {
				x.sites = append(x.sites, wwSite{v, x.branch})
			}
			x.active[fd] = true
			fall, ret := x.block(fd.Body.List, in)
			delete(x.active, fd)
			return wwDedup(append(fall, ret...))
		}
		// a connection handed to something that is not in this file
		for _, a := range v.Args {
			if x.isConn(a) {
				return wwBad(in)
			}
		}
		return in
	}
	// generic: children in source order
	switch v := n.(type) {
	case *ast.BinaryExpr:
		return x.expr(v.Y, x.expr(v.X, in))
	case *ast.ParenExpr:
		return x.expr(v.X, in)
	case *ast.SelectorExpr:
		return x.expr(v.X, in)
	case *ast.StarExpr:
		return x.expr(v.X, in)
	case *ast.IndexExpr:
		return x.expr(v.Index, x.expr(v.X, in))
	case *ast.SliceExpr:
		in = x.expr(v.X, in)
		in = x.exprOpt(v.Low, in)
		in = x.exprOpt(v.High, in)
		return x.exprOpt(v.Max, in)
	case *ast.TypeAssertExpr:
		return x.expr(v.X, in)
	case *ast.KeyValueExpr:
		return x.expr(v.Value, x.expr(v.Key, in))
	case *ast.CompositeLit:
		for _, e := range v.Elts {
			in = x.expr(e, in)
		}
		return in
	case *ast.Ident, *ast.BasicLit:
		return in
	case ast.Expr:
		if x.touches(v) {
			return wwBad(in)
		}
		return in
	}
	return in
}

func (x *wwCtx) exprOpt(e ast.Expr, in []wwPath) []wwPath {
	if e == nil {
		return in
	}
	return x.expr(e, in)
}

func (x *wwCtx) block(stmts []ast.Stmt, in []wwPath) (fall, ret []wwPath) {
	cur := in
	for _, s := range stmts {
		if len(cur) == 0 {
			break
		}
		var r []wwPath
		cur, r = x.stmt(s, cur)
		ret = append(ret, r...)
	}
	return wwDedup(cur), wwDedup(ret)
}

func (x *wwCtx) stmt(s ast.Stmt, in []wwPath) (fall, ret []wwPath) {
	switch v := s.(type) {
	case nil:
		return in, nil
	case *ast.ExprStmt:
		return x.expr(v.X, in), nil
	case *ast.AssignStmt:
		for _, e := range v.Rhs {
			in = x.expr(e, in)
		}
		for _, e := range v.Lhs {
			in = x.expr(e, in)
		}
		return in, nil
	case *ast.DeclStmt:
		if gd, ok := v.Decl.(*ast.GenDecl); ok {
			for _, sp := range gd.Specs {
				if vs, ok := sp.(*ast.ValueSpec); ok {
					for _, e := range vs.Values {
						in = x.expr(e, in)
					}
				}
			}
		}
		return in, nil
	case *ast.IncDecStmt:
		return x.expr(v.X, in), nil
	case *ast.SendStmt:
		return x.expr(v.Value, x.expr(v.Chan, in)), nil
	case *ast.EmptyStmt:
		return in, nil
	case *ast.ReturnStmt:
		for _, e := range v.Results {
			in = x.expr(e, in)
		}
		return nil, in
	case *ast.BlockStmt:
		return x.block(v.List, in)
	case *ast.LabeledStmt:
		return x.stmt(v.Stmt, in)
	case *ast.IfStmt:
		var r0 []wwPath
		in, r0 = x.stmt(v.Init, in)
		in = x.expr(v.Cond, in)
		f1, r1 := x.block(v.Body.List, in)
		f2, r2 := in, []wwPath(nil)
		if v.Else != nil {
			f2, r2 = x.stmt(v.Else, in)
		}
		return wwDedup(append(f1, f2...)), wwDedup(append(append(r0, r1...), r2...))
	case *ast.SwitchStmt, *ast.TypeSwitchStmt, *ast.SelectStmt:
		var body *ast.BlockStmt
		switch w := v.(type) {
		case *ast.SwitchStmt:
			in, ret = x.stmt(w.Init, in)
			in = x.exprOpt(w.Tag, in)
			body = w.Body
		case *ast.TypeSwitchStmt:
			in, ret = x.stmt(w.Init, in)
			var r []wwPath
			in, r = x.stmt(w.Assign, in)
			ret = append(ret, r...)
			body = w.Body
		case *ast.SelectStmt:
			body = w.Body
		}
		hasDefault := false
		for _, cl := range body.List {
			cur := in
			var list []ast.Stmt
			switch c := cl.(type) {
			case *ast.CaseClause:
				if c.List == nil {
					hasDefault = true
				}
				for _, e := range c.List {
					cur = x.expr(e, cur)
				}
				list = c.Body
			case *ast.CommClause:
				if c.Comm == nil {
					hasDefault = true
				}
				var r []wwPath
				cur, r = x.stmt(c.Comm, cur)
				ret = append(ret, r...)
				list = c.Body
			}
			f, r := x.block(list, cur)
			fall = append(fall, f...)
			ret = append(ret, r...)
		}
		if _, isSel := v.(*ast.SelectStmt); !hasDefault && !isSel {
			fall = append(fall, in...)
		}
		return wwDedup(fall), wwDedup(ret)
	case *ast.ForStmt, *ast.RangeStmt, *ast.GoStmt, *ast.DeferStmt:
		if x.touches(v) {
			return wwBad(in), nil
		}
		return in, nil
	case *ast.BranchStmt:
		if v.Tok == token.GOTO || v.Tok == token.FALLTHROUGH {
			return wwBad(in), nil
		}
		// break / continue: this pass through the branch is over
		return nil, nil
	}
	if x.touches(s) {
		return wwBad(in), nil
	}
	return in, nil
}

// wwEndsInReturn: the last statement of the list is a return
func wwEndsInReturn(l []ast.Stmt) bool {
	if len(l) == 0 {
		return false
	}
	_, ok := l[len(l)-1].(*ast.ReturnStmt)
	return ok
}

// errHandled: the error result of call (a message write, or a helper that writes and returns an error) is
// tested against nil with a body that returns, or is itself returned to the caller (whose call is a site too).
// ignored = the result is discarded.
func (x *wwCtx) errHandled(call *ast.CallExpr) (handled, ignored bool) {
	var n ast.Node = call
	p := x.parent[n]
	for {
		if pe, ok := p.(*ast.ParenExpr); ok {
			n, p = pe, x.parent[pe]
			continue
		}
		break
	}
	nilTestOf := func(cond ast.Expr, isIt func(ast.Expr) bool) bool {
		e, eq, ok := axNilTest(cond)
		return ok && !eq && isIt(e)
	}
	switch v := p.(type) {
	case *ast.BinaryExpr:
		// if <call> != nil { … return }
		var top ast.Node = v
		for {
			if pe, ok := x.parent[top].(*ast.ParenExpr); ok {
				top = pe
				continue
			}
			break
		}
		if is, ok := x.parent[top].(*ast.IfStmt); ok && is.Cond == top {
			if nilTestOf(is.Cond, func(e ast.Expr) bool { return axUnparen(e) == ast.Expr(call) }) && wwEndsInReturn(is.Body.List) {
				return true, false
			}
		}
		return false, false
	case *ast.ReturnStmt:
		return true, false
	case *ast.ExprStmt:
		return false, true
	case *ast.AssignStmt:
		if len(v.Rhs) != 1 || len(v.Lhs) == 0 {
			return false, false
		}
		last := v.Lhs[len(v.Lhs)-1]
		if id, ok := axUnparen(last).(*ast.Ident); ok && id.Name == "_" {
			return false, true
		}
		eo := axObj(last)
		if eo == nil {
			return false, false
		}
		isErr := func(e ast.Expr) bool { return axIs(e, eo) }
		switch pp := x.parent[v].(type) {
		case *ast.IfStmt:
			if pp.Init == ast.Stmt(v) && nilTestOf(pp.Cond, isErr) && wwEndsInReturn(pp.Body.List) {
				return true, false
			}
		case *ast.BlockStmt, *ast.CaseClause, *ast.CommClause:
			var list []ast.Stmt
			switch b := pp.(type) {
			case *ast.BlockStmt:
				list = b.List
			case *ast.CaseClause:
				list = b.Body
			case *ast.CommClause:
				list = b.Body
			}
			for i, s := range list {
				if s == ast.Stmt(v) && i+1 < len(list) {
					if is, ok := list[i+1].(*ast.IfStmt); ok && is.Init == nil && nilTestOf(is.Cond, isErr) && wwEndsInReturn(is.Body.List) {
						return true, false
					}
				}
			}
		}
		return false, false
	}
	return false, false
}

type wwFacts struct {
	selectShape              string
	qWrites, qRecvs, outside *int
	qValue, errReturns       *bool
	doneBranch, tickBranch   string
	queueRecvs               *int
}

func wwSame(ps []wwPath, f func(wwPath) int) *int {
	if len(ps) == 0 {
		return nil
	}
	n := f(ps[0])
	for _, p := range ps {
		if p.bad || f(p) != n {
			return nil
		}
	}
	return &n
}

func wwExtract(l *hbListener) wwFacts {
	fa := wwFacts{selectShape: "unknown", doneBranch: "unknown", tickBranch: "unknown"}
	if l == nil || l.queue == "" || l.methods["WSWriter"] == nil {
		return fa
	}
	x := &wwCtx{l: l, conn: wwConnObjs(l.f), val: map[*ast.Object]bool{}, parent: map[ast.Node]ast.Node{},
		active: map[*ast.FuncDecl]bool{}, inWr: map[*ast.CallExpr]bool{}}
	var stack []ast.Node
	ast.Inspect(l.f, func(n ast.Node) bool {
		if n == nil {
			stack = stack[:len(stack)-1]
			return true
		}
		if len(stack) > 0 {
			x.parent[n] = stack[len(stack)-1]
		}
		stack = append(stack, n)
		return true
	})
	// receives from the event queue anywhere in the file
	qr := axCount(l.f, func(n ast.Node) bool {
		u, ok := n.(*ast.UnaryExpr)
		return ok && u.Op == token.ARROW && axIsField(u.X, l.queue)
	})
	fa.queueRecvs = &qr

	// the writer loop: the selects reachable from WSWriter with a case receiving from the queue
	var sels []*ast.SelectStmt
	for _, fd := range l.reach("WSWriter") {
		ast.Inspect(fd.Body, func(n ast.Node) bool {
			if ss, ok := n.(*ast.SelectStmt); ok {
				for _, c := range axComms(ss) {
					if c.recv != nil && axIsField(c.recv, l.queue) {
						sels = append(sels, ss)
						break
					}
				}
			}
			return true
		})
	}
	if len(sels) != 1 {
		return fa
	}
	ss := sels[0]
	inFor := false
	for p := x.parent[ss]; p != nil; p = x.parent[p] {
		if fs, ok := p.(*ast.ForStmt); ok && fs.Cond == nil {
			inFor = true
		}
		if _, ok := p.(*ast.FuncDecl); ok {
			break
		}
	}
	if !inFor {
		return fa
	}
	var roles []string
	byRole := map[string]*ast.CommClause{}
	for _, c := range axComms(ss) {
		role := "other"
		switch {
		case c.isDefault:
			role = "default"
		case c.recv != nil && axIsField(c.recv, l.queue):
			role = "queue"
		case c.recv != nil && l.done != "" && axIsField(c.recv, l.done):
			role = "done"
		case c.recv != nil && axIsField(c.recv, "C"):
			role = "ticker"
		}
		roles = append(roles, role)
		byRole[role] = c.clause
	}
	sort.Strings(roles)
	fa.selectShape = strings.Join(roles, ",")
	if fa.selectShape != "done,queue,ticker" {
		return fa
	}
	run := func(role string) (fall, ret []wwPath) {
		cl := byRole[role]
		x.branch = role
		if role == "queue" {
			if as, ok := cl.Comm.(*ast.AssignStmt); ok && len(as.Lhs) >= 1 {
				if o := axObj(as.Lhs[0]); o != nil {
					x.val[o] = true
				}
			}
		}
		return x.block(cl.Body, []wwPath{{}})
	}
	// queue branch
	qf, qret := run("queue")
	qall := wwDedup(append(qf, qret...))
	fa.qWrites = wwSame(qall, func(p wwPath) int { return p.writes })
	fa.qRecvs = wwSame(qall, func(p wwPath) int { return p.recvs })
	if fa.qWrites != nil {
		ok := true
		for _, p := range qall {
			for _, k := range strings.Split(p.kinds, ",") {
				if k != "value" {
					ok = false
				}
			}
		}
		fa.qValue = &ok
	}
	// done branch: every path writes one close message, receives nothing, and returns
	df, dret := run("done")
	if len(df) == 0 && len(dret) > 0 {
		good := true
		for _, p := range dret {
			if p.bad || p.writes != 1 || p.kinds != "close" || p.recvs != 0 {
				good = false
			}
		}
		if good {
			fa.doneBranch = "closeThenReturn"
		}
	}
	// ticker branch: every path writes one ping message and receives nothing
	tf, tret := run("ticker")
	tall := wwDedup(append(tf, tret...))
	if len(tall) > 0 {
		good := true
		for _, p := range tall {
			if p.bad || p.writes != 1 || p.kinds != "ping" || p.recvs != 0 {
				good = false
			}
		}
		if good {
			fa.tickBranch = "pingFrame"
		}
	}
	// every write error (queue and ticker branch) ends the writer; the done branch returns anyway
	er := true
	for _, s := range x.sites {
		handled, ignored := x.errHandled(s.call)
		if !(handled || (ignored && s.branch == "done")) {
			er = false
		}
	}
	if len(x.sites) == 0 {
		er = false
	}
	fa.errReturns = &er
	// message writes of the file that are not inside the three branches (a greeting before the loop, a write from the
	// reader or the handler …)
	out := axCount(l.f, func(n ast.Node) bool {
		ce, ok := n.(*ast.CallExpr)
		if !ok || x.inWr[ce] {
			return false
		}
		base, name, ok := axSel(ce.Fun)
		return ok && wwWriteMethods[name] && x.isConn(base)
	})
	fa.outside = &out
	return fa
}

func extractHubWire() {
	g := gen("HubWire")
	type ver struct{ suffix, file string }
	vers := []ver{
		{"V1", "pkg/rest/socketv1_controller.go"},
		{"V2", "pkg/rest/socketv2_controller.go"},
	}
	all := map[string]wwFacts{}
	for _, v := range vers {
		all[v.suffix] = wwExtract(hbFind(parse(v.file)))
	}
	const who = "the writer loop (the select, inside a for, reachable from WSWriter, that has a case receiving from the event queue) of the listener type of "
	for _, v := range vers {
		g.def("writerSelect"+v.suffix, "String", leanStr(all[v.suffix].selectShape),
			"cases of "+who+v.file+", sorted: queue = receive from the event queue, done = receive from the done channel, ticker = receive from <x>.C, default, other; unknown = no such loop or more than one")
	}
	for _, v := range vers {
		g.def("writerQueueWrites"+v.suffix, "Option Nat", optNat(all[v.suffix].qWrites),
			"number of WebSocket message writes (WriteJSON / WriteMessage / WriteControl / WritePreparedMessage / NextWriter…Close on a *websocket.Conn) on EVERY path through the queue case of "+who+v.file+", same-file helpers executed in place; none = paths differ, or a loop / goroutine / closure writes or receives, or the connection escapes")
	}
	for _, v := range vers {
		g.def("writerQueueExtraRecvs"+v.suffix, "Option Nat", optNat(all[v.suffix].qRecvs),
			"number of FURTHER receives from the event queue on every path through the queue case of "+who+v.file+" (the case's own receive not counted)")
	}
	for _, v := range vers {
		g.def("writerWritesReceived"+v.suffix, "Option Bool", axOptBool(all[v.suffix].qValue),
			"every message write in the queue case of "+who+v.file+" is WriteJSON of the value the case received (the variable, its address, or a one-argument same-file conversion of it)")
	}
	for _, v := range vers {
		g.def("writerDoneBranch"+v.suffix, "String", leanStr(all[v.suffix].doneBranch),
			"done case of "+who+v.file+": closeThenReturn = every path writes exactly one message, of type websocket.CloseMessage, receives nothing from the queue and ends in return")
	}
	for _, v := range vers {
		g.def("writerTickBranch"+v.suffix, "String", leanStr(all[v.suffix].tickBranch),
			"ticker case of "+who+v.file+": pingFrame = every path writes exactly one message, of type websocket.PingMessage, and receives nothing from the queue")
	}
	for _, v := range vers {
		g.def("writerWriteErrorReturns"+v.suffix, "Option Bool", axOptBool(all[v.suffix].errReturns),
			"the error of every message write in the queue and ticker cases of "+who+v.file+" (and of every helper that writes and returns an error) is compared with nil by an if whose body ends in return, or is returned to such a caller; in the done case it may be discarded")
	}
	for _, v := range vers {
		g.def("queueReceives"+v.suffix, "Option Nat", optNat(all[v.suffix].queueRecvs),
			"receive expressions from the event queue in "+v.file+" (1 = the writer's select case is the only consumer)")
	}
	for _, v := range vers {
		g.def("writesOutsideWriterLoop"+v.suffix, "Option Nat", optNat(all[v.suffix].outside),
			"message writes on a websocket connection in "+v.file+" that are not in one of the three cases of the writer loop (nor in a helper executed from there)")
	}
}
