package main

// T1 facts for the ASSEMBLY leg (ASM): the structural wiring of the program's glue —
//   cmd/inbucket/main.go         which storage constructors are registered, the order of the start-up / shutdown calls
//   pkg/config/config.go         Process (environment prefix, the lists that are lower-cased), mbNaming.Decode, defaults
//   pkg/storage/storage.go       FromConfig (looks the constructor up by Type, hands config and host on untouched)
//   pkg/storage/{mem,file}       which configuration items the constructors read
//   pkg/storage/retention.go     which configuration items end up as the scanner's period / sleep / store
//   pkg/server (lifecycle.go)    FullAssembly: which constructor receives which configuration field and which shared object;
//                                Start / the notify-merging helper FullAssembly calls: which services are started and watched
//   pkg/server/web/server.go     NewServer: base path source, the package variables it sets
//   pkg/server/{smtp,pop3}       NewServer keeps every parameter
//
// The facts are about ARGUMENTS BY ORIGIN, not statement text: an argument is described by where its value comes from —
//   $i                 the i-th parameter of the enclosing function (whatever it is called)
//   $i.A.B             a selector path on it
//   @pkg.Func#k        the result of the k-th call (in source order) of pkg.Func in this function, however the local
//                      variable holding it is called (`#k.j` = j-th result of a multi-value call)
//   &T{F:…,…}#k        the k-th composite literal of that description bound to a local variable
// so renaming locals / parameters, reordering independent statements or extracting the error handling does not change them,
// while handing a component another object, another configuration field or a copy does.
//
// Unexported things never reach a fact by their spelling (kit_t1b.go): an unexported struct field is named by its declared
// type (`~*sync.WaitGroup`), an unexported helper by its role (`~readyFunc`) or by being called from the exported function
// under study, with its body read as if it stood at the call site (config.Process -> its lower-casing helper, DoScan -> its
// visitor callback and per-mailbox helpers).  main()'s signal loop is summarised from path conditions as the list of ways
// out of it and whether the services' context is cancelled on each (mainLoopWays), not as a count of break statements.

import (
	"fmt"
	"go/ast"
	"go/token"
	"reflect"
	"sort"
	"strconv"
	"strings"
)

func init() { extractors = append(extractors, extractAssembly) }

// asmScope resolves identifiers of one function body to the origin of their values.
type asmScope struct {
	params map[string]int
	defs   map[string]string // local variable -> description of its (only) definition
	multi  map[string]bool   // assigned more than once (other than err-like blanks): description is "?name"
	recv   string
}

func asmCallee(e ast.Expr) string {
	switch v := e.(type) {
	case *ast.Ident:
		return v.Name
	case *ast.SelectorExpr:
		if x := asmCallee(v.X); x != "" {
			return x + "." + v.Sel.Name
		}
	}
	return ""
}

func newAsmScope(fd *ast.FuncDecl) *asmScope {
	sc := &asmScope{params: map[string]int{}, defs: map[string]string{}, multi: map[string]bool{}}
	if fd == nil {
		return sc
	}
	if fd.Recv != nil && len(fd.Recv.List) == 1 && len(fd.Recv.List[0].Names) == 1 {
		sc.recv = fd.Recv.List[0].Names[0].Name
	}
	i := 0
	for _, f := range fd.Type.Params.List {
		for _, n := range f.Names {
			sc.params[n.Name] = i
			i++
		}
		if len(f.Names) == 0 {
			i++
		}
	}
	// definitions in source order; a counter per description gives identity
	count := map[string]int{}
	ast.Inspect(fd.Body, func(x ast.Node) bool {
		if _, ok := x.(*ast.FuncLit); ok {
			return false
		}
		as, ok := x.(*ast.AssignStmt)
		if !ok {
			return true
		}
		if len(as.Rhs) == 1 && len(as.Lhs) >= 1 {
			base := ""
			switch r := as.Rhs[0].(type) {
			case *ast.CallExpr:
				if c := asmCallee(r.Fun); c != "" {
					if _, isLocal := sc.defs[strings.SplitN(c, ".", 2)[0]]; !isLocal {
						if _, isParam := sc.params[strings.SplitN(c, ".", 2)[0]]; !isParam {
							base = "@" + c
						}
					}
				}
				if base == "" {
					base = sc.describe(r)
				}
			default:
				base = sc.describe(as.Rhs[0])
			}
			count[base]++
			desc := fmt.Sprintf("%s#%d", base, count[base])
			for j, l := range as.Lhs {
				id, ok := l.(*ast.Ident)
				if !ok || id.Name == "_" {
					continue
				}
				d := desc
				if len(as.Lhs) > 1 && j > 0 {
					d = fmt.Sprintf("%s.%d", desc, j)
				}
				if len(as.Lhs) > 1 && id.Name == "err" {
					continue
				}
				if _, isParam := sc.params[id.Name]; isParam {
					sc.multi[id.Name] = true // a parameter is overwritten
					continue
				}
				if _, dup := sc.defs[id.Name]; dup {
					sc.multi[id.Name] = true
					continue
				}
				sc.defs[id.Name] = d
			}
		}
		return true
	})
	return sc
}

func (sc *asmScope) describe(e ast.Expr) string {
	switch v := e.(type) {
	case nil:
		return "nil"
	case *ast.Ident:
		if sc.multi[v.Name] {
			return "?" + v.Name
		}
		if i, ok := sc.params[v.Name]; ok {
			return "$" + strconv.Itoa(i)
		}
		if d, ok := sc.defs[v.Name]; ok {
			return d
		}
		if sc.recv != "" && v.Name == sc.recv {
			return "$recv"
		}
		return v.Name
	case *ast.SelectorExpr:
		return sc.describe(v.X) + "." + v.Sel.Name
	case *ast.StarExpr:
		return "*" + sc.describe(v.X)
	case *ast.UnaryExpr:
		return v.Op.String() + sc.describe(v.X)
	case *ast.BinaryExpr:
		return sc.describe(v.X) + " " + v.Op.String() + " " + sc.describe(v.Y)
	case *ast.ParenExpr:
		return "(" + sc.describe(v.X) + ")"
	case *ast.BasicLit:
		return v.Value
	case *ast.IndexExpr:
		return sc.describe(v.X) + "[" + sc.describe(v.Index) + "]"
	case *ast.CallExpr:
		args := make([]string, len(v.Args))
		for i, a := range v.Args {
			args[i] = sc.describe(a)
		}
		return sc.describe(v.Fun) + "(" + strings.Join(args, ",") + ")"
	case *ast.CompositeLit:
		parts := []string{}
		for _, el := range v.Elts {
			if kv, ok := el.(*ast.KeyValueExpr); ok {
				parts = append(parts, oneLine(src(kv.Key))+":"+sc.describe(kv.Value))
			} else {
				parts = append(parts, sc.describe(el))
			}
		}
		sort.Strings(parts)
		return oneLine(src(v.Type)) + "{" + strings.Join(parts, ",") + "}"
	}
	return oneLine(src(e))
}

// callsOf: every call in fd's body (source order, nested function literals included) as (callee described, described args)
func asmCalls(fd *ast.FuncDecl, sc *asmScope) [][2]interface{} {
	var res [][2]interface{}
	if fd == nil {
		return res
	}
	ast.Inspect(fd.Body, func(x ast.Node) bool {
		ce, ok := x.(*ast.CallExpr)
		if !ok {
			return true
		}
		args := make([]string, len(ce.Args))
		for i, a := range ce.Args {
			args[i] = sc.describe(a)
		}
		res = append(res, [2]interface{}{sc.describe(ce.Fun), args})
		return true
	})
	return res
}

func leanCallList(calls [][2]interface{}, keep func(string) bool) string {
	p := []string{}
	for _, c := range calls {
		name := c[0].(string)
		if keep != nil && !keep(name) {
			continue
		}
		p = append(p, "("+leanStr(name)+", "+strList(c[1].([]string))+")")
	}
	return "[" + strings.Join(p, ", ") + "]"
}

// asmLits: composite literals of type `typ` (printed) in fd: field -> described value
func asmLit(fd *ast.FuncDecl, sc *asmScope, typ string) [][2]string {
	var res [][2]string
	if fd == nil {
		return res
	}
	found := 0
	ast.Inspect(fd.Body, func(x ast.Node) bool {
		cl, ok := x.(*ast.CompositeLit)
		if !ok || oneLine(src(cl.Type)) != typ {
			return true
		}
		found++
		if found > 1 {
			res = append(res, [2]string{"!second-literal", typ})
			return true
		}
		for _, el := range cl.Elts {
			if kv, ok := el.(*ast.KeyValueExpr); ok {
				res = append(res, [2]string{oneLine(src(kv.Key)), sc.describe(kv.Value)})
			}
		}
		return true
	})
	sort.Slice(res, func(i, j int) bool { return res[i][0] < res[j][0] })
	return res
}

func leanPairs(l [][2]string) string {
	p := []string{}
	for _, x := range l {
		p = append(p, "("+leanStr(x[0])+", "+leanStr(x[1])+")")
	}
	return "[" + strings.Join(p, ", ") + "]"
}

// asmParamWrites: assignments / inc-dec whose target is (a field of) a parameter
func asmParamWrites(fd *ast.FuncDecl, sc *asmScope) []string {
	var res []string
	if fd == nil {
		return []string{"!missing"}
	}
	root := func(e ast.Expr) string {
		for {
			switch v := e.(type) {
			case *ast.SelectorExpr:
				e = v.X
			case *ast.IndexExpr:
				e = v.X
			case *ast.StarExpr:
				e = v.X
			case *ast.ParenExpr:
				e = v.X
			case *ast.Ident:
				return v.Name
			default:
				return ""
			}
		}
	}
	ast.Inspect(fd.Body, func(x ast.Node) bool {
		switch v := x.(type) {
		case *ast.AssignStmt:
			for _, l := range v.Lhs {
				if _, ok := sc.params[root(l)]; ok {
					res = append(res, sc.describeRaw(l))
				}
			}
		case *ast.IncDecStmt:
			if _, ok := sc.params[root(v.X)]; ok {
				res = append(res, sc.describeRaw(v.X))
			}
		}
		return true
	})
	return res
}

// describeRaw: like describe but a parameter that is overwritten still shows as $i
func (sc *asmScope) describeRaw(e ast.Expr) string {
	saved := sc.multi
	sc.multi = map[string]bool{}
	defer func() { sc.multi = saved }()
	return sc.describe(e)
}

// asmParamReads: the selector paths / map keys of parameter `idx` that the function reads, sorted, unique
func asmParamReads(fd *ast.FuncDecl, sc *asmScope, idx int) []string {
	set := map[string]bool{}
	if fd == nil {
		return []string{"!missing"}
	}
	var visit func(n ast.Node)
	visit = func(n ast.Node) {
		ast.Inspect(n, func(x ast.Node) bool {
			switch v := x.(type) {
			case *ast.IndexExpr:
				d := sc.describe(v)
				if strings.HasPrefix(d, "$"+strconv.Itoa(idx)+".") {
					set[d] = true
					return false
				}
			case *ast.SelectorExpr:
				d := sc.describe(v)
				if strings.HasPrefix(d, "$"+strconv.Itoa(idx)+".") {
					set[d] = true
					return false
				}
			}
			return true
		})
	}
	visit(fd.Body)
	// a path that is only the prefix of an indexed path (cfg.Params in cfg.Params["k"]) is not listed separately
	res := []string{}
	for k := range set {
		res = append(res, k)
	}
	sort.Strings(res)
	return res
}

// asmCommExpr: the channel expression of a receive comm clause (`x := <-ch`, `<-ch`)
func asmCommExpr(st ast.Stmt) ast.Expr {
	var e ast.Expr
	switch v := st.(type) {
	case *ast.ExprStmt:
		e = v.X
	case *ast.AssignStmt:
		if len(v.Rhs) == 1 {
			e = v.Rhs[0]
		}
	}
	if ue, ok := e.(*ast.UnaryExpr); ok && ue.Op == token.ARROW {
		return ue.X
	}
	return e
}

// receiver-field selectors (rs.<F>) inside an expression
func asmRecvFields(e ast.Node, recv string) []string {
	var res []string
	ast.Inspect(e, func(x ast.Node) bool {
		if se, ok := x.(*ast.SelectorExpr); ok {
			if id, ok := se.X.(*ast.Ident); ok && id.Name == recv {
				res = append(res, se.Sel.Name)
			}
		}
		return true
	})
	return res
}

// asmStructFieldTypes: field name -> printed declared type of the struct type `name` of the package.
func asmStructFieldTypes(p *rtPkg, name string) map[string]string {
	res := map[string]string{}
	for _, f := range p.files {
		if st := axStruct(f, name); st != nil && st.Fields != nil {
			for _, fl := range st.Fields.List {
				for _, n := range fl.Names {
					res[n.Name] = oneLine(src(fl.Type))
				}
			}
		}
	}
	return res
}

// asmHelperRole names what an unexported helper of the package does, by shape (never by its name):
//
//	readyFunc   a method that, as one of its top-level statements, calls <recv>.<F>.Add(1) on a field F of type
//	            (*)sync.WaitGroup, returns a function literal that refers to <recv>.<F>.Done, has no other
//	            WaitGroup call — and `user` (Services.Start) calls <its recv>.<F>.Wait() on that same field
//	unknown     anything else
func asmHelperRole(p *rtPkg, fd *ast.FuncDecl, user *ast.FuncDecl) string {
	recv := axRecvObj(fd)
	if recv == nil || fd.Body == nil {
		return "unknown"
	}
	wg := sdFieldsOfType(p, "sync", "WaitGroup")
	// <o>.<F>.<method> with F a WaitGroup field: returns F
	wgSel := func(e ast.Expr, o *ast.Object, method string) string {
		se, ok := rtUnparen(e).(*ast.SelectorExpr)
		if !ok || se.Sel.Name != method {
			return ""
		}
		in, ok := rtUnparen(se.X).(*ast.SelectorExpr)
		if !ok || !wg[in.Sel.Name] || rtIdentObj(in.X) != o || o == nil {
			return ""
		}
		return in.Sel.Name
	}
	field, adds := "", 0
	for _, s := range fd.Body.List {
		if es, ok := s.(*ast.ExprStmt); ok {
			if ce, ok := es.X.(*ast.CallExpr); ok && len(ce.Args) == 1 && rtLit(ce.Args[0], "1") {
				if f := wgSel(ce.Fun, recv, "Add"); f != "" {
					field = f
					adds++
				}
			}
		}
	}
	if adds != 1 || sdCountFieldCalls(fd.Body, wg, "Add", "Wait") != 1 {
		return "unknown"
	}
	// every return hands back a function literal that refers to <recv>.<field>.Done
	returns, good := 0, 0
	for _, s := range fd.Body.List {
		rs, ok := s.(*ast.ReturnStmt)
		if !ok {
			continue
		}
		returns++
		if len(rs.Results) != 1 {
			continue
		}
		fl, ok := rtUnparen(rs.Results[0]).(*ast.FuncLit)
		if !ok {
			continue
		}
		dones := 0
		ast.Inspect(fl.Body, func(x ast.Node) bool {
			if e, ok := x.(ast.Expr); ok && wgSel(e, recv, "Done") == field {
				dones++
			}
			return true
		})
		if dones == 1 {
			good++
		}
	}
	nRet := 0
	ast.Inspect(fd.Body, func(x ast.Node) bool {
		switch x.(type) {
		case *ast.FuncLit:
			return false
		case *ast.ReturnStmt:
			nRet++
		}
		return true
	})
	if returns != 1 || good != 1 || nRet != 1 {
		return "unknown"
	}
	// the user waits on that very field
	waits := 0
	if user != nil && user.Body != nil {
		uo := axRecvObj(user)
		ast.Inspect(user.Body, func(x ast.Node) bool {
			if ce, ok := x.(*ast.CallExpr); ok && len(ce.Args) == 0 && wgSel(ce.Fun, uo, "Wait") == field {
				waits++
			}
			return true
		})
	}
	if waits != 1 {
		return "unknown"
	}
	return "readyFunc"
}

// asmWay: one way out of main's signal loop.
type asmWay struct {
	name      string
	cancelled bool
}

// asmMainLoopWays analyses cmd/inbucket main(): see the comment of Gen.Assembly.mainLoopWays.  Path conditions come from
// the rt walker (unexported helpers of package main inlined), so the result does not depend on how the branches are
// spelled or grouped, nor on whether the cancel call is repeated in every branch or written once after the loop.
func asmMainLoopWays() []asmWay {
	fail := func(why string) []asmWay { return []asmWay{{"unknown:" + why, false}} }
	p := rtLoadPkg("cmd/inbucket")
	mn := t1bFunc(p, "main")
	if mn == nil {
		return fail("no-main")
	}
	w := rtWalkBody(p, mn.Body, nil)
	if w.unknown {
		return fail("control-flow")
	}
	// the objects: cancel function, signal channel + registered signals, the assembled services
	var cancelObj, servicesObj, sigChanObj *ast.Object
	nCancel, nSvc, nSig := 0, 0, 0
	var registered []string
	for _, l := range w.leaves {
		if l.owner != 0 {
			continue
		}
		if as, ok := l.st.(*ast.AssignStmt); ok && len(as.Rhs) == 1 {
			if ce, ok := rtUnparen(as.Rhs[0]).(*ast.CallExpr); ok {
				switch {
				case rtIsPkgSel(ce.Fun, "context", "WithCancel") && len(as.Lhs) == 2:
					cancelObj = rtIdentObj(as.Lhs[1])
					nCancel++
				case rtIsPkgSel(ce.Fun, "server", "FullAssembly") && len(as.Lhs) >= 1:
					servicesObj = rtIdentObj(as.Lhs[0])
					nSvc++
				}
			}
		}
		for _, ce := range rtCalls(l.scope()) {
			if rtIsPkgSel(ce.Fun, "signal", "Notify") && len(ce.Args) >= 1 {
				sigChanObj = rtIdentObj(ce.Args[0]) // identity of the variable, not its definition
				nSig++
				for _, a := range ce.Args[1:] {
					registered = append(registered, oneLine(src(a)))
				}
			}
		}
	}
	if cancelObj == nil || servicesObj == nil || sigChanObj == nil || nCancel != 1 || nSvc != 1 || nSig != 1 {
		return fail("objects")
	}
	sort.Strings(registered)
	commKind := func(cc *ast.CommClause, env *rtEnv) string {
		if cc.Comm == nil {
			return "default"
		}
		ch := rtRecvChan(cc.Comm)
		if ch == nil {
			return "other"
		}
		if o := rtIdentObj(ch); o != nil && o == sigChanObj {
			return "signal"
		}
		if x, args, _, ok := p.methodCall(ch, env, "Notify"); ok && len(args) == 0 && rtIdentObj(x) == servicesObj {
			return "notify"
		}
		return "other"
	}
	// the loop: the innermost loop around the unique select of main that has a signal or a notify case
	selIdx := -1
	for i, l := range w.leaves {
		sel, ok := l.st.(*ast.SelectStmt)
		if !ok || l.owner != 0 {
			continue
		}
		for _, c := range sel.Body.List {
			if k := commKind(c.(*ast.CommClause), l.env); k == "signal" || k == "notify" {
				if selIdx >= 0 && selIdx != i {
					return fail("two-selects")
				}
				selIdx = i
			}
		}
	}
	if selIdx < 0 || len(w.leaves[selIdx].loops) == 0 {
		return fail("no-loop")
	}
	selLeaf := w.leaves[selIdx]
	sel := selLeaf.st.(*ast.SelectStmt)
	loop, ok := selLeaf.loops[len(selLeaf.loops)-1].(*ast.ForStmt)
	// `for { … break … }`, or the flag form `for stop := false; !stop; { … stop = true … }` (setting the flag is then a way out)
	var flagObj *ast.Object
	if ok && loop.Cond != nil {
		if ue, isNot := loop.Cond.(*ast.UnaryExpr); isNot && ue.Op == token.NOT {
			flagObj = rtIdentObj(ue.X)
		}
		if flagObj == nil {
			return fail("loop-shape")
		}
	}
	if !ok || loop.Post != nil || (loop.Init != nil && flagObj == nil) {
		return fail("loop-shape")
	}
	loopIdx := -1
	for i, l := range w.leaves {
		if l.st == ast.Stmt(loop) {
			loopIdx = i
		}
	}
	if loopIdx < 0 {
		return fail("no-loop")
	}
	loopLeaf := w.leaves[loopIdx]
	inLoop := func(l rtLeaf) bool {
		for _, x := range l.loops {
			if x == ast.Stmt(loop) {
				return true
			}
		}
		return false
	}
	isCancel := func(l rtLeaf) bool {
		es, ok := l.st.(*ast.ExprStmt)
		if !ok || l.owner != 0 {
			return false
		}
		ce, ok := es.X.(*ast.CallExpr)
		return ok && len(ce.Args) == 0 && rtIdentObj(ce.Fun) == cancelObj
	}
	sameLoops := func(a, b []ast.Stmt) bool {
		if len(a) != len(b) {
			return false
		}
		for i := range a {
			if a[i] != b[i] {
				return false
			}
		}
		return true
	}
	// the cancel call written once after the loop: unconditional, before the first Drain / Join
	afterCancel := false
	for i := loopIdx + 1; i < len(w.leaves); i++ {
		l := w.leaves[i]
		if inLoop(l) || l.node() == nil || l.node().Pos() < loop.End() {
			continue
		}
		if isCancel(l) && sdSamePc(l.pc, loopLeaf.pc) && sameLoops(l.loops, loopLeaf.loops) {
			afterCancel = true
			break
		}
		stop := false
		for _, ce := range rtCalls(l.scope()) {
			if n := rtCallName(ce); n == "Drain" || n == "Join" {
				stop = true
			}
		}
		if stop {
			break
		}
	}
	type exit struct {
		kind      string
		rel       []rtAtom
		sigVar    *ast.Object
		cancelled bool
	}
	var exits []exit
	for i := loopIdx + 1; i < len(w.leaves); i++ {
		l := w.leaves[i]
		if !inLoop(l) || l.st == nil {
			continue
		}
		isBreak := false
		switch v := l.st.(type) {
		case *ast.BranchStmt:
			switch v.Tok {
			case token.BREAK:
				if t1bBreakTarget(mn.Body, v) != ast.Stmt(loop) {
					continue
				}
				isBreak = true
			case token.CONTINUE:
				if v.Label == nil {
					continue
				}
				if t := t1bBreakTarget(mn.Body, v); t == ast.Stmt(loop) || (t != nil && t.Pos() >= loop.Body.Pos() && t.End() <= loop.Body.End()) {
					continue
				}
			default:
				return fail("control-flow")
			}
		case *ast.ReturnStmt:
			if l.owner != 0 {
				continue
			}
		case *ast.AssignStmt:
			if flagObj == nil || l.owner != 0 || len(v.Lhs) != 1 || len(v.Rhs) != 1 || rtIdentObj(v.Lhs[0]) != flagObj {
				continue
			}
			if id, isID := v.Rhs[0].(*ast.Ident); !isID || id.Name != "true" || id.Obj != nil {
				return fail("control-flow")
			}
			isBreak = true
		default:
			continue
		}
		if len(l.pc) < len(loopLeaf.pc) || !sdSamePc(l.pc[:len(loopLeaf.pc)], loopLeaf.pc) {
			return fail("exit-path")
		}
		e := exit{kind: "other", rel: l.pc[len(loopLeaf.pc):]}
		// the case of the loop's select the exit sits in
		for k, a := range e.rel {
			if a.comm == nil {
				continue
			}
			mine := false
			for _, c := range sel.Body.List {
				if c == ast.Stmt(a.comm) {
					mine = true
				}
			}
			if mine {
				if k != 0 {
					e.kind = "conditional"
				} else {
					e.kind = commKind(a.comm, a.env)
					if as, ok := a.comm.Comm.(*ast.AssignStmt); ok && len(as.Lhs) >= 1 {
						e.sigVar = rtIdentObj(as.Lhs[0])
					}
					e.rel = e.rel[1:]
				}
			}
			break
		}
		// cancelled before, in the same turn of the loop, on every path to this exit
		for j := loopIdx + 1; j < i; j++ {
			m := w.leaves[j]
			if inLoop(m) && isCancel(m) && sdPrefixPc(m.pc, l.pc) && len(m.loops) <= len(l.loops) && sameLoops(m.loops, l.loops[:len(m.loops)]) {
				e.cancelled = true
			}
		}
		if isBreak && afterCancel {
			e.cancelled = true
		}
		exits = append(exits, e)
	}
	res := map[string]bool{}
	add := func(name string, cancelled bool) {
		if old, ok := res[name]; ok {
			cancelled = cancelled && old
		}
		res[name] = cancelled
	}
	for _, e := range exits {
		switch e.kind {
		case "notify":
			if len(e.rel) != 0 {
				add("notify:conditional", false)
			} else {
				add("notify", e.cancelled)
			}
		case "signal":
			for _, s := range registered {
				sat := t1bTrue
				for _, a := range e.rel {
					if a.cond == nil {
						sat = t1bUnknown
						continue
					}
					v := t1bEvalEq(a.cond, e.sigVar, s)
					if !a.pos {
						v = v.not()
					}
					if v == t1bFalse {
						sat = t1bFalse
						break
					}
					if v == t1bUnknown {
						sat = t1bUnknown // a later conjunct may still be false
					}
				}
				switch sat {
				case t1bTrue:
					add("signal:"+s, e.cancelled)
				case t1bUnknown:
					add("signal:?", false)
				}
			}
		default:
			add("other:"+e.kind, false)
		}
	}
	names := []string{}
	for n := range res {
		names = append(names, n)
	}
	sort.Strings(names)
	out := []asmWay{}
	for _, n := range names {
		out = append(out, asmWay{n, res[n]})
	}
	return out
}

func extractAssembly() {
	g := gen("Assembly")
	none := "none"
	optOf := func(s string, ok bool) string {
		if !ok {
			return none
		}
		return "some " + leanStr(s)
	}

	// ------------------------------------------------------------------ pkg/server (lifecycle.go)
	// Functions are found in the package by their exported names (whatever file they are in); unexported helpers by role.
	srv := rtLoadPkg("pkg/server")
	srvW := t1bNewWalker(srv)
	fa := t1bFunc(srv, "FullAssembly")
	sc := newAsmScope(fa)
	calls := asmCalls(fa, sc)
	constructors := map[string]bool{"extension.NewHost": true, "luahost.New": true, "storage.FromConfig": true, "msghub.New": true, "storage.NewRetentionScanner": true,
		"stringutil.MakePathPrefixer": true, "webui.SetupRoutes": true, "rest.SetupRoutes": true, "web.NewServer": true, "pop3.NewServer": true, "smtp.NewServer": true}
	sort.SliceStable(calls, func(i, j int) bool { return calls[i][0].(string) < calls[j][0].(string) })
	g.def("assemblyCalls", "List (String × List String)", leanCallList(calls, func(n string) bool { return constructors[n] }),
		"FullAssembly: every call of a component constructor / route set-up (sorted by callee, source order among equals), with the ORIGIN of each argument")
	g.def("managerLit", "List (String × String)", leanPairs(asmLit(fa, sc, "message.StoreManager")), "FullAssembly: the fields of the message.StoreManager literal, by origin")
	g.def("addressingLit", "List (String × String)", leanPairs(asmLit(fa, sc, "policy.Addressing")), "FullAssembly: the fields of the policy.Addressing literal, by origin")
	// an unexported field of Services is named by its declared type (`~*sync.WaitGroup`), not by its spelling
	svcLit := asmLit(fa, sc, "Services")
	svcType := asmStructFieldTypes(srv, "Services")
	for i, kv := range svcLit {
		if !strings.HasPrefix(kv[0], "!") && !rtExported(kv[0]) {
			t, ok := svcType[kv[0]]
			if !ok {
				t = "?"
			}
			svcLit[i][0] = "~" + t
		}
	}
	sort.SliceStable(svcLit, func(i, j int) bool { return svcLit[i][0] < svcLit[j][0] })
	g.def("servicesLit", "List (String × String)", leanPairs(svcLit), "FullAssembly: the fields of the Services literal, by origin; an unexported field appears as `~<its declared type>`")
	g.def("assemblyParamWrites", "List String", strList(asmParamWrites(fa, sc)), "FullAssembly: writes through its parameter (the configuration is only read)")
	// Start: go s.<Field>.Start(ctx[, s.<ready-function helper>()])
	st := srv.method("Services", "Start")
	var started []string
	if st != nil {
		ssc := newAsmScope(st)
		ast.Inspect(st.Body, func(x ast.Node) bool {
			gs, ok := x.(*ast.GoStmt)
			if !ok {
				return true
			}
			if _, isLit := gs.Call.Fun.(*ast.FuncLit); isLit {
				return false
			}
			args := make([]string, len(gs.Call.Args))
			for i, a := range gs.Call.Args {
				args[i] = ssc.describe(a)
				// a call of an unexported same-package helper is described by the ROLE of the helper
				if ce, ok := rtUnparen(a).(*ast.CallExpr); ok {
					if fd, recv := srv.helper(ce); fd != nil {
						hargs := make([]string, len(ce.Args))
						for j, ha := range ce.Args {
							hargs[j] = ssc.describe(ha)
						}
						r := "~" + asmHelperRole(srv, fd, st)
						if recv != nil {
							r = ssc.describe(recv) + "." + r
						}
						args[i] = r + "(" + strings.Join(hargs, ",") + ")"
					}
				}
			}
			started = append(started, ssc.describe(gs.Call.Fun)+"("+strings.Join(args, ",")+")")
			return true
		})
	}
	sort.Strings(started)
	g.def("startedServices", "List String", strList(started), "Services.Start: the goroutines it starts (sorted), arguments by origin; `~readyFunc` = an unexported method that Add(1)s the *sync.WaitGroup field Start waits on and returns a function literal that calls that field's Done (through a sync.Once)")
	// the failure channels merged: every receive of a select case in the unexported helpers FullAssembly calls on the
	// Services value it returns (the helper is found by being called, not by its name)
	var watched []string
	if fa != nil {
		returned := ""
		for _, s := range fa.Body.List {
			if rs, ok := s.(*ast.ReturnStmt); ok && len(rs.Results) >= 1 {
				returned = sc.describe(rs.Results[0])
			}
		}
		scopes := map[*ast.FuncDecl]*asmScope{}
		srvW.deep(fa.Body, nil, func(x ast.Node, env *rtEnv, in *ast.FuncDecl) {
			cc, ok := x.(*ast.CommClause)
			if !ok || cc.Comm == nil {
				return
			}
			nsc := sc
			if in != nil {
				if scopes[in] == nil {
					scopes[in] = newAsmScope(in)
				}
				nsc = scopes[in]
				// the helper must work on the Services value FullAssembly returns
				if ro := axRecvObj(in); ro == nil || returned == "" || sc.describe(srvW.rebase(&ast.Ident{Name: ro.Name, Obj: ro}, env)) != returned {
					watched = append(watched, "!helper-not-on-the-returned-services")
				}
			}
			ast.Inspect(cc.Comm, func(y ast.Node) bool {
				if ue, ok := y.(*ast.UnaryExpr); ok && ue.Op == token.ARROW {
					watched = append(watched, nsc.describe(ue.X))
				}
				return true
			})
		})
	}
	sort.Strings(watched)
	g.def("watchedServices", "List String", strList(watched), "the failure channels merged into Notify(): the receives of the select cases in the unexported helper(s) FullAssembly calls on the Services value it returns (sorted; $recv = that value)")

	// ------------------------------------------------------------------ pkg/storage/storage.go
	sf := parse("pkg/storage/storage.go")
	fc := fn(sf, "", "FromConfig")
	fsc := newAsmScope(fc)
	lookup, ctorArgs := "", []string{}
	nLookups, nCtorCalls := 0, 0
	if fc != nil {
		ast.Inspect(fc.Body, func(x ast.Node) bool {
			switch v := x.(type) {
			case *ast.IndexExpr:
				if oneLine(src(v.X)) == "Constructors" {
					lookup = fsc.describeRaw(v.Index)
					nLookups++
				}
			case *ast.CallExpr:
				d := fsc.describe(v.Fun)
				if strings.HasPrefix(d, "Constructors[") {
					nCtorCalls++
					ctorArgs = nil
					for _, a := range v.Args {
						ctorArgs = append(ctorArgs, fsc.describeRaw(a))
					}
				}
			}
			return true
		})
	}
	g.def("fromConfigLookup", "Option String", optOf(lookup, nLookups == 1), "FromConfig: the key the constructor table is indexed with (unique)")
	g.def("fromConfigCtorArgs", "Option (List String)", map[bool]string{true: "some " + strList(ctorArgs), false: none}[nCtorCalls == 1], "FromConfig: what the constructor found is called with (unique call)")
	g.def("fromConfigParamWrites", "List String", strList(asmParamWrites(fc, fsc)), "FromConfig: writes to its parameters (the configuration reaches the constructor untouched)")

	// ------------------------------------------------------------------ the constructors' reads of the configuration
	mf := fn(parse("pkg/storage/mem/store.go"), "", "New")
	msc := newAsmScope(mf)
	g.def("memNewReads", "List String", strList(asmParamReads(mf, msc, 0)), "mem.New: the configuration items it reads")
	g.def("memNewWrites", "List String", strList(asmParamWrites(mf, msc)), "mem.New: writes to its parameters")
	ff := fn(parse("pkg/storage/file/fstore.go"), "", "New")
	ffsc := newAsmScope(ff)
	g.def("fileNewReads", "List String", strList(asmParamReads(ff, ffsc, 0)), "file.New: the configuration items it reads")
	g.def("fileNewWrites", "List String", strList(asmParamWrites(ff, ffsc)), "file.New: writes to its parameters")

	// ------------------------------------------------------------------ pkg/storage/retention.go
	// DoScan is followed through its visitor callback and through unexported helpers (parameters bound at the call site):
	// "the field DoScan sleeps for" is the field whatever function of that closure hands to time.After.
	stp := rtLoadPkg("pkg/storage")
	ds := stp.method("RetentionScanner", "DoScan")
	nr := t1bFunc(stp, "NewRetentionScanner")
	nrsc := newAsmScope(nr)
	lit := map[string]string{}
	for _, kv := range asmLit(nr, nrsc, "RetentionScanner") {
		lit[kv[0]] = kv[1]
	}
	var periodF, sleepF, storeF []string
	if recv := axRecvObj(ds); ds != nil && recv != nil {
		t1bNewWalker(stp).deep(ds.Body, nil, func(x ast.Node, env *rtEnv, _ *ast.FuncDecl) {
			ce, ok := x.(*ast.CallExpr)
			if !ok {
				return
			}
			switch {
			case rtCallName(ce) == "Add" && len(ce.Args) == 1:
				// time.Now().Add(e), the time.Now() possibly held in a once-assigned local
				if se, ok := rtUnparen(ce.Fun).(*ast.SelectorExpr); ok {
					if args, _, isNow := stp.pkgCall(se.X, env, "time", "Now"); isNow && len(args) == 0 {
						periodF = append(periodF, t1bRecvFields(stp, ce.Args[0], env, recv, 0)...)
					}
				}
			case rtIsPkgSel(ce.Fun, "time", "After") && len(ce.Args) == 1:
				sleepF = append(sleepF, t1bRecvFields(stp, ce.Args[0], env, recv, 0)...)
			case rtCallName(ce) == "VisitMailboxes" || rtCallName(ce) == "RemoveMessage":
				if se, ok := rtUnparen(ce.Fun).(*ast.SelectorExpr); ok {
					storeF = append(storeF, t1bRecvFields(stp, se.X, env, recv, 0)...)
				}
			}
		})
	}
	origin := func(fields []string) string {
		set := map[string]bool{}
		for _, f := range fields {
			if v, ok := lit[f]; ok {
				set[v] = true
			} else {
				set["!field-not-initialised:"+f] = true
			}
		}
		l := []string{}
		for k := range set {
			l = append(l, k)
		}
		sort.Strings(l)
		return strList(l)
	}
	g.def("scannerCutoffPeriodOrigin", "List String", origin(periodF), "the field DoScan subtracts from time.Now() for the cutoff is initialised by NewRetentionScanner from …")
	g.def("scannerSleepOrigin", "List String", origin(sleepF), "the field DoScan sleeps for between mailboxes is initialised from …")
	g.def("scannerStoreOrigin", "List String", origin(storeF), "the field DoScan visits / removes through is initialised from …")

	// ------------------------------------------------------------------ pkg/config
	// Process is followed through unexported helpers of the package; what a helper does to its parameter is described in
	// Process's own terms (the parameter replaced by the call-site argument).
	cfp := rtLoadPkg("pkg/config")
	pr := t1bFunc(cfp, "Process")
	var cf *ast.File
	consts := map[string]string{}
	structs := map[string]*ast.StructType{}
	cfNames := []string{}
	for n := range cfp.files {
		cfNames = append(cfNames, n)
	}
	sort.Strings(cfNames)
	for _, n := range cfNames {
		f := cfp.files[n]
		if fn(f, "mbNaming", "Decode") != nil {
			cf = f
		}
		for _, d := range f.Decls {
			gd, ok := d.(*ast.GenDecl)
			if !ok {
				continue
			}
			for _, sp := range gd.Specs {
				switch v := sp.(type) {
				case *ast.ValueSpec:
					for i, n := range v.Names {
						if i < len(v.Values) {
							if bl, ok := v.Values[i].(*ast.BasicLit); ok && bl.Kind == token.STRING {
								if s, err := strconv.Unquote(bl.Value); err == nil {
									consts[n.Name] = s
								}
							}
						}
					}
				case *ast.TypeSpec:
					if stt, ok := v.Type.(*ast.StructType); ok {
						structs[v.Name.Name] = stt
					}
				}
			}
		}
	}
	psc := newAsmScope(pr)
	envPrefix, envTarget := "", ""
	var lowered []string
	logLevel := false
	if pr != nil {
		cw := t1bNewWalker(cfp)
		cw.deep(pr.Body, nil, func(x ast.Node, env *rtEnv, _ *ast.FuncDecl) {
			desc := func(e ast.Expr) string { return psc.describe(cw.rebase(e, env)) }
			switch v := x.(type) {
			case *ast.CallExpr:
				switch oneLine(src(v.Fun)) {
				case "envconfig.Process":
					if len(v.Args) == 2 {
						if id, ok := v.Args[0].(*ast.Ident); ok {
							envPrefix = consts[id.Name]
						} else if bl, ok := v.Args[0].(*ast.BasicLit); ok {
							envPrefix, _ = strconv.Unquote(bl.Value)
						}
						envTarget = desc(v.Args[1])
					}
				case "stringutil.SliceToLower":
					if len(v.Args) == 1 {
						lowered = append(lowered, desc(v.Args[0]))
					}
				}
			case *ast.AssignStmt:
				if len(v.Lhs) == 1 && len(v.Rhs) == 1 {
					l, r := desc(v.Lhs[0]), desc(v.Rhs[0])
					if strings.HasSuffix(l, ".LogLevel") && r == "strings.ToLower("+l+")" {
						logLevel = true
					}
				}
			}
		})
	}
	// the lists are described relative to the Root value handed to envconfig.Process
	rel := []string{}
	for _, l := range lowered {
		rel = append(rel, strings.TrimPrefix(l, envTarget+"."))
	}
	sort.Strings(rel)
	g.def("envPrefix", "String", leanStr(envPrefix), "config.Process: the environment prefix handed to envconfig.Process")
	g.def("loweredLists", "List String", strList(rel), "config.Process: the fields of the Root being filled that go through stringutil.SliceToLower (sorted)")
	g.def("logLevelLowered", "Bool", fmt.Sprint(logLevel), "config.Process: LogLevel is replaced by its lower-case form")
	var listFields []string
	type fieldDefault struct{ path, def string }
	var defaults []fieldDefault
	var walk func(prefix string, stt *ast.StructType)
	walk = func(prefix string, stt *ast.StructType) {
		for _, f := range stt.Fields.List {
			for _, n := range f.Names {
				p := prefix + n.Name
				if id, ok := f.Type.(*ast.Ident); ok {
					if sub, ok := structs[id.Name]; ok {
						walk(p+".", sub)
						continue
					}
				}
				if oneLine(src(f.Type)) == "[]string" {
					listFields = append(listFields, p)
				}
				if f.Tag != nil {
					if t, err := strconv.Unquote(f.Tag.Value); err == nil {
						if d, ok := reflect.StructTag(t).Lookup("default"); ok {
							defaults = append(defaults, fieldDefault{p, d})
						}
					}
				}
			}
		}
	}
	if root, ok := structs["Root"]; ok {
		walk("", root)
	}
	sort.Strings(listFields)
	g.def("listFields", "List String", strList(listFields), "config.Root: every field of type []string (sorted)")
	dp := []string{}
	for _, d := range defaults {
		dp = append(dp, "("+leanStr(d.path)+", "+leanStr(d.def)+")")
	}
	g.def("defaults", "List (String × String)", "["+strings.Join(dp, ", ")+"]", "config.Root: the `default:` tag of every field that has one, in declaration order")
	// mbNaming.Decode
	dec := fn(cf, "mbNaming", "Decode")
	dsc := newAsmScope(dec)
	tag := ""
	var cases [][2]string
	defaultErr := false
	nSwitch := 0
	if dec != nil {
		ast.Inspect(dec.Body, func(x ast.Node) bool {
			sw, ok := x.(*ast.SwitchStmt)
			if !ok {
				return true
			}
			nSwitch++
			tag = dsc.describe(sw.Tag)
			for _, cl := range sw.Body.List {
				cc := cl.(*ast.CaseClause)
				if cc.List == nil {
					for _, s := range cc.Body {
						if rs, ok := s.(*ast.ReturnStmt); ok && len(rs.Results) == 1 && oneLine(src(rs.Results[0])) != "nil" {
							defaultErr = true
						}
					}
					continue
				}
				val := "?"
				if len(cc.Body) == 1 {
					if as, ok := cc.Body[0].(*ast.AssignStmt); ok && len(as.Lhs) == 1 && len(as.Rhs) == 1 && dsc.describe(as.Lhs[0]) == "*$recv" {
						val = oneLine(src(as.Rhs[0]))
					}
				}
				for _, e := range cc.List {
					k := oneLine(src(e))
					if bl, ok := e.(*ast.BasicLit); ok {
						k, _ = strconv.Unquote(bl.Value)
					}
					cases = append(cases, [2]string{k, val})
				}
			}
			return false
		})
	}
	g.def("namingSwitchTag", "Option String", optOf(tag, nSwitch == 1), "mbNaming.Decode: what the switch is on")
	g.def("namingCases", "List (String × String)", leanPairs(cases), "mbNaming.Decode: case literal -> the value stored through the receiver")
	g.def("namingDefaultIsError", "Bool", fmt.Sprint(defaultErr), "mbNaming.Decode: the default branch returns a non-nil error")

	// ------------------------------------------------------------------ pkg/server/web/server.go, smtp / pop3 NewServer
	wf := parse("pkg/server/web/server.go")
	wn := fn(wf, "", "NewServer")
	wsc := newAsmScope(wn)
	g.def("webPrefixArgs", "List (String × List String)", leanCallList(asmCalls(wn, wsc), func(n string) bool { return n == "stringutil.MakePathPrefixer" }), "web.NewServer: the base path handed to MakePathPrefixer")
	var pkgVars [][2]string
	if wn != nil {
		for _, s := range wn.Body.List {
			if as, ok := s.(*ast.AssignStmt); ok && as.Tok == token.ASSIGN && len(as.Lhs) == 1 && len(as.Rhs) == 1 {
				if id, ok := as.Lhs[0].(*ast.Ident); ok {
					pkgVars = append(pkgVars, [2]string{id.Name, wsc.describe(as.Rhs[0])})
				}
			}
		}
	}
	sort.Slice(pkgVars, func(i, j int) bool { return pkgVars[i][0] < pkgVars[j][0] })
	g.def("webPackageVars", "List (String × String)", leanPairs(pkgVars), "web.NewServer: the package variables it sets, by origin")
	ws := fn(wf, "Server", "Start")
	wssc := newAsmScope(ws)
	addrOrigin := []string{}
	for _, kv := range asmLit(ws, wssc, "http.Server") {
		if kv[0] == "Addr" || strings.HasPrefix(kv[0], "!") {
			addrOrigin = append(addrOrigin, kv[1])
		}
	}
	g.def("webServerAddr", "List String", strList(addrOrigin), "web.Server.Start: the Addr of the http.Server it builds (package variable rootConfig = NewServer's first parameter, see webPackageVars)")
	keeps := func(rel, typ string) []string {
		f := fn(parse(rel), "", "NewServer")
		s := newAsmScope(f)
		set := map[string]bool{}
		for _, kv := range asmLit(f, s, typ) {
			if strings.HasPrefix(kv[1], "$") {
				set[kv[1]] = true
			} else if strings.HasPrefix(kv[1], "?") {
				if _, isParam := s.params[kv[1][1:]]; isParam {
					set[kv[1]] = true
				}
			}
		}
		l := []string{}
		for k := range set {
			l = append(l, k)
		}
		sort.Strings(l)
		return l
	}
	g.def("smtpServerKeeps", "List String", strList(keeps("pkg/server/smtp/listener.go", "Server")), "smtp.NewServer: the parameters stored in the Server (sorted; `?x` = a parameter that was reassigned first)")
	g.def("pop3ServerKeeps", "List String", strList(keeps("pkg/server/pop3/listener.go", "Server")), "pop3.NewServer: the parameters stored in the Server")

	// ------------------------------------------------------------------ cmd/inbucket/main.go
	mfile := parse("cmd/inbucket/main.go")
	var regs [][2]string
	if in := fn(mfile, "", "init"); in != nil {
		ast.Inspect(in.Body, func(x ast.Node) bool {
			as, ok := x.(*ast.AssignStmt)
			if !ok || len(as.Lhs) != 1 || len(as.Rhs) != 1 {
				return true
			}
			if ie, ok := as.Lhs[0].(*ast.IndexExpr); ok && oneLine(src(ie.X)) == "storage.Constructors" {
				k := oneLine(src(ie.Index))
				if bl, ok := ie.Index.(*ast.BasicLit); ok {
					k, _ = strconv.Unquote(bl.Value)
				}
				regs = append(regs, [2]string{k, oneLine(src(as.Rhs[0]))})
			}
			return true
		})
	}
	sort.Slice(regs, func(i, j int) bool { return regs[i][0] < regs[j][0] })
	g.def("registeredConstructors", "List (String × String)", leanPairs(regs), "cmd/inbucket init(): storage.Constructors[key] = constructor (sorted by key)")
	mn := fn(mfile, "", "main")
	mnsc := newAsmScope(mn)
	var seq []string
	for _, c := range asmCalls(mn, mnsc) {
		name := c[0].(string)
		if name == "config.Process" || name == "server.FullAssembly" || strings.HasPrefix(name, "@server.FullAssembly#1.") || strings.HasPrefix(name, "@context.WithCancel#1.1") {
			if name == "@server.FullAssembly#1.Notify" {
				continue
			}
			args := c[1].([]string)
			entry := name
			if name == "server.FullAssembly" || name == "@server.FullAssembly#1.Start" {
				if len(args) > 0 {
					entry += "(" + args[0] + ")"
				}
			}
			if len(seq) == 0 || seq[len(seq)-1] != entry {
				seq = append(seq, entry)
			}
		}
	}
	g.def("mainSequence", "List String", strList(seq), "cmd/inbucket main(): the configuration / assembly / start / cancel / drain calls in source order (repetitions collapsed)")
	// the signal / service-failure loop: every way out of it cancels the services' context before the drain calls
	var sigs []string
	notifyBranch := false
	if mn != nil {
		ast.Inspect(mn.Body, func(x ast.Node) bool {
			switch v := x.(type) {
			case *ast.CallExpr:
				if oneLine(src(v.Fun)) == "signal.Notify" && len(v.Args) >= 1 {
					for _, a := range v.Args[1:] {
						sigs = append(sigs, oneLine(src(a)))
					}
				}
			case *ast.CommClause:
				if v.Comm != nil && strings.Contains(mnsc.describe(asmCommExpr(v.Comm)), "@server.FullAssembly#1.Notify()") {
					notifyBranch = true
				}
			}
			return true
		})
	}
	sort.Strings(sigs)
	ways := asmMainLoopWays()
	nBare := 0
	wp := []string{}
	for _, w := range ways {
		if !w.cancelled {
			nBare++
		}
		wp = append(wp, "("+leanStr(w.name)+", "+fmt.Sprint(w.cancelled)+")")
	}
	g.def("mainLoopWays", "List (String × Bool)", "["+strings.Join(wp, ", ")+"]", "cmd/inbucket main(): every way out of the loop around the select that receives from the signal.Notify channel / from services.Notify(), with `true` when on EVERY path leaving the loop that way the cancel function of the services' context (2nd result of context.WithCancel) is called — inside the loop before the break, or unconditionally right after the loop before the first Drain / Join call.  signal:<S> = the signal case when the received value is <S> (conditions on it evaluated: switch, if/else, guard-clause and De Morgan forms alike; S ranges over the signals handed to signal.Notify); notify = the services.Notify() case; anything not understood gives an entry no tie accepts")
	g.def("mainLoopExits", "Nat × Nat", fmt.Sprintf("(%d, %d)", len(ways), nBare), "cmd/inbucket main(): (ways out of the signal loop as listed in mainLoopWays, those on which the services' context is NOT cancelled)")
	g.def("mainSignals", "List String", strList(sigs), "cmd/inbucket main(): the signals handed to signal.Notify (sorted)")
	g.def("mainWatchesServiceFailure", "Bool", fmt.Sprint(notifyBranch), "cmd/inbucket main(): the loop has a branch receiving from services.Notify()")
	te := fn(mfile, "", "timedExit")
	sleep := ""
	if te != nil {
		ast.Inspect(te.Body, func(x ast.Node) bool {
			if ce, ok := x.(*ast.CallExpr); ok && oneLine(src(ce.Fun)) == "time.Sleep" && len(ce.Args) == 1 {
				sleep = oneLine(src(ce.Args[0]))
			}
			return true
		})
	}
	g.def("timedExitSleep", "String", leanStr(sleep), "cmd/inbucket timedExit: how long a clean shutdown may take before the exit is forced")
}
