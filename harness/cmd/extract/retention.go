package main

// T1 facts for C12 (pkg/storage/retention.go): the shape of DoScan / Start / Join that the Lean model
// (Ibx/Model/Retention.lean) assumes, regenerated into lean/Ibx/Gen/Retention.lean.
//
// Every fact is STRUCTURAL: it is computed from go/ast shapes (selectors of exported / standard-library names,
// operators, literals, channel statements, control-flow nesting, path conditions, data-flow identity through
// ast.Ident.Obj) and never from the spelling of a local variable, receiver, unexported field, unexported helper,
// label, comment or log text.  Unexported helpers of the package are followed as if inlined (two levels), an
// `if c {A} else {B}` is the same as `if !c {B; continue}; A` or a tagless switch (path conditions are compared,
// not statements).  The values are small closed vocabularies; whatever is not recognised is emitted as
// "unknown" / false / an unexpected list, which no tie theorem of Ibx/Tie/Retention.lean accepts.
//
// The rt* toolkit of this file (package index, resolver, path-condition walker, wait classifier) is also used by
// shutdown.go.

import (
	"fmt"
	"go/ast"
	"go/token"
	"os"
	"path/filepath"
	"sort"
	"strings"
)

func init() { extractors = append(extractors, extractRetention) }

// ---- small legacy helpers (kept: harmless, generic)

func oneLine(s string) string { return strings.Join(strings.Fields(s), " ") }

func containsCall(n ast.Node, name string) bool {
	found := false
	ast.Inspect(n, func(x ast.Node) bool {
		if ce, ok := x.(*ast.CallExpr); ok && strings.HasSuffix(src(ce.Fun), name) {
			found = true
		}
		return true
	})
	return found
}

func optS(s string, ok bool) string {
	if !ok {
		return "none"
	}
	return "some " + leanStr(s)
}

// =====================================================================================================
// rt toolkit
// =====================================================================================================

// rtPkg: all non-test files of one package directory, its functions by name, and per-object write counts.
type rtPkg struct {
	files   map[string]*ast.File
	funcs   map[string][]*ast.FuncDecl
	assigns map[*ast.Object]int // writes to a local (its `:=` included); address-taken counts as many
}

func rtLoadPkg(dir string) *rtPkg {
	p := &rtPkg{files: map[string]*ast.File{}, funcs: map[string][]*ast.FuncDecl{}, assigns: map[*ast.Object]int{}}
	ents, err := os.ReadDir(filepath.Join(repo, dir))
	if err != nil {
		return p
	}
	for _, e := range ents {
		n := e.Name()
		if e.IsDir() || !strings.HasSuffix(n, ".go") || strings.HasSuffix(n, "_test.go") || strings.HasPrefix(n, "verif_") {
			continue
		}
		f := parse(filepath.Join(dir, n))
		if f == nil {
			continue
		}
		p.files[n] = f
		for _, d := range f.Decls {
			if fd, ok := d.(*ast.FuncDecl); ok && fd.Body != nil {
				p.funcs[fd.Name.Name] = append(p.funcs[fd.Name.Name], fd)
			}
		}
		bump := func(e ast.Expr, n int) {
			if id, ok := rtUnparen(e).(*ast.Ident); ok && id.Obj != nil {
				p.assigns[id.Obj] += n
			}
		}
		ast.Inspect(f, func(x ast.Node) bool {
			switch v := x.(type) {
			case *ast.AssignStmt:
				for _, l := range v.Lhs {
					bump(l, 1)
				}
			case *ast.IncDecStmt:
				bump(v.X, 1)
			case *ast.UnaryExpr:
				if v.Op == token.AND {
					bump(v.X, 100)
				}
			case *ast.RangeStmt:
				if v.Key != nil {
					bump(v.Key, 1)
				}
				if v.Value != nil {
					bump(v.Value, 1)
				}
			}
			return true
		})
	}
	return p
}

// method finds a method of the package by receiver type name and method name, in any file.
func (p *rtPkg) method(recv, name string) *ast.FuncDecl {
	for _, fd := range p.funcs[name] {
		if fd.Recv == nil || len(fd.Recv.List) != 1 {
			continue
		}
		t := fd.Recv.List[0].Type
		if s, ok := t.(*ast.StarExpr); ok {
			t = s.X
		}
		if id, ok := t.(*ast.Ident); ok && id.Name == recv {
			return fd
		}
	}
	return nil
}

func rtUnparen(e ast.Expr) ast.Expr {
	for {
		pe, ok := e.(*ast.ParenExpr)
		if !ok {
			return e
		}
		e = pe.X
	}
}

func rtExported(name string) bool { return name != "" && name[0] >= 'A' && name[0] <= 'Z' }

// helper: the same-package UNEXPORTED function / method a call refers to (nil if none / ambiguous), and the
// receiver expression for a method call.
func (p *rtPkg) helper(ce *ast.CallExpr) (*ast.FuncDecl, ast.Expr) {
	switch f := rtUnparen(ce.Fun).(type) {
	case *ast.Ident:
		if rtExported(f.Name) || (f.Obj != nil && f.Obj.Kind != ast.Fun) {
			return nil, nil
		}
		var hit *ast.FuncDecl
		for _, fd := range p.funcs[f.Name] {
			if fd.Recv == nil {
				if hit != nil {
					return nil, nil
				}
				hit = fd
			}
		}
		return hit, nil
	case *ast.SelectorExpr:
		if rtExported(f.Sel.Name) {
			return nil, nil
		}
		// the receiver must be a variable (not an imported package)
		root := rtUnparen(f.X)
		for {
			if s, ok := root.(*ast.SelectorExpr); ok {
				root = rtUnparen(s.X)
				continue
			}
			break
		}
		if id, ok := root.(*ast.Ident); !ok || id.Obj == nil {
			return nil, nil
		}
		var hit *ast.FuncDecl
		for _, fd := range p.funcs[f.Sel.Name] {
			if fd.Recv != nil {
				if hit != nil {
					return nil, nil
				}
				hit = fd
			}
		}
		return hit, f.X
	}
	return nil, nil
}

// rtEnv binds the parameters / receiver of an inlined helper to the argument expressions of the call site.
type rtEnv struct {
	m  map[*ast.Object]ast.Expr
	up *rtEnv
}

func rtBind(fd *ast.FuncDecl, recv ast.Expr, args []ast.Expr, up *rtEnv) *rtEnv {
	e := &rtEnv{m: map[*ast.Object]ast.Expr{}, up: up}
	if fd.Recv != nil && len(fd.Recv.List) == 1 && len(fd.Recv.List[0].Names) == 1 && recv != nil {
		if o := fd.Recv.List[0].Names[0].Obj; o != nil {
			e.m[o] = recv
		}
	}
	var names []*ast.Ident
	if fd.Type.Params != nil {
		for _, f := range fd.Type.Params.List {
			names = append(names, f.Names...)
		}
	}
	if len(names) == len(args) {
		for i, n := range names {
			if n.Obj != nil {
				e.m[n.Obj] = args[i]
			}
		}
	}
	return e
}

// resolve follows data flow: a bound helper parameter becomes the call-site argument, a local written exactly
// once becomes its defining expression, a call of a one-line `return e` helper becomes e.
func (p *rtPkg) resolve(e ast.Expr, env *rtEnv) (ast.Expr, *rtEnv) {
outer:
	for i := 0; i < 16; i++ {
		e = rtUnparen(e)
		id, ok := e.(*ast.Ident)
		if !ok || id.Obj == nil {
			if ce, ok := e.(*ast.CallExpr); ok {
				if fd, recv := p.helper(ce); fd != nil && len(fd.Body.List) == 1 {
					if rs, ok := fd.Body.List[0].(*ast.ReturnStmt); ok && len(rs.Results) == 1 {
						env = rtBind(fd, recv, ce.Args, env)
						e = rs.Results[0]
						continue
					}
				}
			}
			return e, env
		}
		for l := env; l != nil; l = l.up {
			if v, ok := l.m[id.Obj]; ok {
				e, env = v, l.up
				continue outer
			}
		}
		switch d := id.Obj.Decl.(type) {
		case *ast.AssignStmt:
			if p.assigns[id.Obj] == 1 && d.Tok == token.DEFINE && len(d.Lhs) == len(d.Rhs) {
				for k, l := range d.Lhs {
					if li, ok := l.(*ast.Ident); ok && li.Obj == id.Obj {
						e = d.Rhs[k]
						continue outer
					}
				}
			}
		case *ast.ValueSpec:
			if p.assigns[id.Obj] == 0 && len(d.Names) == len(d.Values) {
				for k, n := range d.Names {
					if n.Obj == id.Obj {
						e = d.Values[k]
						continue outer
					}
				}
			}
		}
		return e, env
	}
	return e, env
}

// obj: the object an expression resolves to (nil if it is not a plain variable).
func (p *rtPkg) obj(e ast.Expr, env *rtEnv) *ast.Object {
	r, _ := p.resolve(e, env)
	if id, ok := r.(*ast.Ident); ok {
		return id.Obj
	}
	return nil
}

// field: e resolves to <v>.F with v a receiver or parameter; returns F ("" otherwise).
func (p *rtPkg) field(e ast.Expr, env *rtEnv) string {
	r, renv := p.resolve(e, env)
	se, ok := r.(*ast.SelectorExpr)
	if !ok {
		return ""
	}
	o := p.obj(se.X, renv)
	if o == nil {
		return ""
	}
	if _, ok := o.Decl.(*ast.Field); !ok {
		return ""
	}
	return se.Sel.Name
}

func rtIsPkgSel(e ast.Expr, pkg, name string) bool {
	se, ok := rtUnparen(e).(*ast.SelectorExpr)
	if !ok || se.Sel.Name != name {
		return false
	}
	id, ok := rtUnparen(se.X).(*ast.Ident)
	return ok && id.Name == pkg && id.Obj == nil
}

// pkgCall: e resolves to a call pkg.fn(args).
func (p *rtPkg) pkgCall(e ast.Expr, env *rtEnv, pkg, fn string) ([]ast.Expr, *rtEnv, bool) {
	r, renv := p.resolve(e, env)
	ce, ok := r.(*ast.CallExpr)
	if !ok || !rtIsPkgSel(ce.Fun, pkg, fn) {
		return nil, nil, false
	}
	return ce.Args, renv, true
}

// methodCall: e resolves to a call X.name(args).
func (p *rtPkg) methodCall(e ast.Expr, env *rtEnv, name string) (ast.Expr, []ast.Expr, *rtEnv, bool) {
	r, renv := p.resolve(e, env)
	ce, ok := r.(*ast.CallExpr)
	if !ok {
		return nil, nil, nil, false
	}
	se, ok := rtUnparen(ce.Fun).(*ast.SelectorExpr)
	if !ok || se.Sel.Name != name {
		return nil, nil, nil, false
	}
	return se.X, ce.Args, renv, true
}

// isCtx: e resolves to a parameter of type context.Context.
func (p *rtPkg) isCtx(e ast.Expr, env *rtEnv) bool {
	o := p.obj(e, env)
	if o == nil {
		return false
	}
	f, ok := o.Decl.(*ast.Field)
	return ok && rtIsPkgSel(f.Type, "context", "Context")
}

// rtRecvChan: the channel expression a statement / comm receives from (nil if it is not a receive).
func rtRecvChan(s ast.Stmt) ast.Expr {
	var e ast.Expr
	switch v := s.(type) {
	case *ast.ExprStmt:
		e = v.X
	case *ast.AssignStmt:
		if len(v.Rhs) == 1 {
			e = v.Rhs[0]
		}
	}
	if e == nil {
		return nil
	}
	if u, ok := rtUnparen(e).(*ast.UnaryExpr); ok && u.Op == token.ARROW {
		return u.X
	}
	return nil
}

// isDoneRecv: the comm receives from <ctx>.Done(), <ctx> a context.Context parameter.
func (p *rtPkg) isDoneRecv(comm ast.Stmt, env *rtEnv) bool {
	ch := rtRecvChan(comm)
	if ch == nil {
		return false
	}
	x, args, renv, ok := p.methodCall(ch, env, "Done")
	return ok && len(args) == 0 && p.isCtx(x, renv)
}

// rtCalls: the call expressions of a node in source order, not descending into function literals.
func rtCalls(n ast.Node) []*ast.CallExpr {
	var res []*ast.CallExpr
	if n == nil {
		return res
	}
	ast.Inspect(n, func(x ast.Node) bool {
		switch v := x.(type) {
		case *ast.FuncLit:
			return false
		case *ast.CallExpr:
			res = append(res, v)
		}
		return true
	})
	return res
}

func rtCallName(ce *ast.CallExpr) string {
	switch f := rtUnparen(ce.Fun).(type) {
	case *ast.SelectorExpr:
		return f.Sel.Name
	case *ast.Ident:
		return f.Name
	}
	return ""
}

// rtIsLogging: an expression statement that is a pure method chain ending in a zerolog / log terminal
// (Msg, Msgf, Send, MsgFunc, Print*, …): wording and fields do not matter.
func rtIsLogging(s ast.Stmt) bool {
	es, ok := s.(*ast.ExprStmt)
	if !ok {
		return false
	}
	ce, ok := es.X.(*ast.CallExpr)
	if !ok {
		return false
	}
	se, ok := ce.Fun.(*ast.SelectorExpr)
	if !ok {
		return false
	}
	switch se.Sel.Name {
	case "Msg", "Msgf", "Send", "MsgFunc", "Print", "Printf", "Println":
	default:
		return false
	}
	var e ast.Expr = se.X
	for {
		switch v := rtUnparen(e).(type) {
		case *ast.CallExpr:
			s2, ok := v.Fun.(*ast.SelectorExpr)
			if !ok {
				return false
			}
			e = s2.X
		case *ast.SelectorExpr:
			e = v.X
		case *ast.Ident:
			return true
		default:
			return false
		}
	}
}

// ---- path-condition walker

// rtAtom: one conjunct of a path condition: a boolean expression that holds / does not hold, or the select
// case that was taken.
type rtAtom struct {
	cond   ast.Expr
	pos    bool
	comm   *ast.CommClause
	opaque bool
	env    *rtEnv
}

// rtLeaf: a simple statement (st), the head expression of an if / switch (head), or a select / for / range
// statement itself (st), with the condition under which it is reached.
type rtLeaf struct {
	st    ast.Stmt
	head  ast.Expr
	pc    []rtAtom
	env   *rtEnv
	loops []ast.Stmt // enclosing loops inside the walked root, outermost first
	owner int        // 0: a `return` here returns from the walked root; >0: from an inlined helper
}

func (l *rtLeaf) node() ast.Node {
	if l.st != nil {
		return l.st
	}
	return l.head
}

// scope: the part of the leaf that is evaluated at the leaf itself (not the bodies of a loop / select).
func (l *rtLeaf) scope() ast.Node {
	switch v := l.st.(type) {
	case *ast.ForStmt:
		if v.Cond == nil {
			return nil
		}
		return v.Cond
	case *ast.RangeStmt:
		return v.X
	case *ast.SelectStmt:
		return nil
	}
	return l.node()
}

// rtIdentObj: the object of a plain identifier (no data-flow resolution).
func rtIdentObj(e ast.Expr) *ast.Object {
	if id, ok := rtUnparen(e).(*ast.Ident); ok {
		return id.Obj
	}
	return nil
}

type rtCx struct {
	env   *rtEnv
	loops []ast.Stmt
	owner int
}

type rtWalk struct {
	p       *rtPkg
	leaves  []rtLeaf
	stack   []*ast.FuncDecl
	inlined map[*ast.FuncDecl]bool
	unknown bool // goto / fallthrough / type switch: control flow not understood
}

func rtNewWalk(p *rtPkg) *rtWalk { return &rtWalk{p: p, inlined: map[*ast.FuncDecl]bool{}} }

func rtPush(pc []rtAtom, a ...rtAtom) []rtAtom {
	r := make([]rtAtom, 0, len(pc)+len(a))
	r = append(r, pc...)
	return append(r, a...)
}

// rtCondAtoms: the conjuncts that hold when c is true (pos) / false (neg).
func rtCondAtoms(c ast.Expr, env *rtEnv) (pos, neg []rtAtom) {
	c = rtUnparen(c)
	if u, ok := c.(*ast.UnaryExpr); ok && u.Op == token.NOT {
		n, p := rtCondAtoms(u.X, env)
		return p, n
	}
	if b, ok := c.(*ast.BinaryExpr); ok {
		switch b.Op {
		case token.LAND:
			p1, _ := rtCondAtoms(b.X, env)
			p2, _ := rtCondAtoms(b.Y, env)
			return append(p1, p2...), []rtAtom{{cond: c, pos: false, env: env}}
		case token.LOR:
			_, n1 := rtCondAtoms(b.X, env)
			_, n2 := rtCondAtoms(b.Y, env)
			return []rtAtom{{cond: c, pos: true, env: env}}, append(n1, n2...)
		}
	}
	return []rtAtom{{cond: c, pos: true, env: env}}, []rtAtom{{cond: c, pos: false, env: env}}
}

// rtHasLocalBreak: an unlabelled break that leaves exactly this switch / select.
func rtHasLocalBreak(body *ast.BlockStmt) bool {
	found := false
	var visit func(n ast.Node, top bool)
	visit = func(n ast.Node, top bool) {
		ast.Inspect(n, func(x ast.Node) bool {
			if x == n {
				return true
			}
			switch v := x.(type) {
			case *ast.ForStmt, *ast.RangeStmt, *ast.SwitchStmt, *ast.TypeSwitchStmt, *ast.SelectStmt, *ast.FuncLit:
				return false
			case *ast.BranchStmt:
				if v.Tok == token.BREAK && v.Label == nil {
					found = true
				}
			}
			return true
		})
	}
	visit(body, true)
	return found
}

func (w *rtWalk) simple(st ast.Stmt, head ast.Expr, pc []rtAtom, cx rtCx) {
	var node ast.Node = st
	if st == nil {
		node = head
	}
	_, isGo := st.(*ast.GoStmt)
	_, isDefer := st.(*ast.DeferStmt)
	tail := false
	if !isGo && !isDefer {
		if rs, ok := st.(*ast.ReturnStmt); ok && len(rs.Results) == 1 {
			if ce, ok := rtUnparen(rs.Results[0]).(*ast.CallExpr); ok {
				if fd, _ := w.p.helper(ce); fd != nil {
					tail = true
				}
			}
		}
		for _, ce := range rtCalls(node) {
			fd, recv := w.p.helper(ce)
			if fd == nil || len(w.stack) >= 3 {
				continue
			}
			on := false
			for _, s := range w.stack {
				if s == fd {
					on = true
				}
			}
			if on {
				continue
			}
			cx2 := rtCx{env: rtBind(fd, recv, ce.Args, cx.env), loops: cx.loops, owner: cx.owner + 1}
			if tail {
				cx2.owner = cx.owner
			}
			w.inlined[fd] = true
			w.stack = append(w.stack, fd)
			w.list(fd.Body.List, pc, cx2)
			w.stack = w.stack[:len(w.stack)-1]
		}
	}
	if tail {
		return
	}
	w.leaves = append(w.leaves, rtLeaf{st: st, head: head, pc: rtPush(pc), env: cx.env, loops: cx.loops, owner: cx.owner})
}

func (w *rtWalk) list(stmts []ast.Stmt, pc []rtAtom, cx rtCx) bool {
	for _, s := range stmts {
		jump, after := w.stmt(s, pc, cx)
		if jump {
			return true
		}
		pc = after
	}
	return false
}

func (w *rtWalk) stmt(s ast.Stmt, pc []rtAtom, cx rtCx) (bool, []rtAtom) {
	switch v := s.(type) {
	case *ast.BlockStmt:
		return w.list(v.List, pc, cx), pc
	case *ast.LabeledStmt:
		return w.stmt(v.Stmt, pc, cx)
	case *ast.IfStmt:
		if v.Init != nil {
			w.simple(v.Init, nil, pc, cx)
		}
		w.simple(nil, v.Cond, pc, cx)
		pos, neg := rtCondAtoms(v.Cond, cx.env)
		ja := w.list(v.Body.List, rtPush(pc, pos...), cx)
		jb := false
		if v.Else != nil {
			jb, _ = w.stmt(v.Else, rtPush(pc, neg...), cx)
		}
		switch {
		case ja && jb:
			return true, pc
		case ja:
			return false, rtPush(pc, neg...)
		case jb:
			return false, rtPush(pc, pos...)
		}
		return false, pc
	case *ast.SwitchStmt:
		if v.Init != nil {
			w.simple(v.Init, nil, pc, cx)
		}
		if v.Tag != nil {
			w.simple(nil, v.Tag, pc, cx)
		}
		var negs []rtAtom
		var def *ast.CaseClause
		allJump, hasDefault := true, false
		for _, c := range v.Body.List {
			cc := c.(*ast.CaseClause)
			if cc.List == nil {
				def, hasDefault = cc, true
				continue
			}
			var cond ast.Expr
			for _, e := range cc.List {
				x := e
				if v.Tag != nil {
					x = &ast.BinaryExpr{X: v.Tag, Op: token.EQL, Y: e}
				}
				if cond == nil {
					cond = x
				} else {
					cond = &ast.BinaryExpr{X: cond, Op: token.LOR, Y: x}
				}
			}
			pos, neg := rtCondAtoms(cond, cx.env)
			if n := len(cc.Body); n > 0 {
				if b, ok := cc.Body[n-1].(*ast.BranchStmt); ok && b.Tok == token.FALLTHROUGH {
					w.unknown = true
				}
			}
			if !w.list(cc.Body, rtPush(rtPush(pc, negs...), pos...), cx) {
				allJump = false
			}
			negs = append(negs, neg...)
		}
		if def != nil {
			if !w.list(def.Body, rtPush(pc, negs...), cx) {
				allJump = false
			}
		}
		local := rtHasLocalBreak(v.Body)
		if allJump && !local {
			if hasDefault {
				return true, pc
			}
			return false, rtPush(pc, negs...)
		}
		return false, pc
	case *ast.TypeSwitchStmt:
		w.unknown = true
		for _, c := range v.Body.List {
			w.list(c.(*ast.CaseClause).Body, rtPush(pc, rtAtom{opaque: true}), cx)
		}
		return false, pc
	case *ast.SelectStmt:
		w.leaves = append(w.leaves, rtLeaf{st: v, pc: rtPush(pc), env: cx.env, loops: cx.loops, owner: cx.owner})
		allJump := true
		for _, c := range v.Body.List {
			cc := c.(*ast.CommClause)
			if !w.list(cc.Body, rtPush(pc, rtAtom{comm: cc, env: cx.env}), cx) {
				allJump = false
			}
		}
		if allJump && len(v.Body.List) > 0 && !rtHasLocalBreak(v.Body) {
			return true, pc
		}
		return false, pc
	case *ast.ForStmt:
		if v.Init != nil {
			w.simple(v.Init, nil, pc, cx)
		}
		w.leaves = append(w.leaves, rtLeaf{st: v, pc: rtPush(pc), env: cx.env, loops: cx.loops, owner: cx.owner})
		cx2 := rtCx{env: cx.env, loops: append(append([]ast.Stmt{}, cx.loops...), v), owner: cx.owner}
		w.list(v.Body.List, pc, cx2)
		if v.Post != nil {
			w.simple(v.Post, nil, pc, cx2)
		}
		return false, pc
	case *ast.RangeStmt:
		w.leaves = append(w.leaves, rtLeaf{st: v, pc: rtPush(pc), env: cx.env, loops: cx.loops, owner: cx.owner})
		cx2 := rtCx{env: cx.env, loops: append(append([]ast.Stmt{}, cx.loops...), v), owner: cx.owner}
		w.list(v.Body.List, pc, cx2)
		return false, pc
	case *ast.ReturnStmt:
		w.simple(v, nil, pc, cx)
		return true, pc
	case *ast.BranchStmt:
		if v.Tok == token.GOTO || v.Tok == token.FALLTHROUGH {
			w.unknown = true
		}
		w.simple(v, nil, pc, cx)
		return true, pc
	case *ast.ExprStmt:
		w.simple(v, nil, pc, cx)
		if ce, ok := v.X.(*ast.CallExpr); ok {
			if id, ok := ce.Fun.(*ast.Ident); ok && id.Name == "panic" && id.Obj == nil {
				return true, pc
			}
			if rtIsPkgSel(ce.Fun, "os", "Exit") {
				return true, pc
			}
		}
		return false, pc
	case nil:
		return false, pc
	default:
		w.simple(s, nil, pc, cx)
		return false, pc
	}
}

// rtWalkBody walks a function body (helpers inlined) and returns the walker.
func rtWalkBody(p *rtPkg, body *ast.BlockStmt, env *rtEnv) *rtWalk {
	w := rtNewWalk(p)
	if body != nil {
		w.list(body.List, nil, rtCx{env: env})
	}
	return w
}

// ---- waits

// rtWait: one blocking operation.  kind: select | recv | send | sleep | wgWait | lock | join.
// For a select: doneExit = what the `<-ctx.Done()` case does (none when there is no such case);
// others = the remaining cases (sorted): default | timeAfter:<role> | recv | send, with `:<effect>` appended when the
// case body does more than fall through.
type rtWait struct {
	kind     string
	doneExit string
	others   []string
	leaf     *rtLeaf
	sel      *ast.SelectStmt
}

// rtDurRole names the duration expression handed to time.After.
type rtDurRole func(e ast.Expr, env *rtEnv) string

// clauseEffect: what a select-case body does, logging ignored.
func (p *rtPkg) clauseEffect(body []ast.Stmt, loops []ast.Stmt) string {
	var rest []ast.Stmt
	for _, s := range body {
		if rtIsLogging(s) {
			continue
		}
		if _, ok := s.(*ast.EmptyStmt); ok {
			continue
		}
		rest = append(rest, s)
	}
	if len(rest) == 0 {
		return "fallsThrough"
	}
	if len(rest) > 1 {
		return "other"
	}
	switch v := rest[0].(type) {
	case *ast.ReturnStmt:
		if len(v.Results) == 0 {
			return "return"
		}
		if len(v.Results) == 1 {
			if id, ok := rtUnparen(v.Results[0]).(*ast.Ident); ok && id.Obj == nil {
				switch id.Name {
				case "false":
					return "returnFalse"
				case "true":
					return "returnTrue"
				}
			}
		}
		return "returnOther"
	case *ast.BranchStmt:
		switch v.Tok {
		case token.BREAK:
			if v.Label == nil {
				return "breakSelect"
			}
			if v.Label.Obj != nil {
				if ls, ok := v.Label.Obj.Decl.(*ast.LabeledStmt); ok && len(loops) > 0 && ls.Stmt == loops[0] {
					return "breakLoop"
				}
			}
			return "breakOther"
		case token.CONTINUE:
			return "continue"
		}
	}
	return "other"
}

func (p *rtPkg) waits(leaves []rtLeaf, role rtDurRole) []rtWait {
	var res []rtWait
	for i := range leaves {
		l := &leaves[i]
		if sel, ok := l.st.(*ast.SelectStmt); ok {
			wt := rtWait{kind: "select", doneExit: "none", leaf: l, sel: sel}
			for _, c := range sel.Body.List {
				cc := c.(*ast.CommClause)
				eff := p.clauseEffect(cc.Body, l.loops)
				if cc.Comm != nil && p.isDoneRecv(cc.Comm, l.env) {
					if wt.doneExit != "none" {
						wt.doneExit = "other"
					} else {
						wt.doneExit = eff
					}
					continue
				}
				tok := "other"
				switch {
				case cc.Comm == nil:
					tok = "default"
				case rtRecvChan(cc.Comm) != nil:
					tok = "recv"
					if args, aenv, ok := p.pkgCall(rtRecvChan(cc.Comm), l.env, "time", "After"); ok && len(args) == 1 {
						r := "other"
						if role != nil {
							r = role(args[0], aenv)
						}
						tok = "timeAfter:" + r
					}
				default:
					if _, ok := cc.Comm.(*ast.SendStmt); ok {
						tok = "send"
					}
				}
				if eff != "fallsThrough" {
					tok += ":" + eff
				}
				wt.others = append(wt.others, tok)
			}
			sort.Strings(wt.others)
			res = append(res, wt)
			continue
		}
		n := l.scope()
		if n == nil {
			continue
		}
		ast.Inspect(n, func(x ast.Node) bool {
			switch v := x.(type) {
			case *ast.FuncLit:
				return false
			case *ast.UnaryExpr:
				if v.Op == token.ARROW {
					res = append(res, rtWait{kind: "recv", doneExit: "none", leaf: l})
				}
			case *ast.SendStmt:
				res = append(res, rtWait{kind: "send", doneExit: "none", leaf: l})
			case *ast.CallExpr:
				switch {
				case rtIsPkgSel(v.Fun, "time", "Sleep"):
					res = append(res, rtWait{kind: "sleep", doneExit: "none", leaf: l})
				case rtCallName(v) == "Wait":
					res = append(res, rtWait{kind: "wgWait", doneExit: "none", leaf: l})
				case rtCallName(v) == "Lock" || rtCallName(v) == "RLock":
					res = append(res, rtWait{kind: "lock", doneExit: "none", leaf: l})
				case rtCallName(v) == "Join":
					res = append(res, rtWait{kind: "join", doneExit: "none", leaf: l})
				}
			}
			return true
		})
	}
	return res
}

func rtWaitList(ws []rtWait) string {
	p := []string{}
	for _, w := range ws {
		p = append(p, fmt.Sprintf("(%s, %s, %s)", leanStr(w.kind), leanStr(w.doneExit), strList(w.others)))
	}
	return "[" + strings.Join(p, ", ") + "]"
}

// rtNilCmp: cond compares the variable o with nil; returns (true, isNotEqual).
func (p *rtPkg) nilCmp(cond ast.Expr, env *rtEnv, o *ast.Object) (bool, bool) {
	b, ok := rtUnparen(cond).(*ast.BinaryExpr)
	if !ok || (b.Op != token.NEQ && b.Op != token.EQL) {
		return false, false
	}
	isNil := func(e ast.Expr) bool {
		id, ok := rtUnparen(e).(*ast.Ident)
		return ok && id.Name == "nil" && id.Obj == nil
	}
	isVar := func(e ast.Expr) bool {
		id, ok := rtUnparen(e).(*ast.Ident)
		return ok && id.Obj != nil && id.Obj == o
	}
	if (isVar(b.X) && isNil(b.Y)) || (isNil(b.X) && isVar(b.Y)) {
		return true, b.Op == token.NEQ
	}
	return false, false
}

// errHolds: the atom says "the error variable o is non-nil".
func (p *rtPkg) errHolds(a rtAtom, o *ast.Object) bool {
	if a.cond == nil {
		return false
	}
	ok, neq := p.nilCmp(a.cond, a.env, o)
	return ok && neq == a.pos
}

func (p *rtPkg) errAbsent(a rtAtom, o *ast.Object) bool {
	if a.cond == nil {
		return false
	}
	ok, neq := p.nilCmp(a.cond, a.env, o)
	return ok && neq != a.pos
}

// errEffect: how the error result of the call `ce` (found in leaf k of leaves) is handled:
// ignored | logOnly | leavesLoop | returns | other | unknown.  `okContinue`: a `continue` counts as nothing.
func (p *rtPkg) errEffect(leaves []rtLeaf, k int, ce *ast.CallExpr) string {
	l := leaves[k]
	var eo *ast.Object
	switch v := l.st.(type) {
	case *ast.ExprStmt:
		if rtUnparen(v.X) == ast.Expr(ce) {
			return "ignored"
		}
		return "unknown"
	case *ast.AssignStmt:
		if len(v.Rhs) != 1 || rtUnparen(v.Rhs[0]) != ast.Expr(ce) || len(v.Lhs) != 1 {
			return "unknown"
		}
		id, ok := v.Lhs[0].(*ast.Ident)
		if !ok {
			return "unknown"
		}
		if id.Name == "_" {
			return "ignored"
		}
		eo = id.Obj
	default:
		return "unknown"
	}
	if eo == nil {
		return "unknown"
	}
	tested := false
	res := "logOnly"
	worse := func(s string) {
		if res == "logOnly" || s == "other" {
			res = s
		}
	}
	for i := k + 1; i < len(leaves); i++ {
		m := leaves[i]
		in := false
		for _, a := range m.pc {
			if p.errHolds(a, eo) {
				in = true
			}
			if p.errHolds(a, eo) || p.errAbsent(a, eo) {
				tested = true
			}
		}
		if !in || m.st == nil {
			continue
		}
		switch v := m.st.(type) {
		case *ast.ReturnStmt:
			if m.owner == l.owner {
				worse("returns")
			} else {
				worse("other")
			}
		case *ast.BranchStmt:
			if v.Tok == token.CONTINUE && v.Label == nil {
				continue
			}
			worse("leavesLoop")
		case *ast.EmptyStmt:
		default:
			if !rtIsLogging(m.st) {
				worse("other")
			}
		}
	}
	if !tested {
		return "ignored"
	}
	return res
}

// rtLoopExits: statements inside the body of loop that leave it (return, break out of it, goto, continue of an
// outer loop); function literals are not entered.
func rtLoopExits(loop ast.Stmt, body *ast.BlockStmt) int {
	n := 0
	var visit func(x ast.Node, breakable bool)
	visit = func(x ast.Node, breakable bool) {
		ast.Inspect(x, func(y ast.Node) bool {
			if y == x {
				return true
			}
			switch v := y.(type) {
			case *ast.FuncLit:
				return false
			case *ast.ForStmt, *ast.RangeStmt, *ast.SwitchStmt, *ast.TypeSwitchStmt, *ast.SelectStmt:
				visit(v, true)
				return false
			case *ast.ReturnStmt:
				n++
			case *ast.BranchStmt:
				switch v.Tok {
				case token.GOTO:
					n++
				case token.BREAK, token.CONTINUE:
					if v.Label == nil {
						if v.Tok == token.BREAK && !breakable {
							n++
						}
						break
					}
					var target ast.Stmt
					if v.Label.Obj != nil {
						if ls, ok := v.Label.Obj.Decl.(*ast.LabeledStmt); ok {
							target = ls.Stmt
						}
					}
					inside := target != nil && target.Pos() >= body.Pos() && target.End() <= body.End()
					if target == loop && v.Tok == token.CONTINUE {
						break
					}
					if !inside {
						n++
					}
				}
			}
			return true
		})
	}
	visit(body, false)
	return n
}

// =====================================================================================================
// the retention scanner
// =====================================================================================================

type rtRet struct {
	found bool

	// DoScan
	cutoffShape          string
	cutoffAtScanLevel    bool
	cutoffIsConfigPeriod bool
	visitCalls           int
	visitErrPropagated   bool
	sweepLoop            string
	sweepLoopExits       int
	removeGuard          string
	removeCalls          int
	removeOnVisitedStore bool
	removeArgs           string
	removeErrEffect      string
	callbackReturns      []string
	doScanWaits          []rtWait
	flowRecognised       bool
	storeCalls           [][3]string // (method of the visited store, number of call sites, guard)
	// Start
	startWaits            []rtWait
	disableCond           string
	disableIsConfigPeriod bool
	disablePath           string
	startLoops            int
	loopInfinite          bool
	loopOrder             []string
	throttleGuard         string
	scanErrEffect         string
	startScanCalls        int
	afterLoop             string
	closesOfJoinChan      int
	// Join
	joinWaits []string
}

// rtCfgField: the unexported field of the scanner that is initialised from <config>.<exported>.
func (p *rtPkg) cfgField(exported string) string {
	name, n := "", 0
	for _, f := range p.files {
		ast.Inspect(f, func(x ast.Node) bool {
			switch v := x.(type) {
			case *ast.KeyValueExpr:
				if k, ok := v.Key.(*ast.Ident); ok {
					if se, ok := rtUnparen(v.Value).(*ast.SelectorExpr); ok && se.Sel.Name == exported {
						name = k.Name
						n++
					}
				}
			case *ast.AssignStmt:
				if len(v.Lhs) == 1 && len(v.Rhs) == 1 {
					if l, ok := v.Lhs[0].(*ast.SelectorExpr); ok {
						if se, ok := rtUnparen(v.Rhs[0]).(*ast.SelectorExpr); ok && se.Sel.Name == exported {
							name = l.Sel.Name
							n++
						}
					}
				}
			}
			return true
		})
	}
	if n != 1 {
		return ""
	}
	return name
}

func rtLit(e ast.Expr, val string) bool {
	l, ok := rtUnparen(e).(*ast.BasicLit)
	return ok && l.Kind == token.INT && l.Value == val
}

func rtNegOne(e ast.Expr) bool {
	if u, ok := rtUnparen(e).(*ast.UnaryExpr); ok && u.Op == token.SUB {
		return rtLit(u.X, "1")
	}
	return false
}

// cutoff: classify the expression handed to Before: time.Now().Add(<negated period field>).
func (p *rtPkg) cutoff(e ast.Expr, env *rtEnv) (shape, field string, now ast.Node) {
	x, args, renv, ok := p.methodCall(e, env, "Add")
	if !ok || len(args) != 1 {
		return "unknown", "", nil
	}
	nr, _ := p.resolve(x, renv)
	if nargs, _, ok := p.pkgCall(nr, renv, "time", "Now"); !ok || len(nargs) != 0 {
		return "unknown", "", nil
	}
	a, aenv := p.resolve(args[0], renv)
	if f := p.field(a, aenv); f != "" {
		return "nowPlusPeriod", f, nr
	}
	switch v := a.(type) {
	case *ast.UnaryExpr:
		if v.Op == token.SUB {
			if f := p.field(v.X, aenv); f != "" {
				return "nowMinusPeriod", f, nr
			}
		}
	case *ast.BinaryExpr:
		if v.Op == token.MUL {
			if rtNegOne(v.X) {
				if f := p.field(v.Y, aenv); f != "" {
					return "nowMinusPeriod", f, nr
				}
			}
			if rtNegOne(v.Y) {
				if f := p.field(v.X, aenv); f != "" {
					return "nowMinusPeriod", f, nr
				}
			}
		}
	}
	return "unknown", "", nr
}

// msgCall: e resolves to <loop message>.<name>() with no arguments.
func (p *rtPkg) msgCall(e ast.Expr, env *rtEnv, name string, msg *ast.Object) bool {
	x, args, renv, ok := p.methodCall(e, env, name)
	return ok && len(args) == 0 && msg != nil && p.obj(x, renv) == msg
}

func rtAnalyseRetention() *rtRet {
	r := &rtRet{cutoffShape: "unknown", sweepLoop: "unknown", removeGuard: "unknown", removeArgs: "unknown",
		removeErrEffect: "unknown", disableCond: "unknown", disablePath: "unknown", throttleGuard: "unknown",
		scanErrEffect: "unknown", afterLoop: "unknown", sweepLoopExits: 999}
	p := rtLoadPkg("pkg/storage")
	ds := p.method("RetentionScanner", "DoScan")
	st := p.method("RetentionScanner", "Start")
	jn := p.method("RetentionScanner", "Join")
	if ds == nil || st == nil || jn == nil {
		return r
	}
	r.found = true
	periodField := p.cfgField("RetentionPeriod")
	sleepField := p.cfgField("RetentionSleep")

	// ------------------------------------------------------------------ DoScan
	w := rtWalkBody(p, ds.Body, nil)
	var cbBody *ast.BlockStmt
	var cbParams *ast.FieldList
	var cbLit *ast.FuncLit
	var cbEnv *rtEnv
	storeField := ""
	visitLeaf := -1
	for i := range w.leaves {
		l := &w.leaves[i]
		for _, ce := range rtCalls(l.scope()) {
			if rtCallName(ce) != "VisitMailboxes" {
				continue
			}
			r.visitCalls++
			visitLeaf = i
			if se, ok := rtUnparen(ce.Fun).(*ast.SelectorExpr); ok {
				storeField = p.field(se.X, l.env)
			}
			if len(ce.Args) == 1 {
				a, aenv := p.resolve(ce.Args[0], l.env)
				if fl, ok := a.(*ast.FuncLit); ok {
					cbLit, cbBody, cbParams, cbEnv = fl, fl.Body, fl.Type.Params, aenv
				}
			}
		}
	}
	if r.visitCalls == 1 && visitLeaf >= 0 {
		l := w.leaves[visitLeaf]
		switch v := l.st.(type) {
		case *ast.ReturnStmt:
			r.visitErrPropagated = len(v.Results) == 1 && l.owner == 0
		case *ast.AssignStmt:
			if len(v.Lhs) == 1 {
				if id, ok := v.Lhs[0].(*ast.Ident); ok && id.Obj != nil {
					for _, m := range w.leaves[visitLeaf+1:] {
						rs, ok := m.st.(*ast.ReturnStmt)
						if !ok || m.owner != 0 || len(rs.Results) != 1 || rtIdentObj(rs.Results[0]) != id.Obj {
							continue
						}
						rel := m.pc[len(l.pc):]
						if len(rel) == 1 && p.errHolds(rel[0], id.Obj) {
							r.visitErrPropagated = true
						}
					}
				}
			}
		}
	}
	role := func(e ast.Expr, env *rtEnv) string {
		if f := p.field(e, env); f != "" {
			switch f {
			case sleepField:
				return "sleepField"
			case periodField:
				return "periodField"
			}
			return "otherField"
		}
		// time.Minute - time.Since(<kick-off stamp>)
		if b, ok := func() (*ast.BinaryExpr, bool) { x, _ := p.resolve(e, env); b, ok := x.(*ast.BinaryExpr); return b, ok }(); ok && b.Op == token.SUB {
			_, benv := p.resolve(e, env)
			if rtIsPkgSel(b.X, "time", "Minute") {
				if args, _, ok := p.pkgCall(b.Y, benv, "time", "Since"); ok && len(args) == 1 {
					return "minuteMinusSince"
				}
			}
		}
		return "other"
	}
	var cw *rtWalk
	if cbBody != nil && cbParams != nil && len(cbParams.List) == 1 && len(cbParams.List[0].Names) == 1 {
		snap := cbParams.List[0].Names[0].Obj
		cw = rtWalkBody(p, cbBody, cbEnv)
		// RemoveMessage calls: in the callback and (there should be none) in the rest of DoScan
		type rmSite struct {
			k  int
			ce *ast.CallExpr
		}
		var sites []rmSite
		for i := range cw.leaves {
			for _, ce := range rtCalls(cw.leaves[i].scope()) {
				if rtCallName(ce) == "RemoveMessage" {
					sites = append(sites, rmSite{i, ce})
				}
			}
		}
		r.removeCalls = len(sites)
		for i := range w.leaves {
			for _, ce := range rtCalls(w.leaves[i].scope()) {
				if rtCallName(ce) == "RemoveMessage" {
					r.removeCalls++
				}
			}
		}
		if len(sites) == 1 {
			k, ce := sites[0].k, sites[0].ce
			l := cw.leaves[k]
			if len(l.loops) == 1 {
				if rg, ok := l.loops[0].(*ast.RangeStmt); ok {
					// the leaf of the range statement itself gives its environment and path condition
					var rl *rtLeaf
					for i := range cw.leaves {
						if cw.leaves[i].st == ast.Stmt(rg) {
							rl = &cw.leaves[i]
						}
					}
					var msg *ast.Object
					if v, ok := rg.Value.(*ast.Ident); ok && v.Name != "_" {
						msg = v.Obj
					}
					if rl != nil && msg != nil && snap != nil && p.obj(rg.X, rl.env) == snap && len(rl.pc) == 0 {
						r.sweepLoop = "rangeOverSnapshot"
					}
					r.sweepLoopExits = rtLoopExits(rg, rg.Body)
					// guard
					if rl != nil && msg != nil && len(l.pc) == len(rl.pc)+1 {
						a := l.pc[len(l.pc)-1]
						if a.cond != nil {
							for _, m := range []string{"Before", "After"} {
								x, args, xenv, ok := p.methodCall(a.cond, a.env, m)
								if !ok || len(args) != 1 {
									continue
								}
								var cut ast.Expr
								var cenv *rtEnv
								dateFirst := false
								if p.msgCall(x, xenv, "Date", msg) {
									cut, cenv, dateFirst = args[0], xenv, true
								} else if p.msgCall(args[0], xenv, "Date", msg) {
									cut, cenv = x, xenv
								} else {
									continue
								}
								before := (m == "Before") == dateFirst // date < cutoff
								switch {
								case before && a.pos:
									r.removeGuard = "dateBeforeCutoff"
								case before && !a.pos:
									r.removeGuard = "dateNotBeforeCutoff"
								case !before && a.pos:
									r.removeGuard = "dateAfterCutoff"
								default:
									r.removeGuard = "dateNotAfterCutoff"
								}
								shape, f, now := p.cutoff(cut, cenv)
								r.cutoffShape = shape
								r.cutoffIsConfigPeriod = f != "" && f == periodField
								if now != nil {
									in := func(n ast.Node) bool { return now.Pos() >= n.Pos() && now.End() <= n.End() }
									r.cutoffAtScanLevel = !in(cbLit)
									for fd := range cw.inlined {
										if !w.inlined[fd] && in(fd) {
											r.cutoffAtScanLevel = false
										}
									}
								}
							}
						}
					}
					// target
					if se, ok := rtUnparen(ce.Fun).(*ast.SelectorExpr); ok {
						f := p.field(se.X, l.env)
						r.removeOnVisitedStore = f != "" && f == storeField
					}
					if len(ce.Args) == 2 && p.msgCall(ce.Args[0], l.env, "Mailbox", msg) && p.msgCall(ce.Args[1], l.env, "ID", msg) {
						r.removeArgs = "mailboxAndIdOfLoopMessage"
					}
					r.removeErrEffect = p.errEffect(cw.leaves, k, ce)
				}
			}
		}
		// returns of the callback
		set := map[string]bool{}
		for _, l := range cw.leaves {
			rs, ok := l.st.(*ast.ReturnStmt)
			if !ok || l.owner != 0 {
				continue
			}
			val := "other"
			if len(rs.Results) == 1 {
				if id, ok := rtUnparen(rs.Results[0]).(*ast.Ident); ok && id.Obj == nil && (id.Name == "true" || id.Name == "false") {
					val = id.Name
				}
			}
			where := "conditional"
			switch {
			case len(l.pc) == 0:
				where = "plain"
			case len(l.pc) == 1 && l.pc[0].comm != nil:
				switch {
				case l.pc[0].comm.Comm == nil:
					where = "defaultCase"
				case p.isDoneRecv(l.pc[0].comm.Comm, l.pc[0].env):
					where = "ctxDoneCase"
				default:
					where = "otherCase"
				}
			}
			set[val+"@"+where] = true
		}
		for s := range set {
			r.callbackReturns = append(r.callbackReturns, s)
		}
		sort.Strings(r.callbackReturns)
	}
	r.doScanWaits = p.waits(w.leaves, role)
	if cw != nil {
		r.doScanWaits = append(r.doScanWaits, p.waits(cw.leaves, role)...)
	}
	r.flowRecognised = !w.unknown && cw != nil && !cw.unknown
	r.storeCalls = p.storeCalls(r, storeField, w, cw)

	// ------------------------------------------------------------------ Join
	jw := rtWalkBody(p, jn.Body, nil)
	joinField := ""
	for _, wt := range p.waits(jw.leaves, nil) {
		tok := wt.kind
		if wt.kind == "recv" {
			if ch := rtRecvChan(wt.leaf.st); ch != nil {
				if f := p.field(ch, wt.leaf.env); f != "" {
					joinField = f
					tok = "recvField"
				}
			}
		}
		r.joinWaits = append(r.joinWaits, tok)
	}
	if jw.unknown {
		r.joinWaits = append(r.joinWaits, "unknownFlow")
	}

	// ------------------------------------------------------------------ Start
	sw := rtWalkBody(p, st.Body, nil)
	if sw.unknown {
		r.flowRecognised = false
	}
	r.startWaits = p.waits(sw.leaves, role)
	isCloseJoin := func(s ast.Stmt, env *rtEnv) bool {
		es, ok := s.(*ast.ExprStmt)
		if !ok {
			return false
		}
		ce, ok := es.X.(*ast.CallExpr)
		if !ok || len(ce.Args) != 1 {
			return false
		}
		id, ok := ce.Fun.(*ast.Ident)
		if !ok || id.Name != "close" || id.Obj != nil {
			return false
		}
		f := p.field(ce.Args[0], env)
		return f != "" && f == joinField
	}
	ast.Inspect(st.Body, func(x ast.Node) bool {
		if ce, ok := x.(*ast.CallExpr); ok && len(ce.Args) == 1 {
			if id, ok := ce.Fun.(*ast.Ident); ok && id.Name == "close" && id.Obj == nil {
				if se, ok := rtUnparen(ce.Args[0]).(*ast.SelectorExpr); ok && joinField != "" && se.Sel.Name == joinField {
					r.closesOfJoinChan++
				}
			}
		}
		return true
	})
	var loop *ast.ForStmt
	loopLeaf := -1
	for i, l := range sw.leaves {
		switch v := l.st.(type) {
		case *ast.ForStmt:
			r.startLoops++
			if loop == nil {
				loop, loopLeaf = v, i
			}
		case *ast.RangeStmt:
			r.startLoops++
		}
		for _, ce := range rtCalls(l.scope()) {
			if rtCallName(ce) == "DoScan" {
				r.startScanCalls++
			}
		}
	}
	// the disabling test: leaves before the loop reached under exactly one condition on a field compared with 0
	// cmpZero: relation of <field> to 0 that holds under the atom
	cmpZero := func(a rtAtom) (string, string) {
		if a.cond == nil {
			return "", ""
		}
		b, ok := rtUnparen(a.cond).(*ast.BinaryExpr)
		if !ok {
			return "", ""
		}
		op := b.Op
		var fe ast.Expr
		switch {
		case rtLit(b.Y, "0"):
			fe = b.X
		case rtLit(b.X, "0"):
			fe = b.Y
			switch op {
			case token.LSS:
				op = token.GTR
			case token.GTR:
				op = token.LSS
			case token.LEQ:
				op = token.GEQ
			case token.GEQ:
				op = token.LEQ
			}
		default:
			return "", ""
		}
		f := p.field(fe, a.env)
		if f == "" {
			return "", ""
		}
		if !a.pos {
			switch op {
			case token.LSS:
				op = token.GEQ
			case token.GTR:
				op = token.LEQ
			case token.LEQ:
				op = token.GTR
			case token.GEQ:
				op = token.LSS
			case token.EQL:
				op = token.NEQ
			case token.NEQ:
				op = token.EQL
			}
		}
		switch op {
		case token.LEQ:
			return "leZero", f
		case token.LSS:
			return "ltZero", f
		case token.EQL:
			return "eqZero", f
		case token.GTR:
			return "gtZero", f
		case token.GEQ:
			return "geZero", f
		case token.NEQ:
			return "neZero", f
		}
		return "", ""
	}
	if loopLeaf >= 0 {
		var seq []string
		lastDisabled := -1
		for i, l := range sw.leaves {
			if len(l.pc) != 1 || l.st == nil || l.owner != 0 || len(l.loops) != 0 {
				continue
			}
			rel, f := cmpZero(l.pc[0])
			if rel != "leZero" && rel != "ltZero" && rel != "eqZero" {
				continue
			}
			r.disableCond = rel
			r.disableIsConfigPeriod = f != "" && f == periodField
			lastDisabled = i
			switch {
			case rtIsLogging(l.st):
			case isCloseJoin(l.st, l.env):
				seq = append(seq, "close")
			default:
				if rs, ok := l.st.(*ast.ReturnStmt); ok && len(rs.Results) == 0 {
					seq = append(seq, "return")
				} else {
					seq = append(seq, "other")
				}
			}
		}
		switch strings.Join(seq, ",") {
		case "close,return":
			r.disablePath = "closeJoinChanThenReturn"
		case "close":
			// the disabled branch written last: the function ends right after the close
			if lastDisabled == len(sw.leaves)-1 {
				r.disablePath = "closeJoinChanThenReturn"
			}
		case "return":
			r.disablePath = "returnWithoutClose"
		}
		// after the loop: only logging and one close of the Join channel
		var after []string
		for _, l := range sw.leaves[loopLeaf+1:] {
			if l.st == nil || l.st.Pos() < loop.End() {
				continue
			}
			if !rtSamePc(l.pc, sw.leaves[loopLeaf].pc) {
				continue // another branch (the disabled path written after the loop)
			}
			switch {
			case rtIsLogging(l.st):
			case isCloseJoin(l.st, l.env):
				after = append(after, "close")
			default:
				if rs, ok := l.st.(*ast.ReturnStmt); ok && len(rs.Results) == 0 {
					after = append(after, "return")
				} else {
					after = append(after, "other")
				}
			}
		}
		if a := strings.Join(after, ","); a == "close" || a == "close,return" {
			r.afterLoop = "closeJoinChan"
		}
		r.loopInfinite = loop.Cond == nil
		// the loop body
		base := len(sw.leaves[loopLeaf].pc)
		var stamp *ast.Object
		var scanErr *ast.Object
		scanLeaf := -1
		var scanCall *ast.CallExpr
		for i := loopLeaf + 1; i < len(sw.leaves); i++ {
			l := sw.leaves[i]
			if len(l.loops) == 0 || l.loops[0] != ast.Stmt(loop) {
				continue
			}
			rel := l.pc[base:]
			if l.st == nil {
				continue // head of an if / switch
			}
			inSelectCase := false
			for _, a := range rel {
				if a.comm != nil {
					inSelectCase = true
				}
			}
			if inSelectCase {
				continue // accounted for by startWaits
			}
			if scanErr != nil {
				under := false
				for _, a := range rel {
					if p.errHolds(a, scanErr) {
						under = true
					}
				}
				if under {
					continue // accounted for by scanErrEffect
				}
			}
			tok := "other"
			switch v := l.st.(type) {
			case *ast.SelectStmt:
				hasDefault := false
				for _, c := range v.Body.List {
					if c.(*ast.CommClause).Comm == nil {
						hasDefault = true
					}
				}
				switch {
				case len(rel) == 0 && hasDefault:
					tok = "poll"
				case len(rel) == 0:
					tok = "wait"
				case len(rel) == 1 && rel[0].cond != nil:
					tok = "throttleWait"
					// since < time.Minute, since = time.Since(stamp)
					if b, ok := rtUnparen(rel[0].cond).(*ast.BinaryExpr); ok && rel[0].pos {
						x, y, op := b.X, b.Y, b.Op
						if rtIsPkgSel(x, "time", "Minute") {
							x, y = y, x
							if op == token.GTR {
								op = token.LSS
							} else {
								op = token.ILLEGAL
							}
						}
						if op == token.LSS && rtIsPkgSel(y, "time", "Minute") {
							if args, aenv, ok := p.pkgCall(x, rel[0].env, "time", "Since"); ok && len(args) == 1 {
								if o := p.obj(args[0], aenv); o != nil {
									stamp = o
									r.throttleGuard = "sinceStampLtMinute"
								}
							}
						}
					}
				default:
					tok = "conditionalWait"
				}
			case *ast.AssignStmt:
				switch {
				case len(v.Lhs) == 1 && len(v.Rhs) == 1 && len(rel) == 0 && func() bool {
					args, _, ok := p.pkgCall(v.Rhs[0], l.env, "time", "Since")
					return ok && len(args) == 1 && v.Tok == token.DEFINE
				}():
					tok = "since"
				case len(v.Lhs) == 1 && len(v.Rhs) == 1 && len(rel) == 0 && v.Tok == token.ASSIGN && func() bool {
					args, _, ok := p.pkgCall(v.Rhs[0], l.env, "time", "Now")
					id, isID := v.Lhs[0].(*ast.Ident)
					return ok && len(args) == 0 && isID && id.Obj != nil && (stamp == nil || id.Obj == stamp)
				}():
					tok = "stamp"
					if stamp == nil {
						tok = "stampBeforeThrottle"
					}
				case v.Tok == token.DEFINE && len(rtCalls(v)) == 0:
					continue // a pure local definition
				}
			}
			for _, ce := range rtCalls(l.scope()) {
				if rtCallName(ce) == "DoScan" && len(rel) == 0 && len(ce.Args) == 1 && p.isCtx(ce.Args[0], l.env) {
					tok = "scan"
					scanLeaf, scanCall = i, ce
					if as, ok := l.st.(*ast.AssignStmt); ok && len(as.Lhs) == 1 {
						if id, ok := as.Lhs[0].(*ast.Ident); ok {
							scanErr = id.Obj
						}
					}
				}
			}
			if tok == "other" && rtIsLogging(l.st) {
				continue
			}
			r.loopOrder = append(r.loopOrder, tok)
		}
		if scanLeaf >= 0 {
			r.scanErrEffect = p.errEffect(sw.leaves, scanLeaf, scanCall)
		}
		// the stamp must start as time.Now() before the loop
		if stamp != nil {
			ok := false
			if as, isAs := stamp.Decl.(*ast.AssignStmt); isAs && as.Pos() < loop.Pos() {
				for k, lh := range as.Lhs {
					if id, isID := lh.(*ast.Ident); isID && id.Obj == stamp && len(as.Lhs) == len(as.Rhs) {
						if args, _, isNow := p.pkgCall(as.Rhs[k], nil, "time", "Now"); isNow && len(args) == 0 {
							ok = true
						}
					}
				}
			}
			if !ok || p.assigns[stamp] != 2 {
				r.throttleGuard = "unknown"
			}
		}
	}
	return r
}

// storeCalls: EVERY method of the visited store (the scanner field VisitMailboxes is called on, aliases and unexported helpers
// followed) that DoScan and its visitor callback call, as (method, number of call sites, guard), sorted by method.  guard:
//   once        reached unconditionally, outside every loop (VisitMailboxes)
//   removeGuard the site the facts sweepLoop / removeGuard / removeArgs describe: inside the range loop over the snapshot, under
//               exactly the date comparison
//   always | conditional, with ":loop" when inside a loop — any other site
// A use of the store field that is not the receiver of a method call (handed to a function that is not followed, stored, compared)
// appears as ("<escapes>", n, "-"): then the list cannot be trusted to be complete.
func (p *rtPkg) storeCalls(r *rtRet, storeField string, walks ...*rtWalk) [][3]string {
	if storeField == "" {
		return [][3]string{{"<unknown store field>", "0", "-"}}
	}
	count := map[string]int{}
	guard := map[string]string{}
	escapes := 0
	for wi, w := range walks {
		if w == nil {
			continue
		}
		for i := range w.leaves {
			l := &w.leaves[i]
			sc := l.scope()
			if sc == nil || isNilNode(sc) {
				continue
			}
			recv := map[ast.Expr]bool{}   // occurrences of the store that are receivers of a method call
			followed := map[ast.Expr]bool{} // … or arguments / receivers of a helper the walker follows
			for _, ce := range rtCalls(sc) {
				if fd, _ := p.helper(ce); fd != nil {
					for _, a := range ce.Args {
						followed[rtUnparen(a)] = true
					}
					if se, ok := rtUnparen(ce.Fun).(*ast.SelectorExpr); ok {
						followed[rtUnparen(se.X)] = true
					}
					continue
				}
				se, ok := rtUnparen(ce.Fun).(*ast.SelectorExpr)
				if !ok || p.field(se.X, l.env) != storeField {
					continue
				}
				recv[rtUnparen(se.X)] = true
				name := se.Sel.Name
				count[name]++
				g := "always"
				if len(l.pc) > 0 {
					g = "conditional"
				}
				if len(l.loops) > 0 {
					g += ":loop"
				}
				switch {
				case name == "VisitMailboxes" && len(l.pc) == 0 && len(l.loops) == 0:
					g = "once"
				case name == "RemoveMessage" && wi == 1 && r.removeCalls == 1 && r.sweepLoop == "rangeOverSnapshot" && r.removeGuard != "unknown" && r.removeOnVisitedStore:
					g = "removeGuard"
				}
				if old, ok := guard[name]; ok && old != g {
					g = "mixed"
				}
				guard[name] = g
			}
			// any other use of the store field in this leaf
			ast.Inspect(sc, func(x ast.Node) bool {
				if _, ok := x.(*ast.FuncLit); ok {
					return false
				}
				e, ok := x.(ast.Expr)
				if !ok {
					return true
				}
				if _, isSel := e.(*ast.SelectorExpr); !isSel {
					if _, isId := e.(*ast.Ident); !isId {
						return true
					}
				}
				if p.field(e, l.env) == storeField {
					if !recv[e] && !followed[e] {
						// the definition of a local alias (`ds := rs.ds`) is followed by resolve: not an escape
						if as, ok := l.st.(*ast.AssignStmt); ok && len(as.Rhs) == 1 && rtUnparen(as.Rhs[0]) == e {
							return false
						}
						escapes++
					}
					return false
				}
				return true
			})
		}
	}
	var res [][3]string
	for n, c := range count {
		res = append(res, [3]string{n, fmt.Sprint(c), guard[n]})
	}
	if escapes > 0 {
		res = append(res, [3]string{"<escapes>", fmt.Sprint(escapes), "-"})
	}
	sort.Slice(res, func(i, j int) bool { return res[i][0] < res[j][0] })
	return res
}

func rtBool(b bool) string {
	if b {
		return "true"
	}
	return "false"
}

func extractRetention() {
	g := gen("Retention")
	r := rtAnalyseRetention()
	wl := "List (String × String × List String)"
	g.def("flowRecognised", "Bool", rtBool(r.found && r.flowRecognised), "DoScan, its visitor callback, Start and Join were found and contain no goto / fallthrough / type switch (the path conditions below are then exact)")
	g.def("cutoffShape", "String", leanStr(r.cutoffShape), "the value the removal guard compares dates with, followed through locals / helper parameters: nowMinusPeriod = time.Now().Add(e) with e one of -1*f, f*-1, -f for a scanner field f; nowPlusPeriod = Add(f); unknown")
	g.def("cutoffAtScanLevel", "Bool", rtBool(r.cutoffAtScanLevel), "that time.Now() is evaluated once per DoScan, outside the visitor callback")
	g.def("cutoffIsConfigPeriod", "Bool", rtBool(r.cutoffIsConfigPeriod), "the field f of the cutoff is the field the constructor initialises from <config>.RetentionPeriod")
	g.def("visitCalls", "Nat", fmt.Sprint(r.visitCalls), "calls of VisitMailboxes in DoScan (unexported helpers followed)")
	g.def("visitErrPropagated", "Bool", rtBool(r.visitErrPropagated), "DoScan returns the error VisitMailboxes returned, under exactly the condition `that error != nil` (or returns the call itself)")
	g.def("sweepLoop", "String", leanStr(r.sweepLoop), "rangeOverSnapshot: the unique RemoveMessage call sits in exactly one loop, a `range` with a value variable over the callback's own parameter, reached unconditionally")
	g.def("sweepLoopExits", "Nat", fmt.Sprint(r.sweepLoopExits), "statements in the body of that loop that leave it (return, break out of it, goto, continue of an outer loop)")
	g.def("removeGuard", "String", leanStr(r.removeGuard), "the whole path condition of the RemoveMessage call inside the loop body, if it is one Before/After comparison of <loop message>.Date() with the cutoff: dateBeforeCutoff (d.Before(c) or c.After(d)) | dateNotAfterCutoff | dateAfterCutoff | dateNotBeforeCutoff | unknown")
	g.def("removeCalls", "Nat", fmt.Sprint(r.removeCalls), "RemoveMessage calls in DoScan and its callback (unexported helpers followed)")
	{
		var l []string
		for _, c := range r.storeCalls {
			l = append(l, "("+leanStr(c[0])+", "+c[1]+", "+leanStr(c[2])+")")
		}
		g.def("storeCalls", "List (String × Nat × String)", "["+strings.Join(l, ", ")+"]",
			"EVERY method of the visited store (the scanner field VisitMailboxes is called on; local aliases and unexported helpers followed) that DoScan and its visitor callback call, as (method, number of call sites, guard), sorted by method; guard: once = reached unconditionally outside every loop | removeGuard = the site described by sweepLoop / removeGuard / removeArgs (inside the range loop over the snapshot, under exactly the date comparison) | always | conditional (\":loop\" appended inside a loop) | mixed; a use of the store that is not the receiver of a method call appears as (\"<escapes>\", n, \"-\")")
	}
	g.def("removeOnVisitedStore", "Bool", rtBool(r.removeOnVisitedStore), "RemoveMessage is called on the same scanner field VisitMailboxes is called on")
	g.def("removeArgs", "String", leanStr(r.removeArgs), "mailboxAndIdOfLoopMessage: the arguments are (<loop message>.Mailbox(), <loop message>.ID())")
	g.def("removeErrEffect", "String", leanStr(r.removeErrEffect), "what is reachable under `RemoveMessage's error != nil`: logOnly (logging chains, plain continue) | ignored | leavesLoop | returns | other | unknown")
	g.def("callbackReturns", "List String", strList(r.callbackReturns), "the set of return statements of the callback as value@where, where = plain (unconditional) | ctxDoneCase (directly in a select case receiving from <context.Context parameter>.Done()) | otherCase | defaultCase | conditional")
	g.def("doScanWaits", wl, rtWaitList(r.doScanWaits), "every blocking operation of DoScan and its callback: (kind, what the ctx.Done() case does, the other cases); kind = select | recv | send | sleep | wgWait | lock | join; sleepField = the field initialised from <config>.RetentionSleep")
	g.def("startWaits", wl, rtWaitList(r.startWaits), "every blocking operation of Start, in order; breakLoop = a break labelled with Start's outermost loop; minuteMinusSince = time.Minute - time.Since(x)")
	g.def("disableCond", "String", leanStr(r.disableCond), "the relation to literal 0 under which Start leaves before its loop: leZero | ltZero | eqZero | unknown")
	g.def("disableIsConfigPeriod", "Bool", rtBool(r.disableIsConfigPeriod), "the field of that test is the field initialised from <config>.RetentionPeriod")
	g.def("disablePath", "String", leanStr(r.disablePath), "what Start does under that condition, logging ignored: closeJoinChanThenReturn (close of the channel field Join receives from, then return) | returnWithoutClose | unknown")
	g.def("startLoops", "Nat", fmt.Sprint(r.startLoops), "loops in Start")
	g.def("loopInfinite", "Bool", rtBool(r.loopInfinite), "Start's loop has no condition")
	g.def("loopOrder", "List String", strList(r.loopOrder), "the unconditional steps of one turn of Start's loop in order (logging, pure local definitions, select-case bodies and the scan's error branch left out): since = x := time.Since(..) | throttleWait = a select under one condition | stamp = <stamp> = time.Now() | scan = DoScan(<ctx parameter>) | poll = unconditional select with default | wait | other")
	g.def("throttleGuard", "String", leanStr(r.throttleGuard), "sinceStampLtMinute: the throttle select is entered iff time.Since(<stamp>) < time.Minute, <stamp> being a local set to time.Now() before the loop and re-set only by the `stamp` step")
	g.def("scanErrEffect", "String", leanStr(r.scanErrEffect), "what Start does with DoScan's error: logOnly | ignored | leavesLoop | returns | other | unknown")
	g.def("startScanCalls", "Nat", fmt.Sprint(r.startScanCalls), "DoScan calls in Start")
	g.def("afterLoop", "String", leanStr(r.afterLoop), "closeJoinChan: after the loop Start only logs and closes the channel field Join receives from")
	g.def("closesOfJoinChan", "Nat", fmt.Sprint(r.closesOfJoinChan), "close(<that field>) calls in Start, deferred ones included")
	g.def("joinWaits", "List String", strList(r.joinWaits), "blocking operations of Join: recvField = a receive from a scanner field (the Join channel)")
}

// clauseEffectLast: like clauseEffect, for a case body that may do other things first: the effect of its last
// non-logging statement.
func (p *rtPkg) clauseEffectLast(body []ast.Stmt, loops []ast.Stmt) string {
	for i := len(body) - 1; i >= 0; i-- {
		if rtIsLogging(body[i]) {
			continue
		}
		return p.clauseEffect(body[i:i+1], loops)
	}
	return "fallsThrough"
}

// rtSamePc: the same path condition (same condition nodes with the same polarity, same select cases).
func rtSamePc(a, b []rtAtom) bool {
	if len(a) != len(b) {
		return false
	}
	for i := range a {
		if a[i].cond != b[i].cond || a[i].pos != b[i].pos || a[i].comm != b[i].comm || a[i].opaque != b[i].opaque {
			return false
		}
	}
	return true
}
