package main

// T1 facts for C12 (pkg/storage/retention.go): the shape of DoScan and Start that the Lean model
// (Ibx/Model/Retention.lean) assumes.  Anything not recognised is emitted as `none` / an unexpected list,
// which the tie theorems of Ibx/Tie/Retention.lean do not accept.

import (
	"fmt"
	"go/ast"
	"go/token"
	"strings"
)

func init() { extractors = append(extractors, extractRetention) }

func oneLine(s string) string { return strings.Join(strings.Fields(s), " ") }

func containsCall(n ast.Node, name string) bool {
	found := false
	ast.Inspect(n, func(x ast.Node) bool {
		if ce, ok := x.(*ast.CallExpr); ok && strings.HasSuffix(src(ce.Fun), name) {
			found = true
		}
		return true
	})
	return found
}

type selInfo struct {
	hasDone  bool
	doneBody string
	other    string // "default" or the source of the other comm clause
}

func selects(n ast.Node) []selInfo {
	var res []selInfo
	ast.Inspect(n, func(x ast.Node) bool {
		ss, ok := x.(*ast.SelectStmt)
		if !ok {
			return true
		}
		si := selInfo{}
		others := []string{}
		for _, cl := range ss.Body.List {
			cc := cl.(*ast.CommClause)
			if cc.Comm == nil {
				others = append(others, "default")
				continue
			}
			c := oneLine(src(cc.Comm))
			if c == "<-ctx.Done()" {
				si.hasDone = true
				// statements of the body, ignoring logging calls
				b := []string{}
				for _, st := range cc.Body {
					s := oneLine(src(st))
					if strings.HasPrefix(s, "slog.") {
						continue
					}
					b = append(b, s)
				}
				si.doneBody = strings.Join(b, "; ")
			} else {
				others = append(others, c)
			}
		}
		si.other = strings.Join(others, "|")
		res = append(res, si)
		return true
	})
	return res
}

// blocking operations outside a select: time.Sleep, a bare receive, a send, range over a channel-ish call, wg.Wait
func bareBlocking(n ast.Node) []string {
	var res []string
	var walk func(x ast.Node, inComm bool)
	walk = func(x ast.Node, inComm bool) {
		if x == nil {
			return
		}
		ast.Inspect(x, func(y ast.Node) bool {
			switch v := y.(type) {
			case *ast.CommClause:
				// the comm itself is a guarded wait; the body is ordinary code
				for _, st := range v.Body {
					walk(st, false)
				}
				return false
			case *ast.UnaryExpr:
				if v.Op == token.ARROW {
					res = append(res, oneLine(src(v)))
				}
			case *ast.SendStmt:
				res = append(res, oneLine(src(v)))
			case *ast.CallExpr:
				f := src(v.Fun)
				if f == "time.Sleep" || strings.HasSuffix(f, ".Wait") || strings.HasSuffix(f, ".Lock") {
					res = append(res, oneLine(src(v)))
				}
			}
			return true
		})
	}
	walk(n, false)
	return res
}

func optS(s string, ok bool) string {
	if !ok {
		return "none"
	}
	return "some " + leanStr(s)
}

func selList(l []selInfo) string {
	p := []string{}
	for _, s := range l {
		b := "false"
		if s.hasDone {
			b = "true"
		}
		p = append(p, fmt.Sprintf("(%s, %s, %s)", b, leanStr(s.doneBody), leanStr(s.other)))
	}
	return "[" + strings.Join(p, ", ") + "]"
}

func extractRetention() {
	g := gen("Retention")
	f := parse("pkg/storage/retention.go")
	ds := fn(f, "RetentionScanner", "DoScan")
	st := fn(f, "RetentionScanner", "Start")

	// ---- DoScan
	cutoff, cutoffOK := "", false
	var visitLit *ast.FuncLit
	visitAssign := ""
	errCheck, errCheckOK := "", false
	if ds != nil {
		for i, s := range ds.Body.List {
			as, ok := s.(*ast.AssignStmt)
			if !ok || len(as.Lhs) != 1 || len(as.Rhs) != 1 {
				continue
			}
			if src(as.Lhs[0]) == "cutoff" {
				cutoff, cutoffOK = oneLine(src(as.Rhs[0])), true
			}
			if ce, ok := as.Rhs[0].(*ast.CallExpr); ok && strings.HasSuffix(src(ce.Fun), ".VisitMailboxes") && len(ce.Args) == 1 {
				visitAssign = oneLine(src(as.Lhs[0])) + " := " + src(ce.Fun)
				if fl, ok := ce.Args[0].(*ast.FuncLit); ok {
					visitLit = fl
				}
				if i+1 < len(ds.Body.List) {
					if is, ok := ds.Body.List[i+1].(*ast.IfStmt); ok && is.Init == nil && is.Else == nil && len(is.Body.List) == 1 {
						errCheck, errCheckOK = "if "+oneLine(src(is.Cond))+" { "+oneLine(src(is.Body.List[0]))+" }", true
					}
				}
			}
		}
	}
	g.def("cutoffExpr", "Option String", optS(cutoff, cutoffOK), "right-hand side of `cutoff :=` in DoScan")
	g.def("visitCall", "String", leanStr(visitAssign), "how DoScan calls VisitMailboxes")
	g.def("visitErrCheck", "Option String", optS(errCheck, errCheckOK), "the statement right after the VisitMailboxes call")

	// inside the callback
	rangeOver, rangeOK := "", false
	guard, guardOK := "", false
	rmArgs, rmOK := "", false
	rmErrBody := ""
	elseHasRemove := false
	var rets []string
	nRemove := 0
	if visitLit != nil {
		for _, s := range visitLit.Body.List {
			if rs, ok := s.(*ast.RangeStmt); ok {
				rangeOver, rangeOK = oneLine("for "+src(rs.Key)+", "+src(rs.Value)+" := range "+src(rs.X)), true
				// the guarded removal
				for _, bs := range rs.Body.List {
					is, ok := bs.(*ast.IfStmt)
					if !ok {
						continue
					}
					if containsCall(is.Body, ".RemoveMessage") {
						guard, guardOK = oneLine(src(is.Cond)), true
					}
					if is.Else != nil && containsCall(is.Else, ".RemoveMessage") {
						elseHasRemove = true
					}
				}
			}
		}
		ast.Inspect(visitLit, func(x ast.Node) bool {
			if ce, ok := x.(*ast.CallExpr); ok && strings.HasSuffix(src(ce.Fun), ".RemoveMessage") {
				nRemove++
				a := []string{}
				for _, e := range ce.Args {
					a = append(a, oneLine(src(e)))
				}
				rmArgs, rmOK = src(ce.Fun)+"("+strings.Join(a, ", ")+")", true
			}
			if is, ok := x.(*ast.IfStmt); ok && is.Init != nil && containsCall(is.Init, ".RemoveMessage") {
				// what happens when RemoveMessage fails: statements of the `err != nil` branch that are not logging
				b := []string{}
				for _, st := range is.Body.List {
					s := oneLine(src(st))
					if strings.HasPrefix(s, "slog.") {
						continue
					}
					b = append(b, s)
				}
				rmErrBody = oneLine(src(is.Cond)) + " => [" + strings.Join(b, "; ") + "]"
			}
			return true
		})
		// every return of the callback, with the select case it sits in (if any)
		var walk func(n ast.Node, ctxName string)
		walk = func(n ast.Node, ctxName string) {
			ast.Inspect(n, func(x ast.Node) bool {
				switch v := x.(type) {
				case *ast.CommClause:
					name := "default"
					if v.Comm != nil {
						name = oneLine(src(v.Comm))
					}
					for _, st := range v.Body {
						walk(st, name)
					}
					return false
				case *ast.ReturnStmt:
					r := []string{}
					for _, e := range v.Results {
						r = append(r, oneLine(src(e)))
					}
					rets = append(rets, strings.Join(r, ",")+"@"+ctxName)
				case *ast.FuncLit:
					if v != visitLit {
						return false
					}
				}
				return true
			})
		}
		walk(visitLit.Body, "-")
	}
	g.def("rangeLoop", "Option String", optS(rangeOver, rangeOK), "the loop of the callback over its argument")
	g.def("removeGuard", "Option String", optS(guard, guardOK), "condition of the `if` whose then-branch calls RemoveMessage")
	g.def("removeCall", "Option String", optS(rmArgs, rmOK), "the RemoveMessage call of the callback")
	g.def("removeCalls", "Nat", fmt.Sprint(nRemove), "number of RemoveMessage calls in the callback")
	g.def("removeInElse", "Bool", fmt.Sprint(elseHasRemove), "a RemoveMessage call in the else branch (messages not before the cutoff)")
	g.def("removeErrBranch", "String", leanStr(rmErrBody), "non-logging statements executed when RemoveMessage returns an error")
	g.def("callbackReturns", "List String", strList(rets), "every return statement of the callback as value@select-case")

	var dsSel, stSel []selInfo
	var dsBare, stBare []string
	if ds != nil {
		dsSel = selects(ds.Body)
		dsBare = bareBlocking(ds.Body)
	}
	if st != nil {
		stSel = selects(st.Body)
		stBare = bareBlocking(st.Body)
	}
	g.def("doScanSelects", "List (Bool × String × String)", selList(dsSel), "every select of DoScan: (has a ctx.Done case, body of that case without logging, the other cases)")
	g.def("doScanBareBlocking", "List String", strList(dsBare), "blocking operations of DoScan outside a select (receive, send, Sleep, Wait, Lock)")
	g.def("startSelects", "List (Bool × String × String)", selList(stSel), "every select of Start")
	g.def("startBareBlocking", "List String", strList(stBare), "blocking operations of Start outside a select")

	// ---- Start: the disabling test
	disCond, disOK := "", false
	disBody := ""
	loopStmts := []string{}
	throttle := ""
	if st != nil {
		for _, s := range st.Body.List {
			if is, ok := s.(*ast.IfStmt); ok && !disOK && is.Init == nil {
				disCond, disOK = oneLine(src(is.Cond)), true
				b := []string{}
				for _, x := range is.Body.List {
					t := oneLine(src(x))
					if strings.HasPrefix(t, "slog.") {
						continue
					}
					b = append(b, t)
				}
				disBody = strings.Join(b, "; ")
			}
			if ls, ok := s.(*ast.LabeledStmt); ok {
				if fs, ok := ls.Stmt.(*ast.ForStmt); ok && fs.Cond == nil && fs.Init == nil && fs.Post == nil {
					for _, x := range fs.Body.List {
						switch v := x.(type) {
						case *ast.IfStmt:
							if containsCall(v.Cond, ".DoScan") || (v.Init != nil && containsCall(v.Init, ".DoScan")) {
								loopStmts = append(loopStmts, "scan")
							} else {
								loopStmts = append(loopStmts, "if "+oneLine(src(v.Cond)))
								throttle = oneLine(src(v.Cond))
							}
						case *ast.SelectStmt:
							loopStmts = append(loopStmts, "select")
						case *ast.AssignStmt:
							loopStmts = append(loopStmts, oneLine(src(v)))
						default:
							loopStmts = append(loopStmts, "other")
						}
					}
				}
			}
		}
	}
	g.def("disableCond", "Option String", optS(disCond, disOK), "condition of the first `if` of Start")
	g.def("disableBody", "String", leanStr(disBody), "its body without logging")
	g.def("loopShape", "List String", strList(loopStmts), "statements of retentionLoop")
	g.def("throttleCond", "String", leanStr(throttle), "the test that makes the loop wait")
	nScan := 0
	if st != nil {
		ast.Inspect(st, func(x ast.Node) bool {
			if ce, ok := x.(*ast.CallExpr); ok && strings.HasSuffix(src(ce.Fun), ".DoScan") {
				nScan++
			}
			return true
		})
	}
	g.def("startScanCalls", "Nat", fmt.Sprint(nScan), "number of DoScan calls in Start")
}
