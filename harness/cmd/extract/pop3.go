package main

// T1 facts for the POP3 session model (C13), re-read from pkg/server/pop3/*.go (test files excluded).  Functions are
// found by what they do, never by name (k1kit.go): the command loop is the function holding
// `switch <session>.<state> { case AUTHORIZATION: <session>.h(cmd, args) … }`, a state's handler is what that switch calls.
//   commandKeys / commandVals      the package's command set (its one package-level map[string]bool literal)
//   dispatchStates                 the states the loop dispatches, in source order
//   authCases / transCases         the command words the paths of the two handlers compare the command equal to (sorted),
//                                  and whether a default exists — read off EXECUTED paths (kit_t1a.go), so a switch, an
//                                  if-chain or a table in a helper are the same table
//   loopTests                      what a path of the loop that reaches the state dispatch has decided about the command
//                                  word, in order (not CAPA, not empty, a known command)
//   loopCond                       the condition of the command loop ($s = the session)
//   storeReach                     (state, command word, Store method) for every storage.Store method called on a path
//                                  of that row of a handler (the package's own functions executed in place); ("", "loop",
//                                  m) for a path of the loop outside the dispatch, ("", "elsewhere", m) for any other call
//   parseIntArgs                   the distinct (base, bitSize) of strconv.ParseInt calls in the package
//   usesPolicy / userVerbatim      whether the package consults the address policy, and whether the mailbox key is the
//                                  client's first argument word verbatim (pop3UserVerbatim below; tied in Tie/Addr2.lean)

import (
	"fmt"
	"go/ast"
	"go/token"
	"sort"
	"strconv"
	"strings"
)

func init() { extractors = append(extractors, extractPop3) }

func strLit(e ast.Expr) (string, bool) {
	lit, ok := e.(*ast.BasicLit)
	if !ok || lit.Kind != token.STRING {
		return "", false
	}
	s, err := strconv.Unquote(lit.Value)
	return s, err == nil
}

func bytesList(ss []string) string {
	p := []string{}
	for _, s := range ss {
		p = append(p, byteList(s))
	}
	return "[" + strings.Join(p, ", ") + "]"
}

func pairList(ps [][2]string) string {
	p := []string{}
	for _, x := range ps {
		p = append(p, "("+leanStr(x[0])+", "+leanStr(x[1])+")")
	}
	return "[" + strings.Join(p, ", ") + "]"
}

// pop3StoreMethods: the method names of the storage.Store interface.
func pop3StoreMethods() map[string]bool {
	res := map[string]bool{}
	f := parse("pkg/storage/storage.go")
	if f == nil {
		return res
	}
	ast.Inspect(f, func(n ast.Node) bool {
		ts, ok := n.(*ast.TypeSpec)
		if !ok || ts.Name.Name != "Store" {
			return true
		}
		if it, ok := ts.Type.(*ast.InterfaceType); ok {
			for _, m := range it.Methods.List {
				for _, nm := range m.Names {
					res[nm.Name] = true
				}
			}
		}
		return false
	})
	return res
}

func pop3Triples(ts [][3]string) string {
	p := []string{}
	for _, x := range ts {
		p = append(p, "("+leanStr(x[0])+", "+leanStr(x[1])+", "+leanStr(x[2])+")")
	}
	return "[" + strings.Join(p, ", ") + "]"
}

func extractPop3() {
	defer k1Recover("extractPop3")
	g := gen("Pop3")
	p := k1LoadPkg("pkg/server/pop3")
	d := k1FindDispatch(p)
	keys, vals, known := p.boolMapKeys()
	if known {
		g.def("commandKeys", "Option (List (List Nat))", "some "+bytesList(keys), "keys of the package's command set (its one package-level map[string]bool literal), in source order")
		g.def("commandVals", "List String", strList(vals), "their values as written")
	} else {
		g.def("commandKeys", "Option (List (List Nat))", "none", "command set literal not recognised")
		g.def("commandVals", "List String", "[]", "")
	}
	states := []string{}
	if d != nil {
		states = d.states
	}
	g.def("dispatchStates", "List String", strList(states), "the states the command loop dispatches to a handler(cmd, args), in source order")
	// ---- the tables, the tests of the loop and the places where the store is touched: read off EXECUTED paths
	// (kit_t1a.go), not off `switch` statements: a table written as an if-chain, moved into a helper or followed by its
	// default case is the same table.  The only events are the calls of storage.Store methods, so only the helpers that
	// reach the store are executed in place.
	store := pop3StoreMethods()
	walker := func() *k2Walker {
		w := k2NewWalker(p)
		w.classify = func(e *k1Env, ce *ast.CallExpr) (string, bool) {
			if p.resolve(ce) != nil {
				return "", true
			}
			if sel, ok := ce.Fun.(*ast.SelectorExpr); ok && store[sel.Sel.Name] {
				return "call:" + sel.Sel.Name, false
			}
			return "", false
		}
		return w
	}
	var reach [][3]string
	seenReach := map[[3]string]bool{}
	addReach := func(t [3]string) {
		if !seenReach[t] {
			seenReach[t] = true
			reach = append(reach, t)
		}
	}
	storeEvents := func(items []string) []string {
		var ms []string
		for _, it := range items {
			it = strings.TrimPrefix(strings.TrimPrefix(it, "*"), "defer:")
			if strings.HasPrefix(it, "call:") {
				ms = append(ms, it[5:])
			}
			if strings.HasPrefix(it, "unknown:") {
				ms = append(ms, it)
			}
		}
		return ms
	}
	emitCases := func(name, state string) {
		if d == nil || d.handlers[state] == nil {
			g.def(name, "Option (List (List Nat) × Bool)", "none", "command table of the "+state+" handler not recognised")
			return
		}
		w := walker()
		labels, _, paths := smtpTable(w.paths(d.handlerEnv(p, state), nil, d.handlers[state].Body.List))
		ls := []string{}
		def := false
		for _, row := range labels {
			for _, l := range strings.Split(row, ",") {
				if l == "<default>" {
					def = true
				} else {
					ls = append(ls, l)
				}
				for _, x := range paths[row] {
					for _, m := range storeEvents(x.items) {
						addReach([3]string{state, l, m})
					}
				}
			}
		}
		sort.Strings(ls)
		g.def(name, "Option (List (List Nat) × Bool)", fmt.Sprintf("some (%s, %v)", bytesList(ls), def),
			"the command words the paths of the "+state+" handler compare the command equal to (sorted), and whether some path compares it equal to none (the default)")
	}
	emitCases("authCases", "AUTHORIZATION")
	emitCases("transCases", "TRANSACTION")

	// the tests on the command word in the command loop, and the loop condition
	tests := []string{"?"}
	loopCond := ""
	reached := map[*ast.FuncDecl]bool{}
	if d != nil {
		if d.loop != nil && d.loop.Cond != nil {
			loopCond = d.env.canon(d.loop.Cond)
		}
		if d.loop != nil {
			w := walker()
			w.pinned = map[*ast.Object]bool{d.cmd: true, d.arg: true}
			isHandler := map[*ast.FuncDecl]bool{}
			for _, h := range d.handlers {
				isHandler[h] = true
			}
			inner := w.classify
			w.classify = func(e *k1Env, ce *ast.CallExpr) (string, bool) {
				if fd := p.resolve(ce); fd != nil && isHandler[fd] {
					return "dispatch", false
				}
				return inner(e, ce)
			}
			// what a path to the state dispatch has decided about the command word, in the order it was decided
			set := map[string]bool{}
			var lists [][]string
			for _, x := range k2CanonicalPaths(w.paths(d.env, nil, d.loop.Body.List)) {
				dispatched := false
				var l []string
				for _, it := range x.items {
					if it == "dispatch" {
						dispatched = true
					}
					if strings.HasPrefix(it, "[") && strings.Contains(it, "$cmd") {
						l = append(l, it[1:len(it)-1])
					}
				}
				if dispatched {
					if k := strings.Join(l, "\x00"); !set[k] {
						set[k] = true
						lists = append(lists, l)
					}
				} else {
					for _, m := range storeEvents(x.items) {
						addReach([3]string{"", "loop", m})
					}
				}
			}
			if len(lists) == 1 {
				tests = lists[0]
			}
		}
		smtpReach(p, d.fn, reached)
	}
	g.def("loopTests", "List String", strList(tests), "what every path through the command loop that reaches the state dispatch has decided about the command word ($cmd), in the order it was decided")
	g.def("loopCond", "String", leanStr(loopCond), "condition of the command loop ($s = the session)")

	// anything the loop cannot reach
	for _, fd := range p.funcs {
		if reached[fd] {
			continue
		}
		for _, ce := range k1Calls(fd.Body) {
			if sel, ok := ce.Fun.(*ast.SelectorExpr); ok && store[sel.Sel.Name] && p.resolve(ce) == nil {
				addReach([3]string{"", "elsewhere", sel.Sel.Name})
			}
		}
	}
	sort.SliceStable(reach, func(i, j int) bool {
		if reach[i][0] != reach[j][0] {
			return reach[i][0] < reach[j][0]
		}
		if reach[i][1] != reach[j][1] {
			return reach[i][1] < reach[j][1]
		}
		return reach[i][2] < reach[j][2]
	})
	g.def("storeReach", "List (String × String × String)", pop3Triples(reach), "(state, command word, Store method) for every method of storage.Store called on a path of that row of a handler's table (the package's own functions executed in place); (\"\", \"loop\", m) for a call on a path of the command loop that does not go through the dispatch, (\"\", \"elsewhere\", m) for one in a function the loop cannot reach; sorted")

	piArgs := map[string]bool{}
	for _, fd := range p.funcs {
		e := k1NewEnv(p, fd)
		for _, ce := range k1Calls(fd.Body) {
			if k1QualCall(ce, "strconv", "ParseInt") && len(ce.Args) == 3 {
				piArgs[e.canon(ce.Args[1])+","+e.canon(ce.Args[2])] = true
			}
		}
	}
	pis := []string{}
	for k := range piArgs {
		pis = append(pis, k)
	}
	sort.Strings(pis)
	g.def("parseIntArgs", "List String", strList(pis), "distinct (base,bitSize) of the strconv.ParseInt calls")

	// ---- POP3 and the address policy (C04)
	usesPolicy := len(p.files) == 0 // unreadable: make the tie fail
	for _, f := range p.files {
		for _, im := range f.Imports {
			if ip, ok := strLit(im.Path); ok && strings.HasSuffix(ip, "/pkg/policy") {
				usesPolicy = true
			}
		}
		ast.Inspect(f, func(n ast.Node) bool {
			if id, ok := n.(*ast.Ident); ok && (id.Name == "ExtractMailbox" || id.Name == "MailboxForAddress") {
				usesPolicy = true
			}
			return true
		})
	}
	g.def("usesPolicy", "Bool", axLeanBool(usesPolicy), "some non-test file of pkg/server/pop3 imports pkg/policy or mentions ExtractMailbox / MailboxForAddress")
	why := pop3UserVerbatim(p, d)
	g.def("userVerbatim", "Bool", axLeanBool(why == ""),
		"the session field handed to Store.GetMessages (the mailbox key) is only ever assigned `A[0]`, inside the handler that has the USER clause (once in that clause), where A is that handler's never-written "+
			"argument-list parameter; A is result 1 of the command parser at the one call of the handler, and the parser returns the words after the first blank of the line (after at most trimming CR / LF) unchanged: "+
			"strings.Split(line, \" \")[1:], or strings.Cut(line, \" \") followed by strings.Split(rest, \" \")"+
			map[bool]string{true: "", false: " — NOT recognised: " + why}[why == ""])
}

// pop3UserVerbatim: "" when the mailbox key is the client's first argument word verbatim (see the fact's comment),
// else what was not recognised.  Everything is found by role: the key field is what GetMessages is handed, the handler
// is the one of the state dispatch whose table has the USER clause, the parser is what its argument list comes from.
func pop3UserVerbatim(p *k1Pkg, d *k1Dispatch) string {
	if d == nil {
		return "no state dispatch"
	}
	// the key field: every GetMessages call is `<x>.GetMessages($r.F)` with one F
	field := ""
	for _, fd := range p.funcs {
		e := k1NewEnv(p, fd)
		for _, ce := range k1Calls(fd.Body) {
			if !k1SelCall(ce, "GetMessages") || p.resolve(ce) != nil {
				continue
			}
			if len(ce.Args) != 1 {
				return "GetMessages call shape"
			}
			a := e.canon(ce.Args[0])
			if !strings.HasPrefix(a, "$r.") || strings.Contains(a[3:], ".") || strings.ContainsAny(a[3:], "([ ") || (field != "" && field != a[3:]) {
				return "GetMessages argument is not one session field"
			}
			field = a[3:]
		}
	}
	if field == "" {
		return "no GetMessages call"
	}
	// the handler with the USER clause
	var auth *ast.FuncDecl
	var userClause *ast.CaseClause
	authState := ""
	for _, st := range d.states {
		if s := k1TopSwitch(d.handlerEnv(p, st), d.handlers[st].Body); s != nil {
			if cc := s.clause("USER"); cc != nil {
				if auth != nil {
					return "two handlers with a USER clause"
				}
				auth, userClause, authState = d.handlers[st], cc, st
			}
		}
	}
	if auth == nil {
		return "no handler with a USER clause"
	}
	he := d.handlerEnv(p, authState)
	// (a) every assignment to the field, anywhere in the package, is `$r.F = $arg[0]` inside that handler
	total, inUser := 0, 0
	bad := ""
	for _, fd := range p.funcs {
		e := k1NewEnv(p, fd)
		if fd == auth {
			e = he
		}
		ast.Inspect(fd.Body, func(n ast.Node) bool {
			switch v := n.(type) {
			case *ast.AssignStmt:
				for i, l := range v.Lhs {
					se, ok := k1Unparen(l).(*ast.SelectorExpr)
					if !ok || se.Sel.Name != field {
						if ie, isIdx := k1Unparen(l).(*ast.IndexExpr); isIdx && fd == auth && e.canon(ie.X) == "$arg" {
							bad = "the handler writes into its argument list"
						}
						continue
					}
					total++
					if fd != auth || v.Tok != token.ASSIGN || len(v.Lhs) != len(v.Rhs) || e.canon(l) != "$r."+field || e.canon(v.Rhs[i]) != "$arg[0]" {
						bad = "an assignment to the key field is not `$r." + field + " = $arg[0]` in the USER handler"
					} else if userClause.Pos() <= v.Pos() && v.End() <= userClause.End() {
						inUser++
					}
				}
			case *ast.IncDecStmt:
				if se, ok := k1Unparen(v.X).(*ast.SelectorExpr); ok && se.Sel.Name == field {
					bad = "++ / -- on the key field"
				}
			case *ast.UnaryExpr:
				if se, ok := k1Unparen(v.X).(*ast.SelectorExpr); ok && v.Op == token.AND && se.Sel.Name == field {
					bad = "address of the key field taken"
				}
			case *ast.KeyValueExpr:
				if id, ok := v.Key.(*ast.Ident); ok && id.Name == field {
					bad = "a composite literal sets the key field"
				}
			}
			return true
		})
	}
	if bad != "" {
		return bad
	}
	if total < 1 || inUser != 1 {
		return "the USER clause does not hold exactly one of the assignments"
	}
	// (b) the handler is called once, by the dispatch, with the argument list the parser returned
	ncalls := 0
	for _, fd := range p.funcs {
		for _, ce := range k1Calls(fd.Body) {
			if p.resolve(ce) == auth {
				ncalls++
			}
		}
	}
	if ncalls != 1 || d.calls[authState] == nil {
		return "the USER handler is not called exactly once (by the dispatch)"
	}
	ds := d.env.defs[d.arg]
	if len(ds) != 1 || d.env.dirty[d.arg] || ds[0].rhs == nil || ds[0].idx != 1 {
		return "the argument list is not result 1 of one call"
	}
	pc, ok := k1Unparen(ds[0].rhs).(*ast.CallExpr)
	if !ok {
		return "the argument list is not result 1 of one call"
	}
	parser := p.resolve(pc)
	if parser == nil || parser.Body == nil || k1NumResults(parser) != 2 || parser.Type.Params == nil || len(parser.Type.Params.List) != 1 ||
		len(parser.Type.Params.List[0].Names) != 1 || src(parser.Type.Params.List[0].Type) != "string" {
		return "command parser not found"
	}
	var rts []string
	for _, f := range parser.Type.Results.List {
		n := len(f.Names)
		if n == 0 {
			n = 1
		}
		for i := 0; i < n; i++ {
			rts = append(rts, src(f.Type))
		}
	}
	if len(rts) != 2 || rts[0] != "string" || rts[1] != "[]string" {
		return "command parser signature"
	}
	// (c) the parser, path by path: what it returns as the argument list
	w := k2NewWalker(p)
	w.classify = func(*k1Env, *ast.CallExpr) (string, bool) { return "", false }
	w.opaque = func(*ast.FuncDecl) bool { return true }
	pe := k1NewEnv(p, parser)
	some := false
	for _, x := range w.paths(pe, nil, parser.Body.List) {
		if len(x.rets) != 2 || x.term != "return" {
			return "command parser: an exit without two results"
		}
		has := func(g string) bool {
			for _, it := range x.items {
				if it == "["+g+"]" {
					return true
				}
			}
			return false
		}
		okPath := false
		for _, line := range []string{"$p", `strings.TrimRight($p, "\r\n")`} {
			cut := "strings.Cut(" + line + `, " ")`
			split := "strings.Split(" + line + `, " ")`
			switch {
			case x.rets[0] == `""` && x.rets[1] == "nil" && has(line+` == ""`):
				okPath = true // the empty line: no command at all
			case x.rets[0] == "strings.ToUpper("+split+"[0])" && x.rets[1] == split+"[1:]":
				okPath, some = true, true
			case x.rets[0] == "strings.ToUpper("+cut+"#0)" && x.rets[1] == "strings.Split("+cut+`#1, " ")` && has(cut+"#2"):
				okPath, some = true, true
			case x.rets[0] == "strings.ToUpper("+cut+"#0)" && (x.rets[1] == "[]string{}" || x.rets[1] == "nil") && has("!"+cut+"#2"):
				okPath = true // no blank: a command word without arguments
			}
		}
		if !okPath {
			return "command parser: an exit returns something else: (" + strings.Join(x.rets, ", ") + ")"
		}
	}
	if !some || w.overflow {
		return "command parser: no exit returns the words of the line"
	}
	return ""
}
