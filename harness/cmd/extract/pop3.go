package main

// T1 facts for the POP3 session model (C13), re-read from pkg/server/pop3/*.go (test files excluded):
//   commandKeys / commandVals      the `commands` map literal (keys as bytes, in source order)
//   authCases / transCases         the string case labels of `switch cmd` in the two handlers, and whether a default exists
//   loopTests                      the `if` conditions on `cmd` in startSession's loop, in source order (CAPA first)
//   loopCond                       the condition of the command loop
//   processDeletesCalls            every call site of processDeletes: (function, enclosing `case` label of switch cmd)
//   loadMailboxCalls               same for loadMailbox
//   storeCalls                     every `….store.<Method>(…)` call in the package: (function, method)
//   parseIntArgs                   the distinct (base, bitSize) of strconv.ParseInt calls in the handlers

import (
	"fmt"
	"go/ast"
	"go/token"
	"os"
	"path/filepath"
	"sort"
	"strconv"
	"strings"
)

func init() { extractors = append(extractors, extractPop3) }

func pop3Files() []*ast.File {
	dir := filepath.Join(repo, "pkg/server/pop3")
	ents, err := os.ReadDir(dir)
	if err != nil {
		return nil
	}
	names := []string{}
	for _, e := range ents {
		n := e.Name()
		if strings.HasSuffix(n, ".go") && !strings.HasSuffix(n, "_test.go") {
			names = append(names, n)
		}
	}
	sort.Strings(names)
	var fs []*ast.File
	for _, n := range names {
		if f := parse("pkg/server/pop3/" + n); f != nil {
			fs = append(fs, f)
		}
	}
	return fs
}

func strLit(e ast.Expr) (string, bool) {
	lit, ok := e.(*ast.BasicLit)
	if !ok || lit.Kind != token.STRING {
		return "", false
	}
	s, err := strconv.Unquote(lit.Value)
	return s, err == nil
}

func bytesList(ss []string) string {
	p := []string{}
	for _, s := range ss {
		p = append(p, byteList(s))
	}
	return "[" + strings.Join(p, ", ") + "]"
}

func pairList(ps [][2]string) string {
	p := []string{}
	for _, x := range ps {
		p = append(p, "("+leanStr(x[0])+", "+leanStr(x[1])+")")
	}
	return "[" + strings.Join(p, ", ") + "]"
}

// cmdSwitches: the `switch cmd {…}` statements of a function
func cmdSwitches(fd *ast.FuncDecl) []*ast.SwitchStmt {
	var res []*ast.SwitchStmt
	if fd == nil || fd.Body == nil {
		return res
	}
	ast.Inspect(fd.Body, func(n ast.Node) bool {
		if sw, ok := n.(*ast.SwitchStmt); ok && sw.Tag != nil && src(sw.Tag) == "cmd" {
			res = append(res, sw)
		}
		return true
	})
	return res
}

// caseLabels: string labels of the unique `switch cmd`; ok=false when the shape is not recognised
func caseLabels(fd *ast.FuncDecl) (labels []string, hasDefault bool, ok bool) {
	sws := cmdSwitches(fd)
	if len(sws) != 1 {
		return nil, false, false
	}
	for _, st := range sws[0].Body.List {
		cc, isCC := st.(*ast.CaseClause)
		if !isCC {
			return nil, false, false
		}
		if cc.List == nil {
			hasDefault = true
			continue
		}
		for _, e := range cc.List {
			s, isStr := strLit(e)
			if !isStr {
				return nil, false, false
			}
			labels = append(labels, s)
		}
	}
	return labels, hasDefault, true
}

// callsOf: call sites of method/function `name` in fd, each with the label of the enclosing case of `switch cmd`
// ("" = not inside such a case; "default" for the default clause)
func callsOf(fd *ast.FuncDecl, name string) [][2]string {
	var res [][2]string
	if fd == nil || fd.Body == nil {
		return res
	}
	isCall := func(n ast.Node) bool {
		ce, ok := n.(*ast.CallExpr)
		if !ok {
			return false
		}
		switch f := ce.Fun.(type) {
		case *ast.Ident:
			return f.Name == name
		case *ast.SelectorExpr:
			return f.Sel.Name == name
		}
		return false
	}
	inCase := map[ast.Node]bool{}
	for _, sw := range cmdSwitches(fd) {
		for _, st := range sw.Body.List {
			cc, ok := st.(*ast.CaseClause)
			if !ok {
				continue
			}
			label := "default"
			if cc.List != nil {
				ls := []string{}
				for _, e := range cc.List {
					if s, ok := strLit(e); ok {
						ls = append(ls, s)
					} else {
						ls = append(ls, "?")
					}
				}
				label = strings.Join(ls, ",")
			}
			for _, b := range cc.Body {
				ast.Inspect(b, func(n ast.Node) bool {
					if n != nil && isCall(n) {
						inCase[n] = true
						res = append(res, [2]string{fd.Name.Name, label})
					}
					return true
				})
			}
		}
	}
	ast.Inspect(fd.Body, func(n ast.Node) bool {
		if n != nil && isCall(n) && !inCase[n] {
			res = append(res, [2]string{fd.Name.Name, ""})
		}
		return true
	})
	return res
}

func extractPop3() {
	g := gen("Pop3")
	files := pop3Files()
	var handler *ast.File
	for _, f := range files {
		if fn(f, "Session", "transactionHandler") != nil {
			handler = f
		}
	}
	// the commands map
	var keys []string
	var vals []string
	known := false
	if handler != nil {
		for _, d := range handler.Decls {
			gd, ok := d.(*ast.GenDecl)
			if !ok || gd.Tok != token.VAR {
				continue
			}
			for _, sp := range gd.Specs {
				vs, ok := sp.(*ast.ValueSpec)
				if !ok || len(vs.Names) != 1 || vs.Names[0].Name != "commands" || len(vs.Values) != 1 {
					continue
				}
				cl, ok := vs.Values[0].(*ast.CompositeLit)
				if !ok {
					continue
				}
				known = true
				for _, el := range cl.Elts {
					kv, ok := el.(*ast.KeyValueExpr)
					if !ok {
						known = false
						break
					}
					k, ok := strLit(kv.Key)
					if !ok {
						known = false
						break
					}
					keys = append(keys, k)
					vals = append(vals, src(kv.Value))
				}
			}
		}
	}
	if known {
		g.def("commandKeys", "Option (List (List Nat))", "some "+bytesList(keys), "keys of the `commands` map literal, in source order")
		g.def("commandVals", "List String", strList(vals), "their values as written")
	} else {
		g.def("commandKeys", "Option (List (List Nat))", "none", "`commands` map literal not recognised")
		g.def("commandVals", "List String", "[]", "")
	}
	emitCases := func(name, fnName string) {
		ls, def, ok := caseLabels(fn(handler, "Session", fnName))
		if !ok {
			g.def(name, "Option (List (List Nat) × Bool)", "none", "switch cmd of "+fnName+" not recognised")
			return
		}
		g.def(name, "Option (List (List Nat) × Bool)", fmt.Sprintf("some (%s, %v)", bytesList(ls), def),
			"case labels of `switch cmd` in "+fnName+" (source order) and whether it has a default clause")
	}
	emitCases("authCases", "authorizationHandler")
	emitCases("transCases", "transactionHandler")

	// the tests on cmd in the command loop, and the loop condition
	var tests []string
	loopCond := ""
	if ss := fn(handler, "Server", "startSession"); ss != nil && ss.Body != nil {
		ast.Inspect(ss.Body, func(n ast.Node) bool {
			switch v := n.(type) {
			case *ast.ForStmt:
				if v.Cond != nil && loopCond == "" {
					loopCond = src(v.Cond)
				}
			case *ast.IfStmt:
				c := src(v.Cond)
				if strings.Contains(c, "cmd") {
					tests = append(tests, c)
				}
			}
			return true
		})
	}
	g.def("loopTests", "List String", strList(tests), "`if` conditions mentioning cmd inside startSession, in source order")
	g.def("loopCond", "String", leanStr(loopCond), "condition of the command loop")

	var pd, lm, sc [][2]string
	piArgs := map[string]bool{}
	for _, f := range files {
		for _, d := range f.Decls {
			fd, ok := d.(*ast.FuncDecl)
			if !ok {
				continue
			}
			pd = append(pd, callsOf(fd, "processDeletes")...)
			lm = append(lm, callsOf(fd, "loadMailbox")...)
			if fd.Body == nil {
				continue
			}
			ast.Inspect(fd.Body, func(n ast.Node) bool {
				ce, ok := n.(*ast.CallExpr)
				if !ok {
					return true
				}
				if se, ok := ce.Fun.(*ast.SelectorExpr); ok {
					if inner, ok := se.X.(*ast.SelectorExpr); ok && inner.Sel.Name == "store" {
						sc = append(sc, [2]string{fd.Name.Name, se.Sel.Name})
					}
					if src(ce.Fun) == "strconv.ParseInt" && len(ce.Args) == 3 {
						piArgs[src(ce.Args[1])+","+src(ce.Args[2])] = true
					}
				}
				return true
			})
		}
	}
	g.def("processDeletesCalls", "List (String × String)", pairList(pd), "call sites of processDeletes: (function, enclosing case of switch cmd)")
	g.def("loadMailboxCalls", "List (String × String)", pairList(lm), "call sites of loadMailbox")
	g.def("storeCalls", "List (String × String)", pairList(sc), "every <x>.store.<Method>(…) call in the package: (function, method)")
	pis := []string{}
	for k := range piArgs {
		pis = append(pis, k)
	}
	sort.Strings(pis)
	g.def("parseIntArgs", "List String", strList(pis), "distinct (base,bitSize) of the strconv.ParseInt calls")
}
