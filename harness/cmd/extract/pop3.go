package main

// T1 facts for the POP3 session model (C13), re-read from pkg/server/pop3/*.go (test files excluded).  Functions are
// found by what they do, never by name (k1kit.go): the command loop is the function holding
// `switch <session>.<state> { case AUTHORIZATION: <session>.h(cmd, args) … }`, a state's handler is what that switch calls.
//   commandKeys / commandVals      the package's command set (its one package-level map[string]bool literal)
//   dispatchStates                 the states the loop dispatches, in source order
//   authCases / transCases         the string case labels of the switch on the command word in the two handlers, and
//                                  whether a default exists
//   loopTests                      the `if` conditions on the command word in the loop, in source order (CAPA first)
//   loopCond                       the condition of the command loop ($s = the session)
//   storeReach                     (state, clause label, Store method) for every storage.Store method a clause of a
//                                  handler can reach through the package's own functions; ("", "loop", m) for one the
//                                  loop reaches outside the dispatch, ("", "elsewhere", m) for any other call
//   parseIntArgs                   the distinct (base, bitSize) of strconv.ParseInt calls in the package

import (
	"fmt"
	"go/ast"
	"go/token"
	"sort"
	"strconv"
	"strings"
)

func init() { extractors = append(extractors, extractPop3) }

func strLit(e ast.Expr) (string, bool) {
	lit, ok := e.(*ast.BasicLit)
	if !ok || lit.Kind != token.STRING {
		return "", false
	}
	s, err := strconv.Unquote(lit.Value)
	return s, err == nil
}

func bytesList(ss []string) string {
	p := []string{}
	for _, s := range ss {
		p = append(p, byteList(s))
	}
	return "[" + strings.Join(p, ", ") + "]"
}

func pairList(ps [][2]string) string {
	p := []string{}
	for _, x := range ps {
		p = append(p, "("+leanStr(x[0])+", "+leanStr(x[1])+")")
	}
	return "[" + strings.Join(p, ", ") + "]"
}

// pop3StoreMethods: the method names of the storage.Store interface.
func pop3StoreMethods() map[string]bool {
	res := map[string]bool{}
	f := parse("pkg/storage/storage.go")
	if f == nil {
		return res
	}
	ast.Inspect(f, func(n ast.Node) bool {
		ts, ok := n.(*ast.TypeSpec)
		if !ok || ts.Name.Name != "Store" {
			return true
		}
		if it, ok := ts.Type.(*ast.InterfaceType); ok {
			for _, m := range it.Methods.List {
				for _, nm := range m.Names {
					res[nm.Name] = true
				}
			}
		}
		return false
	})
	return res
}

// pop3Reach: the Store methods called from the nodes, directly or through the package's own functions (source order).
func pop3Reach(p *k1Pkg, store map[string]bool, nodes []ast.Node, seen map[*ast.FuncDecl]bool, out *[]string, skip map[ast.Node]bool) {
	for _, n := range nodes {
		if n == nil {
			continue
		}
		ast.Inspect(n, func(x ast.Node) bool {
			if x != nil && skip[x] {
				return false
			}
			ce, ok := x.(*ast.CallExpr)
			if !ok {
				return true
			}
			if sel, ok := ce.Fun.(*ast.SelectorExpr); ok && store[sel.Sel.Name] && p.resolve(ce) == nil {
				dup := false
				for _, m := range *out {
					if m == sel.Sel.Name {
						dup = true
					}
				}
				if !dup {
					*out = append(*out, sel.Sel.Name)
				}
			}
			if fd := p.resolve(ce); fd != nil && !seen[fd] {
				seen[fd] = true
				pop3Reach(p, store, []ast.Node{fd.Body}, seen, out, skip)
			}
			return true
		})
	}
}

func pop3Triples(ts [][3]string) string {
	p := []string{}
	for _, x := range ts {
		p = append(p, "("+leanStr(x[0])+", "+leanStr(x[1])+", "+leanStr(x[2])+")")
	}
	return "[" + strings.Join(p, ", ") + "]"
}

func extractPop3() {
	defer k1Recover("extractPop3")
	g := gen("Pop3")
	p := k1LoadPkg("pkg/server/pop3")
	d := k1FindDispatch(p)
	keys, vals, known := p.boolMapKeys()
	if known {
		g.def("commandKeys", "Option (List (List Nat))", "some "+bytesList(keys), "keys of the package's command set (its one package-level map[string]bool literal), in source order")
		g.def("commandVals", "List String", strList(vals), "their values as written")
	} else {
		g.def("commandKeys", "Option (List (List Nat))", "none", "command set literal not recognised")
		g.def("commandVals", "List String", "[]", "")
	}
	states := []string{}
	if d != nil {
		states = d.states
	}
	g.def("dispatchStates", "List String", strList(states), "the states the command loop dispatches to a handler(cmd, args), in source order")
	emitCases := func(name, state string) {
		var s *k1Switch
		if d != nil && d.handlers[state] != nil {
			s = k1TopSwitch(d.handlerEnv(p, state), d.handlers[state].Body)
		}
		if s == nil {
			g.def(name, "Option (List (List Nat) × Bool)", "none", "command table of the "+state+" handler not recognised")
			return
		}
		ls := []string{}
		def := false
		for _, l := range s.labels {
			if len(l) == 1 && l[0] == "<default>" {
				def = true
				continue
			}
			ls = append(ls, l...)
		}
		g.def(name, "Option (List (List Nat) × Bool)", fmt.Sprintf("some (%s, %v)", bytesList(ls), def),
			"case labels of the switch on the command word in the "+state+" handler (source order) and whether it has a default clause")
	}
	emitCases("authCases", "AUTHORIZATION")
	emitCases("transCases", "TRANSACTION")

	// the tests on the command word in the command loop, and the loop condition
	tests := []string{}
	loopCond := ""
	if d != nil {
		if d.loop != nil && d.loop.Cond != nil {
			loopCond = d.env.canon(d.loop.Cond)
		}
		ast.Inspect(d.fn.Body, func(n ast.Node) bool {
			if is, ok := n.(*ast.IfStmt); ok {
				if c := d.env.canon(is.Cond); strings.Contains(c, "$cmd") {
					tests = append(tests, c)
				}
			}
			return true
		})
	}
	g.def("loopTests", "List String", strList(tests), "`if` conditions on the command word ($cmd) inside the command loop's function, in source order")
	g.def("loopCond", "String", leanStr(loopCond), "condition of the command loop ($s = the session)")

	// where the store is touched
	store := pop3StoreMethods()
	var reach [][3]string
	touched := map[*ast.FuncDecl]bool{}
	if d != nil {
		for _, st := range d.states {
			s := k1TopSwitch(d.handlerEnv(p, st), d.handlers[st].Body)
			if s == nil {
				reach = append(reach, [3]string{st, "?", "?"})
				continue
			}
			inSwitch := map[ast.Node]bool{s.sw: true}
			for i, cc := range s.clauses {
				var ms []string
				seen := map[*ast.FuncDecl]bool{}
				pop3Reach(p, store, k1ClauseNodes(cc), seen, &ms, nil)
				for fd := range seen {
					touched[fd] = true
				}
				for _, m := range ms {
					reach = append(reach, [3]string{st, strings.Join(s.labels[i], ","), m})
				}
			}
			// the handler outside its table
			var ms []string
			seen := map[*ast.FuncDecl]bool{d.handlers[st]: true}
			pop3Reach(p, store, []ast.Node{d.handlers[st].Body}, seen, &ms, inSwitch)
			for fd := range seen {
				touched[fd] = true
			}
			for _, m := range ms {
				reach = append(reach, [3]string{st, "", m})
			}
		}
		// the loop outside the dispatch
		var ms []string
		seen := map[*ast.FuncDecl]bool{d.fn: true}
		pop3Reach(p, store, []ast.Node{d.fn.Body}, seen, &ms, map[ast.Node]bool{d.sw: true})
		for fd := range seen {
			touched[fd] = true
		}
		for _, m := range ms {
			reach = append(reach, [3]string{"", "loop", m})
		}
	}
	// anything else in the package
	for _, fd := range p.funcs {
		if touched[fd] {
			continue
		}
		for _, ce := range k1Calls(fd.Body) {
			if sel, ok := ce.Fun.(*ast.SelectorExpr); ok && store[sel.Sel.Name] && p.resolve(ce) == nil {
				reach = append(reach, [3]string{"", "elsewhere", sel.Sel.Name})
			}
		}
	}
	g.def("storeReach", "List (String × String × String)", pop3Triples(reach), "(state, clause, Store method) for every method of storage.Store a clause can reach through the package's own functions; (\"\", \"loop\" | \"elsewhere\", m) for calls outside the handlers' tables")

	piArgs := map[string]bool{}
	for _, fd := range p.funcs {
		e := k1NewEnv(p, fd)
		for _, ce := range k1Calls(fd.Body) {
			if k1QualCall(ce, "strconv", "ParseInt") && len(ce.Args) == 3 {
				piArgs[e.canon(ce.Args[1])+","+e.canon(ce.Args[2])] = true
			}
		}
	}
	pis := []string{}
	for k := range piArgs {
		pis = append(pis, k)
	}
	sort.Strings(pis)
	g.def("parseIntArgs", "List String", strList(pis), "distinct (base,bitSize) of the strconv.ParseInt calls")
}
