// extract: T1 translator.  Re-reads /repo's sources (go/parser) and regenerates lean/Ibx/Gen/*.lean:
// tables and structural facts the Lean models and theorems are tied to.  A fact whose code shape is not
// recognised is emitted as `none` / `.unknown`, which no tie theorem accepts.
package main

import (
	"bytes"
	"flag"
	"fmt"
	"go/ast"
	"go/parser"
	"go/printer"
	"go/token"
	"os"
	"path/filepath"
	"sort"
	"strconv"
	"strings"
)

var fset = token.NewFileSet()
var repo string

type genFile struct {
	name string
	buf  bytes.Buffer
}

var files = map[string]*genFile{}

func gen(name string) *genFile {
	if g, ok := files[name]; ok {
		return g
	}
	g := &genFile{name: name}
	fmt.Fprintf(&g.buf, "/- REGENERATED from /repo on every run by /verif/harness/cmd/extract — do not edit. -/\nnamespace Ibx.Gen.%s\n\n", name)
	files[name] = g
	return g
}

func (g *genFile) def(name, typ, val, comment string) {
	if comment != "" {
		fmt.Fprintf(&g.buf, "/-- %s -/\n", strings.ReplaceAll(comment, "-/", "- /"))
	}
	fmt.Fprintf(&g.buf, "def %s : %s := %s\n\n", name, typ, val)
}

func leanStr(s string) string {
	var b strings.Builder
	b.WriteByte('"')
	for _, c := range []byte(s) {
		switch {
		case c == '"':
			b.WriteString("\\\"")
		case c == '\\':
			b.WriteString("\\\\")
		case c == '\n':
			b.WriteString("\\n")
		case c == '\r':
			b.WriteString("\\r")
		case c == '\t':
			b.WriteString("\\t")
		case c < 32 || c > 126:
			fmt.Fprintf(&b, "\\x%02x", c)
		default:
			b.WriteByte(c)
		}
	}
	b.WriteByte('"')
	return b.String()
}

func optStr(s *string) string {
	if s == nil {
		return "none"
	}
	return "some " + leanStr(*s)
}

func optNat(n *int) string {
	if n == nil {
		return "none"
	}
	return fmt.Sprintf("some %d", *n)
}

func byteList(s string) string {
	p := []string{}
	for _, c := range []byte(s) {
		p = append(p, strconv.Itoa(int(c)))
	}
	return "[" + strings.Join(p, ", ") + "]"
}

func strList(l []string) string {
	p := []string{}
	for _, s := range l {
		p = append(p, leanStr(s))
	}
	return "[" + strings.Join(p, ", ") + "]"
}

func parse(rel string) *ast.File {
	f, err := parser.ParseFile(fset, filepath.Join(repo, rel), nil, parser.ParseComments)
	if err != nil {
		fmt.Fprintln(os.Stderr, "parse", rel, err)
		return nil
	}
	return f
}

func src(n ast.Node) string {
	var b bytes.Buffer
	printer.Fprint(&b, fset, n)
	return b.String()
}

// fn finds a function or method declaration by name (recv "" = plain function; otherwise receiver type name).
func fn(f *ast.File, recv, name string) *ast.FuncDecl {
	if f == nil {
		return nil
	}
	for _, d := range f.Decls {
		fd, ok := d.(*ast.FuncDecl)
		if !ok || fd.Name.Name != name {
			continue
		}
		if recv == "" && fd.Recv == nil {
			return fd
		}
		if recv != "" && fd.Recv != nil && len(fd.Recv.List) == 1 {
			t := fd.Recv.List[0].Type
			if s, ok := t.(*ast.StarExpr); ok {
				t = s.X
			}
			if id, ok := t.(*ast.Ident); ok && id.Name == recv {
				return fd
			}
		}
	}
	return nil
}

// cmpLit: the unique comparison `<lhs> <op> <int literal>` inside node; returns op and literal.
func cmpLit(n ast.Node, lhs string, wantOp string) (string, *int) {
	if n == nil || isNilNode(n) {
		return "?", nil
	}
	var ops []string
	var vals []int
	ast.Inspect(n, func(x ast.Node) bool {
		be, ok := x.(*ast.BinaryExpr)
		if !ok {
			return true
		}
		if lit, ok := be.Y.(*ast.BasicLit); ok && lit.Kind == token.INT && src(be.X) == lhs && (wantOp == "" || wantOp == be.Op.String()) {
			v, err := strconv.Atoi(lit.Value)
			if err == nil {
				ops = append(ops, be.Op.String())
				vals = append(vals, v)
			}
		}
		return true
	})
	if len(ops) != 1 {
		return "?", nil
	}
	return ops[0], &vals[0]
}

func isNilNode(n ast.Node) bool {
	switch v := n.(type) {
	case *ast.FuncDecl:
		return v == nil
	case *ast.File:
		return v == nil
	case *ast.BlockStmt:
		return v == nil
	}
	return false
}

// indexByteLits: the string literals passed as first argument to strings.IndexByte inside n, in source order.
func indexByteLits(n ast.Node) []string {
	var res []string
	if n == nil || isNilNode(n) {
		return res
	}
	ast.Inspect(n, func(x ast.Node) bool {
		ce, ok := x.(*ast.CallExpr)
		if !ok {
			return true
		}
		if src(ce.Fun) == "strings.IndexByte" && len(ce.Args) == 2 {
			if lit, ok := ce.Args[0].(*ast.BasicLit); ok && lit.Kind == token.STRING {
				s, err := strconv.Unquote(lit.Value)
				if err == nil {
					res = append(res, s)
				}
			}
		}
		return true
	})
	return res
}

func cmpDef(g *genFile, name string, n ast.Node, lhs, wantOp, comment string) {
	op, v := cmpLit(n, lhs, wantOp)
	val := "none"
	if v != nil {
		val = fmt.Sprintf("some (%s, %d)", leanStr(op), *v)
	}
	g.def(name, "Option (String × Nat)", val, comment)
}

func main() {
	out := flag.String("out", "", "output directory")
	flag.StringVar(&repo, "repo", "/repo", "repository root")
	flag.Parse()
	if *out == "" {
		fmt.Fprintln(os.Stderr, "need -out")
		os.Exit(2)
	}
	extractAddr()
	for _, f := range extractors {
		f()
	}
	names := []string{}
	for n := range files {
		names = append(names, n)
	}
	sort.Strings(names)
	for _, n := range names {
		g := files[n]
		fmt.Fprintf(&g.buf, "end Ibx.Gen.%s\n", n)
		if err := os.WriteFile(filepath.Join(*out, n+".lean"), g.buf.Bytes(), 0o644); err != nil {
			fmt.Fprintln(os.Stderr, err)
			os.Exit(1)
		}
	}
	fmt.Printf("extract: wrote %d files (%s)\n", len(names), strings.Join(names, " "))
}

// extractors registered by other files of this command
var extractors []func()

func extractAddr() {
	// the facts are computed structurally (roles instead of local names, helpers found by following calls) in addr2.go
	addrEmitTables(gen("Addr"))
}
