package main

// addr / addr2: T1 facts for C04 / C05 about pkg/policy/address.go, the read side (REST / websocket / web-UI
// controllers, StoreManager.MailboxForAddress) and the POP3 server.
//
// Everything here is recognised through go/ast STRUCTURE, never through spelling:
//   * exported / package-level things are found by name (Addressing.ExtractMailbox, ValidateDomainPart,
//     StoreManager.MailboxForAddress, strings.HasPrefix, net.ParseIP, config.LocalNaming, web.Context, GetMessages …;
//     an import alias is resolved to the last element of the import path);
//   * unexported helpers are found by FOLLOWING CALLS from those (the raw address parser is "the 3-result function
//     ExtractMailbox calls with its parameter", the mailbox-name parser is "the (string) (string, error) function
//     called with result 0 of that", the domain extractor is what the DomainNaming dispatch returns, canonicalDomain
//     is the (string) string function inside the naming returns, the POP3 command parser is "the method whose result 1
//     is handed to the handler that has a USER clause" …);
//   * locals, parameters and receivers are identified by ROLE (n-th parameter, "assigned from the call to F", loop
//     index over the parameter, the counter that is incremented and reset, …) and printed as placeholders
//     ($recv, $p0, $x, $dom, $canon, $i, $n); single-assignment locals defined from a pure expression are expanded;
//     package-level string / int constants are replaced by their value; len("lit") is folded;
//   * control flow is normalised to a sequence of guarded exits: `if C { return … }`, if / else-if chains, inverted
//     `if C { … } else { return … }`, tag and tag-less switches; `a || b` in one guard and consecutive guards with the
//     same kind of exit are the same thing (the set / sequence of or-leaves); `!(a && b)` is `!a || !b`; one clause of a
//     tag switch may be a longer block that always returns (`switch T { case A: return a; case B: <block>; default: return d }`
//     is `if T == A { return a }; if T != B { return d }; <block>`);
//   * `T, ok := strings.CutPrefix(S, LIT)` is strings.HasPrefix(S, LIT) and (under ok) S[len(LIT):]; `A, B, F := strings.Cut(S, SEP)`
//     is strings.Split(S, SEP)[0], the text behind the first SEP and strings.Contains(S, SEP);
//   * the IPv6 tag of ValidateDomainPart is found by a small symbolic evaluation (vtEval) of the statements in front of
//     net.ParseIP, in ValidateDomainPart or the unexported helper it hands its parameter to.
// Every fact whose code shape is not recognised is emitted as none / false / a text no tie theorem accepts.

import (
	"fmt"
	"go/ast"
	"go/token"
	"os"
	"path"
	"path/filepath"
	"regexp"
	"sort"
	"strconv"
	"strings"
)

func init() { extractors = append(extractors, extractAddr2) }

var addr2HandlerDirs = []string{"pkg/rest", "pkg/webui"}

var addr2RouteFiles = []string{"pkg/rest/routes.go", "pkg/webui/routes.go"}

func leanBool(b bool) string {
	if b {
		return "true"
	}
	return "false"
}

func strLitVal(e ast.Expr) (string, bool) {
	lit, ok := e.(*ast.BasicLit)
	if !ok || lit.Kind != token.STRING {
		return "", false
	}
	s, err := strconv.Unquote(lit.Value)
	if err != nil {
		return "", false
	}
	return s, true
}

func addr2PairList(rows [][2]string) string {
	p := []string{}
	for _, r := range rows {
		p = append(p, "("+leanStr(r[0])+", "+leanStr(r[1])+")")
	}
	return "[" + strings.Join(p, ", ") + "]"
}

func optStrNat(s string, n int, ok bool) string {
	if !ok {
		return "none"
	}
	return fmt.Sprintf("some (%s, %d)", leanStr(s), n)
}

func optBytes(s string, ok bool) string {
	if !ok {
		return "none"
	}
	return "some " + byteList(s)
}

// ------------------------------------------------------------------------------------------------ package view

type addrPkg struct {
	rel     string
	broken  bool
	files   []*ast.File
	names   []string // repo-relative file names, parallel to files
	funcs   map[string]*ast.FuncDecl
	methods map[string]*ast.FuncDecl // "Type.method"
	consts  map[string]*ast.BasicLit
	fileOf  map[*ast.FuncDecl]*ast.File
	relOf   map[*ast.FuncDecl]string
}

var addrPkgCache = map[string]*addrPkg{}

func addrRecvType(fd *ast.FuncDecl) string {
	if fd.Recv == nil || len(fd.Recv.List) != 1 {
		return ""
	}
	t := fd.Recv.List[0].Type
	if s, ok := t.(*ast.StarExpr); ok {
		t = s.X
	}
	if id, ok := t.(*ast.Ident); ok {
		return id.Name
	}
	return ""
}

// addrLoadPkg parses every non-test, non-hook .go file of one directory.
func addrLoadPkg(rel string) *addrPkg {
	if p, ok := addrPkgCache[rel]; ok {
		return p
	}
	p := &addrPkg{rel: rel, funcs: map[string]*ast.FuncDecl{}, methods: map[string]*ast.FuncDecl{},
		consts: map[string]*ast.BasicLit{}, fileOf: map[*ast.FuncDecl]*ast.File{}, relOf: map[*ast.FuncDecl]string{}}
	addrPkgCache[rel] = p
	ents, err := os.ReadDir(filepath.Join(repo, rel))
	if err != nil {
		p.broken = true
		return p
	}
	for _, e := range ents {
		n := e.Name()
		if e.IsDir() || !strings.HasSuffix(n, ".go") || strings.HasSuffix(n, "_test.go") || strings.HasPrefix(n, "verif_export") {
			continue
		}
		f := parse(rel + "/" + n)
		if f == nil {
			p.broken = true
			continue
		}
		p.files = append(p.files, f)
		p.names = append(p.names, rel+"/"+n)
		for _, d := range f.Decls {
			switch v := d.(type) {
			case *ast.FuncDecl:
				if v.Recv == nil {
					p.funcs[v.Name.Name] = v
				} else {
					p.methods[addrRecvType(v)+"."+v.Name.Name] = v
				}
				p.fileOf[v] = f
				p.relOf[v] = rel + "/" + n
			case *ast.GenDecl:
				if v.Tok != token.CONST {
					continue
				}
				for _, sp := range v.Specs {
					vs, ok := sp.(*ast.ValueSpec)
					if !ok || len(vs.Names) != len(vs.Values) {
						continue
					}
					for i, nm := range vs.Names {
						if lit, ok := vs.Values[i].(*ast.BasicLit); ok {
							p.consts[nm.Name] = lit
						}
					}
				}
			}
		}
	}
	return p
}

// addrImports: local name -> canonical name (last element of the import path).
func addrImports(f *ast.File) map[string]string {
	m := map[string]string{}
	if f == nil {
		return m
	}
	for _, im := range f.Imports {
		p, ok := strLitVal(im.Path)
		if !ok {
			continue
		}
		canon := path.Base(p)
		local := canon
		if im.Name != nil {
			local = im.Name.Name
		}
		if local == "_" || local == "." {
			continue
		}
		m[local] = canon
	}
	return m
}

// addrTypes flattens a field list into one type text per declared name.
func addrTypes(fl *ast.FieldList) []string {
	var r []string
	if fl == nil {
		return r
	}
	for _, f := range fl.List {
		n := len(f.Names)
		if n == 0 {
			n = 1
		}
		for i := 0; i < n; i++ {
			r = append(r, src(f.Type))
		}
	}
	return r
}

func addrParamNames(fl *ast.FieldList) []string {
	var r []string
	if fl == nil {
		return r
	}
	for _, f := range fl.List {
		if len(f.Names) == 0 {
			r = append(r, "_")
		}
		for _, n := range f.Names {
			r = append(r, n.Name)
		}
	}
	return r
}

func addrSigIs(fd *ast.FuncDecl, params, results []string) bool {
	if fd == nil {
		return false
	}
	eq := func(a, b []string) bool {
		if len(a) != len(b) {
			return false
		}
		for i := range a {
			if a[i] != b[i] {
				return false
			}
		}
		return true
	}
	return eq(addrTypes(fd.Type.Params), params) && eq(addrTypes(fd.Type.Results), results)
}

// addrCallee: the plain function of the same package a call goes to (nil when it is anything else).
func addrCallee(p *addrPkg, ce *ast.CallExpr) *ast.FuncDecl {
	id, ok := ce.Fun.(*ast.Ident)
	if !ok {
		return nil
	}
	if id.Obj != nil && id.Obj.Kind != ast.Fun {
		return nil
	}
	return p.funcs[id.Name]
}

// addrClosure: fd and the plain same-package functions it calls, two levels deep.
func addrClosure(p *addrPkg, fd *ast.FuncDecl) []*ast.FuncDecl {
	if fd == nil {
		return nil
	}
	res := []*ast.FuncDecl{fd}
	seen := map[*ast.FuncDecl]bool{fd: true}
	level := []*ast.FuncDecl{fd}
	for d := 0; d < 2; d++ {
		var next []*ast.FuncDecl
		for _, f := range level {
			if f.Body == nil {
				continue
			}
			ast.Inspect(f.Body, func(n ast.Node) bool {
				if ce, ok := n.(*ast.CallExpr); ok {
					if c := addrCallee(p, ce); c != nil && !seen[c] {
						seen[c] = true
						res = append(res, c)
						next = append(next, c)
					}
				}
				return true
			})
		}
		level = next
	}
	return res
}

// ------------------------------------------------------------------------------------------------ canonical rendering

type addrAliasDef struct {
	rhs  ast.Expr
	pos  token.Pos
	free []string
	// only: when set, the alias stands for rhs only at positions inside one of these ranges (result 0 of
	// strings.CutPrefix is the tail only where result 1 is known to be true)
	restricted bool
	only       [][2]token.Pos
}

func (a *addrAliasDef) validAt(at token.Pos) bool {
	if at <= a.pos {
		return false
	}
	if !a.restricted {
		return true
	}
	for _, r := range a.only {
		if r[0] <= at && at < r[1] {
			return true
		}
	}
	return false
}

// addrEnv: how the identifiers of one function are printed.
type addrEnv struct {
	pkg     *addrPkg
	fd      *ast.FuncDecl
	imports map[string]string
	subst   map[string]string        // identifier -> placeholder
	alias   map[string]*addrAliasDef // single-assignment local -> defining expression
	assigns map[string][]token.Pos   // every position where a local is (re)assigned, declared, ranged over or has its address taken
}

func addrFreeIdents(e ast.Expr) []string {
	var r []string
	ast.Inspect(e, func(n ast.Node) bool {
		switch v := n.(type) {
		case *ast.SelectorExpr:
			ast.Inspect(v.X, func(m ast.Node) bool {
				if id, ok := m.(*ast.Ident); ok {
					r = append(r, id.Name)
				}
				return true
			})
			return false
		case *ast.Ident:
			r = append(r, v.Name)
		}
		return true
	})
	return r
}

func addrNewEnv(p *addrPkg, fd *ast.FuncDecl) *addrEnv {
	e := &addrEnv{pkg: p, fd: fd, imports: addrImports(p.fileOf[fd]), subst: map[string]string{},
		alias: map[string]*addrAliasDef{}, assigns: map[string][]token.Pos{}}
	if fd.Recv != nil && len(fd.Recv.List) == 1 && len(fd.Recv.List[0].Names) == 1 {
		e.subst[fd.Recv.List[0].Names[0].Name] = "$recv"
	}
	for i, n := range addrParamNames(fd.Type.Params) {
		if n != "_" {
			e.subst[n] = fmt.Sprintf("$p%d", i)
		}
	}
	if fd.Body == nil {
		return e
	}
	note := func(x ast.Expr, at token.Pos) {
		if id, ok := x.(*ast.Ident); ok && id.Name != "_" {
			e.assigns[id.Name] = append(e.assigns[id.Name], at)
		}
	}
	var cands, cuts []*ast.AssignStmt
	ast.Inspect(fd.Body, func(n ast.Node) bool {
		switch v := n.(type) {
		case *ast.AssignStmt:
			for _, l := range v.Lhs {
				note(l, v.Pos())
			}
			if v.Tok == token.DEFINE && len(v.Lhs) == 1 && len(v.Rhs) == 1 {
				cands = append(cands, v)
			}
			if v.Tok == token.DEFINE && (len(v.Lhs) == 2 || len(v.Lhs) == 3) && len(v.Rhs) == 1 {
				cuts = append(cuts, v)
			}
		case *ast.IncDecStmt:
			note(v.X, v.Pos())
		case *ast.RangeStmt:
			if v.Key != nil {
				note(v.Key, v.Pos())
			}
			if v.Value != nil {
				note(v.Value, v.Pos())
			}
		case *ast.UnaryExpr:
			if v.Op == token.AND {
				note(v.X, v.Pos())
			}
		case *ast.DeclStmt:
			if gd, ok := v.Decl.(*ast.GenDecl); ok {
				for _, sp := range gd.Specs {
					if vs, ok := sp.(*ast.ValueSpec); ok {
						for _, nm := range vs.Names {
							note(nm, v.Pos())
						}
					}
				}
			}
		}
		return true
	})
	e.cutAliases(cuts)
	for _, as := range cands {
		id, ok := as.Lhs[0].(*ast.Ident)
		if !ok || id.Name == "_" || len(e.assigns[id.Name]) != 1 || e.subst[id.Name] != "" {
			continue
		}
		if e.pure(as.Rhs[0]) {
			e.alias[id.Name] = &addrAliasDef{rhs: as.Rhs[0], pos: as.Pos(), free: addrFreeIdents(as.Rhs[0])}
		}
	}
	return e
}

// cutAliases: `T, OK := strings.CutPrefix(S, LIT)` (both defined here and never written again, LIT a string literal or
// constant) is the Go 1.20 spelling of `strings.HasPrefix(S, LIT)` and `S[len(LIT):]`: OK is printed as the former
// everywhere, T as the latter inside the body of an `if OK { … }` (elsewhere T keeps its name, which no tie accepts).
func (e *addrEnv) cutAliases(cuts []*ast.AssignStmt) {
	for _, as := range cuts {
		ce, ok := as.Rhs[0].(*ast.CallExpr)
		if !ok || len(ce.Args) != 2 {
			continue
		}
		se, ok := ce.Fun.(*ast.SelectorExpr)
		if !ok || (se.Sel.Name != "CutPrefix" && se.Sel.Name != "Cut") {
			continue
		}
		pk, ok := se.X.(*ast.Ident)
		if !ok || e.imports[pk.Name] != "strings" || e.isLocal(pk) {
			continue
		}
		if se.Sel.Name == "Cut" {
			e.cutAlias3(as, ce, pk)
			continue
		}
		if len(as.Lhs) != 2 {
			continue
		}
		lit := e.constLit(ce.Args[1])
		if lit == nil || lit.Kind != token.STRING || !e.pure(ce.Args[0]) {
			continue
		}
		text, err := strconv.Unquote(lit.Value)
		if err != nil {
			continue
		}
		tail, ok0 := as.Lhs[0].(*ast.Ident)
		found, ok1 := as.Lhs[1].(*ast.Ident)
		if !ok0 || !ok1 || found.Name == "_" || len(e.assigns[found.Name]) != 1 || e.subst[found.Name] != "" {
			continue
		}
		free := addrFreeIdents(ce.Args[0])
		e.alias[found.Name] = &addrAliasDef{pos: as.Pos(), free: free,
			rhs: &ast.CallExpr{Fun: &ast.SelectorExpr{X: pk, Sel: ast.NewIdent("HasPrefix")}, Args: []ast.Expr{ce.Args[0], ce.Args[1]}}}
		if tail.Name == "_" || len(e.assigns[tail.Name]) != 1 || e.subst[tail.Name] != "" {
			continue
		}
		def := &addrAliasDef{pos: as.Pos(), free: free, restricted: true,
			rhs: &ast.SliceExpr{X: ce.Args[0], Low: &ast.BasicLit{Kind: token.INT, Value: strconv.Itoa(len(text))}}}
		isFound := func(x ast.Expr) bool {
			id, ok := addrStrip(x).(*ast.Ident)
			return ok && id.Name == found.Name
		}
		ast.Inspect(e.fd.Body, func(n ast.Node) bool {
			switch v := n.(type) {
			case *ast.IfStmt:
				if (v.Init == ast.Stmt(as) || v.Pos() > as.Pos()) && isFound(v.Cond) {
					def.only = append(def.only, [2]token.Pos{v.Body.Pos(), v.Body.End()})
				}
			case *ast.BlockStmt:
				// `if !OK { …; return … }` without else: OK holds in the rest of the block
				for _, st := range v.List {
					is, ok := st.(*ast.IfStmt)
					if !ok || is.Else != nil || is.Pos() < as.Pos() || !addrAlwaysExits(is.Body.List) {
						continue
					}
					if u, ok := addrStrip(is.Cond).(*ast.UnaryExpr); ok && u.Op == token.NOT && isFound(u.X) {
						def.only = append(def.only, [2]token.Pos{is.End(), v.End()})
					}
				}
			}
			return true
		})
		e.alias[tail.Name] = def
	}
}

// cutAlias3: `A, B, F := strings.Cut(S, SEP)` (SEP a non-empty string literal or constant; every named result defined
// here and never written again) in terms of the older spellings: A is strings.Split(S, SEP)[0] (the text in front of the
// first SEP, all of S when there is none), F is strings.Contains(S, SEP), and B — the text behind the first SEP, "" when
// there is none — is printed as the pure pseudo-call strings.$CutAfter(S, SEP).
func (e *addrEnv) cutAlias3(as *ast.AssignStmt, ce *ast.CallExpr, pk *ast.Ident) {
	if len(as.Lhs) != 3 {
		return
	}
	lit := e.constLit(ce.Args[1])
	if lit == nil || lit.Kind != token.STRING || lit.Value == `""` || lit.Value == "``" || !e.pure(ce.Args[0]) {
		return
	}
	free := addrFreeIdents(ce.Args[0])
	call := func(name string) ast.Expr {
		return &ast.CallExpr{Fun: &ast.SelectorExpr{X: pk, Sel: ast.NewIdent(name)}, Args: []ast.Expr{ce.Args[0], ce.Args[1]}}
	}
	rhs := []ast.Expr{
		&ast.IndexExpr{X: call("Split"), Index: &ast.BasicLit{Kind: token.INT, Value: "0"}},
		call("$CutAfter"),
		call("Contains"),
	}
	for i, l := range as.Lhs {
		id, ok := l.(*ast.Ident)
		if !ok || id.Name == "_" || len(e.assigns[id.Name]) != 1 || e.subst[id.Name] != "" {
			continue
		}
		e.alias[id.Name] = &addrAliasDef{pos: as.Pos(), free: free, rhs: rhs[i]}
	}
}

// pure: literals, identifiers, selectors, index / slice expressions, operators, len / conversions, strings.* calls and
// calls of plain functions of the same package.
func (e *addrEnv) pure(x ast.Expr) bool {
	ok := true
	ast.Inspect(x, func(n ast.Node) bool {
		switch v := n.(type) {
		case *ast.FuncLit, *ast.CompositeLit, *ast.TypeAssertExpr:
			ok = false
		case *ast.UnaryExpr:
			if v.Op == token.AND || v.Op == token.ARROW {
				ok = false
			}
		case *ast.CallExpr:
			switch f := v.Fun.(type) {
			case *ast.Ident:
				switch f.Name {
				case "len", "string", "byte", "rune", "int":
				default:
					if addrCallee(e.pkg, v) == nil {
						ok = false
					}
				}
			case *ast.SelectorExpr:
				id, isID := f.X.(*ast.Ident)
				if !isID || e.imports[id.Name] != "strings" || e.isLocal(id) {
					ok = false
				}
			default:
				ok = false
			}
		}
		return ok
	})
	return ok
}

func (e *addrEnv) isLocal(id *ast.Ident) bool {
	if _, ok := e.subst[id.Name]; ok {
		return true
	}
	if _, ok := e.assigns[id.Name]; ok {
		return true
	}
	return id.Obj != nil && (id.Obj.Kind == ast.Var)
}

func (e *addrEnv) assignedBetween(name string, from, to token.Pos) bool {
	for _, p := range e.assigns[name] {
		if p > from && p < to {
			return true
		}
	}
	return false
}

func addrStrip(x ast.Expr) ast.Expr {
	for {
		p, ok := x.(*ast.ParenExpr)
		if !ok {
			return x
		}
		x = p.X
	}
}

func addrNot(x ast.Expr) ast.Expr { return &ast.UnaryExpr{Op: token.NOT, X: &ast.ParenExpr{X: x}} }

var addrFlip = map[token.Token]token.Token{token.EQL: token.EQL, token.NEQ: token.NEQ, token.LSS: token.GTR, token.GTR: token.LSS, token.LEQ: token.GEQ, token.GEQ: token.LEQ}
var addrNeg = map[token.Token]token.Token{token.EQL: token.NEQ, token.NEQ: token.EQL, token.LSS: token.GEQ, token.GEQ: token.LSS, token.GTR: token.LEQ, token.LEQ: token.GTR}

func (e *addrEnv) constLit(x ast.Expr) *ast.BasicLit {
	switch v := addrStrip(x).(type) {
	case *ast.BasicLit:
		return v
	case *ast.Ident:
		if e.subst[v.Name] != "" || e.alias[v.Name] != nil || len(e.assigns[v.Name]) > 0 {
			return nil
		}
		if v.Obj != nil && v.Obj.Kind != ast.Con {
			return nil
		}
		return e.pkg.consts[v.Name]
	}
	return nil
}

func (e *addrEnv) isLitLike(x ast.Expr) bool {
	x = addrStrip(x)
	if e.constLit(x) != nil {
		return true
	}
	if u, ok := x.(*ast.UnaryExpr); ok && u.Op == token.SUB {
		return e.constLit(u.X) != nil
	}
	return false
}

func addrLitText(l *ast.BasicLit) string {
	switch l.Kind {
	case token.STRING:
		if s, err := strconv.Unquote(l.Value); err == nil {
			return strconv.Quote(s)
		}
	case token.INT:
		if v, err := strconv.ParseInt(l.Value, 0, 64); err == nil {
			return strconv.FormatInt(v, 10)
		}
	}
	return l.Value
}

// render prints x canonically as it reads at position `at` (alias expansion is position sensitive).
func (e *addrEnv) render(x ast.Expr, at token.Pos) string { return e.r(x, at, 0, 0) }

func (e *addrEnv) r(x ast.Expr, at token.Pos, prec, depth int) string {
	if x == nil {
		return ""
	}
	switch v := x.(type) {
	case *ast.ParenExpr:
		return e.r(v.X, at, prec, depth)
	case *ast.BasicLit:
		return addrLitText(v)
	case *ast.Ident:
		if s, ok := e.subst[v.Name]; ok {
			return s
		}
		if a := e.alias[v.Name]; a != nil && depth < 8 && a.validAt(at) {
			usable := true
			for _, f := range a.free {
				if e.assignedBetween(f, a.pos, at) {
					usable = false
				}
			}
			if usable {
				return e.r(a.rhs, a.pos+1, prec, depth+1)
			}
		}
		if l := e.constLit(v); l != nil {
			return addrLitText(l)
		}
		return v.Name
	case *ast.BinaryExpr:
		p := v.Op.Precedence()
		X, Y, op := v.X, v.Y, v.Op
		if _, cmp := addrFlip[op]; cmp && e.isLitLike(X) && !e.isLitLike(Y) {
			X, Y, op = Y, X, addrFlip[op]
		}
		s := e.r(X, at, p, depth) + " " + op.String() + " " + e.r(Y, at, p+1, depth)
		if p < prec {
			return "(" + s + ")"
		}
		return s
	case *ast.UnaryExpr:
		if v.Op == token.NOT {
			switch in := addrStrip(v.X).(type) {
			case *ast.BinaryExpr:
				if n, ok := addrNeg[in.Op]; ok {
					return e.r(&ast.BinaryExpr{X: in.X, Op: n, Y: in.Y}, at, prec, depth)
				}
			case *ast.UnaryExpr:
				if in.Op == token.NOT {
					return e.r(in.X, at, prec, depth)
				}
			}
		}
		return v.Op.String() + e.r(v.X, at, 6, depth)
	case *ast.CallExpr:
		if id, ok := v.Fun.(*ast.Ident); ok && id.Name == "len" && len(v.Args) == 1 {
			if l := e.constLit(v.Args[0]); l != nil && l.Kind == token.STRING {
				if s, err := strconv.Unquote(l.Value); err == nil {
					return strconv.Itoa(len(s))
				}
			}
		}
		args := []string{}
		for _, a := range v.Args {
			args = append(args, e.r(a, at, 0, depth))
		}
		s := e.r(v.Fun, at, 6, depth) + "(" + strings.Join(args, ", ")
		if v.Ellipsis.IsValid() {
			s += "..."
		}
		return s + ")"
	case *ast.SelectorExpr:
		if id, ok := v.X.(*ast.Ident); ok && !e.isLocal(id) && e.alias[id.Name] == nil {
			if c, ok := e.imports[id.Name]; ok {
				return c + "." + v.Sel.Name
			}
		}
		return e.r(v.X, at, 6, depth) + "." + v.Sel.Name
	case *ast.IndexExpr:
		return e.r(v.X, at, 6, depth) + "[" + e.r(v.Index, at, 0, depth) + "]"
	case *ast.SliceExpr:
		s := e.r(v.X, at, 6, depth) + "[" + e.r(v.Low, at, 0, depth) + ":" + e.r(v.High, at, 0, depth)
		if v.Slice3 {
			s += ":" + e.r(v.Max, at, 0, depth)
		}
		return s + "]"
	case *ast.StarExpr:
		return "*" + e.r(v.X, at, 6, depth)
	}
	return "?{" + src(x) + "}"
}

// addrOrLeaves flattens `a || b || c` (any nesting, parentheses) and `!(a && b)` into the list of disjuncts, in
// evaluation order.
func addrOrLeaves(x ast.Expr) []ast.Expr {
	switch v := x.(type) {
	case *ast.ParenExpr:
		return addrOrLeaves(v.X)
	case *ast.BinaryExpr:
		if v.Op == token.LOR {
			return append(addrOrLeaves(v.X), addrOrLeaves(v.Y)...)
		}
	case *ast.UnaryExpr:
		if v.Op == token.NOT {
			switch in := addrStrip(v.X).(type) {
			case *ast.BinaryExpr:
				if in.Op == token.LAND {
					return append(addrOrLeaves(addrNot(in.X)), addrOrLeaves(addrNot(in.Y))...)
				}
			case *ast.UnaryExpr:
				if in.Op == token.NOT {
					return addrOrLeaves(in.X)
				}
			}
		}
	}
	return []ast.Expr{x}
}

// ------------------------------------------------------------------------------------------------ guarded-exit normal form

const (
	addrEvExit = iota
	addrEvAssign
	addrEvOther
)

// addrEv: one step of the flattened body.  exit = "if any of `leaves` holds (always, when there are none) run `pre`
// and return `ret`"; assign = an assignment statement executed unconditionally; other = anything else (opaque).
type addrEv struct {
	kind   int
	leaves []ast.Expr
	ret    *ast.ReturnStmt
	as     *ast.AssignStmt
	node   ast.Node
	at     token.Pos // position the guard is evaluated at
	end    token.Pos
	deflt  bool
}

// addrTerminates: the block is `call(); call(); return …`.
func addrTerminates(list []ast.Stmt) *ast.ReturnStmt {
	if len(list) == 0 {
		return nil
	}
	for _, s := range list[:len(list)-1] {
		if _, ok := s.(*ast.ExprStmt); !ok {
			return nil
		}
	}
	r, _ := list[len(list)-1].(*ast.ReturnStmt)
	return r
}

func addrSimple(s ast.Stmt) []addrEv {
	if s == nil {
		return nil
	}
	if as, ok := s.(*ast.AssignStmt); ok {
		return []addrEv{{kind: addrEvAssign, as: as, node: as, at: as.Pos(), end: as.End()}}
	}
	return []addrEv{{kind: addrEvOther, node: s, at: s.Pos(), end: s.End()}}
}

func addrFlatten(list []ast.Stmt) []addrEv {
	var evs []addrEv
	for _, st := range list {
		switch v := st.(type) {
		case *ast.BlockStmt:
			evs = append(evs, addrFlatten(v.List)...)
		case *ast.ReturnStmt:
			evs = append(evs, addrEv{kind: addrEvExit, ret: v, node: v, at: v.Pos(), end: v.End()})
		case *ast.AssignStmt:
			evs = append(evs, addrSimple(v)...)
		case *ast.IfStmt:
			evs = append(evs, addrFlattenIf(v)...)
		case *ast.SwitchStmt:
			evs = append(evs, addrFlattenSwitch(v)...)
		default:
			evs = append(evs, addrSimple(st)...)
		}
	}
	return evs
}

func addrFlattenIf(v *ast.IfStmt) []addrEv {
	evs := addrSimple(v.Init)
	if r := addrTerminates(v.Body.List); r != nil {
		evs = append(evs, addrEv{kind: addrEvExit, leaves: addrOrLeaves(v.Cond), ret: r, node: v, at: v.Cond.Pos(), end: v.Body.End()})
		switch el := v.Else.(type) {
		case *ast.BlockStmt:
			evs = append(evs, addrFlatten(el.List)...)
		case *ast.IfStmt:
			evs = append(evs, addrFlattenIf(el)...)
		}
		return evs
	}
	if el, ok := v.Else.(*ast.BlockStmt); ok {
		if r := addrTerminates(el.List); r != nil {
			// `if C { S } else { return R }` is `if !C { return R }; S`
			evs = append(evs, addrEv{kind: addrEvExit, leaves: addrOrLeaves(addrNot(v.Cond)), ret: r, node: v, at: v.Cond.Pos(), end: v.Cond.End()})
			return append(evs, addrFlatten(v.Body.List)...)
		}
	}
	return append(evs, addrEv{kind: addrEvOther, node: v, at: v.Pos(), end: v.End()})
}

func addrFlattenSwitch(v *ast.SwitchStmt) []addrEv {
	opaque := append(addrSimple(v.Init), addrEv{kind: addrEvOther, node: v, at: v.Pos(), end: v.End()})
	evs := addrSimple(v.Init)
	var deflt, long *ast.CaseClause
	emptySeen := false
	for _, cs := range v.Body.List {
		cc, ok := cs.(*ast.CaseClause)
		if !ok {
			return opaque
		}
		if cc.List == nil {
			deflt = cc
			continue
		}
		if len(cc.Body) == 0 {
			emptySeen = true
			continue
		}
		r := addrTerminates(cc.Body)
		if r == nil && v.Tag != nil && long == nil && !emptySeen && len(cc.List) == 1 && addrAlwaysExits(cc.Body) {
			// one clause of a tag switch may be a longer block that always returns: see below
			long = cc
			continue
		}
		if r == nil || (emptySeen && v.Tag == nil) {
			return opaque
		}
		var leaves []ast.Expr
		for _, val := range cc.List {
			if v.Tag != nil {
				leaves = append(leaves, &ast.BinaryExpr{X: v.Tag, Op: token.EQL, Y: val})
			} else {
				leaves = append(leaves, addrOrLeaves(val)...)
			}
		}
		evs = append(evs, addrEv{kind: addrEvExit, leaves: leaves, ret: r, node: cc, at: cc.Pos(), end: cc.End()})
	}
	if long != nil {
		// `switch T { case A: return a; case B: <block that always returns>; default: return d }` is
		// `if T == A { return a }; if T != B { return d }; <block>` (case values are constants: the clauses exclude each other)
		if emptySeen || deflt == nil || len(long.List) != 1 {
			return opaque
		}
		r := addrTerminates(deflt.Body)
		if r == nil {
			return opaque
		}
		evs = append(evs, addrEv{kind: addrEvExit, leaves: []ast.Expr{&ast.BinaryExpr{X: v.Tag, Op: token.NEQ, Y: long.List[0]}}, ret: r, node: deflt, at: deflt.Pos(), end: deflt.End()})
		return append(evs, addrFlatten(long.Body)...)
	}
	if deflt != nil && len(deflt.Body) > 0 {
		r := addrTerminates(deflt.Body)
		if r == nil {
			return opaque
		}
		evs = append(evs, addrEv{kind: addrEvExit, leaves: []ast.Expr{ast.NewIdent("$default")}, ret: r, node: deflt, at: deflt.Pos(), end: deflt.End(), deflt: true})
	}
	return evs
}

// addrAlwaysExits: the statement list ends in a return and holds no break / continue / goto / fallthrough / label, so
// control cannot leave it any other way than by returning (it is used for the body of one switch clause).
func addrAlwaysExits(list []ast.Stmt) bool {
	if len(list) == 0 {
		return false
	}
	if _, ok := list[len(list)-1].(*ast.ReturnStmt); !ok {
		return false
	}
	ok := true
	for _, s := range list {
		ast.Inspect(s, func(n ast.Node) bool {
			switch n.(type) {
			case *ast.BranchStmt, *ast.LabeledStmt:
				ok = false
			case *ast.FuncLit:
				return false
			}
			return ok
		})
	}
	return ok
}

// addrReturns: every return statement of the body outside function literals.
func addrReturns(body *ast.BlockStmt) []*ast.ReturnStmt {
	var r []*ast.ReturnStmt
	ast.Inspect(body, func(n ast.Node) bool {
		switch v := n.(type) {
		case *ast.FuncLit:
			return false
		case *ast.ReturnStmt:
			r = append(r, v)
		}
		return true
	})
	return r
}

func (e *addrEnv) leafTexts(ev addrEv) []string {
	var r []string
	for _, l := range ev.leaves {
		r = append(r, e.render(l, ev.at))
	}
	return r
}

func (e *addrEnv) resultTexts(r *ast.ReturnStmt) []string {
	var t []string
	for _, x := range r.Results {
		t = append(t, e.render(x, r.Pos()))
	}
	return t
}

// isAliasDef: the event is the `x := pure` definition of an expanded alias (invisible in the normal form).
func (e *addrEnv) isAliasDef(ev addrEv) bool {
	if ev.kind != addrEvAssign || ev.as.Tok != token.DEFINE {
		return false
	}
	if len(ev.as.Lhs) >= 2 {
		// `T, OK := strings.CutPrefix(S, LIT)` / `A, B, F := strings.Cut(S, SEP)`: every result that has a name must have become an alias
		n := 0
		for _, l := range ev.as.Lhs {
			id, ok := l.(*ast.Ident)
			if !ok {
				return false
			}
			if id.Name == "_" {
				continue
			}
			if a := e.alias[id.Name]; a == nil || a.pos != ev.as.Pos() {
				return false
			}
			n++
		}
		return n > 0
	}
	if len(ev.as.Lhs) != 1 {
		return false
	}
	id, ok := ev.as.Lhs[0].(*ast.Ident)
	return ok && e.alias[id.Name] != nil && e.alias[id.Name].pos == ev.as.Pos()
}

// isNoise: alias definitions and expression statements (logging …) cannot change a local string.
func (e *addrEnv) isNoise(ev addrEv) bool {
	if e.isAliasDef(ev) {
		return true
	}
	if ev.kind == addrEvOther {
		_, ok := ev.node.(*ast.ExprStmt)
		return ok
	}
	return false
}

// ------------------------------------------------------------------------------------------------ pkg/policy: ExtractMailbox

type addrPolicy struct {
	pkg                                   *addrPkg
	extract, parser, nameParser, domExtr  *ast.FuncDecl
	canon, validate                       *ast.FuncDecl
	dispatchOK, posOK, atomsOK, guardedOK bool
	atoms, conds                          []string
	fullRet, domRet                       *string
}

var addrStrRes = []string{"string", "error"}

// addrShapeAtom: the closed vocabulary of name-shape conditions (subject $x); anything else stays as its text.
// The bool says whether the condition indexes $x (and so needs the emptiness test before it).
func addrShapeAtom(c string) (string, bool) {
	switch c {
	case `$x == ""`, `len($x) == 0`, `len($x) < 1`:
		return "empty", false
	case `$x[0] == '.'`:
		return "leadDot", true
	case `strings.HasPrefix($x, ".")`:
		return "leadDot", false
	case `$x[len($x) - 1] == '.'`:
		return "trailDot", true
	case `strings.HasSuffix($x, ".")`:
		return "trailDot", false
	case `strings.Contains($x, "..")`, `strings.Index($x, "..") >= 0`, `strings.Index($x, "..") != -1`, `strings.Index($x, "..") > -1`:
		return "dotDot", false
	}
	return c, false
}

// addrInlineBool: leaf is `h($x)` with h an unexported (string) bool helper: the disjuncts under which h is true.
func (p *addrPolicy) addrInlineBool(env *addrEnv, leaf ast.Expr, at token.Pos) ([]string, bool) {
	ce, ok := addrStrip(leaf).(*ast.CallExpr)
	if !ok || len(ce.Args) != 1 || env.render(ce.Args[0], at) != "$x" {
		return nil, false
	}
	h := addrCallee(p.pkg, ce)
	if h == nil || h.Body == nil || !addrSigIs(h, []string{"string"}, []string{"bool"}) {
		return nil, false
	}
	he := addrNewEnv(p.pkg, h)
	he.subst[addrParamNames(h.Type.Params)[0]] = "$x"
	evs := addrFlatten(h.Body.List)
	var out []string
	for i, ev := range evs {
		if he.isNoise(ev) {
			continue
		}
		if ev.kind != addrEvExit || len(ev.ret.Results) != 1 {
			return nil, false
		}
		res := he.render(ev.ret.Results[0], ev.ret.Pos())
		if len(ev.leaves) > 0 {
			if res != "true" {
				return nil, false
			}
			out = append(out, he.leafTexts(ev)...)
			continue
		}
		if i != len(evs)-1 {
			return nil, false
		}
		if res != "false" {
			for _, l := range addrOrLeaves(ev.ret.Results[0]) {
				out = append(out, he.render(l, ev.ret.Pos()))
			}
		}
	}
	return out, true
}

// addrInlineErr: h is an unexported (string) error helper made of `if C { return <error> }` … `return nil`.
func (p *addrPolicy) addrInlineErr(h *ast.FuncDecl) ([]string, bool) {
	if h == nil || h.Body == nil || !addrSigIs(h, []string{"string"}, []string{"error"}) {
		return nil, false
	}
	he := addrNewEnv(p.pkg, h)
	he.subst[addrParamNames(h.Type.Params)[0]] = "$x"
	evs := addrFlatten(h.Body.List)
	var out []string
	for i, ev := range evs {
		if he.isNoise(ev) {
			continue
		}
		if ev.kind != addrEvExit || len(ev.ret.Results) != 1 {
			return nil, false
		}
		res := he.render(ev.ret.Results[0], ev.ret.Pos())
		if len(ev.leaves) > 0 {
			if res == "nil" {
				return nil, false
			}
			out = append(out, he.leafTexts(ev)...)
			continue
		}
		if i != len(evs)-1 || res != "nil" {
			return nil, false
		}
	}
	return out, true
}

func addrAnalysePolicy() *addrPolicy {
	p := &addrPolicy{pkg: addrLoadPkg("pkg/policy")}
	pk := p.pkg
	p.validate = pk.funcs["ValidateDomainPart"]
	fd := pk.methods["Addressing.ExtractMailbox"]
	p.extract = fd
	if fd == nil || fd.Body == nil || !addrSigIs(fd, []string{"string"}, addrStrRes) {
		return p
	}
	env := addrNewEnv(pk, fd)
	evs := addrFlatten(fd.Body.List)
	i := 0
	skip := func() {
		for i < len(evs) && env.isNoise(evs[i]) {
			i++
		}
	}
	rejecting := func(r *ast.ReturnStmt) bool {
		if r == nil || len(r.Results) != 2 {
			return false
		}
		t := env.resultTexts(r)
		return t[0] == `""` && t[1] != "nil"
	}

	// 1. the first thing ExtractMailbox does: domain naming goes to the domain extractor
	var dispatchRet *ast.ReturnStmt
	skip()
	if i < len(evs) && evs[i].kind == addrEvExit && len(evs[i].leaves) == 1 && len(evs[i].ret.Results) == 1 &&
		env.leafTexts(evs[i])[0] == "$recv.Config.MailboxNaming == config.DomainNaming" {
		if ce, ok := evs[i].ret.Results[0].(*ast.CallExpr); ok && len(ce.Args) == 1 && env.render(ce.Args[0], ce.Pos()) == "$p0" {
			if c := addrCallee(pk, ce); c != nil && c.Body != nil && addrSigIs(c, []string{"string"}, addrStrRes) {
				p.dispatchOK, p.domExtr, dispatchRet = true, c, evs[i].ret
				i++
			}
		}
	}

	// 2. `L, D, err := <raw parser>($p0)`, then `X, E := <name parser>(L)`
	subject, errName := "", ""
	var nameAssign *ast.AssignStmt
	local := ""
	parserAt := token.NoPos
	for ; i < len(evs); i++ {
		ev := evs[i]
		if ev.kind != addrEvAssign || len(ev.as.Rhs) != 1 {
			continue
		}
		ce, ok := ev.as.Rhs[0].(*ast.CallExpr)
		if !ok || len(ce.Args) != 1 {
			continue
		}
		c := addrCallee(pk, ce)
		if c == nil {
			continue
		}
		if p.parser == nil {
			if len(ev.as.Lhs) == 3 && addrSigIs(c, []string{"string"}, []string{"string", "string", "error"}) && env.render(ce.Args[0], ce.Pos()) == "$p0" {
				l, ok0 := ev.as.Lhs[0].(*ast.Ident)
				d, ok1 := ev.as.Lhs[1].(*ast.Ident)
				if ok0 && ok1 && l.Name != "_" {
					p.parser, local, parserAt = c, l.Name, ev.at
					if d.Name != "_" {
						env.subst[d.Name] = "$dom"
					}
				}
			}
			continue
		}
		if len(ev.as.Lhs) == 2 && addrSigIs(c, []string{"string"}, addrStrRes) {
			a, okA := ce.Args[0].(*ast.Ident)
			x, okX := ev.as.Lhs[0].(*ast.Ident)
			er, okE := ev.as.Lhs[1].(*ast.Ident)
			if okA && okX && okE && a.Name == local && x.Name != "_" && er.Name != "_" && !env.assignedBetween(local, parserAt, ev.at) {
				p.nameParser, subject, errName, nameAssign = c, x.Name, er.Name, ev.as
				i++
				break
			}
		}
	}
	if nameAssign == nil {
		return p
	}
	// the subject keeps its value from here on
	if env.assignedBetween(subject, nameAssign.Pos(), fd.Body.End()) {
		return p
	}
	delete(env.alias, subject)
	env.subst[subject] = "$x"

	// 3. the parser's error is returned, then come the rejecting name-shape conditions
	skip()
	if !(i < len(evs) && evs[i].kind == addrEvExit && rejecting(evs[i].ret) && len(evs[i].leaves) == 1 && env.leafTexts(evs[i])[0] == errName+" != nil") {
		return p
	}
	i++
	shapeEnd := token.NoPos
	for ; i < len(evs); i++ {
		ev := evs[i]
		if env.isNoise(ev) {
			continue
		}
		if ev.kind == addrEvAssign && len(ev.as.Lhs) == 1 && len(ev.as.Rhs) == 1 && i+1 < len(evs) {
			// `if err := checkShape(X); err != nil { return "", err }`
			ce, isCall := ev.as.Rhs[0].(*ast.CallExpr)
			id, isID := ev.as.Lhs[0].(*ast.Ident)
			nx := evs[i+1]
			if isCall && isID && len(ce.Args) == 1 && env.render(ce.Args[0], ev.at) == "$x" && nx.kind == addrEvExit && rejecting(nx.ret) &&
				len(nx.leaves) == 1 && env.leafTexts(nx)[0] == id.Name+" != nil" {
				if cs, good := p.addrInlineErr(addrCallee(pk, ce)); good {
					p.conds = append(p.conds, cs...)
					shapeEnd = nx.end
					i++
					continue
				}
			}
			break
		}
		if ev.kind != addrEvExit || len(ev.leaves) == 0 || !rejecting(ev.ret) {
			break
		}
		for k, l := range ev.leaves {
			if cs, good := p.addrInlineBool(env, l, ev.at); good {
				p.conds = append(p.conds, cs...)
			} else {
				p.conds = append(p.conds, env.leafTexts(ev)[k])
			}
		}
		shapeEnd = ev.end
	}
	if len(p.conds) > 0 {
		p.atomsOK, p.guardedOK = true, true
		seen := map[string]bool{}
		for _, c := range p.conds {
			a, idx := addrShapeAtom(c)
			if idx && !seen["empty"] {
				p.guardedOK = false
			}
			if !seen[a] {
				seen[a] = true
				p.atoms = append(p.atoms, a)
			}
		}
		sort.Strings(p.atoms)
	}

	// 4. position: nothing returns a name and nothing looks at local / full naming before the shape test is over;
	//    afterwards local naming returns the subject
	if p.atomsOK {
		pos := true
		for _, r := range addrReturns(fd.Body) {
			if r.Pos() < shapeEnd && r != dispatchRet && !rejecting(r) {
				pos = false
			}
		}
		ast.Inspect(fd.Body, func(n ast.Node) bool {
			if n == nil || n.Pos() >= shapeEnd {
				return false
			}
			if se, isSel := n.(*ast.SelectorExpr); isSel {
				if s := env.render(se, se.Pos()); s == "config.LocalNaming" || s == "config.FullNaming" {
					pos = false
				}
			}
			return true
		})
		localRet := false
		for _, ev := range evs {
			if ev.kind == addrEvExit && ev.at >= shapeEnd && len(ev.leaves) == 1 && env.leafTexts(ev)[0] == "$recv.Config.MailboxNaming == config.LocalNaming" {
				if t := env.resultTexts(ev.ret); len(t) == 2 && t[0] == "$x" && t[1] == "nil" {
					localRet = true
				}
			}
		}
		p.posOK = pos && localRet
	}

	// 5. the naming returns
	canonOf := func(pk *addrPkg, x ast.Expr) (*ast.FuncDecl, int) {
		var c *ast.FuncDecl
		n := 0
		ast.Inspect(x, func(m ast.Node) bool {
			if ce, isCall := m.(*ast.CallExpr); isCall {
				if f := addrCallee(pk, ce); f != nil && f.Body != nil && addrSigIs(f, []string{"string"}, []string{"string"}) {
					if c != f {
						n++
					}
					c = f
				}
			}
			return true
		})
		return c, n
	}
	success := func(e *addrEnv, body *ast.BlockStmt) []*ast.ReturnStmt {
		var out []*ast.ReturnStmt
		for _, r := range addrReturns(body) {
			if len(r.Results) == 2 && e.render(r.Results[1], r.Pos()) == "nil" {
				out = append(out, r)
			}
		}
		return out
	}
	var fullRets []*ast.ReturnStmt
	for _, r := range success(env, fd.Body) {
		if env.render(r.Results[0], r.Pos()) != "$x" {
			fullRets = append(fullRets, r)
		}
	}
	var domRets []*ast.ReturnStmt
	var denv *addrEnv
	if de := p.domExtr; de != nil {
		denv = addrNewEnv(pk, de)
		// $dom = the variable ValidateDomainPart vouches for
		var validated []string
		ast.Inspect(de.Body, func(n ast.Node) bool {
			if ce, isCall := n.(*ast.CallExpr); isCall && len(ce.Args) == 1 && p.validate != nil && addrCallee(pk, ce) == p.validate {
				if a, isA := ce.Args[0].(*ast.Ident); isA {
					validated = append(validated, a.Name)
				}
			}
			return true
		})
		if len(validated) == 1 {
			delete(denv.alias, validated[0])
			denv.subst[validated[0]] = "$dom"
		}
		domRets = success(denv, de.Body)
	}
	// $canon = the one (string) string helper the naming returns go through (the same one in both)
	var c1, c2 *ast.FuncDecl
	n1, n2 := 0, 0
	if len(fullRets) == 1 {
		c1, n1 = canonOf(pk, fullRets[0].Results[0])
	}
	if len(domRets) == 1 {
		c2, n2 = canonOf(pk, domRets[0].Results[0])
	}
	switch {
	case n1 == 1 && n2 == 1 && c1 == c2, n1 == 1 && n2 == 0:
		p.canon = c1
	case n1 == 0 && n2 == 1:
		p.canon = c2
	}
	if len(fullRets) == 1 {
		if p.canon != nil {
			env.subst[p.canon.Name.Name] = "$canon"
		}
		s := env.render(fullRets[0].Results[0], fullRets[0].Pos())
		p.fullRet = &s
	}
	if len(domRets) == 1 {
		if p.canon != nil {
			denv.subst[p.canon.Name.Name] = "$canon"
		}
		s := denv.render(domRets[0].Results[0], domRets[0].Pos())
		p.domRet = &s
	}
	return p
}

var (
	addrReHasPrefix = regexp.MustCompile(`^(!=|==)?strings\.HasPrefix\((\$p0(?:\[1:\])?), ("(?:[^"\\]|\\.)*")\)$`)
	addrReTagged    = regexp.MustCompile(`^("(?:[^"\\]|\\.)*") \+ strings\.ToLower\(\$p0\[(\d+):\]\)$`)
)

// addrCanonShape: canonicalDomain(d) is "LIT + lower(d[N:]) when d starts with LIT, lower(d) otherwise" in any
// if / else / switch arrangement.
func (p *addrPolicy) addrCanonShape() (string, int, bool) {
	fd := p.canon
	if fd == nil || fd.Body == nil {
		return "", 0, false
	}
	env := addrNewEnv(p.pkg, fd)
	var evs []addrEv
	for _, ev := range addrFlatten(fd.Body.List) {
		if !env.isNoise(ev) {
			evs = append(evs, ev)
		}
	}
	if len(evs) != 2 || evs[0].kind != addrEvExit || evs[1].kind != addrEvExit || len(evs[0].leaves) != 1 || len(evs[1].leaves) != 0 ||
		len(evs[0].ret.Results) != 1 || len(evs[1].ret.Results) != 1 {
		return "", 0, false
	}
	cond := env.leafTexts(evs[0])[0]
	tagged, plain := env.resultTexts(evs[0].ret)[0], env.resultTexts(evs[1].ret)[0]
	neg := strings.HasPrefix(cond, "!")
	if neg {
		cond = cond[1:]
		tagged, plain = plain, tagged
	}
	m := addrReHasPrefix.FindStringSubmatch(cond)
	t := addrReTagged.FindStringSubmatch(tagged)
	if m == nil || t == nil || m[1] != "" || m[2] != "$p0" || m[3] != t[1] || plain != "strings.ToLower($p0)" {
		return "", 0, false
	}
	lit, err := strconv.Unquote(m[3])
	n, err2 := strconv.Atoi(t[2])
	if err != nil || err2 != nil {
		return "", 0, false
	}
	return lit, n, true
}

// ---- the IPv6 tag of ValidateDomainPart: a small symbolic evaluation of the statements in front of net.ParseIP

const (
	vtUnknown = iota
	vtInt
	vtSlice
)

// vtVal: what a local of the IP-literal branch holds: an integer, or the slice `$p0[low:high]` of the parameter.  The
// integer / the lower bound is the constant n, or cn where `cond` holds and n otherwise.  `under`: the value means
// something only where that condition is known to hold (result 0 of strings.CutPrefix).
type vtVal struct {
	kind  int
	n     int
	cond  string
	cn    int
	high  string // canonical text of the upper bound, "" = to the end
	under string
}

func (v vtVal) plain() bool { return v.kind != vtUnknown && v.cond == "" && v.under == "" }

// text: an unconditional slice value as canonical Go text.
func (v vtVal) text() string {
	if v.kind != vtSlice || !v.plain() {
		return "?"
	}
	if v.n == 0 && v.high == "" {
		return "$p0"
	}
	lo := ""
	if v.n != 0 {
		lo = strconv.Itoa(v.n)
	}
	return "$p0[" + lo + ":" + v.high + "]"
}

type vtEval struct {
	env   *addrEnv
	vals  map[string]vtVal
	conds map[string]string // bool local (result 1 of strings.CutPrefix) -> canonical condition
	nPfx  int               // prefix operations seen (HasPrefix / CutPrefix / TrimPrefix)
}

func (ev *vtEval) stringsCall(x ast.Expr, at token.Pos) (string, []ast.Expr) {
	ce, ok := addrStrip(x).(*ast.CallExpr)
	if !ok {
		return "", nil
	}
	f := ev.env.render(ce.Fun, at)
	if !strings.HasPrefix(f, "strings.") {
		return "", nil
	}
	return strings.TrimPrefix(f, "strings."), ce.Args
}

func (ev *vtEval) litArg(x ast.Expr) (string, bool) {
	l := ev.env.constLit(x)
	if l == nil || l.Kind != token.STRING {
		return "", false
	}
	s, err := strconv.Unquote(l.Value)
	return s, err == nil
}

func (ev *vtEval) eval(x ast.Expr, at token.Pos) vtVal {
	x = addrStrip(x)
	if l := ev.env.constLit(x); l != nil && l.Kind == token.INT {
		if k, err := strconv.ParseInt(l.Value, 0, 32); err == nil {
			return vtVal{kind: vtInt, n: int(k)}
		}
		return vtVal{}
	}
	switch v := x.(type) {
	case *ast.Ident:
		if val, ok := ev.vals[v.Name]; ok {
			return val
		}
		if ev.env.subst[v.Name] == "$p0" {
			return vtVal{kind: vtSlice}
		}
		if a := ev.env.alias[v.Name]; a != nil && !a.restricted && a.validAt(at) {
			for _, f := range a.free {
				if ev.env.assignedBetween(f, a.pos, at) {
					return vtVal{}
				}
				if _, tracked := ev.vals[f]; tracked {
					return vtVal{}
				}
			}
			return ev.eval(a.rhs, a.pos+1)
		}
	case *ast.SliceExpr:
		if v.Slice3 {
			return vtVal{}
		}
		base := ev.eval(v.X, at)
		if base.kind != vtSlice || base.under != "" {
			return vtVal{}
		}
		lo := vtVal{kind: vtInt}
		if v.Low != nil {
			lo = ev.eval(v.Low, at)
		}
		if lo.kind != vtInt || lo.under != "" || (lo.cond != "" && base.cond != "") {
			return vtVal{}
		}
		res := vtVal{kind: vtSlice, n: base.n + lo.n, high: base.high}
		switch {
		case lo.cond != "":
			res.cond, res.cn = lo.cond, base.n+lo.cn
		case base.cond != "":
			res.cond, res.cn = base.cond, base.cn+lo.n
		}
		if v.High != nil {
			// an upper bound is understood only on the parameter itself (it counts from the start of the parameter)
			if base.n != 0 || base.cond != "" || base.high != "" {
				return vtVal{}
			}
			res.high = ev.env.render(v.High, at)
		}
		return res
	case *ast.CallExpr:
		if name, args := ev.stringsCall(v, at); name == "TrimPrefix" && len(args) == 2 {
			ev.nPfx++
			base := ev.eval(args[0], at)
			lit, ok := ev.litArg(args[1])
			if ok && base.kind == vtSlice && base.plain() {
				return vtVal{kind: vtSlice, n: base.n, high: base.high, cond: "strings.HasPrefix(" + base.text() + ", " + strconv.Quote(lit) + ")", cn: base.n + len(lit)}
			}
		}
	}
	return vtVal{}
}

// condText: the canonical text of a condition that is a prefix test of a slice of the parameter ("" otherwise).
func (ev *vtEval) condText(x ast.Expr, at token.Pos) string {
	x = addrStrip(x)
	if id, ok := x.(*ast.Ident); ok {
		return ev.conds[id.Name]
	}
	if name, args := ev.stringsCall(x, at); name == "HasPrefix" && len(args) == 2 {
		ev.nPfx++
		base := ev.eval(args[0], at)
		if lit, ok := ev.litArg(args[1]); ok && base.kind == vtSlice && base.plain() {
			return "strings.HasPrefix(" + base.text() + ", " + strconv.Quote(lit) + ")"
		}
	}
	return ""
}

// forget: every local written anywhere inside n is unknown from here on.
func (ev *vtEval) forget(n ast.Node) {
	mark := func(x ast.Expr) {
		if id, ok := x.(*ast.Ident); ok && id.Name != "_" {
			ev.vals[id.Name] = vtVal{}
			delete(ev.conds, id.Name)
		}
	}
	ast.Inspect(n, func(m ast.Node) bool {
		switch v := m.(type) {
		case *ast.AssignStmt:
			for _, l := range v.Lhs {
				mark(l)
			}
		case *ast.IncDecStmt:
			mark(v.X)
		case *ast.RangeStmt:
			if v.Key != nil {
				mark(v.Key)
			}
			if v.Value != nil {
				mark(v.Value)
			}
		case *ast.ValueSpec:
			for _, nm := range v.Names {
				mark(nm)
			}
		case *ast.UnaryExpr:
			if v.Op == token.AND {
				mark(v.X)
			}
		case *ast.CallExpr:
			if name, _ := ev.stringsCall(v, v.Pos()); name == "HasPrefix" || name == "CutPrefix" || name == "TrimPrefix" {
				ev.nPfx++
			}
		}
		return true
	})
}

// oneAssign: the block is exactly `V = E`.
func vtOneAssign(b *ast.BlockStmt) (string, ast.Expr, bool) {
	if b == nil || len(b.List) != 1 {
		return "", nil, false
	}
	as, ok := b.List[0].(*ast.AssignStmt)
	if !ok || as.Tok != token.ASSIGN || len(as.Lhs) != 1 || len(as.Rhs) != 1 {
		return "", nil, false
	}
	id, ok := as.Lhs[0].(*ast.Ident)
	if !ok || id.Name == "_" {
		return "", nil, false
	}
	return id.Name, as.Rhs[0], true
}

func (ev *vtEval) step(st ast.Stmt) {
	switch v := st.(type) {
	case nil:
		return
	case *ast.ExprStmt, *ast.EmptyStmt:
		return
	case *ast.AssignStmt:
		if v.Tok == token.DEFINE && len(v.Lhs) == 2 && len(v.Rhs) == 1 {
			if name, args := ev.stringsCall(v.Rhs[0], v.Pos()); name == "CutPrefix" && len(args) == 2 {
				ev.nPfx++
				base := ev.eval(args[0], v.Pos())
				lit, ok := ev.litArg(args[1])
				tail, ok0 := v.Lhs[0].(*ast.Ident)
				found, ok1 := v.Lhs[1].(*ast.Ident)
				if ok && ok0 && ok1 && found.Name != "_" && base.kind == vtSlice && base.plain() {
					c := "strings.HasPrefix(" + base.text() + ", " + strconv.Quote(lit) + ")"
					ev.conds[found.Name] = c
					if tail.Name != "_" {
						ev.vals[tail.Name] = vtVal{kind: vtSlice, n: base.n + len(lit), high: base.high, under: c}
					}
					return
				}
			}
		}
		if len(v.Lhs) == 1 && len(v.Rhs) == 1 && (v.Tok == token.DEFINE || v.Tok == token.ASSIGN) {
			if id, ok := v.Lhs[0].(*ast.Ident); ok && id.Name != "_" {
				if a := ev.env.alias[id.Name]; a != nil && a.pos == v.Pos() {
					return // expanded where it is used
				}
				val := ev.eval(v.Rhs[0], v.Pos())
				if val.under != "" {
					val = vtVal{}
				}
				ev.vals[id.Name] = val
				delete(ev.conds, id.Name)
				return
			}
		}
		ev.forget(v)
	case *ast.IfStmt:
		ev.step(v.Init)
		name, e, ok := vtOneAssign(v.Body)
		var elseE ast.Expr
		if ok && v.Else != nil {
			eb, isBlock := v.Else.(*ast.BlockStmt)
			n2, e2, ok2 := vtOneAssign(eb)
			ok = isBlock && ok2 && n2 == name
			elseE = e2
		}
		if !ok {
			ev.forget(v.Body)
			if v.Else != nil {
				ev.forget(v.Else)
			}
			return
		}
		c := ev.condText(v.Cond, v.Cond.Pos())
		then := ev.eval(e, e.Pos())
		if then.under != "" && then.under == c {
			then.under = ""
		}
		other := ev.vals[name]
		if elseE != nil {
			other = ev.eval(elseE, elseE.Pos())
		}
		if c == "" || !then.plain() || !other.plain() || then.kind != other.kind || then.high != other.high {
			ev.vals[name] = vtVal{}
			return
		}
		ev.vals[name] = vtVal{kind: then.kind, n: other.n, cond: c, cn: then.n, high: then.high}
	default:
		ev.forget(st)
	}
}

// run executes the statements in front of the one that holds `target`, descending into the block that holds it.
func (ev *vtEval) run(list []ast.Stmt, target ast.Node) bool {
	holds := func(n ast.Node) bool { return n != nil && n.Pos() <= target.Pos() && target.End() <= n.End() }
	for _, st := range list {
		if !holds(st) {
			ev.step(st)
			continue
		}
		switch v := st.(type) {
		case *ast.BlockStmt:
			return ev.run(v.List, target)
		case *ast.IfStmt:
			ev.step(v.Init)
			if holds(v.Body) {
				return ev.run(v.Body.List, target)
			}
			if eb, ok := v.Else.(*ast.BlockStmt); ok && holds(eb) {
				return ev.run(eb.List, target)
			}
			if ei, ok := v.Else.(*ast.IfStmt); ok && holds(ei) {
				return ev.run([]ast.Stmt{ei}, target)
			}
			return !holds(v.Init) // in the condition itself
		case *ast.SwitchStmt:
			ev.step(v.Init)
			for _, c := range v.Body.List {
				if cc, ok := c.(*ast.CaseClause); ok && holds(cc) {
					for _, s := range cc.Body {
						if holds(s) {
							return ev.run(cc.Body, target)
						}
					}
				}
			}
			return false
		case *ast.ForStmt, *ast.RangeStmt, *ast.SelectStmt, *ast.TypeSwitchStmt, *ast.LabeledStmt, *ast.GoStmt, *ast.DeferStmt:
			return false
		}
		return true // a simple statement holds the target
	}
	return false
}

func addrAndLeaves(x ast.Expr) []ast.Expr {
	x = addrStrip(x)
	if be, ok := x.(*ast.BinaryExpr); ok && be.Op == token.LAND {
		return append(addrAndLeaves(be.X), addrAndLeaves(be.Y)...)
	}
	return []ast.Expr{x}
}

var addrReTagCond = regexp.MustCompile(`^strings\.HasPrefix\((\$p0\[1:\]|\$p0\[1:len\(\$p0\) - 1\]), ("(?:[^"\\]|\\.)*")\)$`)

// addrValidateTag: ValidateDomainPart (parameter D) hands net.ParseIP the text D[a : len(D)-1] where a is 1, or N when
// the text after the opening bracket starts with LIT: (LIT, N).  The code in front of the one net.ParseIP call is
// evaluated symbolically (vtEval), so these are all the same fact:
//
//	s := 1; if strings.HasPrefix(D[1:], LIT) { s = N }; net.ParseIP(D[s : len(D)-1])
//	t := D[1 : len(D)-1]; if r, ok := strings.CutPrefix(t, LIT); ok { t = r }; net.ParseIP(t)          (N = 1 + len(LIT))
//	t := D[1 : len(D)-1]; if strings.HasPrefix(t, LIT) { t = t[len(LIT):] }; …    t = strings.TrimPrefix(t, LIT); …
//
// in ValidateDomainPart itself or in an unexported (string) helper it calls once with D.  Testing the prefix on
// D[1 : len(D)-1] instead of D[1:] is the same test only where D[len(D)-1] == ']' is known and LIT does not end in ']'
// (they differ exactly for D = "[" + LIT): that form is accepted only under an `if … && D[len(D)-1] == ']'`.
func (p *addrPolicy) addrValidateTag() (string, int, bool) {
	vd := p.validate
	if vd == nil || vd.Body == nil || len(addrParamNames(vd.Type.Params)) != 1 {
		return "", 0, false
	}
	// the one net.ParseIP call of ValidateDomainPart and the unexported functions it calls
	var ipCall *ast.CallExpr
	var host *ast.FuncDecl
	nIP := 0
	for _, f := range addrClosure(p.pkg, vd) {
		if f.Body == nil {
			continue
		}
		fenv := addrNewEnv(p.pkg, f)
		ast.Inspect(f.Body, func(n ast.Node) bool {
			if ce, ok := n.(*ast.CallExpr); ok && fenv.render(ce.Fun, ce.Pos()) == "net.ParseIP" {
				nIP++
				ipCall, host = ce, f
			}
			return true
		})
	}
	if nIP != 1 || len(ipCall.Args) != 1 {
		return "", 0, false
	}
	venv := addrNewEnv(p.pkg, vd)
	var site ast.Node = ipCall // the place in ValidateDomainPart whose guards count
	if host != vd {
		// `H(D)`, H taking one never-written string parameter, called exactly once from ValidateDomainPart
		if hp := addrParamNames(host.Type.Params); len(hp) != 1 || hp[0] == "_" || len(addrTypes(host.Type.Params)) != 1 || addrTypes(host.Type.Params)[0] != "string" {
			return "", 0, false
		}
		calls := 0
		ast.Inspect(vd.Body, func(n ast.Node) bool {
			if ce, ok := n.(*ast.CallExpr); ok && addrCallee(p.pkg, ce) == host {
				calls++
				if len(ce.Args) == 1 && venv.render(ce.Args[0], ce.Pos()) == "$p0" {
					site = ce
				}
			}
			return true
		})
		if calls != 1 || site == ast.Node(ipCall) {
			return "", 0, false
		}
	}
	// the parameter still holds the caller's string at the call(s)
	if venv.assignedBetween(addrParamNames(vd.Type.Params)[0], vd.Body.Pos(), site.End()) {
		return "", 0, false
	}
	henv := venv
	if host != vd {
		henv = addrNewEnv(p.pkg, host)
		if henv.assignedBetween(addrParamNames(host.Type.Params)[0], host.Body.Pos(), ipCall.End()) {
			return "", 0, false
		}
	}
	ev := &vtEval{env: henv, vals: map[string]vtVal{}, conds: map[string]string{}}
	if !ev.run(host.Body.List, ipCall) {
		return "", 0, false
	}
	arg := ev.eval(ipCall.Args[0], ipCall.Pos())
	if arg.kind != vtSlice || arg.under != "" || arg.cond == "" || arg.n != 1 || arg.high != "len($p0) - 1" || ev.nPfx != 1 {
		return "", 0, false
	}
	m := addrReTagCond.FindStringSubmatch(arg.cond)
	if m == nil {
		return "", 0, false
	}
	lit, err := strconv.Unquote(m[2])
	if err != nil || lit == "" {
		return "", 0, false
	}
	if m[1] != "$p0[1:]" {
		guarded := false
		ast.Inspect(vd.Body, func(n ast.Node) bool {
			if is, ok := n.(*ast.IfStmt); ok && is.Body.Pos() <= site.Pos() && site.End() <= is.Body.End() {
				for _, l := range addrAndLeaves(is.Cond) {
					if venv.render(l, is.Cond.Pos()) == "$p0[len($p0) - 1] == ']'" {
						guarded = true
					}
				}
			}
			return true
		})
		if !guarded || strings.HasSuffix(lit, "]") {
			return "", 0, false
		}
	}
	return lit, arg.cn, true
}

// ------------------------------------------------------------------------------------------------ tables of Gen/Addr.lean

// addrMemberLits: the string literals (or string constants) whose membership is tested with strings.IndexByte /
// IndexRune / ContainsRune in fd or in the unexported helpers it calls.
func addrMemberLits(p *addrPkg, fd *ast.FuncDecl) []string {
	var res []string
	for _, f := range addrClosure(p, fd) {
		if f.Body == nil {
			continue
		}
		env := addrNewEnv(p, f)
		ast.Inspect(f.Body, func(n ast.Node) bool {
			ce, ok := n.(*ast.CallExpr)
			if !ok || len(ce.Args) != 2 {
				return true
			}
			switch env.render(ce.Fun, ce.Pos()) {
			case "strings.IndexByte", "strings.IndexRune", "strings.ContainsRune":
				if l := env.constLit(ce.Args[0]); l != nil && l.Kind == token.STRING {
					if s, err := strconv.Unquote(l.Value); err == nil {
						res = append(res, s)
					}
				}
			}
			return true
		})
	}
	return res
}

// addrCmp: the unique comparison `<lhs> <op> <int>` (literal or constant, either side) in fd and the unexported
// helpers it calls, where <lhs> is identified by its canonical rendering under the roles `mark` assigns in each
// function.
func addrCmp(p *addrPkg, fd *ast.FuncDecl, mark func(*addrEnv, *ast.FuncDecl), lhs, wantOp string) string {
	type hit struct {
		op string
		v  int
	}
	var hits []hit
	for _, f := range addrClosure(p, fd) {
		if f.Body == nil {
			continue
		}
		env := addrNewEnv(p, f)
		if mark != nil {
			mark(env, f)
		}
		ast.Inspect(f.Body, func(n ast.Node) bool {
			be, ok := n.(*ast.BinaryExpr)
			if !ok {
				return true
			}
			if _, cmp := addrFlip[be.Op]; !cmp {
				return true
			}
			X, Y, op := be.X, be.Y, be.Op
			if env.isLitLike(X) && !env.isLitLike(Y) {
				X, Y, op = Y, X, addrFlip[op]
			}
			l := env.constLit(Y)
			if l == nil || l.Kind != token.INT || env.render(X, be.Pos()) != lhs || (wantOp != "" && wantOp != op.String()) {
				return true
			}
			if v, err := strconv.ParseInt(l.Value, 0, 32); err == nil {
				hits = append(hits, hit{op.String(), int(v)})
			}
			return true
		})
	}
	if len(hits) != 1 {
		return "none"
	}
	return fmt.Sprintf("some (%s, %d)", leanStr(hits[0].op), hits[0].v)
}

var addrReLenParam = regexp.MustCompile(`^len\(\$p\d+\)$`)

// addrMarkLoopIndex: $i = the index of a loop that runs over a parameter (`for i := 0; i < len(P); …`, or the key of
// `range P` / `range []byte(P)`).
func addrMarkLoopIndex(env *addrEnv, f *ast.FuncDecl) {
	isParam := func(x ast.Expr) bool {
		return strings.HasPrefix(env.render(x, x.Pos()), "$p") && !strings.ContainsAny(env.render(x, x.Pos()), " [(")
	}
	ast.Inspect(f.Body, func(n ast.Node) bool {
		switch v := n.(type) {
		case *ast.ForStmt:
			as, ok := v.Init.(*ast.AssignStmt)
			if !ok || len(as.Lhs) != 1 || len(as.Rhs) != 1 || env.render(as.Rhs[0], as.Pos()) != "0" {
				return true
			}
			id, ok := as.Lhs[0].(*ast.Ident)
			be, ok2 := v.Cond.(*ast.BinaryExpr)
			if !ok || !ok2 || be.Op != token.LSS || src(be.X) != id.Name {
				return true
			}
			if addrReLenParam.MatchString(env.render(be.Y, be.Pos())) {
				env.subst[id.Name] = "$i"
			}
		case *ast.RangeStmt:
			id, ok := v.Key.(*ast.Ident)
			if !ok || id.Name == "_" {
				return true
			}
			x := v.X
			if ce, ok := x.(*ast.CallExpr); ok && len(ce.Args) == 1 && src(ce.Fun) == "[]byte" {
				x = ce.Args[0]
			}
			if isParam(x) {
				env.subst[id.Name] = "$i"
			}
		}
		return true
	})
}

// addrMarkCounter: $n = the one local that is both incremented with ++ and reset to 0 (the label length counter).
func addrMarkCounter(env *addrEnv, f *ast.FuncDecl) {
	inc, zero := map[string]bool{}, map[string]bool{}
	ast.Inspect(f.Body, func(n ast.Node) bool {
		switch v := n.(type) {
		case *ast.IncDecStmt:
			if id, ok := v.X.(*ast.Ident); ok && v.Tok == token.INC {
				inc[id.Name] = true
			}
		case *ast.AssignStmt:
			if v.Tok == token.ASSIGN && len(v.Lhs) == 1 && len(v.Rhs) == 1 && env.render(v.Rhs[0], v.Pos()) == "0" {
				if id, ok := v.Lhs[0].(*ast.Ident); ok {
					zero[id.Name] = true
				}
			}
			if v.Tok == token.ADD_ASSIGN && len(v.Lhs) == 1 && len(v.Rhs) == 1 && env.render(v.Rhs[0], v.Pos()) == "1" {
				if id, ok := v.Lhs[0].(*ast.Ident); ok {
					inc[id.Name] = true
				}
			}
		}
		return true
	})
	var c []string
	for n := range inc {
		if zero[n] && env.subst[n] == "" {
			c = append(c, n)
		}
	}
	if len(c) == 1 {
		env.subst[c[0]] = "$n"
	}
}

// addrEmitTables writes Gen/Addr.lean (called from extractAddr in main.go).
func addrEmitTables(g *genFile) {
	p := addrAnalysePolicy()
	bl := func(l []string) string {
		if len(l) != 1 {
			return "none"
		}
		return "some " + byteList(l[0])
	}
	var sp, nsp []string
	if p.parser != nil {
		sp = addrMemberLits(p.pkg, p.parser)
	}
	if p.nameParser != nil {
		nsp = addrMemberLits(p.pkg, p.nameParser)
	}
	g.def("specials", "Option (List Nat)", bl(sp),
		"bytes of the one literal whose membership the raw address parser (the 3-result function ExtractMailbox calls with its parameter: parseEmailAddress) tests with strings.IndexByte — the specials copied unquoted")
	g.def("nameSpecials", "Option (List Nat)", bl(nsp),
		"bytes of the one literal whose membership the mailbox-name parser (the function ExtractMailbox calls with result 0 of the raw parser: parseMailboxName) tests with strings.IndexByte")
	cmp := func(name string, fd *ast.FuncDecl, mark func(*addrEnv, *ast.FuncDecl), lhs, op, comment string) {
		val := "none"
		if fd != nil {
			val = addrCmp(p.pkg, fd, mark, lhs, op)
		}
		g.def(name, "Option (String × Nat)", val, comment)
	}
	cmp("maxAddr", p.parser, nil, "len($p0)", "", "raw address parser: the one comparison of len(parameter) with an integer (operator, bound)")
	cmp("maxLocal", p.parser, addrMarkLoopIndex, "$i", ">", "raw address parser: the one `>` comparison of the index of the loop over the parameter with an integer (local-part length, index of the unquoted '@')")
	cmp("maxDomain", p.validate, nil, "len($p0)", ">", "ValidateDomainPart: the one `len(parameter) > N` (a local holding len(parameter) counts as len(parameter))")
	cmp("minBracket", p.validate, nil, "len($p0)", ">=", "ValidateDomainPart: the one `len(parameter) >= N` (minimum length of a bracketed IP literal)")
	cmp("maxLabel", p.validate, addrMarkCounter, "$n", "", "ValidateDomainPart: the one comparison of the label-length counter (the local that is ++'ed and reset to 0) with an integer")
}

// ------------------------------------------------------------------------------------------------ read side: controllers

type addr2Row struct {
	file, fn        string
	canon, onlyCano bool
}

// addr2CtxParam: the name of the parameter of type *web.Context.
func addr2CtxParam(imports map[string]string, fd *ast.FuncDecl) string {
	if fd.Type.Params == nil {
		return ""
	}
	for _, f := range fd.Type.Params.List {
		st, ok := f.Type.(*ast.StarExpr)
		if !ok {
			continue
		}
		se, ok := st.X.(*ast.SelectorExpr)
		if !ok || se.Sel.Name != "Context" {
			continue
		}
		if id, ok := se.X.(*ast.Ident); ok && imports[id.Name] == "web" && len(f.Names) == 1 && f.Names[0].Name != "_" {
			return f.Names[0].Name
		}
	}
	return ""
}

// addr2IsNameIndex: an index expression `<anything>["name"]`.
func addr2IsNameIndex(n ast.Node) (*ast.IndexExpr, bool) {
	ie, ok := n.(*ast.IndexExpr)
	if !ok {
		return nil, false
	}
	if s, ok := strLitVal(ie.Index); ok && s == "name" {
		return ie, true
	}
	return nil, false
}

// addr2IsVarsName: exactly `<ctx>.Vars["name"]`.
func addr2IsVarsName(n ast.Node, ctx string) (*ast.IndexExpr, bool) {
	ie, ok := addr2IsNameIndex(n)
	if !ok || ctx == "" {
		return nil, false
	}
	se, ok := ie.X.(*ast.SelectorExpr)
	if !ok || se.Sel.Name != "Vars" {
		return nil, false
	}
	id, ok := se.X.(*ast.Ident)
	return ie, ok && id.Name == ctx
}

// addr2IsCanonCall: `<ctx>.Manager.MailboxForAddress(<one argument>)`.
func addr2IsCanonCall(n ast.Node, ctx string) (*ast.CallExpr, bool) {
	ce, ok := n.(*ast.CallExpr)
	if !ok || len(ce.Args) != 1 || ctx == "" {
		return nil, false
	}
	se, ok := ce.Fun.(*ast.SelectorExpr)
	if !ok || se.Sel.Name != "MailboxForAddress" {
		return nil, false
	}
	m, ok := se.X.(*ast.SelectorExpr)
	if !ok || m.Sel.Name != "Manager" {
		return nil, false
	}
	id, ok := m.X.(*ast.Ident)
	return ce, ok && id.Name == ctx
}

// addr2CanonHelper: fd is `func k(…ctx *web.Context…) (string, error) { return ctx.Manager.MailboxForAddress(ctx.Vars["name"]) }`.
// Returns the index of the context parameter, or -1.
func addr2CanonHelper(pk *addrPkg, fd *ast.FuncDecl) int {
	if fd == nil || fd.Body == nil || fd.Recv != nil {
		return -1
	}
	ctx := addr2CtxParam(addrImports(pk.fileOf[fd]), fd)
	if ctx == "" || len(fd.Body.List) != 1 {
		return -1
	}
	r, ok := fd.Body.List[0].(*ast.ReturnStmt)
	if !ok || len(r.Results) != 1 {
		return -1
	}
	ce, ok := addr2IsCanonCall(r.Results[0], ctx)
	if !ok {
		return -1
	}
	if _, ok := addr2IsVarsName(ce.Args[0], ctx); !ok {
		return -1
	}
	for i, n := range addrParamNames(fd.Type.Params) {
		if n == ctx {
			return i
		}
	}
	return -1
}

// addr2Analyse: one controller function.  reads = the index expressions it accounts for when canon holds.
func addr2Analyse(pk *addrPkg, fd *ast.FuncDecl) (row addr2Row, isRow bool, accounted int) {
	row = addr2Row{file: pk.relOf[fd], fn: fd.Name.Name}
	ctx := addr2CtxParam(addrImports(pk.fileOf[fd]), fd)
	if ctx == "" || fd.Body == nil {
		return row, false, 0
	}
	if addr2CanonHelper(pk, fd) >= 0 {
		return row, false, 1
	}
	// every way this function gets at the name: direct reads and calls of a canonical helper with its own context
	var reads []ast.Node
	ast.Inspect(fd.Body, func(n ast.Node) bool {
		if ie, ok := addr2IsVarsName(n, ctx); ok {
			reads = append(reads, ie)
		}
		if ce, ok := n.(*ast.CallExpr); ok {
			if k := addrCallee(pk, ce); k != nil {
				if idx := addr2CanonHelper(pk, k); idx >= 0 && idx < len(ce.Args) && src(ce.Args[idx]) == ctx {
					reads = append(reads, ce)
				}
			}
		}
		return true
	})
	if len(reads) == 0 {
		return row, false, 0
	}
	sort.Slice(reads, func(i, j int) bool { return reads[i].Pos() < reads[j].Pos() })
	first := reads[0]
	env := addrNewEnv(pk, fd)
	// the canonical statement: an unconditional `v, err := <ctx>.Manager.MailboxForAddress(<ctx>.Vars["name"])`
	// (or `:= helper(ctx)`, or the argument is a local defined as `<ctx>.Vars["name"]` and used only there)
	var call *ast.CallExpr
	for _, ev := range addrFlatten(fd.Body.List) {
		if ev.kind != addrEvAssign || !(ev.as.Pos() <= first.Pos() && first.End() <= ev.as.End()) {
			continue
		}
		as := ev.as
		if len(as.Rhs) != 1 {
			break
		}
		// `raw := ctx.Vars["name"]` — look at the single use of raw instead
		if len(as.Lhs) == 1 && as.Rhs[0] == ast.Expr(first.(ast.Expr)) {
			id, ok := as.Lhs[0].(*ast.Ident)
			if !ok || env.alias[id.Name] == nil {
				break
			}
			uses := 0
			var useCall *ast.CallExpr
			var useAssign *ast.AssignStmt
			for _, ev2 := range addrFlatten(fd.Body.List) {
				if ev2.kind == addrEvAssign && len(ev2.as.Rhs) == 1 && len(ev2.as.Lhs) == 2 {
					if ce, ok := addr2IsCanonCall(ev2.as.Rhs[0], ctx); ok && src(ce.Args[0]) == id.Name {
						useCall, useAssign = ce, ev2.as
					}
				}
			}
			ast.Inspect(fd.Body, func(n ast.Node) bool {
				if x, ok := n.(*ast.Ident); ok && x.Name == id.Name {
					uses++
				}
				return true
			})
			if useCall != nil && uses == 2 { // the definition and the argument
				if v, ok := useAssign.Lhs[0].(*ast.Ident); ok && v.Name != "_" {
					call = useCall
				}
			}
			break
		}
		if len(as.Lhs) != 2 {
			break
		}
		if v, ok := as.Lhs[0].(*ast.Ident); !ok || v.Name == "_" {
			break
		}
		if ce, ok := addr2IsCanonCall(as.Rhs[0], ctx); ok && ce.Args[0] == ast.Expr(first.(ast.Expr)) {
			call = ce
		} else if ce, ok := as.Rhs[0].(*ast.CallExpr); ok && ast.Node(ce) == first {
			call = ce
		}
		break
	}
	if call == nil {
		return row, true, 0
	}
	row.canon = true
	clean := len(reads) == 1
	ast.Inspect(fd.Body, func(n ast.Node) bool {
		if n == nil || n.Pos() >= call.Pos() {
			// a node starting at or after the call (its own Fun included) is not "before" it; neither are its children
			return false
		}
		switch v := n.(type) {
		case *ast.SelectorExpr:
			if id, ok := v.X.(*ast.Ident); ok && id.Name == ctx && (v.Sel.Name == "Manager" || v.Sel.Name == "MsgHub") {
				clean = false
			}
		case *ast.Ident:
			if v.Name == "msgHub" || v.Name == "MsgHub" || v.Name == "Manager" {
				clean = false
			}
		}
		return true
	})
	row.onlyCano = clean
	acc := 0
	if _, direct := first.(*ast.IndexExpr); direct && clean {
		acc = 1
	}
	return row, true, acc
}

// addr2RouteHandlerName: `web.Handler(X)` -> X; anything else -> its source text (which matches no table entry).
func addr2RouteHandlerName(imports map[string]string, e ast.Expr) string {
	if ce, ok := e.(*ast.CallExpr); ok && len(ce.Args) == 1 {
		if se, ok := ce.Fun.(*ast.SelectorExpr); ok && se.Sel.Name == "Handler" {
			if id, ok := se.X.(*ast.Ident); ok && imports[id.Name] == "web" {
				if id, ok := ce.Args[0].(*ast.Ident); ok {
					return id.Name
				}
			}
		}
	}
	return src(e)
}

// ------------------------------------------------------------------------------------------------ POP3

// addr2Pop3Verbatim: the session field handed to Store.GetMessages (the mailbox key) is only ever assigned
// `<[]string parameter>[0]` inside the handler that has the USER clause, that parameter is never written, and it is
// result 1 of the command parser, whose result 1 is `W[1:]` for `W := strings.Split(<line>, " ")`.
func addr2Pop3Verbatim(pk *addrPkg) bool {
	if pk.broken {
		return false
	}
	// the key field: every GetMessages call is `<x>.GetMessages(<recv>.F)` with one F
	field := ""
	okField := true
	eachSessionMethod := func(f func(fd *ast.FuncDecl, recv string)) {
		names := []string{}
		for k := range pk.methods {
			names = append(names, k)
		}
		sort.Strings(names)
		for _, k := range names {
			fd := pk.methods[k]
			if fd.Body == nil || fd.Recv == nil || len(fd.Recv.List) != 1 || len(fd.Recv.List[0].Names) != 1 {
				continue
			}
			f(fd, fd.Recv.List[0].Names[0].Name)
		}
	}
	eachSessionMethod(func(fd *ast.FuncDecl, recv string) {
		ast.Inspect(fd.Body, func(n ast.Node) bool {
			ce, ok := n.(*ast.CallExpr)
			if !ok {
				return true
			}
			se, ok := ce.Fun.(*ast.SelectorExpr)
			if !ok || se.Sel.Name != "GetMessages" {
				return true
			}
			if len(ce.Args) != 1 {
				okField = false
				return true
			}
			a, ok := ce.Args[0].(*ast.SelectorExpr)
			if !ok || src(a.X) != recv || (field != "" && field != a.Sel.Name) {
				okField = false
				return true
			}
			field = a.Sel.Name
			return true
		})
	})
	if field == "" || !okField {
		return false
	}
	// the handler with the USER clause
	var auth *ast.FuncDecl
	nAuth := 0
	eachSessionMethod(func(fd *ast.FuncDecl, recv string) {
		has := false
		ast.Inspect(fd.Body, func(n ast.Node) bool {
			if cc, ok := n.(*ast.CaseClause); ok {
				for _, e := range cc.List {
					if s, ok := strLitVal(e); ok && s == "USER" {
						has = true
					}
				}
			}
			return true
		})
		if has {
			auth = fd
			nAuth++
		}
	})
	if nAuth != 1 {
		return false
	}
	recv := auth.Recv.List[0].Names[0].Name
	args, argIdx := "", -1
	ptypes, pnames := addrTypes(auth.Type.Params), addrParamNames(auth.Type.Params)
	for i, t := range ptypes {
		if t == "[]string" {
			if args != "" {
				return false
			}
			args, argIdx = pnames[i], i
		}
	}
	if args == "" || args == "_" {
		return false
	}
	plain := func(as *ast.AssignStmt) bool {
		if as.Tok != token.ASSIGN || len(as.Lhs) != 1 || len(as.Rhs) != 1 {
			return false
		}
		l, ok := as.Lhs[0].(*ast.SelectorExpr)
		if !ok || l.Sel.Name != field || src(l.X) != recv {
			return false
		}
		ie, ok := as.Rhs[0].(*ast.IndexExpr)
		return ok && src(ie.X) == args && src(ie.Index) == "0"
	}
	// (a) every assignment to the field anywhere in the package is the plain one inside the auth handler; no
	//     composite literal sets it
	allPlain, total := true, 0
	for _, f := range pk.files {
		ast.Inspect(f, func(n ast.Node) bool {
			switch v := n.(type) {
			case *ast.AssignStmt:
				for _, l := range v.Lhs {
					if se, ok := l.(*ast.SelectorExpr); ok && se.Sel.Name == field {
						total++
						if !plain(v) || !(auth.Body.Pos() <= v.Pos() && v.End() <= auth.Body.End()) {
							allPlain = false
						}
					}
				}
			case *ast.IncDecStmt:
				if se, ok := v.X.(*ast.SelectorExpr); ok && se.Sel.Name == field {
					allPlain = false
				}
			case *ast.UnaryExpr:
				if se, ok := v.X.(*ast.SelectorExpr); ok && v.Op == token.AND && se.Sel.Name == field {
					allPlain = false
				}
			case *ast.KeyValueExpr:
				if id, ok := v.Key.(*ast.Ident); ok && id.Name == field {
					allPlain = false
				}
			}
			return true
		})
	}
	// (b) the parameter is never written; the USER clause holds one of the assignments
	env := addrNewEnv(pk, auth)
	argsKept := len(env.assigns[args]) == 0
	ast.Inspect(auth.Body, func(n ast.Node) bool {
		if as, ok := n.(*ast.AssignStmt); ok {
			for _, l := range as.Lhs {
				if ie, ok := l.(*ast.IndexExpr); ok && src(ie.X) == args {
					argsKept = false
				}
			}
		}
		return true
	})
	inUser := 0
	ast.Inspect(auth.Body, func(n ast.Node) bool {
		cc, ok := n.(*ast.CaseClause)
		if !ok {
			return true
		}
		isUser := false
		for _, e := range cc.List {
			if s, ok := strLitVal(e); ok && s == "USER" {
				isUser = true
			}
		}
		if isUser {
			for _, st := range cc.Body {
				ast.Inspect(st, func(m ast.Node) bool {
					if as, ok := m.(*ast.AssignStmt); ok && plain(as) {
						inUser++
					}
					return true
				})
			}
		}
		return true
	})
	// (c) where the handler's arguments come from: `c, a := <x>.M(line)` … `<x>.auth(c, a)`
	var parser *ast.FuncDecl
	parseOK := true
	nCalls := 0
	for _, f := range pk.files {
		for _, d := range f.Decls {
			fd, ok := d.(*ast.FuncDecl)
			if !ok || fd.Body == nil {
				continue
			}
			ast.Inspect(fd.Body, func(n ast.Node) bool {
				ce, ok := n.(*ast.CallExpr)
				if !ok {
					return true
				}
				se, ok := ce.Fun.(*ast.SelectorExpr)
				if !ok || se.Sel.Name != auth.Name.Name {
					return true
				}
				nCalls++
				if argIdx >= len(ce.Args) {
					parseOK = false
					return true
				}
				a, ok := ce.Args[argIdx].(*ast.Ident)
				if !ok {
					parseOK = false
					return true
				}
				// the definition of a in the enclosing function
				var defs []*ast.AssignStmt
				cnt := 0
				ast.Inspect(fd.Body, func(m ast.Node) bool {
					if as, ok := m.(*ast.AssignStmt); ok {
						for i, l := range as.Lhs {
							if id, ok := l.(*ast.Ident); ok && id.Name == a.Name {
								cnt++
								if i == 1 && len(as.Lhs) == 2 && len(as.Rhs) == 1 {
									defs = append(defs, as)
								}
							}
						}
					}
					return true
				})
				if cnt != 1 || len(defs) != 1 {
					parseOK = false
					return true
				}
				pc, ok := defs[0].Rhs[0].(*ast.CallExpr)
				if !ok {
					parseOK = false
					return true
				}
				ps, ok := pc.Fun.(*ast.SelectorExpr)
				if !ok {
					parseOK = false
					return true
				}
				m := pk.methods[addrRecvType(auth)+"."+ps.Sel.Name]
				if m == nil || (parser != nil && parser != m) {
					parseOK = false
					return true
				}
				parser = m
				return true
			})
		}
	}
	if !parseOK || parser == nil || nCalls == 0 || parser.Body == nil || !addrSigIs(parser, []string{"string"}, []string{"string", "[]string"}) {
		return false
	}
	// (d) the parser: the only returns are `return "", nil` and `return strings.ToUpper(W[0]), W[1:]`, W := strings.Split(<line>, " ")
	penv := addrNewEnv(pk, parser)
	splitOK := false
	line := addrParamNames(parser.Type.Params)[0]
	trimOK := true
	ast.Inspect(parser.Body, func(n ast.Node) bool {
		if as, ok := n.(*ast.AssignStmt); ok {
			for _, l := range as.Lhs {
				if src(l) == line && !(len(as.Lhs) == 1 && len(as.Rhs) == 1 && as.Tok == token.ASSIGN && penv.render(as.Rhs[0], as.Pos()) == `strings.TrimRight($p0, "\r\n")`) {
					trimOK = false
				}
			}
		}
		return true
	})
	if !trimOK {
		return false
	}
	const w = `strings.Split($p0, " ")`
	const wHead = "strings.ToUpper(" + w + "[0])"
	// the strings.Cut spelling of the same pair (addrEnv.cutAlias3): W[0] is the text in front of the first space, W[1:] is
	// the empty list when there is no space and strings.Split(<text behind it>, " ") when there is one
	const cutEmpty, cutRest = "?{[]string{}}", `strings.Split(strings.$CutAfter($p0, " "), " ")`
	const hasSpace = `strings.Contains($p0, " ")`
	cutForm := false
	for _, r := range addrReturns(parser.Body) {
		if len(r.Results) != 2 {
			return false
		}
		t := penv.resultTexts(r)
		if t[0] == `""` && t[1] == "nil" {
			continue
		}
		if t[0] == wHead && t[1] == w+"[1:]" {
			splitOK = true
			continue
		}
		if t[0] == wHead && (t[1] == cutEmpty || t[1] == cutRest) {
			cutForm = true
			continue
		}
		return false
	}
	if cutForm {
		// the two returns of the Cut spelling must sit under the right guards: flatten the body into guarded exits
		sawEmpty, sawRest := false, false
		for _, ev := range addrFlatten(parser.Body.List) {
			if penv.isNoise(ev) {
				continue
			}
			if ev.kind == addrEvAssign && len(ev.as.Lhs) == 1 && src(ev.as.Lhs[0]) == line {
				continue // the trimming assignment checked above
			}
			if ev.kind != addrEvExit || len(ev.ret.Results) != 2 {
				return false
			}
			t, g := penv.resultTexts(ev.ret), penv.leafTexts(ev)
			switch {
			case t[0] == `""` && t[1] == "nil", t[0] == wHead && t[1] == w+"[1:]":
			case t[0] == wHead && t[1] == cutEmpty:
				if !(len(g) == 1 && g[0] == "!"+hasSpace) && !(len(g) == 0 && sawRest) {
					return false
				}
				sawEmpty = true
			case t[0] == wHead && t[1] == cutRest:
				if !(len(g) == 1 && g[0] == hasSpace) && !(len(g) == 0 && sawEmpty) {
					return false
				}
				sawRest = true
			default:
				return false
			}
		}
		if !sawEmpty || !sawRest {
			return false
		}
		splitOK = true
	}
	return allPlain && total >= 1 && argsKept && inUser == 1 && splitOK
}

// ------------------------------------------------------------------------------------------------ Gen/Addr2.lean

func extractAddr2() {
	g := gen("Addr2")

	// ---- 1. handlers taking a mailbox name from the URL
	rows := []addr2Row{}
	nameIdx, accounted := 0, 0
	for _, dir := range addr2HandlerDirs {
		pk := addrLoadPkg(dir)
		if pk.broken || len(pk.files) == 0 {
			nameIdx += 1000 // unreadable: make handlers_complete fail
			continue
		}
		for _, f := range pk.files {
			ast.Inspect(f, func(n ast.Node) bool {
				if _, ok := addr2IsNameIndex(n); ok {
					nameIdx++
				}
				return true
			})
			for _, d := range f.Decls {
				fd, ok := d.(*ast.FuncDecl)
				if !ok || fd.Body == nil {
					continue
				}
				row, isRow, acc := addr2Analyse(pk, fd)
				accounted += acc
				if isRow {
					rows = append(rows, row)
				}
			}
		}
	}
	sort.Slice(rows, func(i, j int) bool {
		if rows[i].file != rows[j].file {
			return rows[i].file < rows[j].file
		}
		return rows[i].fn < rows[j].fn
	})
	hp := []string{}
	for _, r := range rows {
		hp = append(hp, fmt.Sprintf("(%s, %s, %s, %s)", leanStr(r.file), leanStr(r.fn), leanBool(r.canon), leanBool(r.onlyCano)))
	}
	g.def("handlers", "List (String × String × Bool × Bool)", "[\n  "+strings.Join(hp, ",\n  ")+"]",
		"(file, function, canon, onlyCanon) for every function of packages pkg/rest and pkg/webui that has a *web.Context parameter C and gets at the URL name "+
			"(reads C.Vars[\"name\"], or calls a helper that is exactly `return C.Manager.MailboxForAddress(C.Vars[\"name\"])`): "+
			"canon = the first such use is an unconditional statement `v, err := C.Manager.MailboxForAddress(C.Vars[\"name\"])` (or `:= helper(C)`, or the argument is a "+
			"local defined as C.Vars[\"name\"] and used nowhere else); onlyCanon = that is the only use, and nothing mentions C.Manager / C.MsgHub before it")
	g.def("handlerCount", "Nat", strconv.Itoa(len(rows)), "number of rows of `handlers`")
	g.def("strayNameReads", "Nat", strconv.Itoa(nameIdx-accounted),
		"number of index expressions `<x>[\"name\"]` (any x) in pkg/rest and pkg/webui that are NOT the argument of the canonical MailboxForAddress call of a row "+
			"with canon && onlyCanon (or of the canonical helper): 0 when nobody reads the name through an alias, mux.Vars or a second time")

	routes := [][2]string{}
	routeLits := 0
	for _, rel := range addr2RouteFiles {
		f := parse(rel)
		if f == nil {
			routeLits += 1000
			continue
		}
		imports := addrImports(f)
		var found [][2]string
		ast.Inspect(f, func(n ast.Node) bool {
			if s, ok := n.(*ast.BasicLit); ok && s.Kind == token.STRING && strings.Contains(s.Value, "{name}") {
				routeLits++
			}
			ce, ok := n.(*ast.CallExpr)
			if !ok {
				return true
			}
			sel, ok := ce.Fun.(*ast.SelectorExpr)
			if !ok || sel.Sel.Name != "Handler" || len(ce.Args) != 1 {
				return true
			}
			pc, ok := sel.X.(*ast.CallExpr)
			if !ok || len(pc.Args) != 1 {
				return true
			}
			ps, ok := pc.Fun.(*ast.SelectorExpr)
			if !ok || ps.Sel.Name != "Path" {
				return true
			}
			if p, ok := strLitVal(pc.Args[0]); ok && strings.Contains(p, "{name}") {
				found = append(found, [2]string{rel, addr2RouteHandlerName(imports, ce.Args[0])})
			}
			return true
		})
		routes = append(routes, found...)
	}
	sort.SliceStable(routes, func(i, j int) bool {
		if routes[i][0] != routes[j][0] {
			return routes[i][0] < routes[j][0]
		}
		return routes[i][1] < routes[j][1]
	})
	g.def("routesWithName", "List (String × String)", addr2PairList(routes),
		"(routes file, handler function) for every `<r>.Path(\"…{name}…\").Handler(web.Handler(F))` registration")
	g.def("routeNameLits", "Nat", strconv.Itoa(routeLits),
		"number of string literals containing \"{name}\" in the two routes files (each must be one recognised registration)")

	// ---- 2. MailboxForAddress is ExtractMailbox
	mfa := false
	mpk := addrLoadPkg("pkg/message")
	if fd := mpk.methods["StoreManager.MailboxForAddress"]; fd != nil && fd.Body != nil && addrSigIs(fd, []string{"string"}, addrStrRes) {
		env := addrNewEnv(mpk, fd)
		var evs []addrEv
		for _, ev := range addrFlatten(fd.Body.List) {
			if !env.isNoise(ev) {
				evs = append(evs, ev)
			}
		}
		const want = "$recv.AddrPolicy.ExtractMailbox($p0)"
		isExit := func(ev addrEv, leaves int, results ...string) bool {
			if ev.kind != addrEvExit || len(ev.leaves) != leaves {
				return false
			}
			t := env.resultTexts(ev.ret)
			if len(t) != len(results) {
				return false
			}
			for i := range t {
				if t[i] != results[i] {
					return false
				}
			}
			return true
		}
		switch {
		case len(evs) == 1:
			mfa = isExit(evs[0], 0, want)
		case len(evs) >= 2 && evs[0].kind == addrEvAssign && len(evs[0].as.Lhs) == 2 && len(evs[0].as.Rhs) == 1 &&
			env.render(evs[0].as.Rhs[0], evs[0].at) == want:
			v, e := src(evs[0].as.Lhs[0]), src(evs[0].as.Lhs[1])
			if v != "_" && e != "_" && len(env.assigns[v]) == 1 && len(env.assigns[e]) == 1 {
				if len(evs) == 2 {
					mfa = isExit(evs[1], 0, v, e)
				} else if len(evs) == 3 {
					mfa = isExit(evs[1], 1, `""`, e) && env.leafTexts(evs[1])[0] == e+" != nil" && isExit(evs[2], 0, v, "nil")
				}
			}
		}
	}
	g.def("mailboxForAddressIsExtract", "Bool", leanBool(mfa),
		"(R *StoreManager) MailboxForAddress(P string) returns exactly R.AddrPolicy.ExtractMailbox(P): `return R.AddrPolicy.ExtractMailbox(P)`, or "+
			"`v, err := R.AddrPolicy.ExtractMailbox(P)` followed by `return v, err` / `if err != nil { return \"\", err }; return v, nil`")

	// ---- 3. canonicalDomain / IPv6 tag
	p := addrAnalysePolicy()
	cdLit, cdN, cdOK := p.addrCanonShape()
	g.def("canonicalDomainShape", "Option (String × Nat)", optStrNat(cdLit, cdN, cdOK),
		"canonicalDomain (= the one (string) string helper both naming returns go through; parameter D) is \"LIT + strings.ToLower(D[N:]) when strings.HasPrefix(D, LIT), "+
			"strings.ToLower(D) otherwise\" in any if / else / switch arrangement: (LIT, N); `T, ok := strings.CutPrefix(D, LIT)` counts as HasPrefix(D, LIT) and, under ok, D[len(LIT):]")
	g.def("canonicalDomainLit", "Option (List Nat)", optBytes(cdLit, cdOK), "bytes of that LIT")

	vtLit, vtN, vtOK := p.addrValidateTag()
	g.def("validateTag", "Option (String × Nat)", optStrNat(vtLit, vtN, vtOK),
		"ValidateDomainPart (parameter D), or the unexported helper it hands D to: the argument of the one net.ParseIP call is the text D[a : len(D)-1] where a is N when the text "+
			"behind the opening bracket starts with LIT and 1 otherwise — found by evaluating the statements in front of the call symbolically, so an offset variable set under "+
			"strings.HasPrefix(D[1:], LIT), a text variable cut with strings.CutPrefix / TrimPrefix / HasPrefix + slice (N = 1 + len(LIT)) are the same fact: (LIT, N)")
	g.def("validateTagLit", "Option (List Nat)", optBytes(vtLit, vtOK), "bytes of that LIT")

	// ---- 4. name-shape test of ExtractMailbox and the naming returns
	nst := "none"
	if p.atomsOK {
		nst = "some " + strList(p.atoms)
	}
	g.def("nameShapeTest", "Option (List String)", nst,
		"ExtractMailbox: after `X, E := <mailbox-name parser>(result 0 of the raw parser)` and `if E != nil { return \"\", E }` come only exits that return (\"\", error); "+
			"the SET of their conditions ('||' in one guard, consecutive ifs, a switch and an unexported (string) bool / (string) error helper are all the same), sorted, each "+
			"named from a closed vocabulary — empty: X == \"\" | len(X) == 0; leadDot: X[0] == '.' | strings.HasPrefix(X, \".\"); trailDot: X[len(X)-1] == '.' | strings.HasSuffix(X, \".\"); "+
			"dotDot: strings.Contains(X, \"..\") — and anything else as its canonical text with X printed as $x")
	g.def("nameShapeConds", "List String", strList(p.conds), "the same conditions in evaluation order as canonical text (informative; not pinned)")
	g.def("nameShapeIndexGuarded", "Bool", leanBool(p.guardedOK),
		"every condition that indexes X (X[0], X[len(X)-1]) is evaluated after the emptiness condition")
	g.def("nameShapeBeforeNamingSwitch", "Bool", leanBool(p.posOK),
		"before the last of those exits no statement returns a name (other than the domain-naming dispatch) and nothing mentions config.LocalNaming / config.FullNaming; "+
			"after it there is an exit `R.Config.MailboxNaming == config.LocalNaming` (if or switch case) returning (X, nil)")
	g.def("domainDispatchFirst", "Bool", leanBool(p.dispatchOK),
		"the first thing ExtractMailbox(P) does is `R.Config.MailboxNaming == config.DomainNaming` (if or switch case) => `return F(P)`, F an unexported (string) (string, error) function (extractDomainMailbox)")
	g.def("fullReturn", "Option String", optStr(p.fullRet),
		"ExtractMailbox: result 0 of the one `return E, nil` with E other than X itself, printed with X = $x, result 1 of the raw parser = $dom, the (string) string helper = $canon")
	g.def("domainReturn", "Option String", optStr(p.domRet),
		"the domain extractor: result 0 of its one `return E, nil`, printed with the variable passed to ValidateDomainPart = $dom and the SAME helper as in fullReturn = $canon")

	// ---- 5. POP3 takes the name verbatim
	usesPolicy := false
	ppk := addrLoadPkg("pkg/server/pop3")
	if ppk.broken || len(ppk.files) == 0 {
		usesPolicy = true // unreadable: make the tie fail
	}
	for _, f := range ppk.files {
		for _, im := range f.Imports {
			if p, ok := strLitVal(im.Path); ok && strings.HasSuffix(p, "/pkg/policy") {
				usesPolicy = true
			}
		}
		ast.Inspect(f, func(n ast.Node) bool {
			if id, ok := n.(*ast.Ident); ok && (id.Name == "ExtractMailbox" || id.Name == "MailboxForAddress") {
				usesPolicy = true
			}
			return true
		})
	}
	g.def("pop3UsesPolicy", "Bool", leanBool(usesPolicy),
		"some non-test file of pkg/server/pop3 imports pkg/policy or mentions ExtractMailbox / MailboxForAddress")
	g.def("pop3UserVerbatim", "Bool", leanBool(addr2Pop3Verbatim(ppk)),
		"pkg/server/pop3: the session field handed to GetMessages (the mailbox key) is only ever assigned `A[0]`, inside the handler that has the USER clause (once in that clause), "+
			"where A is that handler's never-written []string parameter; A is result 1 of the command parser at every call of the handler, and the parser returns "+
			"(strings.ToUpper(W[0]), W[1:]) for W = strings.Split(line, \" \") after at most trimming CR / LF (or the strings.Cut spelling of that pair: the text in front of the "+
			"first space, and the empty list without a space / strings.Split of the text behind it with one)")
}
