package main

// addr2: T1 facts for C04 (mailbox naming is canonical) beyond the character tables of extractAddr:
//   * which HTTP / websocket handlers take a mailbox name from the URL and whether each one canonicalises it with
//     Manager.MailboxForAddress before anything else touches the manager or the hub;
//   * that MailboxForAddress IS ExtractMailbox;
//   * the shape of canonicalDomain, of the IPv6 tag handling in ValidateDomainPart, of the name-shape test of
//     ExtractMailbox and of the two naming returns;
//   * that the POP3 server takes the mailbox name verbatim (open finding F-04d).
// Every fact whose code shape is not recognised is emitted as none / false so that its tie theorem stops checking.

import (
	"fmt"
	"go/ast"
	"go/token"
	"os"
	"path/filepath"
	"sort"
	"strconv"
	"strings"
)

func init() { extractors = append(extractors, extractAddr2) }

var addr2HandlerFiles = []string{
	"pkg/rest/apiv1_controller.go",
	"pkg/rest/socketv1_controller.go",
	"pkg/rest/socketv2_controller.go",
	"pkg/webui/mailbox_controller.go",
}

var addr2RouteFiles = []string{"pkg/rest/routes.go", "pkg/webui/routes.go"}

func leanBool(b bool) string {
	if b {
		return "true"
	}
	return "false"
}

func strLitVal(e ast.Expr) (string, bool) {
	lit, ok := e.(*ast.BasicLit)
	if !ok || lit.Kind != token.STRING {
		return "", false
	}
	s, err := strconv.Unquote(lit.Value)
	if err != nil {
		return "", false
	}
	return s, true
}

func intLitVal(e ast.Expr) (int, bool) {
	lit, ok := e.(*ast.BasicLit)
	if !ok || lit.Kind != token.INT {
		return 0, false
	}
	v, err := strconv.Atoi(lit.Value)
	if err != nil {
		return 0, false
	}
	return v, true
}

// isNameIndex: an index expression `<anything>["name"]`.
func isNameIndex(n ast.Node) (*ast.IndexExpr, bool) {
	ie, ok := n.(*ast.IndexExpr)
	if !ok {
		return nil, false
	}
	if s, ok := strLitVal(ie.Index); ok && s == "name" {
		return ie, true
	}
	return nil, false
}

// isCtxVarsName: exactly `ctx.Vars["name"]`.
func isCtxVarsName(n ast.Node) (*ast.IndexExpr, bool) {
	ie, ok := isNameIndex(n)
	if !ok {
		return nil, false
	}
	return ie, src(ie.X) == "ctx.Vars"
}

type handlerRow struct {
	file, fn        string
	canon, onlyCano bool
}

// analyseHandler: fd reads ctx.Vars["name"] (uses >= 1).
func analyseHandler(file string, fd *ast.FuncDecl) handlerRow {
	row := handlerRow{file: file, fn: fd.Name.Name}
	var uses []*ast.IndexExpr
	ast.Inspect(fd.Body, func(n ast.Node) bool {
		if ie, ok := isCtxVarsName(n); ok {
			uses = append(uses, ie)
		}
		return true
	})
	if len(uses) == 0 {
		return row
	}
	sort.Slice(uses, func(i, j int) bool { return uses[i].Pos() < uses[j].Pos() })
	first := uses[0]
	// The statement-level shape: a direct child of the function body `v, err := ctx.Manager.MailboxForAddress(ctx.Vars["name"])`.
	var call *ast.CallExpr
	for _, st := range fd.Body.List {
		if st.Pos() <= first.Pos() && first.End() <= st.End() {
			as, ok := st.(*ast.AssignStmt)
			if !ok || len(as.Rhs) != 1 || len(as.Lhs) != 2 {
				break
			}
			id, ok := as.Lhs[0].(*ast.Ident)
			if !ok || id.Name == "_" {
				break
			}
			ce, ok := as.Rhs[0].(*ast.CallExpr)
			if !ok || src(ce.Fun) != "ctx.Manager.MailboxForAddress" || len(ce.Args) != 1 || ce.Args[0] != ast.Expr(first) {
				break
			}
			call = ce
			break
		}
	}
	if call == nil {
		return row
	}
	row.canon = true
	clean := len(uses) == 1
	ast.Inspect(fd.Body, func(n ast.Node) bool {
		if n == nil || n.Pos() >= call.Pos() {
			// a node starting at or after the call (its own Fun included) is not "before" it; neither are its children
			return false
		}
		switch v := n.(type) {
		case *ast.SelectorExpr:
			s := src(v)
			if strings.HasPrefix(s, "ctx.Manager") || strings.HasPrefix(s, "ctx.MsgHub") {
				clean = false
			}
		case *ast.Ident:
			if v.Name == "msgHub" || v.Name == "MsgHub" || v.Name == "Manager" {
				clean = false
			}
		}
		return true
	})
	row.onlyCano = clean
	return row
}

// routeHandlerName: `web.Handler(X)` -> X; anything else -> its source text (which matches no table entry).
func routeHandlerName(e ast.Expr) string {
	if ce, ok := e.(*ast.CallExpr); ok && src(ce.Fun) == "web.Handler" && len(ce.Args) == 1 {
		if id, ok := ce.Args[0].(*ast.Ident); ok {
			return id.Name
		}
	}
	return src(e)
}

func addr2PairList(rows [][2]string) string {
	p := []string{}
	for _, r := range rows {
		p = append(p, "("+leanStr(r[0])+", "+leanStr(r[1])+")")
	}
	return "[" + strings.Join(p, ", ") + "]"
}

func optStrNat(s string, n int, ok bool) string {
	if !ok {
		return "none"
	}
	return fmt.Sprintf("some (%s, %d)", leanStr(s), n)
}

func optBytes(s string, ok bool) string {
	if !ok {
		return "none"
	}
	return "some " + byteList(s)
}

// singleReturn: block is exactly `{ return r0, r1, ... }`.
func singleReturn(b *ast.BlockStmt) *ast.ReturnStmt {
	if b == nil || len(b.List) != 1 {
		return nil
	}
	r, _ := b.List[0].(*ast.ReturnStmt)
	return r
}

// orLeaves flattens a left-nested `a || b || c`.
func orLeaves(e ast.Expr) []ast.Expr {
	if be, ok := e.(*ast.BinaryExpr); ok && be.Op == token.LOR {
		return append(orLeaves(be.X), orLeaves(be.Y)...)
	}
	if pe, ok := e.(*ast.ParenExpr); ok {
		return orLeaves(pe.X)
	}
	return []ast.Expr{e}
}

func plainIf(s ast.Stmt) *ast.IfStmt {
	is, ok := s.(*ast.IfStmt)
	if !ok || is.Init != nil || is.Else != nil {
		return nil
	}
	return is
}

func extractAddr2() {
	g := gen("Addr2")

	// ---- 1. handlers taking a mailbox name from the URL
	rows := []handlerRow{}
	nameIdx := 0
	for _, rel := range addr2HandlerFiles {
		f := parse(rel)
		if f == nil {
			nameIdx += 1000 // unreadable file: make handlers_complete fail
			continue
		}
		ast.Inspect(f, func(n ast.Node) bool {
			if _, ok := isNameIndex(n); ok {
				nameIdx++
			}
			return true
		})
		for _, d := range f.Decls {
			fd, ok := d.(*ast.FuncDecl)
			if !ok || fd.Body == nil {
				continue
			}
			has := false
			ast.Inspect(fd.Body, func(n ast.Node) bool {
				if _, ok := isCtxVarsName(n); ok {
					has = true
				}
				return true
			})
			if has {
				rows = append(rows, analyseHandler(rel, fd))
			}
		}
	}
	sort.Slice(rows, func(i, j int) bool {
		if rows[i].file != rows[j].file {
			return rows[i].file < rows[j].file
		}
		return rows[i].fn < rows[j].fn
	})
	hp := []string{}
	for _, r := range rows {
		hp = append(hp, fmt.Sprintf("(%s, %s, %s, %s)", leanStr(r.file), leanStr(r.fn), leanBool(r.canon), leanBool(r.onlyCano)))
	}
	g.def("handlers", "List (String × String × Bool × Bool)", "[\n  "+strings.Join(hp, ",\n  ")+"]",
		"(file, function, canon, onlyCanon) for every function of the REST / websocket / web-UI controllers that reads ctx.Vars[\"name\"]: "+
			"canon = the first use is `v, err := ctx.Manager.MailboxForAddress(ctx.Vars[\"name\"])` as a statement of the function body; "+
			"onlyCanon = that is the only use, and nothing mentions ctx.Manager / ctx.MsgHub before it")
	g.def("handlerCount", "Nat", strconv.Itoa(len(rows)), "number of rows of `handlers`")
	g.def("varsNameUses", "Nat", strconv.Itoa(nameIdx),
		"number of index expressions `<x>[\"name\"]` (any x) anywhere in the four controller files; one per handler when every name is read as ctx.Vars[\"name\"] exactly once")

	routes := [][2]string{}
	routeLits := 0
	for _, rel := range addr2RouteFiles {
		f := parse(rel)
		if f == nil {
			routeLits += 1000
			continue
		}
		var found [][2]string
		ast.Inspect(f, func(n ast.Node) bool {
			if s, ok := n.(*ast.BasicLit); ok && s.Kind == token.STRING && strings.Contains(s.Value, "{name}") {
				routeLits++
			}
			ce, ok := n.(*ast.CallExpr)
			if !ok {
				return true
			}
			sel, ok := ce.Fun.(*ast.SelectorExpr)
			if !ok || sel.Sel.Name != "Handler" || len(ce.Args) != 1 {
				return true
			}
			pc, ok := sel.X.(*ast.CallExpr)
			if !ok || len(pc.Args) != 1 {
				return true
			}
			ps, ok := pc.Fun.(*ast.SelectorExpr)
			if !ok || ps.Sel.Name != "Path" {
				return true
			}
			if p, ok := strLitVal(pc.Args[0]); ok && strings.Contains(p, "{name}") {
				found = append(found, [2]string{rel, routeHandlerName(ce.Args[0])})
			}
			return true
		})
		routes = append(routes, found...)
	}
	sort.SliceStable(routes, func(i, j int) bool {
		if routes[i][0] != routes[j][0] {
			return routes[i][0] < routes[j][0]
		}
		return routes[i][1] < routes[j][1]
	})
	g.def("routesWithName", "List (String × String)", addr2PairList(routes),
		"(routes file, handler function) for every `r.Path(\"…{name}…\").Handler(web.Handler(F))` registration")
	g.def("routeNameLits", "Nat", strconv.Itoa(routeLits),
		"number of string literals containing \"{name}\" in the two routes files (each must be one recognised registration)")

	// ---- 2. MailboxForAddress is ExtractMailbox
	mfa := false
	if fd := fn(parse("pkg/message/manager.go"), "StoreManager", "MailboxForAddress"); fd != nil && fd.Body != nil && len(fd.Body.List) == 1 {
		recvOK := len(fd.Recv.List) == 1 && len(fd.Recv.List[0].Names) == 1 && fd.Recv.List[0].Names[0].Name == "s" && src(fd.Recv.List[0].Type) == "*StoreManager"
		ps := fd.Type.Params.List
		parOK := len(ps) == 1 && len(ps[0].Names) == 1 && ps[0].Names[0].Name == "mailbox" && src(ps[0].Type) == "string"
		mfa = recvOK && parOK && src(fd.Body.List[0]) == "return s.AddrPolicy.ExtractMailbox(mailbox)"
	}
	g.def("mailboxForAddressIsExtract", "Bool", leanBool(mfa),
		"(s *StoreManager) MailboxForAddress(mailbox string) is exactly `return s.AddrPolicy.ExtractMailbox(mailbox)`")

	// ---- 3. canonicalDomain / IPv6 tag
	af := parse("pkg/policy/address.go")
	cdLit, cdN, cdOK := "", 0, false
	if fd := fn(af, "", "canonicalDomain"); fd != nil && fd.Body != nil && len(fd.Body.List) == 2 {
		ps := fd.Type.Params.List
		parOK := len(ps) == 1 && len(ps[0].Names) == 1 && ps[0].Names[0].Name == "domain" && src(ps[0].Type) == "string"
		is := plainIf(fd.Body.List[0])
		last, _ := fd.Body.List[1].(*ast.ReturnStmt)
		if parOK && is != nil && last != nil && len(last.Results) == 1 && src(last.Results[0]) == "strings.ToLower(domain)" {
			if ce, ok := is.Cond.(*ast.CallExpr); ok && src(ce.Fun) == "strings.HasPrefix" && len(ce.Args) == 2 && src(ce.Args[0]) == "domain" {
				if lit, ok := strLitVal(ce.Args[1]); ok {
					if r := singleReturn(is.Body); r != nil && len(r.Results) == 1 {
						if be, ok := r.Results[0].(*ast.BinaryExpr); ok && be.Op == token.ADD {
							l2, ok2 := strLitVal(be.X)
							if tl, ok := be.Y.(*ast.CallExpr); ok && ok2 && l2 == lit && src(tl.Fun) == "strings.ToLower" && len(tl.Args) == 1 {
								if se, ok := tl.Args[0].(*ast.SliceExpr); ok && src(se.X) == "domain" && se.High == nil && se.Max == nil && !se.Slice3 && se.Low != nil {
									if n, ok := intLitVal(se.Low); ok {
										cdLit, cdN, cdOK = lit, n, true
									}
								}
							}
						}
					}
				}
			}
		}
	}
	g.def("canonicalDomainShape", "Option (String × Nat)", optStrNat(cdLit, cdN, cdOK),
		"canonicalDomain(domain) is `if strings.HasPrefix(domain, LIT) { return LIT + strings.ToLower(domain[N:]) }; return strings.ToLower(domain)`: (LIT, N)")
	g.def("canonicalDomainLit", "Option (List Nat)", optBytes(cdLit, cdOK), "bytes of that LIT")

	vtLit, vtN, vtOK := "", 0, false
	if fd := fn(af, "", "ValidateDomainPart"); fd != nil && fd.Body != nil {
		cnt := 0
		ast.Inspect(fd.Body, func(n ast.Node) bool {
			if ce, ok := n.(*ast.CallExpr); ok && src(ce.Fun) == "strings.HasPrefix" {
				cnt++
			}
			is, ok := n.(*ast.IfStmt)
			if !ok || is.Init != nil || is.Else != nil {
				return true
			}
			ce, ok := is.Cond.(*ast.CallExpr)
			if !ok || src(ce.Fun) != "strings.HasPrefix" || len(ce.Args) != 2 || src(ce.Args[0]) != "domain[1:]" {
				return true
			}
			lit, ok := strLitVal(ce.Args[1])
			if !ok || len(is.Body.List) != 1 {
				return true
			}
			as, ok := is.Body.List[0].(*ast.AssignStmt)
			if !ok || as.Tok != token.ASSIGN || len(as.Lhs) != 1 || len(as.Rhs) != 1 || src(as.Lhs[0]) != "s" {
				return true
			}
			if n, ok := intLitVal(as.Rhs[0]); ok {
				vtLit, vtN, vtOK = lit, n, true
			}
			return true
		})
		// the surrounding code: `s := 1` before, `net.ParseIP(domain[s : ln-1])` after
		body := src(fd.Body)
		if cnt != 1 || !strings.Contains(body, "s := 1\n") || !strings.Contains(body, "net.ParseIP(domain[s : ln-1])") {
			vtOK = false
		}
	}
	g.def("validateTag", "Option (String × Nat)", optStrNat(vtLit, vtN, vtOK),
		"ValidateDomainPart, bracketed branch: `s := 1; if strings.HasPrefix(domain[1:], LIT) { s = N }; net.ParseIP(domain[s : ln-1])`: (LIT, N)")
	g.def("validateTagLit", "Option (List Nat)", optBytes(vtLit, vtOK), "bytes of that LIT")

	// ---- 4. name-shape test of ExtractMailbox and the naming returns
	var conds []string
	condsOK := false
	posOK := false
	dispatchOK := false
	var fullRet, domRet *string
	if fd := fn(af, "Addressing", "ExtractMailbox"); fd != nil && fd.Body != nil && len(fd.Body.List) > 0 {
		L := fd.Body.List
		if is := plainIf(L[0]); is != nil && src(is.Cond) == "a.Config.MailboxNaming == config.DomainNaming" {
			if r := singleReturn(is.Body); r != nil && len(r.Results) == 1 && src(r.Results[0]) == "extractDomainMailbox(address)" {
				dispatchOK = true
			}
		}
		pmIdx := -1
		for i, st := range L {
			if as, ok := st.(*ast.AssignStmt); ok && len(as.Rhs) == 1 && src(as) == "local, err = parseMailboxName(local)" {
				pmIdx = i
				break
			}
		}
		var emptyIf, shapeIf *ast.IfStmt
		if pmIdx >= 0 && pmIdx+3 < len(L) {
			errIf := plainIf(L[pmIdx+1])
			e := plainIf(L[pmIdx+2])
			s := plainIf(L[pmIdx+3])
			errOK := false
			if errIf != nil && src(errIf.Cond) == "err != nil" {
				if r := singleReturn(errIf.Body); r != nil && len(r.Results) == 2 && src(r.Results[0]) == `""` && src(r.Results[1]) == "err" {
					errOK = true
				}
			}
			rejects := func(is *ast.IfStmt) bool {
				if is == nil {
					return false
				}
				r := singleReturn(is.Body)
				if r == nil || len(r.Results) != 2 || src(r.Results[0]) != `""` {
					return false
				}
				ce, ok := r.Results[1].(*ast.CallExpr)
				return ok && (src(ce.Fun) == "errors.New" || src(ce.Fun) == "fmt.Errorf")
			}
			if errOK && rejects(e) && rejects(s) {
				if _, isBin := e.Cond.(*ast.BinaryExpr); isBin && len(orLeaves(e.Cond)) == 1 {
					conds = append(conds, src(e.Cond))
					for _, lf := range orLeaves(s.Cond) {
						conds = append(conds, src(lf))
					}
					condsOK = true
					emptyIf, shapeIf = e, s
				}
			}
		}
		if condsOK {
			// the first top-level `if a.Config.MailboxNaming == config.LocalNaming { return local, nil }`
			var sw *ast.IfStmt
			for _, st := range L {
				if is := plainIf(st); is != nil && src(is.Cond) == "a.Config.MailboxNaming == config.LocalNaming" {
					if r := singleReturn(is.Body); r != nil && len(r.Results) == 2 && src(r.Results[0]) == "local" && src(r.Results[1]) == "nil" {
						sw = is
					}
					break
				}
			}
			ok := sw != nil && L[pmIdx].End() <= emptyIf.Pos() && emptyIf.End() <= shapeIf.Pos() && shapeIf.End() <= sw.Pos()
			// no mention of config.LocalNaming / config.FullNaming before the shape test ends, and every return before
			// it either fails (`""`) or is the domain-naming dispatch
			ast.Inspect(fd.Body, func(n ast.Node) bool {
				if n == nil || n.Pos() >= shapeIf.End() {
					return false
				}
				switch v := n.(type) {
				case *ast.SelectorExpr:
					if s := src(v); s == "config.LocalNaming" || s == "config.FullNaming" {
						ok = false
					}
				case *ast.ReturnStmt:
					if len(v.Results) == 0 {
						ok = false
					} else if r0 := src(v.Results[0]); r0 != `""` && r0 != "extractDomainMailbox(address)" {
						ok = false
					}
				}
				return true
			})
			posOK = ok
		}
		if r, ok := L[len(L)-1].(*ast.ReturnStmt); ok && len(r.Results) == 2 {
			s := src(r.Results[0])
			fullRet = &s
		}
	}
	if fd := fn(af, "", "extractDomainMailbox"); fd != nil && fd.Body != nil && len(fd.Body.List) > 0 {
		L := fd.Body.List
		if r, ok := L[len(L)-1].(*ast.ReturnStmt); ok && len(r.Results) == 2 {
			s := src(r.Results[0])
			domRet = &s
		}
	}
	nst := "none"
	if condsOK {
		nst = "some " + strList(conds)
	}
	g.def("nameShapeTest", "Option (List String)", nst,
		"ExtractMailbox: right after `local, err = parseMailboxName(local)` and its error check come `if C0 { return \"\", error }` and `if C1 || C2 || … { return \"\", error }`: [C0, C1, C2, …]")
	g.def("nameShapeBeforeNamingSwitch", "Bool", leanBool(posOK),
		"both ifs lie between the parseMailboxName call and the first `if a.Config.MailboxNaming == config.LocalNaming { return local, nil }`, and no statement before them returns a name (other than the domain-naming dispatch)")
	g.def("domainDispatchFirst", "Bool", leanBool(dispatchOK),
		"the first statement of ExtractMailbox is `if a.Config.MailboxNaming == config.DomainNaming { return extractDomainMailbox(address) }`")
	g.def("fullReturn", "Option String", optStr(fullRet), "first result of the last statement (a return) of ExtractMailbox")
	g.def("domainReturn", "Option String", optStr(domRet), "first result of the last statement (a return) of extractDomainMailbox")

	// ---- 5. POP3 takes the name verbatim
	usesPolicy := false
	pop3Dir := filepath.Join(repo, "pkg/server/pop3")
	ents, err := os.ReadDir(pop3Dir)
	if err != nil {
		usesPolicy = true // unreadable: make the tie fail
	}
	seenHandler := false
	for _, e := range ents {
		n := e.Name()
		if e.IsDir() || !strings.HasSuffix(n, ".go") || strings.HasSuffix(n, "_test.go") || strings.HasPrefix(n, "verif_export") {
			continue
		}
		if n == "handler.go" {
			seenHandler = true
		}
		f := parse("pkg/server/pop3/" + n)
		if f == nil {
			usesPolicy = true
			continue
		}
		for _, im := range f.Imports {
			if p, ok := strLitVal(im.Path); ok && strings.HasSuffix(p, "/pkg/policy") {
				usesPolicy = true
			}
		}
		ast.Inspect(f, func(n ast.Node) bool {
			if id, ok := n.(*ast.Ident); ok && (id.Name == "ExtractMailbox" || id.Name == "MailboxForAddress") {
				usesPolicy = true
			}
			return true
		})
	}
	if !seenHandler {
		usesPolicy = true
	}
	g.def("pop3UsesPolicy", "Bool", leanBool(usesPolicy),
		"some non-test file of pkg/server/pop3 imports pkg/policy or mentions ExtractMailbox / MailboxForAddress")

	verbatim := false
	hf := parse("pkg/server/pop3/handler.go")
	if ah := fn(hf, "Session", "authorizationHandler"); ah != nil && ah.Body != nil {
		ps := ah.Type.Params.List
		parOK := len(ps) == 2 && len(ps[1].Names) == 1 && ps[1].Names[0].Name == "args" && src(ps[1].Type) == "[]string"
		// (a) every assignment whose left side mentions `.user` anywhere in handler.go is `s.user = args[0]`
		allPlain, total := true, 0
		ast.Inspect(hf, func(n ast.Node) bool {
			as, ok := n.(*ast.AssignStmt)
			if !ok {
				return true
			}
			for _, l := range as.Lhs {
				if se, ok := l.(*ast.SelectorExpr); ok && se.Sel.Name == "user" {
					total++
					if src(as) != "s.user = args[0]" {
						allPlain = false
					}
				}
			}
			return true
		})
		// composite literals of Session must not set user either
		ast.Inspect(hf, func(n ast.Node) bool {
			if kv, ok := n.(*ast.KeyValueExpr); ok && src(kv.Key) == "user" {
				allPlain = false
			}
			return true
		})
		// (b) args is never assigned in authorizationHandler; the USER clause holds one of the assignments
		argsKept := true
		inUser := 0
		ast.Inspect(ah.Body, func(n ast.Node) bool {
			switch v := n.(type) {
			case *ast.AssignStmt:
				for _, l := range v.Lhs {
					if strings.HasPrefix(src(l), "args") {
						argsKept = false
					}
				}
			case *ast.CaseClause:
				isUser := false
				for _, e := range v.List {
					if s, ok := strLitVal(e); ok && s == "USER" {
						isUser = true
					}
				}
				if isUser {
					for _, st := range v.Body {
						ast.Inspect(st, func(m ast.Node) bool {
							if as, ok := m.(*ast.AssignStmt); ok && src(as) == "s.user = args[0]" {
								inUser++
							}
							return true
						})
					}
				}
			}
			return true
		})
		// (c) loadMailbox hands s.user to the store as is; (d) parseCmd returns words[1:] of a plain split
		loadOK := false
		if lm := fn(hf, "Session", "loadMailbox"); lm != nil && lm.Body != nil {
			ast.Inspect(lm.Body, func(n ast.Node) bool {
				if ce, ok := n.(*ast.CallExpr); ok && src(ce) == "s.store.GetMessages(s.user)" {
					loadOK = true
				}
				return true
			})
		}
		parseOK := false
		if pc := fn(hf, "Session", "parseCmd"); pc != nil && pc.Body != nil {
			b := src(pc.Body)
			parseOK = strings.Contains(b, `words := strings.Split(line, " ")`) && strings.Contains(b, "return strings.ToUpper(words[0]), words[1:]")
		}
		verbatim = parOK && allPlain && total >= 1 && argsKept && inUser == 1 && loadOK && parseOK
	}
	g.def("pop3UserVerbatim", "Bool", leanBool(verbatim),
		"pkg/server/pop3/handler.go: every assignment to the session's user field is `s.user = args[0]` (one of them in the USER clause), args is the untouched "+
			"parameter holding words[1:] of the space-split line, and loadMailbox calls s.store.GetMessages(s.user)")
}
