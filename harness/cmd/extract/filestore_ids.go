package main

// T1 facts about the id check of the file store's message constructor (pkg/storage/file/fmessage.go: newMessage, hasID),
// for the model lean/Ibx/Model/FileIds.lean.  Structural, like everything in filestore.go: the constructor is the function
// building `Message{… Fid: id …}`, the generator the package function its id variable is drawn from, the list the
// mailbox struct's only slice field, the loader the function setting the loaded flag.
//
//   hasIDSearch  how the function asked by the re-draw loop looks an id up in the loaded index:
//     "linearScan"                 `for _, m := range <recv>.<list> { if m.Fid == id { return true } }; return false`
//                                  (over the WHOLE list, equality on the id field, true exactly there, false after the loop),
//                                  or `return slices.ContainsFunc(<recv>.<list>, func(m) bool { return m.Fid == id })`,
//                                  or `return slices.IndexFunc(<recv>.<list>, <same>) >= 0` (`!= -1`, `> -1`)
//     "binarySearchAssumingSorted" the function calls sort.Search / sort.Find / slices.BinarySearch(Func)
//     "unknown"                    anything else
//   redrawLoop   the loop after the first draw, fact by fact (all must be true):
//     condIsHasIDOfReceiver        the condition is `<recv>.<has>(id)`: a method of the constructor's OWN receiver (the same
//                                  mailbox object whose index was loaded), asked about the id variable
//     bodyRedrawsThroughGenerator  the body assigns the id variable only from the generator function, and has no break / return
//     returnsLoopId                the `Message{… Fid: id …}` literal is returned after the loop, the id variable not
//                                  assigned in between
//     indexLoadedBefore            before the first draw the constructor runs the loader (directly, under the
//                                  `!<loaded>` guard, or through one package helper)
//     noOtherLoopAfterDraw         it is the only loop after the first draw

import (
	"go/ast"
	"go/token"
	"strings"
)

// fsEqOnID: e is `<elem>.Fid == <id>` or `<elem>.ID() == <id>` (either order)
func fsEqOnID(e ast.Expr, elem, id *ast.Object) bool {
	be, ok := crUnparen(e).(*ast.BinaryExpr)
	if !ok || be.Op != token.EQL {
		return false
	}
	isElemID := func(x ast.Expr) bool {
		x = crUnparen(x)
		if ce, ok := x.(*ast.CallExpr); ok && len(ce.Args) == 0 {
			if se, ok := ce.Fun.(*ast.SelectorExpr); ok && se.Sel.Name == "ID" {
				return fsIsVar(se.X, elem)
			}
			return false
		}
		se, ok := x.(*ast.SelectorExpr)
		return ok && se.Sel.Name == "Fid" && fsIsVar(se.X, elem)
	}
	return (isElemID(be.X) && fsIsVar(be.Y, id)) || (isElemID(be.Y) && fsIsVar(be.X, id))
}

// fsEqPredicate: e is `func(m T) bool { return m.Fid == id }`
func fsEqPredicate(e ast.Expr, id *ast.Object) bool {
	fl, ok := crUnparen(e).(*ast.FuncLit)
	if !ok || fl.Type.Params == nil || len(fl.Type.Params.List) != 1 || len(fl.Type.Params.List[0].Names) != 1 || len(fl.Body.List) != 1 {
		return false
	}
	ret, ok := fl.Body.List[0].(*ast.ReturnStmt)
	return ok && len(ret.Results) == 1 && fsEqOnID(ret.Results[0], fl.Type.Params.List[0].Names[0].Obj, id)
}

func fsHasIDSearch(p *crPkg, fd *ast.FuncDecl) string {
	if fd == nil || fd.Body == nil {
		return "unknown"
	}
	recv, par := fsRecvObj(fd), fsParamObj(fd)
	if recv == nil || par == nil {
		return "unknown"
	}
	isList := func(e ast.Expr) bool {
		se, ok := crUnparen(e).(*ast.SelectorExpr)
		return ok && p.sliceField != "" && se.Sel.Name == p.sliceField && fsIsVar(se.X, recv)
	}
	for _, ce := range callsIn(fd.Body) {
		for _, pn := range [][2]string{{"sort", "Search"}, {"sort", "Find"}, {"sort", "SearchStrings"}, {"slices", "BinarySearch"}, {"slices", "BinarySearchFunc"}} {
			if p.isPkgCall(ce, pn[0], pn[1]) {
				return "binarySearchAssumingSorted"
			}
		}
	}
	if fsHasIDShape(p, fd) {
		if rs, ok := fd.Body.List[0].(*ast.RangeStmt); ok && isList(rs.X) {
			return "linearScan"
		}
		return "unknown"
	}
	if len(fd.Body.List) != 1 {
		return "unknown"
	}
	ret, ok := fd.Body.List[0].(*ast.ReturnStmt)
	if !ok || len(ret.Results) != 1 {
		return "unknown"
	}
	e := crUnparen(ret.Results[0])
	if ce, ok := e.(*ast.CallExpr); ok && p.isPkgCall(ce, "slices", "ContainsFunc") && len(ce.Args) == 2 && isList(ce.Args[0]) && fsEqPredicate(ce.Args[1], par) {
		return "linearScan"
	}
	if be, ok := e.(*ast.BinaryExpr); ok {
		ce, ok := crUnparen(be.X).(*ast.CallExpr)
		if ok && p.isPkgCall(ce, "slices", "IndexFunc") && len(ce.Args) == 2 && isList(ce.Args[0]) && fsEqPredicate(ce.Args[1], par) {
			y := strings.ReplaceAll(src(be.Y), " ", "")
			if (be.Op == token.GEQ && y == "0") || (be.Op == token.NEQ && y == "-1") || (be.Op == token.GTR && y == "-1") {
				return "linearScan"
			}
		}
	}
	return "unknown"
}

// fsRedrawFacts: the loop after the first draw of the constructor nm; returns the facts and the function its condition asks.
func fsRedrawFacts(p *crPkg, nm *ast.FuncDecl, idObj *ast.Object, genFn, loader *ast.FuncDecl, defStmt *ast.AssignStmt) ([][2]string, *ast.FuncDecl) {
	names := []string{"condIsHasIDOfReceiver", "bodyRedrawsThroughGenerator", "returnsLoopId", "indexLoadedBefore", "noOtherLoopAfterDraw"}
	val := map[string]bool{}
	var has *ast.FuncDecl
	out := func() ([][2]string, *ast.FuncDecl) {
		var l [][2]string
		for _, n := range names {
			l = append(l, [2]string{n, map[bool]string{true: "true", false: "false"}[val[n]]})
		}
		return l, has
	}
	if nm == nil || nm.Body == nil || idObj == nil || genFn == nil || defStmt == nil {
		return out()
	}
	recv := fsRecvObj(nm)
	isGen := func(e ast.Expr) bool {
		ce, ok := crUnparen(e).(*ast.CallExpr)
		return ok && fsPkgCallee(p, ce) == genFn
	}
	var loops []ast.Stmt
	ast.Inspect(nm.Body, func(x ast.Node) bool {
		switch v := x.(type) {
		case *ast.FuncLit:
			return false
		case *ast.ForStmt:
			if v.Pos() >= defStmt.End() {
				loops = append(loops, v)
			}
		case *ast.RangeStmt:
			if v.Pos() >= defStmt.End() {
				loops = append(loops, v)
			}
		}
		return true
	})
	val["noOtherLoopAfterDraw"] = len(loops) == 1
	if len(loops) != 1 {
		return out()
	}
	fs, ok := loops[0].(*ast.ForStmt)
	if !ok {
		return out()
	}
	if ce, ok := crUnparen(fs.Cond).(*ast.CallExpr); ok && fs.Init == nil && fs.Post == nil && len(ce.Args) == 1 && fsIsVar(ce.Args[0], idObj) {
		if se, ok := crUnparen(ce.Fun).(*ast.SelectorExpr); ok && recv != nil && fsIsVar(se.X, recv) {
			if callee := fsPkgCallee(p, ce); callee != nil && callee.Recv != nil {
				has = callee
				val["condIsHasIDOfReceiver"] = true
			}
		}
	}
	redraws, other := 0, 0
	ast.Inspect(fs.Body, func(x ast.Node) bool {
		switch v := x.(type) {
		case *ast.AssignStmt:
			for i, l := range v.Lhs {
				if fsIsVar(l, idObj) {
					if v.Tok == token.ASSIGN && len(v.Lhs) == len(v.Rhs) && isGen(v.Rhs[i]) {
						redraws++
					} else {
						other++
					}
				}
			}
		case *ast.IncDecStmt:
			if fsIsVar(v.X, idObj) {
				other++
			}
		}
		return true
	})
	val["bodyRedrawsThroughGenerator"] = redraws >= 1 && other == 0 && !fsLeaves(fs.Body)
	// the literal is returned after the loop, the id variable untouched in between
	for _, s := range nm.Body.List {
		if s.Pos() < fs.End() {
			continue
		}
		touched := false
		ast.Inspect(s, func(x ast.Node) bool {
			if as, ok := x.(*ast.AssignStmt); ok {
				for _, l := range as.Lhs {
					if fsIsVar(l, idObj) {
						touched = true
					}
				}
			}
			return true
		})
		if touched {
			break
		}
		if ret, ok := s.(*ast.ReturnStmt); ok {
			ast.Inspect(ret, func(x ast.Node) bool {
				if cl, ok := x.(*ast.CompositeLit); ok {
					if id, ok := cl.Type.(*ast.Ident); ok && id.Name == "Message" {
						for _, el := range cl.Elts {
							if kv, ok := el.(*ast.KeyValueExpr); ok && src(kv.Key) == "Fid" && fsIsVar(kv.Value, idObj) {
								val["returnsLoopId"] = true
							}
						}
					}
				}
				return true
			})
			break
		}
	}
	// the loader runs before the first draw (directly or through one package helper)
	callsLoader := func(n ast.Node) bool {
		for _, ce := range callsIn(n) {
			c := fsPkgCallee(p, ce)
			if c == nil {
				continue
			}
			if c == loader {
				return true
			}
			if c != nm && c.Body != nil {
				for _, ce2 := range callsIn(c.Body) {
					if fsPkgCallee(p, ce2) == loader {
						return true
					}
				}
			}
		}
		return false
	}
	for _, s := range nm.Body.List {
		if s.End() > defStmt.Pos() {
			break
		}
		if loader != nil && callsLoader(s) {
			val["indexLoadedBefore"] = true
		}
	}
	return out()
}

// fsIdsFacts writes the two facts (called by extractFileStore, which has found the constructor and the generator).
func fsIdsFacts(g *genFile, p *crPkg, nm *ast.FuncDecl, idObj *ast.Object, genFn, loader *ast.FuncDecl, defStmt *ast.AssignStmt) {
	facts, has := fsRedrawFacts(p, nm, idObj, genFn, loader, defStmt)
	var lp []string
	for _, f := range facts {
		lp = append(lp, "("+leanStr(f[0])+", "+f[1]+")")
	}
	g.def("hasIDSearch", "String", leanStr(fsHasIDSearch(p, has)),
		"how the method asked by the re-draw loop of the message constructor looks an id up in the loaded index: \"linearScan\" = `for _, m := range <recv>.<list> { if m.Fid == id { return true } }; return false` (whole list, equality on the id field, true exactly there, false after the loop) or slices.ContainsFunc / slices.IndexFunc(…) >= 0 over <recv>.<list> with that equality; \"binarySearchAssumingSorted\" = it calls sort.Search / sort.Find / slices.BinarySearch(Func); \"unknown\" = anything else")
	g.def("redrawLoop", "List (String × Bool)", "["+strings.Join(lp, ", ")+"]",
		"the loop after the first draw of the message constructor: its condition is <recv>.<has>(id), a method of the constructor's own receiver (the mailbox whose index was loaded) asked about the id variable; its body assigns the id variable only from the generator function and has no break / return; the Message{… Fid: id …} literal is returned after the loop with the id variable untouched in between; the loader has run before the first draw (directly or through one package helper); there is no other loop after the first draw")
}
