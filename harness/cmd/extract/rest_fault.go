package main

// rest_fault.go — T1 facts for C14 under a failing store (lean/Ibx/Gen/RestFault.lean, pinned by lean/Ibx/Tie/RestFault.lean).
//
// For the wrapper web.Handler.ServeHTTP, the six store-facing methods of message.StoreManager and the ten mailbox handlers of pkg/rest and
// pkg/webui, the ERROR-PATH SKELETON of the function: the fallible calls (result type contains `error`) and the writes to the
// http.ResponseWriter, in execution order, each with what the code does with the error:
//
//     <callee> ? <cond> => <action> ; <cond> => <action> …      the DECISION the code makes on the call's error (`err`) and its other result
//                                                              (`res`), printed as a first-match rule list
//     <callee> ? tail                                          the call's results ARE the function's results (`return <call>`, or assigned and
//                                                              returned untested)
//     <callee> ? ignored                                       the error is never looked at (`_ = <call>`, a bare call statement)
//     <callee> ? deferred                                      a deferred fallible call
//     <callee> ? then return-err                               the error is returned untested, the other results are dropped
//     <callee> ? err == nil => assign ; else => assign         the error is tested, but every outcome goes on in the same way
//     w:<callee>                                               a statement that hands the ResponseWriter to <callee> (w.Header() is not a write)
//     if … [else …] end                                        a decision on anything else (a flag of the decoded body, a bounds test)
//
// THE FACT DESCRIBES STRUCTURE, NOT SPELLING.  The function is EXECUTED symbolically, path by path (rfX):
//   * a local carries the value it has on the path: `nil`, storage.ErrNotExist, the error / the i-th other result of a call made on the path, a
//     wrapped error (fmt.Errorf / errors.New), the ResponseWriter, the *web.Context, true / false, or something opaque;
//   * a call of an UNEXPORTED function or method of the same package (or of an exported one that is handed the ResponseWriter or the Context) is
//     executed in place: its parameters are the caller's values, each of its `return`s continues in the caller with the values it returns — so
//     a prefix extracted into a helper, or a reply moved into one, leaves no trace;
//   * a condition is decided atom by atom (`err == nil`, `err == ErrNotExist`, errors.Is(err, ErrNotExist), `res == nil`); `&&`, `||`, `!`, nested
//     ifs, else-if chains, guard clauses, tagged and tagless switches are the same thing; an atom already decided on the path decides nothing;
//   * the result is a TREE of calls, decisions and exits.  What is printed for a call is computed from the tree: for each of the cells
//     (err ∈ {nil, ErrNotExist, an error wrapping it, another error}) × (res ∈ {nil, non-nil}, when res is tested) the rest of the function is
//     specialised to the cell; cells whose rest is that of the success cell (err = nil, res ≠ nil) go on, the others must be straight-line ACTIONS
//     (`http.NotFound+return-nil`, `return-wrapped`, `http.Error:500+return` …); the table is printed by a fixed greedy procedure (rfRules), so
//     two spellings of the same table give the same text and two different tables never do;
//   * an opaque decision is printed without its condition and polarity: identical branches vanish, a common tail is factored out
//     (`if c {A}; S` = `if !c {S; return}; A; S`), a branch that leaves the function is the guard (`if c {return X}; B` = `if c {return X} else {B}`).
// The package is TYPE-CHECKED (go/types, the loader of entry.go), so a callee is named by the OBJECT it resolves to: `Manager.X` = a method of the
// interface message.Manager, `Store.X` / `Message.X` = methods of storage.Store / storage.Message, `handler` = a call of a value of type
// web.Handler, `pkg.F` = a package-level function; storage.ErrNotExist is the package-level variable of that name in pkg/storage, 500 is the value
// of the constant handed to http.Error.  Nothing is guessed: a statement the executor does not execute (loops that contain calls of interest, go,
// select, goto, break, fallthrough, closures touching the ResponseWriter, a ResponseWriter stored in a literal, calls of interest nested inside
// other expressions, a non-action outcome of a failed call …) becomes `unknown`, which no tie theorem accepts.

import (
	"fmt"
	"go/ast"
	"go/token"
	"go/types"
	"os"
	"sort"
	"strings"
)

func init() { extractors = append(extractors, extractRestFault) }

// ------------------------------------------------------------------------------------------------------------------ naming (go/types)

type rfCtx struct {
	w    *entWorld
	p    *entPkg
	recv types.Object // receiver of type web.Handler (func value), if any
}

func rfIsError(t types.Type) bool {
	if t == nil {
		return false
	}
	if n, ok := t.(*types.Named); ok && n.Obj().Pkg() == nil && n.Obj().Name() == "error" {
		return true
	}
	return false
}

// fallible: the call's result type contains `error`; returns the index of the error result and the number of results
func (c *rfCtx) fallible(ce *ast.CallExpr) (int, int, bool) {
	tv, ok := c.p.info.Types[ce]
	if !ok {
		return 0, 0, false
	}
	switch t := tv.Type.(type) {
	case *types.Tuple:
		for i := 0; i < t.Len(); i++ {
			if rfIsError(t.At(i).Type()) {
				return i, t.Len(), true
			}
		}
		return 0, t.Len(), false
	default:
		if rfIsError(t) {
			return 0, 1, true
		}
	}
	return 0, 1, false
}

func rfNamed(t types.Type) *types.Named {
	if p, ok := t.(*types.Pointer); ok {
		t = p.Elem()
	}
	n, _ := t.(*types.Named)
	return n
}

func rfUnparen(e ast.Expr) ast.Expr {
	for {
		p, ok := e.(*ast.ParenExpr)
		if !ok {
			return e
		}
		e = p.X
	}
}

// callee: the name of what a call resolves to
func (c *rfCtx) callee(ce *ast.CallExpr) string {
	fun := rfUnparen(ce.Fun)
	switch f := fun.(type) {
	case *ast.Ident:
		obj := c.p.info.Uses[f]
		if obj == nil {
			return "unknown"
		}
		if c.recv != nil && obj == c.recv {
			return "handler"
		}
		if fn, ok := obj.(*types.Func); ok {
			if fn.Pkg() != nil {
				return rfPkgName(fn.Pkg().Path()) + "." + fn.Name()
			}
			return fn.Name()
		}
		if v, ok := obj.(*types.Var); ok {
			if n := rfNamed(v.Type()); n != nil && n.Obj().Name() == "Handler" && n.Obj().Pkg() != nil && strings.HasSuffix(n.Obj().Pkg().Path(), "/pkg/server/web") {
				return "handler"
			}
			return "funcvalue"
		}
		if _, ok := obj.(*types.Builtin); ok {
			return "builtin." + f.Name
		}
		if _, ok := obj.(*types.TypeName); ok {
			return "conv"
		}
		return "unknown"
	case *ast.SelectorExpr:
		if sel := c.p.info.Selections[f]; sel != nil {
			fn, ok := sel.Obj().(*types.Func)
			if !ok {
				return "funcvalue"
			}
			recv := sel.Recv()
			if n := rfNamed(recv); n != nil {
				if n.Obj().Pkg() != nil {
					path := n.Obj().Pkg().Path()
					switch {
					case strings.HasSuffix(path, "/pkg/message") && n.Obj().Name() == "Manager":
						return "Manager." + fn.Name()
					case strings.HasSuffix(path, "/pkg/storage") && n.Obj().Name() == "Store":
						return "Store." + fn.Name()
					case strings.HasSuffix(path, "/pkg/storage") && n.Obj().Name() == "Message":
						return "Message." + fn.Name()
					}
					return rfPkgName(path) + "." + n.Obj().Name() + "." + fn.Name()
				}
				return n.Obj().Name() + "." + fn.Name()
			}
			return "method." + fn.Name()
		}
		// package-qualified function
		if obj := c.p.info.Uses[f.Sel]; obj != nil {
			if fn, ok := obj.(*types.Func); ok && fn.Pkg() != nil {
				return rfPkgName(fn.Pkg().Path()) + "." + fn.Name()
			}
			if _, ok := obj.(*types.TypeName); ok {
				return "conv"
			}
		}
		return "unknown"
	case *ast.ArrayType, *ast.MapType, *ast.InterfaceType, *ast.StarExpr, *ast.FuncType, *ast.ChanType:
		return "conv"
	}
	return "unknown"
}

func rfPkgName(path string) string {
	if i := strings.LastIndex(path, "/"); i >= 0 {
		// enmime/v2 -> enmime
		last := path[i+1:]
		if len(last) >= 2 && last[0] == 'v' && last[1] >= '0' && last[1] <= '9' {
			return rfPkgName(path[:i])
		}
		return last
	}
	return path
}

func (c *rfCtx) objOf(e ast.Expr) types.Object {
	id, ok := rfUnparen(e).(*ast.Ident)
	if !ok {
		return nil
	}
	if o := c.p.info.Uses[id]; o != nil {
		return o
	}
	return c.p.info.Defs[id]
}

func (c *rfCtx) isErrNotExist(e ast.Expr) bool {
	var id *ast.Ident
	switch v := e.(type) {
	case *ast.SelectorExpr:
		id = v.Sel
	case *ast.Ident:
		id = v
	default:
		return false
	}
	o := c.p.info.Uses[id]
	v, ok := o.(*types.Var)
	return ok && v.Pkg() != nil && strings.HasSuffix(v.Pkg().Path(), "/pkg/storage") && v.Name() == "ErrNotExist" && v.Parent() == v.Pkg().Scope()
}

func rfIsNilIdent(c *rfCtx, e ast.Expr) bool {
	id, ok := e.(*ast.Ident)
	if !ok {
		return false
	}
	_, isNil := c.p.info.Uses[id].(*types.Nil)
	return isNil
}

func rfIsRW(t types.Type) bool {
	n := rfNamed(t)
	return n != nil && n.Obj().Pkg() != nil && n.Obj().Pkg().Path() == "net/http" && n.Obj().Name() == "ResponseWriter"
}

func rfIsWebContext(t types.Type) bool {
	n := rfNamed(t)
	return n != nil && n.Obj().Pkg() != nil && strings.HasSuffix(n.Obj().Pkg().Path(), "/pkg/server/web") && n.Obj().Name() == "Context"
}

func rfIsWrap(name string) bool { return name == "fmt.Errorf" || name == "errors.New" }

// ------------------------------------------------------------------------------------------------------------------ symbolic values, states

// rfV: what a local is on a path
type rfV struct {
	k    string // nil | ne (storage.ErrNotExist) | err | res | wrapped | w | ctx | true | false | opq
	call string // err / res: the call (site) it is a result of
	idx  int    // res: which result
}

var rfOpq = rfV{k: "opq"}

func (v rfV) String() string {
	switch v.k {
	case "err":
		return "err@" + v.call
	case "res":
		return fmt.Sprintf("res%d@%s", v.idx, v.call)
	}
	return v.k
}

const (
	rfENil = 1 << iota
	rfENE
	rfEWrapNE
	rfEOther
	rfEAll = rfENil | rfENE | rfEWrapNE | rfEOther
)
const (
	rfRNil = 1 << iota
	rfRNon
	rfRAll = rfRNil | rfRNon
)

// rfCell: what is known on a path about the results of one call: the class of its error, nil-ness of its other results
type rfCell struct {
	e uint8
	r map[int]uint8
}

type rfSt struct {
	vars map[types.Object]rfV
	cons map[string]rfCell
}

func (s *rfSt) clone() *rfSt {
	n := &rfSt{vars: make(map[types.Object]rfV, len(s.vars)), cons: make(map[string]rfCell, len(s.cons))}
	for k, v := range s.vars {
		n.vars[k] = v
	}
	for k, c := range s.cons {
		r := make(map[int]uint8, len(c.r))
		for i, m := range c.r {
			r[i] = m
		}
		n.cons[k] = rfCell{e: c.e, r: r}
	}
	return n
}

// rfAtom: a test on a result of a call
type rfAtom struct {
	call string
	what string // nil (err == nil) | ne (err == ErrNotExist) | is (errors.Is(err, ErrNotExist)) | resnil (res_idx == nil)
	idx  int
}

func (a rfAtom) mask() uint8 {
	switch a.what {
	case "nil":
		return rfENil
	case "ne":
		return rfENE
	case "is":
		return rfENE | rfEWrapNE
	}
	return rfRNil
}

// rfN: a node of the execution tree
type rfN struct {
	kind string // call | dec | opq | exit | unknown
	// call
	id, name     string
	isW, fall    bool
	nres, errIdx int
	deferred     bool
	next         *rfN
	// dec / opq
	atom rfAtom
	t, f *rfN
	// exit
	vals []rfV
	// unknown
	why string
	s   string // memo of ser()
}

func (n *rfN) ser() string {
	if n.s != "" {
		return n.s
	}
	var s string
	switch n.kind {
	case "call":
		s = fmt.Sprintf("C[%s|%s|%v%v%v]%s", n.name, n.id, n.isW, n.fall, n.deferred, n.next.ser())
	case "dec":
		// a decision both of whose branches are the same tree decides nothing (a branch that only logs, assigns, or calls something that
		// shows nowhere): it is the tree of its branches
		if a, b := n.t.ser(), n.f.ser(); a == b {
			s = a
		} else {
			s = fmt.Sprintf("D[%s,%s%d]{%s}{%s}", n.atom.call, n.atom.what, n.atom.idx, a, b)
		}
	case "opq":
		a, b := n.t.ser(), n.f.ser()
		if b < a {
			a, b = b, a
		}
		if a == b {
			s = a
		} else {
			s = "O{" + a + "}{" + b + "}"
		}
	case "exit":
		p := []string{}
		for _, v := range n.vals {
			p = append(p, v.String())
		}
		s = "X[" + strings.Join(p, ",") + "]"
	default:
		s = "U[" + n.why + "]"
	}
	n.s = s
	return s
}

// ------------------------------------------------------------------------------------------------------------------ the executor

type rfFrame struct {
	ret     func(st *rfSt, vals []rfV) *rfN // what `return` does
	results []types.Object                  // named results (nil when unnamed)
	nres    int
	inl     string // prefix of the call ids made in this frame (the chain of in-place calls)
}

type rfX struct {
	rfCtx
	nodes  int
	stack  []*types.Func
	events map[*types.Func]int // hasEvents memo: 0 unknown, 1 in progress, 2 no, 3 yes
}

func (x *rfX) unknown(why string) *rfN { return &rfN{kind: "unknown", why: why} }

func (x *rfX) budget() bool {
	x.nodes++
	return x.nodes > 20000
}

// inPkgFunc: the declaration a call resolves to, when it is a function or method of the package under study
func (x *rfX) inPkgFunc(ce *ast.CallExpr) *entFunc {
	var fn *types.Func
	switch f := rfUnparen(ce.Fun).(type) {
	case *ast.Ident:
		fn, _ = x.p.info.Uses[f].(*types.Func)
	case *ast.SelectorExpr:
		if sel := x.p.info.Selections[f]; sel != nil {
			if sel.Kind() != types.MethodVal {
				return nil
			}
			fn, _ = sel.Obj().(*types.Func)
			// an interface method is not a declaration
			if fn != nil {
				if _, isI := sel.Recv().Underlying().(*types.Interface); isI {
					return nil
				}
			}
		}
	}
	if fn == nil || fn.Pkg() == nil || fn.Pkg() != x.p.tp {
		return nil
	}
	ef := x.w.funcs[entOrigin(fn)]
	if ef == nil {
		ef = x.w.funcs[fn]
	}
	if ef == nil || ef.decl == nil || ef.decl.Body == nil || ef.pkg != x.p {
		return nil
	}
	return ef
}

// ofInterest: a call that is an event: fallible (other than the constructors of wrapped errors), or handed something of type ResponseWriter
func (x *rfX) ofInterest(ce *ast.CallExpr) bool {
	if _, _, f := x.fallible(ce); f && !rfIsWrap(x.callee(ce)) {
		return true
	}
	for _, a := range ce.Args {
		if tv, ok := x.p.info.Types[a]; ok && tv.Type != nil && rfIsRW(tv.Type) {
			return true
		}
	}
	if se, ok := rfUnparen(ce.Fun).(*ast.SelectorExpr); ok && se.Sel.Name != "Header" {
		if tv, ok := x.p.info.Types[se.X]; ok && tv.Type != nil && rfIsRW(tv.Type) && x.p.info.Selections[se] != nil {
			return true
		}
	}
	return false
}

// hasEvents: the node contains (also through functions of the package) a call of interest, or a closure (which is not followed)
func (x *rfX) hasEvents(n ast.Node) bool {
	found := false
	ast.Inspect(n, func(m ast.Node) bool {
		if found {
			return false
		}
		switch v := m.(type) {
		case *ast.FuncLit:
			if x.hasEvents(v.Body) {
				found = true
			}
			return false
		case *ast.CallExpr:
			if x.ofInterest(v) {
				found = true
				return false
			}
			if ef := x.inPkgFunc(v); ef != nil && x.funcHasEvents(ef) {
				found = true
				return false
			}
		}
		return true
	})
	return found
}

func (x *rfX) funcHasEvents(ef *entFunc) bool {
	switch x.events[ef.obj] {
	case 1:
		return true // recursion: assume the worst
	case 2:
		return false
	case 3:
		return true
	}
	x.events[ef.obj] = 1
	r := x.hasEvents(ef.decl.Body)
	if r {
		x.events[ef.obj] = 3
	} else {
		x.events[ef.obj] = 2
	}
	return r
}

// escapes: the expression stores the ResponseWriter somewhere the skeleton does not describe (a literal, a closure, an address)
func (x *rfX) escapes(e ast.Node, st *rfSt) bool {
	bad := false
	mentionsW := func(n ast.Node) bool {
		m := false
		ast.Inspect(n, func(k ast.Node) bool {
			if id, ok := k.(*ast.Ident); ok {
				if o := x.p.info.Uses[id]; o != nil {
					if v, ok := st.vars[o]; ok && v.k == "w" {
						m = true
					}
				}
			}
			return true
		})
		return m
	}
	ast.Inspect(e, func(n ast.Node) bool {
		switch v := n.(type) {
		case *ast.FuncLit:
			if mentionsW(v.Body) || x.hasEvents(v.Body) || x.assignsOuter(v, st) {
				bad = true
			}
			return false
		case *ast.CompositeLit:
			for _, el := range v.Elts {
				if kv, ok := el.(*ast.KeyValueExpr); ok {
					el = kv.Value
				}
				if id, ok := rfUnparen(el).(*ast.Ident); ok {
					if o := x.p.info.Uses[id]; o != nil {
						if vv, ok := st.vars[o]; ok && vv.k == "w" {
							bad = true
						}
					}
				}
			}
		case *ast.UnaryExpr:
			if v.Op == token.AND && mentionsW(v.X) {
				if _, isLit := rfUnparen(v.X).(*ast.CompositeLit); !isLit {
					bad = true
				}
			}
		}
		return true
	})
	return bad
}

// assignsOuter: the closure assigns (or takes the address of) a local of the enclosing function whose value the path follows
func (x *rfX) assignsOuter(lit *ast.FuncLit, st *rfSt) bool {
	found := false
	outer := func(e ast.Expr) {
		if o := x.objOf(e); o != nil {
			if _, tracked := st.vars[o]; tracked && (o.Pos() < lit.Pos() || o.Pos() > lit.End()) {
				found = true
			}
		}
	}
	ast.Inspect(lit.Body, func(n ast.Node) bool {
		switch v := n.(type) {
		case *ast.AssignStmt:
			for _, l := range v.Lhs {
				outer(l)
			}
		case *ast.IncDecStmt:
			outer(v.X)
		case *ast.UnaryExpr:
			if v.Op == token.AND {
				outer(v.X)
			}
		case *ast.RangeStmt:
			if v.Key != nil {
				outer(v.Key)
			}
			if v.Value != nil {
				outer(v.Value)
			}
		}
		return true
	})
	return found
}

// nested: a call of interest inside e (e itself, when it is a call, is not looked at: only its operands)
func (x *rfX) nested(e ast.Expr) bool {
	if ce, ok := rfUnparen(e).(*ast.CallExpr); ok {
		if x.hasEvents(ce.Fun) {
			return true
		}
		for _, a := range ce.Args {
			if x.hasEvents(a) {
				return true
			}
		}
		return false
	}
	return x.hasEvents(e)
}

func rfZero(t types.Type) rfV {
	if t == nil {
		return rfOpq
	}
	switch u := t.Underlying().(type) {
	case *types.Pointer, *types.Interface, *types.Slice, *types.Map, *types.Chan, *types.Signature:
		return rfV{k: "nil"}
	case *types.Basic:
		if u.Info()&types.IsBoolean != 0 {
			return rfV{k: "false"}
		}
	}
	return rfOpq
}

// expr: the value of an expression on the path (continuation style: evaluating it may make calls and decide atoms)
func (x *rfX) expr(e ast.Expr, st *rfSt, fr *rfFrame, k func(*rfSt, rfV) *rfN) *rfN {
	if x.budget() {
		return x.unknown("overflow")
	}
	e = rfUnparen(e)
	if tv, ok := x.p.info.Types[e]; ok && tv.Value != nil && tv.Type != nil {
		if b, ok := tv.Type.Underlying().(*types.Basic); ok && b.Info()&types.IsBoolean != 0 {
			if tv.Value.ExactString() == "true" {
				return k(st, rfV{k: "true"})
			}
			return k(st, rfV{k: "false"})
		}
	}
	switch v := e.(type) {
	case *ast.Ident:
		if rfIsNilIdent(&x.rfCtx, v) {
			return k(st, rfV{k: "nil"})
		}
		if x.isErrNotExist(v) {
			return k(st, rfV{k: "ne"})
		}
		if o := x.objOf(v); o != nil {
			if val, ok := st.vars[o]; ok {
				return k(st, val)
			}
		}
		return k(st, rfOpq)
	case *ast.SelectorExpr:
		if x.isErrNotExist(v) {
			return k(st, rfV{k: "ne"})
		}
		if x.nested(v) {
			return x.unknown("nested call")
		}
		return k(st, rfOpq)
	case *ast.CallExpr:
		return x.call(v, st, fr, func(st *rfSt, vals []rfV) *rfN {
			if len(vals) != 1 {
				return k(st, rfOpq)
			}
			return k(st, vals[0])
		})
	case *ast.UnaryExpr:
		if v.Op == token.NOT {
			return x.expr(v.X, st, fr, func(st *rfSt, a rfV) *rfN {
				switch a.k {
				case "true":
					return k(st, rfV{k: "false"})
				case "false":
					return k(st, rfV{k: "true"})
				}
				return k(st, rfOpq)
			})
		}
	case *ast.BinaryExpr:
		switch v.Op {
		case token.EQL, token.NEQ:
			return x.expr(v.X, st, fr, func(st *rfSt, a rfV) *rfN {
				return x.expr(v.Y, st, fr, func(st *rfSt, b rfV) *rfN {
					return x.compare(a, b, st, func(st *rfSt, r rfV) *rfN {
						if v.Op == token.NEQ {
							switch r.k {
							case "true":
								r = rfV{k: "false"}
							case "false":
								r = rfV{k: "true"}
							}
						}
						return k(st, r)
					})
				})
			})
		case token.LAND, token.LOR:
			stop, other := "false", "true" // && stops at the first false
			if v.Op == token.LOR {
				stop, other = "true", "false"
			}
			return x.expr(v.X, st, fr, func(st *rfSt, a rfV) *rfN {
				if a.k == stop {
					return k(st, rfV{k: stop})
				}
				return x.expr(v.Y, st, fr, func(st *rfSt, b rfV) *rfN {
					switch {
					case b.k == stop:
						return k(st, rfV{k: stop})
					case a.k == other && b.k == other:
						return k(st, rfV{k: other})
					}
					return k(st, rfOpq)
				})
			})
		}
	}
	// anything else: opaque, provided nothing of interest hides in it
	if x.nested(e) {
		return x.unknown("nested call")
	}
	if x.escapes(e, st) {
		return x.unknown("ResponseWriter escapes")
	}
	return k(st, rfOpq)
}

// compare: a == b on the path; splits the path when it is an undecided atom
func (x *rfX) compare(a, b rfV, st *rfSt, k func(*rfSt, rfV) *rfN) *rfN {
	if a.k != "err" && a.k != "res" && (b.k == "err" || b.k == "res") {
		a, b = b, a
	}
	konst := func(v rfV) bool {
		return v.k == "nil" || v.k == "ne" || v.k == "wrapped" || v.k == "true" || v.k == "false"
	}
	switch {
	case a.k == "err" && b.k == "nil":
		return x.decide(rfAtom{call: a.call, what: "nil"}, st, k)
	case a.k == "err" && b.k == "ne":
		return x.decide(rfAtom{call: a.call, what: "ne"}, st, k)
	case a.k == "res" && b.k == "nil":
		return x.decide(rfAtom{call: a.call, what: "resnil", idx: a.idx}, st, k)
	case konst(a) && konst(b):
		if a.k == "wrapped" && b.k == "wrapped" {
			return k(st, rfOpq)
		}
		if a.k == b.k {
			return k(st, rfV{k: "true"})
		}
		return k(st, rfV{k: "false"})
	}
	return k(st, rfOpq)
}

// decide: an atom; decided by what the path knows, else the path splits
func (x *rfX) decide(a rfAtom, st *rfSt, k func(*rfSt, rfV) *rfN) *rfN {
	c, ok := st.cons[a.call]
	if !ok {
		return x.unknown("test on a call not made on this path")
	}
	var have, all uint8
	if a.what == "resnil" {
		have, all = rfRAll, rfRAll
		if m, ok := c.r[a.idx]; ok {
			have = m
		}
	} else {
		have, all = c.e, rfEAll
	}
	yes, no := have&a.mask(), have&(all&^a.mask())
	switch {
	case no == 0:
		return k(st, rfV{k: "true"})
	case yes == 0:
		return k(st, rfV{k: "false"})
	}
	if x.budget() {
		return x.unknown("overflow")
	}
	narrow := func(m uint8) *rfSt {
		n := st.clone()
		cc := n.cons[a.call]
		if a.what == "resnil" {
			cc.r[a.idx] = m
		} else {
			cc.e = m
		}
		n.cons[a.call] = cc
		return n
	}
	return &rfN{kind: "dec", atom: a, t: k(narrow(yes), rfV{k: "true"}), f: k(narrow(no), rfV{k: "false"})}
}

// cond: a condition of an if / a switch case: a known value chooses, an opaque one splits the path
func (x *rfX) cond(e ast.Expr, st *rfSt, fr *rfFrame, kT, kF func(*rfSt) *rfN) *rfN {
	e = rfUnparen(e)
	switch v := e.(type) {
	case *ast.UnaryExpr:
		if v.Op == token.NOT {
			return x.cond(v.X, st, fr, kF, kT)
		}
	case *ast.BinaryExpr:
		switch v.Op {
		case token.LAND:
			return x.cond(v.X, st, fr, func(st *rfSt) *rfN { return x.cond(v.Y, st, fr, kT, kF) }, kF)
		case token.LOR:
			return x.cond(v.X, st, fr, kT, func(st *rfSt) *rfN { return x.cond(v.Y, st, fr, kT, kF) })
		}
	}
	return x.expr(e, st, fr, func(st *rfSt, r rfV) *rfN { return x.choose(r, st, kT, kF) })
}

func (x *rfX) choose(r rfV, st *rfSt, kT, kF func(*rfSt) *rfN) *rfN {
	switch r.k {
	case "true":
		return kT(st)
	case "false":
		return kF(st)
	}
	if x.budget() {
		return x.unknown("overflow")
	}
	return &rfN{kind: "opq", t: kT(st.clone()), f: kF(st.clone())}
}

// passesW: the call hands the ResponseWriter on (argument, or receiver of a method other than Header)
func (x *rfX) passesW(ce *ast.CallExpr, st *rfSt) bool {
	isW := func(e ast.Expr) bool {
		if o := x.objOf(e); o != nil {
			if v, ok := st.vars[o]; ok && v.k == "w" {
				return true
			}
		}
		return false
	}
	for _, a := range ce.Args {
		if isW(a) {
			return true
		}
	}
	if se, ok := rfUnparen(ce.Fun).(*ast.SelectorExpr); ok {
		if isW(se.X) && se.Sel.Name != "Header" {
			return true
		}
	}
	return false
}

// wName: how a write is reported
func (x *rfX) wName(ce *ast.CallExpr, st *rfSt) string {
	name := x.callee(ce)
	if se, ok := rfUnparen(ce.Fun).(*ast.SelectorExpr); ok {
		if o := x.objOf(se.X); o != nil {
			if v, ok := st.vars[o]; ok && v.k == "w" {
				name = "ResponseWriter." + se.Sel.Name
			}
		}
	}
	if name == "http.Error" && len(ce.Args) == 3 {
		if tv, ok := x.p.info.Types[ce.Args[2]]; ok && tv.Value != nil {
			name += ":" + tv.Value.ExactString()
		} else {
			name += ":?"
		}
	}
	return name
}

// plain: the value of an operand of a call that is plain (an identifier, nil, ErrNotExist, a wrapped error); anything else is opaque
func (x *rfX) plain(e ast.Expr, st *rfSt) rfV {
	e = rfUnparen(e)
	switch v := e.(type) {
	case *ast.Ident:
		if rfIsNilIdent(&x.rfCtx, v) {
			return rfV{k: "nil"}
		}
		if x.isErrNotExist(v) {
			return rfV{k: "ne"}
		}
		if o := x.objOf(v); o != nil {
			if val, ok := st.vars[o]; ok {
				return val
			}
		}
	case *ast.SelectorExpr:
		if x.isErrNotExist(v) {
			return rfV{k: "ne"}
		}
	case *ast.CallExpr:
		if rfIsWrap(x.callee(v)) {
			return rfV{k: "wrapped"}
		}
	}
	return rfOpq
}

// call: a call on the path: executed in place (a function of the package), an event (fallible / a write), or nothing
func (x *rfX) call(ce *ast.CallExpr, st *rfSt, fr *rfFrame, k func(*rfSt, []rfV) *rfN) *rfN {
	if x.budget() {
		return x.unknown("overflow")
	}
	name := x.callee(ce)
	errIdx, nres, fall := x.fallible(ce)
	opaque := func() []rfV {
		out := make([]rfV, nres)
		for i := range out {
			out[i] = rfOpq
		}
		return out
	}
	if x.nested(ce) {
		return x.unknown("nested call")
	}
	for _, a := range ce.Args {
		if x.escapes(a, st) {
			return x.unknown("ResponseWriter escapes")
		}
	}
	if rfIsWrap(name) {
		return k(st, []rfV{{k: "wrapped"}})
	}
	// a local whose address is handed over is whatever the callee makes of it
	addressed := []types.Object{}
	for _, a := range ce.Args {
		ast.Inspect(a, func(n ast.Node) bool {
			if u, ok := n.(*ast.UnaryExpr); ok && u.Op == token.AND {
				if o := x.objOf(u.X); o != nil {
					if _, tracked := st.vars[o]; tracked {
						addressed = append(addressed, o)
					}
				}
			}
			return true
		})
	}
	if len(addressed) > 0 {
		k0 := k
		k = func(st *rfSt, vals []rfV) *rfN {
			st = st.clone()
			for _, o := range addressed {
				st.vars[o] = rfOpq
			}
			return k0(st, vals)
		}
	}
	if name == "errors.Is" && len(ce.Args) == 2 {
		a, b := x.plain(ce.Args[0], st), x.plain(ce.Args[1], st)
		if a.k == "err" && b.k == "ne" {
			return x.decide(rfAtom{call: a.call, what: "is"}, st, func(st *rfSt, r rfV) *rfN { return k(st, []rfV{r}) })
		}
		if (a.k == "nil" || a.k == "wrapped") && b.k == "ne" {
			if a.k == "nil" {
				return k(st, []rfV{{k: "false"}})
			}
			return k(st, []rfV{rfOpq})
		}
		if a.k == "ne" && b.k == "ne" {
			return k(st, []rfV{{k: "true"}})
		}
		return k(st, []rfV{rfOpq})
	}
	if name == "builtin.panic" {
		return x.unknown("panic")
	}
	if ef := x.inPkgFunc(ce); ef != nil {
		argv := make([]rfV, len(ce.Args))
		interesting := false
		for i, a := range ce.Args {
			argv[i] = x.plain(a, st)
			if argv[i].k != "opq" {
				interesting = true
			}
		}
		handed := false
		for _, v := range argv {
			if v.k == "w" || v.k == "ctx" {
				handed = true
			}
		}
		var recvV rfV = rfOpq
		if se, ok := rfUnparen(ce.Fun).(*ast.SelectorExpr); ok {
			recvV = x.plain(se.X, st)
			if recvV.k == "w" || recvV.k == "ctx" {
				handed = true
			}
		}
		if !ef.obj.Exported() || handed {
			if !x.funcHasEvents(ef) && !interesting {
				return k(st, opaque()) // nothing it could do or decide shows in the skeleton
			}
			return x.inPlace(ce, ef, argv, recvV, st, fr, k)
		}
	}
	isW := x.passesW(ce, st)
	if !fall && !isW {
		return k(st, opaque())
	}
	id := fr.inl + x.w.fset.Position(ce.Pos()).String()
	if i := strings.LastIndex(id, "/"); i >= 0 {
		id = fr.inl + id[i+1:]
	}
	n := &rfN{kind: "call", id: id, name: name, isW: isW, fall: fall, nres: nres, errIdx: errIdx}
	if isW {
		n.name = x.wName(ce, st)
	}
	vals := make([]rfV, nres)
	for i := range vals {
		switch {
		case !fall:
			vals[i] = rfOpq
		case i == errIdx:
			vals[i] = rfV{k: "err", call: id}
		default:
			vals[i] = rfV{k: "res", call: id, idx: i}
		}
	}
	if fall {
		st = st.clone()
		st.cons[id] = rfCell{e: rfEAll, r: map[int]uint8{}}
	}
	n.next = k(st, vals)
	return n
}

// inPlace: the body of a function of the package, executed with the caller's values; every return continues in the caller
func (x *rfX) inPlace(ce *ast.CallExpr, ef *entFunc, argv []rfV, recvV rfV, st *rfSt, fr *rfFrame, k func(*rfSt, []rfV) *rfN) *rfN {
	for _, f := range x.stack {
		if f == ef.obj {
			return x.unknown("recursion")
		}
	}
	if len(x.stack) >= 4 {
		return x.unknown("too deep")
	}
	sig, _ := ef.obj.Type().(*types.Signature)
	if sig == nil {
		return x.unknown("no signature")
	}
	st = st.clone()
	if ef.decl.Recv != nil && len(ef.decl.Recv.List) == 1 && len(ef.decl.Recv.List[0].Names) == 1 {
		if o := x.p.info.Defs[ef.decl.Recv.List[0].Names[0]]; o != nil {
			st.vars[o] = recvV
		}
	}
	i := 0
	for _, fl := range ef.decl.Type.Params.List {
		names := fl.Names
		if len(names) == 0 {
			i++
			continue
		}
		for _, nm := range names {
			o := x.p.info.Defs[nm]
			if o != nil {
				_, variadic := fl.Type.(*ast.Ellipsis)
				if i < len(argv) && !variadic && len(argv) == sig.Params().Len() {
					st.vars[o] = argv[i]
				} else {
					st.vars[o] = rfOpq
				}
			}
			i++
		}
	}
	sub := &rfFrame{nres: sig.Results().Len(), inl: fr.inl + ef.obj.Name() + ">"}
	if ef.decl.Type.Results != nil {
		for _, fl := range ef.decl.Type.Results.List {
			for _, nm := range fl.Names {
				o := x.p.info.Defs[nm]
				sub.results = append(sub.results, o)
				if o != nil {
					st.vars[o] = rfZero(o.Type())
				}
			}
		}
	}
	outer := x.stack
	inner := append(append([]*types.Func{}, outer...), ef.obj)
	x.stack = inner
	sub.ret = func(st *rfSt, vals []rfV) *rfN {
		// the caller goes on: outside the helper again
		x.stack = outer
		r := k(st, vals)
		x.stack = inner
		return r
	}
	r := x.block(ef.decl.Body.List, st, sub, func(st *rfSt) *rfN { return x.fallOff(st, sub) })
	x.stack = outer
	return r
}

func (x *rfX) fallOff(st *rfSt, fr *rfFrame) *rfN {
	if fr.nres == 0 {
		return fr.ret(st, nil)
	}
	if len(fr.results) == fr.nres {
		return fr.ret(st, x.named(st, fr))
	}
	return x.unknown("falls off a function with results")
}

func (x *rfX) named(st *rfSt, fr *rfFrame) []rfV {
	vals := make([]rfV, len(fr.results))
	for i, o := range fr.results {
		vals[i] = rfOpq
		if o != nil {
			if v, ok := st.vars[o]; ok {
				vals[i] = v
			}
		}
	}
	return vals
}

func (x *rfX) block(list []ast.Stmt, st *rfSt, fr *rfFrame, k func(*rfSt) *rfN) *rfN {
	if len(list) == 0 {
		return k(st)
	}
	return x.stmt(list[0], st, fr, func(st *rfSt) *rfN { return x.block(list[1:], st, fr, k) })
}

// bind: lhs := / = vals
func (x *rfX) bind(lhs []ast.Expr, vals []rfV, st *rfSt) *rfSt {
	st = st.clone()
	for i, l := range lhs {
		id, ok := rfUnparen(l).(*ast.Ident)
		if !ok || id.Name == "_" {
			continue
		}
		o := x.objOf(id)
		if o == nil {
			continue
		}
		if i < len(vals) && len(vals) == len(lhs) {
			st.vars[o] = vals[i]
		} else {
			st.vars[o] = rfOpq
		}
	}
	return st
}

// havoc: every local assigned inside n is opaque afterwards
func (x *rfX) havoc(n ast.Node, st *rfSt) *rfSt {
	st = st.clone()
	set := func(e ast.Expr) {
		if e == nil {
			return
		}
		if o := x.objOf(e); o != nil {
			st.vars[o] = rfOpq
		}
	}
	ast.Inspect(n, func(m ast.Node) bool {
		switch v := m.(type) {
		case *ast.AssignStmt:
			for _, l := range v.Lhs {
				set(l)
			}
		case *ast.IncDecStmt:
			set(v.X)
		case *ast.RangeStmt:
			set(v.Key)
			set(v.Value)
		case *ast.UnaryExpr:
			if v.Op == token.AND {
				set(v.X)
			}
		}
		return true
	})
	return st
}

// leaves: the node contains a statement that leaves it other than by running to its end
func rfLeaves(n ast.Node) bool {
	found := false
	ast.Inspect(n, func(m ast.Node) bool {
		switch m.(type) {
		case *ast.FuncLit:
			return false
		case *ast.ReturnStmt, *ast.GoStmt, *ast.SelectStmt, *ast.DeferStmt:
			found = true
		case *ast.BranchStmt:
			if m.(*ast.BranchStmt).Tok == token.GOTO {
				found = true
			}
		}
		return !found
	})
	return found
}

func (x *rfX) stmt(s ast.Stmt, st *rfSt, fr *rfFrame, k func(*rfSt) *rfN) *rfN {
	if x.budget() {
		return x.unknown("overflow")
	}
	switch v := s.(type) {
	case nil:
		return k(st)
	case *ast.EmptyStmt:
		return k(st)
	case *ast.BlockStmt:
		return x.block(v.List, st, fr, k)
	case *ast.ExprStmt:
		if ce, ok := rfUnparen(v.X).(*ast.CallExpr); ok {
			return x.call(ce, st, fr, func(st *rfSt, _ []rfV) *rfN { return k(st) })
		}
		return x.expr(v.X, st, fr, func(st *rfSt, _ rfV) *rfN { return k(st) })
	case *ast.AssignStmt:
		if v.Tok != token.ASSIGN && v.Tok != token.DEFINE {
			// x += …
			for _, r := range v.Rhs {
				if x.nested(r) || x.hasEvents(r) {
					return x.unknown("call in an operator assignment")
				}
			}
			return k(x.bind(v.Lhs, nil, st))
		}
		for _, l := range v.Lhs {
			if _, ok := rfUnparen(l).(*ast.Ident); !ok && x.hasEvents(l) {
				return x.unknown("call on the left of an assignment")
			}
		}
		if len(v.Rhs) == 1 {
			if ce, ok := rfUnparen(v.Rhs[0]).(*ast.CallExpr); ok {
				return x.call(ce, st, fr, func(st *rfSt, vals []rfV) *rfN { return k(x.bind(v.Lhs, vals, st)) })
			}
		}
		if len(v.Rhs) != len(v.Lhs) {
			for _, r := range v.Rhs {
				if x.hasEvents(r) {
					return x.unknown("call in a tuple assignment")
				}
			}
			return k(x.bind(v.Lhs, nil, st))
		}
		return x.exprs(v.Rhs, st, fr, func(st *rfSt, vals []rfV) *rfN { return k(x.bind(v.Lhs, vals, st)) })
	case *ast.DeclStmt:
		gd, ok := v.Decl.(*ast.GenDecl)
		if !ok || gd.Tok != token.VAR {
			return k(st)
		}
		return x.specs(gd.Specs, st, fr, k)
	case *ast.IncDecStmt:
		return k(x.bind([]ast.Expr{v.X}, nil, st))
	case *ast.ReturnStmt:
		if len(v.Results) == 0 {
			if fr.nres == 0 {
				return fr.ret(st, nil)
			}
			if len(fr.results) == fr.nres {
				return fr.ret(st, x.named(st, fr))
			}
			return x.unknown("bare return")
		}
		if len(v.Results) == 1 && fr.nres > 1 {
			if ce, ok := rfUnparen(v.Results[0]).(*ast.CallExpr); ok {
				return x.call(ce, st, fr, func(st *rfSt, vals []rfV) *rfN {
					if len(vals) != fr.nres {
						return x.unknown("return of a call with other results")
					}
					return fr.ret(st, vals)
				})
			}
			return x.unknown("return")
		}
		return x.exprs(v.Results, st, fr, func(st *rfSt, vals []rfV) *rfN { return fr.ret(st, vals) })
	case *ast.IfStmt:
		return x.stmt(v.Init, st, fr, func(st *rfSt) *rfN {
			return x.cond(v.Cond, st, fr,
				func(st *rfSt) *rfN { return x.block(v.Body.List, st, fr, k) },
				func(st *rfSt) *rfN { return x.stmt(v.Else, st, fr, k) })
		})
	case *ast.SwitchStmt:
		return x.stmt(v.Init, st, fr, func(st *rfSt) *rfN {
			for _, cc := range v.Body.List {
				for _, b := range cc.(*ast.CaseClause).Body {
					if br, ok := b.(*ast.BranchStmt); ok && br.Tok == token.FALLTHROUGH {
						return x.unknown("fallthrough")
					}
				}
			}
			if rfBreaks(v.Body) {
				return x.unknown("break")
			}
			if v.Tag == nil {
				return x.clauses(v, rfOpq, false, 0, 0, st, fr, k)
			}
			return x.expr(v.Tag, st, fr, func(st *rfSt, tag rfV) *rfN { return x.clauses(v, tag, true, 0, 0, st, fr, k) })
		})
	case *ast.ForStmt, *ast.RangeStmt:
		if x.hasEvents(v) {
			return x.unknown("loop with calls of interest")
		}
		if rfLeaves(v) {
			return x.unknown("loop that leaves the function")
		}
		if x.escapes(v, st) {
			return x.unknown("ResponseWriter escapes")
		}
		return k(x.havoc(v, st))
	case *ast.DeferStmt:
		if x.nested(v.Call) || x.escapes(v.Call, st) {
			return x.unknown("defer")
		}
		if _, ok := rfUnparen(v.Call.Fun).(*ast.FuncLit); ok {
			if x.hasEvents(v.Call.Fun) {
				return x.unknown("deferred closure")
			}
			return k(st)
		}
		if ef := x.inPkgFunc(v.Call); ef != nil && x.funcHasEvents(ef) {
			return x.unknown("deferred function of the package")
		}
		errIdx, nres, fall := x.fallible(v.Call)
		isW := x.passesW(v.Call, st)
		if !fall && !isW {
			return k(st)
		}
		if isW {
			return x.unknown("deferred write")
		}
		id := fr.inl + "defer@" + fmt.Sprint(x.w.fset.Position(v.Call.Pos()).Offset)
		return &rfN{kind: "call", id: id, name: x.callee(v.Call), fall: true, nres: nres, errIdx: errIdx, deferred: true, next: k(st)}
	}
	return x.unknown(fmt.Sprintf("%T", s))
}

// rfBreaks: a `break` that would leave the switch (not one inside a nested loop / switch / select)
func rfBreaks(body *ast.BlockStmt) bool {
	found := false
	var walk func(n ast.Node, top bool)
	walk = func(n ast.Node, top bool) {
		ast.Inspect(n, func(m ast.Node) bool {
			if m == n {
				return true
			}
			switch v := m.(type) {
			case *ast.FuncLit, *ast.ForStmt, *ast.RangeStmt, *ast.SwitchStmt, *ast.TypeSwitchStmt, *ast.SelectStmt:
				// a labelled break out of these would be a LabeledStmt target: refuse labels altogether
				ast.Inspect(v, func(q ast.Node) bool {
					if b, ok := q.(*ast.BranchStmt); ok && b.Label != nil {
						found = true
					}
					return true
				})
				return false
			case *ast.BranchStmt:
				if v.Tok == token.BREAK || v.Tok == token.CONTINUE || v.Tok == token.GOTO {
					found = true
				}
			}
			return true
		})
	}
	walk(body, true)
	return found
}

// clauses: the cases of a switch from clause ci, expression ei on, in order; the default clause when none matches
func (x *rfX) clauses(sw *ast.SwitchStmt, tag rfV, tagged bool, ci, ei int, st *rfSt, fr *rfFrame, k func(*rfSt) *rfN) *rfN {
	list := sw.Body.List
	for ci < len(list) {
		cl := list[ci].(*ast.CaseClause)
		if cl.List == nil || ei >= len(cl.List) {
			ci, ei = ci+1, 0
			continue
		}
		body := cl.Body
		hit := func(st *rfSt) *rfN { return x.block(body, st, fr, k) }
		miss := func(st *rfSt) *rfN { return x.clauses(sw, tag, tagged, ci, ei+1, st, fr, k) }
		if !tagged {
			return x.cond(cl.List[ei], st, fr, hit, miss)
		}
		return x.expr(cl.List[ei], st, fr, func(st *rfSt, cv rfV) *rfN {
			return x.compare(tag, cv, st, func(st *rfSt, r rfV) *rfN { return x.choose(r, st, hit, miss) })
		})
	}
	for _, cc := range list {
		if cl := cc.(*ast.CaseClause); cl.List == nil {
			return x.block(cl.Body, st, fr, k)
		}
	}
	return k(st)
}

func (x *rfX) exprs(es []ast.Expr, st *rfSt, fr *rfFrame, k func(*rfSt, []rfV) *rfN) *rfN {
	var rec func(i int, st *rfSt, acc []rfV) *rfN
	rec = func(i int, st *rfSt, acc []rfV) *rfN {
		if i == len(es) {
			return k(st, acc)
		}
		return x.expr(es[i], st, fr, func(st *rfSt, v rfV) *rfN {
			next := append(append([]rfV{}, acc...), v)
			return rec(i+1, st, next)
		})
	}
	return rec(0, st, nil)
}

func (x *rfX) specs(specs []ast.Spec, st *rfSt, fr *rfFrame, k func(*rfSt) *rfN) *rfN {
	if len(specs) == 0 {
		return k(st)
	}
	vs, ok := specs[0].(*ast.ValueSpec)
	if !ok {
		return x.specs(specs[1:], st, fr, k)
	}
	lhs := make([]ast.Expr, len(vs.Names))
	for i, n := range vs.Names {
		lhs[i] = n
	}
	rest := func(st *rfSt) *rfN { return x.specs(specs[1:], st, fr, k) }
	switch {
	case len(vs.Values) == 0:
		st = st.clone()
		for _, n := range vs.Names {
			if o := x.p.info.Defs[n]; o != nil {
				st.vars[o] = rfZero(o.Type())
			}
		}
		return rest(st)
	case len(vs.Values) == 1:
		if ce, ok := rfUnparen(vs.Values[0]).(*ast.CallExpr); ok {
			return x.call(ce, st, fr, func(st *rfSt, vals []rfV) *rfN { return rest(x.bind(lhs, vals, st)) })
		}
	}
	if len(vs.Values) != len(lhs) {
		return x.unknown("var")
	}
	return x.exprs(vs.Values, st, fr, func(st *rfSt, vals []rfV) *rfN { return rest(x.bind(lhs, vals, st)) })
}

// ------------------------------------------------------------------------------------------------------------------ from the tree to the skeleton

// specialise: the tree with every decision on a result of `call` taken as the cell says
func rfSpecialise(n *rfN, call string, e uint8, r map[int]uint8) *rfN {
	switch n.kind {
	case "call":
		nx := rfSpecialise(n.next, call, e, r)
		if nx == n.next {
			return n
		}
		c := *n
		c.next, c.s = nx, ""
		return &c
	case "dec":
		if n.atom.call == call {
			var is bool
			if n.atom.what == "resnil" {
				is = r[n.atom.idx]&n.atom.mask() != 0
			} else {
				is = e&n.atom.mask() != 0
			}
			if is {
				return rfSpecialise(n.t, call, e, r)
			}
			return rfSpecialise(n.f, call, e, r)
		}
		fallthrough
	case "opq":
		t, f := rfSpecialise(n.t, call, e, r), rfSpecialise(n.f, call, e, r)
		if t == n.t && f == n.f {
			return n
		}
		c := *n
		c.t, c.f, c.s = t, f, ""
		return &c
	}
	return n
}

// rfSimplify: opaque decisions carry neither their condition nor their polarity, so a cluster of them (nested ifs, `a && b`, an else-if chain on
// things the skeleton does not follow) says no more than WHICH continuations it chooses between: it is rebuilt as a chain over the distinct
// continuations in a fixed order (one continuation: no decision at all).  Tests on a call's result are kept as they are.
func rfSimplify(n *rfN) *rfN {
	switch n.kind {
	case "call":
		nx := rfSimplify(n.next)
		if nx == n.next {
			return n
		}
		c := *n
		c.next, c.s = nx, ""
		return &c
	case "dec":
		t, f := rfSimplify(n.t), rfSimplify(n.f)
		if t == n.t && f == n.f {
			return n
		}
		c := *n
		c.t, c.f, c.s = t, f, ""
		return &c
	case "opq":
		leaves := map[string]*rfN{}
		var collect func(m *rfN)
		collect = func(m *rfN) {
			if m.kind == "opq" {
				collect(m.t)
				collect(m.f)
				return
			}
			m = rfSimplify(m)
			if m.kind == "opq" { // (cannot happen: rfSimplify of a non-opq node is not an opq node)
				collect(m)
				return
			}
			leaves[m.ser()] = m
		}
		collect(n)
		keys := make([]string, 0, len(leaves))
		for k := range leaves {
			keys = append(keys, k)
		}
		sort.Strings(keys)
		out := leaves[keys[len(keys)-1]]
		for i := len(keys) - 2; i >= 0; i-- {
			out = &rfN{kind: "opq", t: leaves[keys[i]], f: out}
		}
		return out
	}
	return n
}

// rfRefs: how the tree uses the results of a call: tests on its error, tests on its other results (by index), its error among the values returned
func rfRefs(n *rfN, call string, errTests *int, resTests map[int]bool, returned *int) {
	switch n.kind {
	case "call":
		rfRefs(n.next, call, errTests, resTests, returned)
	case "dec":
		if n.atom.call == call {
			if n.atom.what == "resnil" {
				resTests[n.atom.idx] = true
			} else {
				*errTests++
			}
		}
		fallthrough
	case "opq":
		rfRefs(n.t, call, errTests, resTests, returned)
		rfRefs(n.f, call, errTests, resTests, returned)
	case "exit":
		for _, v := range n.vals {
			if v.k == "err" && v.call == call {
				*returned++
			}
		}
	}
}

// rfShape: how a return is reported, seen from the call `call` (the legacy notation: every result but the last nil, the last one nil / the
// call's error / a wrapped error)
func rfShape(vals []rfV, call string) string {
	if len(vals) == 0 {
		return "return"
	}
	for _, v := range vals[:len(vals)-1] {
		if v.k != "nil" {
			return "return-?"
		}
	}
	last := vals[len(vals)-1]
	switch last.k {
	case "nil":
		return "return-nil"
	case "err":
		if call == "" || last.call == call {
			return "return-err"
		}
		return "return-err-of-an-earlier-call"
	case "wrapped":
		return "return-wrapped"
	case "ne":
		return "return-ErrNotExist"
	}
	return "return-?"
}

// rfAction: a straight-line rest of the function as `write+write+return-…`; ok = it is one
func rfAction(n *rfN, call string) (string, bool) {
	toks := []string{}
	for {
		switch n.kind {
		case "call":
			switch {
			case n.deferred:
				return "", false
			case n.isW && !n.fall:
				toks = append(toks, n.name)
			default:
				// a fallible call inside an action: only when its error is never looked at
				var et, ret int
				rt := map[int]bool{}
				rfRefs(n.next, n.id, &et, rt, &ret)
				if et > 0 || ret > 0 || len(rt) > 0 {
					return "", false
				}
				toks = append(toks, n.name+"/ignored")
			}
			n = n.next
		case "exit":
			toks = append(toks, rfShape(n.vals, call))
			return strings.Join(toks, "+"), true
		case "dec", "opq":
			if n.t.ser() != n.f.ser() {
				return "", false
			}
			n = n.t
		default:
			return "", false
		}
	}
}

type rfCellKey struct {
	e uint8
	r uint8 // 0 when the other result is not tested
}

// rfRules: the decision table of a call (cell -> action, "" = goes on) as a first-match rule list.  Candidates in order of preference; a
// candidate applies when the cells it still covers all have the same action (not "goes on"); it is passed over when a later candidate with the
// same action covers strictly more.  The list is a function of the table alone.
func rfRules(table map[rfCellKey]string, withRes bool) (string, bool) {
	type cand struct {
		text string
		in   func(k rfCellKey) bool
		res  bool
	}
	cands := []cand{
		{"err == ErrNotExist", func(k rfCellKey) bool { return k.e == rfENE }, false},
		{"err != nil", func(k rfCellKey) bool { return k.e != rfENil }, false},
		{"err == nil", func(k rfCellKey) bool { return k.e == rfENil }, false},
		{"res == nil", func(k rfCellKey) bool { return k.r == rfRNil }, true},
		{"err != nil || res == nil", func(k rfCellKey) bool { return k.e != rfENil || k.r == rfRNil }, true},
		{"err != nil && err != ErrNotExist", func(k rfCellKey) bool { return k.e == rfEWrapNE || k.e == rfEOther }, false},
		{"Is(err,ErrNotExist)", func(k rfCellKey) bool { return k.e == rfENE || k.e == rfEWrapNE }, false},
		{"err != nil && !Is(err,ErrNotExist)", func(k rfCellKey) bool { return k.e == rfEOther }, false},
		{"Is(err,ErrNotExist) && err != ErrNotExist", func(k rfCellKey) bool { return k.e == rfEWrapNE }, false},
		{"err != ErrNotExist", func(k rfCellKey) bool { return k.e != rfENE }, false},
		{"res != nil", func(k rfCellKey) bool { return k.r == rfRNon }, true},
		{"err == nil && res == nil", func(k rfCellKey) bool { return k.e == rfENil && k.r == rfRNil }, true},
		{"err != nil && res == nil", func(k rfCellKey) bool { return k.e != rfENil && k.r == rfRNil }, true},
		{"err != nil && res != nil", func(k rfCellKey) bool { return k.e != rfENil && k.r == rfRNon }, true},
		{"else", func(k rfCellKey) bool { return true }, false},
	}
	remaining := map[rfCellKey]bool{}
	for k := range table {
		remaining[k] = true
	}
	pending := func() bool {
		for k := range remaining {
			if table[k] != "" {
				return true
			}
		}
		return false
	}
	// eff: the cells a candidate still covers and their common action ("" with ok=false when they differ or one goes on)
	eff := func(c cand) (map[rfCellKey]bool, string, bool) {
		if c.res && !withRes {
			return nil, "", false
		}
		set := map[rfCellKey]bool{}
		act := ""
		for k := range remaining {
			if !c.in(k) {
				continue
			}
			if table[k] == "" || (act != "" && table[k] != act) {
				return nil, "", false
			}
			act = table[k]
			set[k] = true
		}
		return set, act, len(set) > 0
	}
	rules := []string{}
	for pending() {
		picked := -1
		for i, c := range cands {
			set, act, ok := eff(c)
			if !ok {
				continue
			}
			dominated := false
			for j, d := range cands {
				if j == i {
					continue
				}
				s2, a2, ok2 := eff(d)
				if ok2 && a2 == act && len(s2) > len(set) {
					sub := true
					for k := range set {
						if !s2[k] {
							sub = false
						}
					}
					if sub {
						dominated = true
					}
				}
			}
			if !dominated {
				picked = i
				break
			}
		}
		if picked < 0 {
			return "", false
		}
		set, act, _ := eff(cands[picked])
		rules = append(rules, cands[picked].text+" => "+act)
		for k := range set {
			delete(remaining, k)
		}
	}
	return strings.Join(rules, " ; "), true
}

func rfCount(items []string) int {
	n := 0
	for _, it := range items {
		if strings.Contains(it, " ? ") || strings.HasPrefix(it, "w:") {
			n++
		}
	}
	return n
}

// render: the tree as the flat skeleton
func (x *rfX) render(n *rfN) []string {
	switch n.kind {
	case "unknown":
		fmt.Fprintln(os.Stderr, "rest_fault: not understood:", n.why)
		return []string{"unknown"}
	case "dec":
		if n.t.ser() == n.f.ser() {
			return x.render(n.t)
		}
		return []string{"unknown"} // a test on a call that is not above it
	case "exit":
		switch sh := rfShape(n.vals, ""); {
		case len(n.vals) == 0:
			return nil
		case n.vals[len(n.vals)-1].k == "nil":
			return nil // `return nil` / `return x, nil`: the plain end of the function
		case sh == "return-wrapped", n.vals[len(n.vals)-1].k == "wrapped":
			return []string{"return-wrapped"}
		case n.vals[len(n.vals)-1].k == "err":
			return []string{"return-err"}
		default:
			return []string{"return-?"}
		}
	case "opq":
		if n.t.ser() == n.f.ser() {
			return x.render(n.t) // a branch that only logs / assigns
		}
		a, b := x.render(n.t), x.render(n.f)
		// the common tail
		i := 0
		for i < len(a) && i < len(b) && a[len(a)-1-i] == b[len(b)-1-i] {
			i++
		}
		tail := append([]string{}, a[len(a)-i:]...)
		a, b = a[:len(a)-i], b[:len(b)-i]
		ja, jb := strings.Join(a, "\x00"), strings.Join(b, "\x00")
		less := func() bool { // a before b
			if rfCount(a) != rfCount(b) {
				return rfCount(a) < rfCount(b)
			}
			return ja <= jb
		}
		if !less() {
			a, b = b, a
		}
		out := []string{}
		switch {
		case len(a) == 0 && len(b) == 0:
		case len(a) == 0:
			out = append(append(append(out, "if"), b...), "end")
		case len(tail) == 0:
			// both branches leave the function on their own: the lighter one is the guard, the other what follows it
			out = append(append(append(out, "if"), a...), "end")
			out = append(out, b...)
		default:
			out = append(append(append(out, "if"), a...), "else")
			out = append(append(out, b...), "end")
		}
		return append(out, tail...)
	}
	// a call
	name := n.name
	if n.isW {
		name = "w:" + name
	}
	if n.deferred {
		return append([]string{name + " ? deferred"}, x.render(n.next)...)
	}
	if !n.fall {
		return append([]string{name}, x.render(n.next)...)
	}
	var errTests, returned int
	resTests := map[int]bool{}
	rfRefs(n.next, n.id, &errTests, resTests, &returned)
	if len(resTests) > 1 {
		return []string{name + " ? unknown"}
	}
	resIdx, withRes := -1, false
	for i := range resTests {
		resIdx, withRes = i, true
	}
	cells := []rfCellKey{}
	for _, e := range []uint8{rfENil, rfENE, rfEWrapNE, rfEOther} {
		if withRes {
			cells = append(cells, rfCellKey{e, rfRNil}, rfCellKey{e, rfRNon})
		} else {
			cells = append(cells, rfCellKey{e, 0})
		}
	}
	rest := map[rfCellKey]*rfN{}
	for _, c := range cells {
		r := map[int]uint8{}
		if withRes {
			r[resIdx] = c.r
		}
		rest[c] = rfSimplify(rfSpecialise(n.next, n.id, c.e, r))
	}
	okCell := rfCellKey{rfENil, 0}
	if withRes {
		okCell.r = rfRNon
	}
	cont := rest[okCell]
	same := true
	for _, c := range cells {
		if rest[c].ser() != cont.ser() {
			same = false
		}
	}
	// the call's error IS the function's error, whatever it is: every outcome leaves at once, with the error (nil where it is known to be nil)
	handsOn, dropsRest, leaves := true, true, true
	for _, c := range cells {
		r := rest[c]
		if r.kind != "exit" || len(r.vals) == 0 {
			leaves = false
			break
		}
		last := r.vals[len(r.vals)-1]
		if !(last.k == "err" && last.call == n.id) && !(last.k == "nil" && c.e == rfENil) {
			leaves = false
			break
		}
		if len(r.vals) != n.nres || n.errIdx != n.nres-1 {
			handsOn = false
		}
		for i, v := range r.vals[:len(r.vals)-1] {
			if !(v.k == "res" && v.call == n.id && v.idx == i) {
				handsOn = false
			}
			if v.k != "nil" {
				dropsRest = false
			}
		}
	}
	if leaves && handsOn {
		return []string{name + " ? tail"}
	}
	if leaves && dropsRest {
		return []string{name + " ? then return-err"}
	}
	if same {
		// no outcome of the call changes what follows
		switch {
		case errTests == 0 && returned == 0 && len(resTests) == 0:
			return append([]string{name + " ? ignored"}, x.render(cont)...)
		case errTests > 0 && returned == 0:
			return append([]string{name + " ? err == nil => assign ; else => assign"}, x.render(cont)...)
		}
		return append([]string{name + " ? unknown"}, x.render(cont)...)
	}
	table := map[rfCellKey]string{}
	for _, c := range cells {
		if rest[c].ser() == cont.ser() {
			table[c] = ""
			continue
		}
		act, ok := rfAction(rest[c], n.id)
		if !ok {
			return append([]string{name + " ? unknown"}, x.render(cont)...)
		}
		table[c] = act
	}
	rules, ok := rfRules(table, withRes)
	if !ok {
		rules = "unknown"
	}
	return append([]string{name + " ? " + rules}, x.render(cont)...)
}

// rfFind: the declaration of a function (recvType "") or method of a package of the repository
func rfFind(w *entWorld, rel, recvType, name string) (*entPkg, *ast.FuncDecl) {
	p := w.pkgs[entModule+"/"+rel]
	if p == nil || p.tp == nil {
		return nil, nil
	}
	for _, f := range p.files {
		for _, d := range f.Decls {
			fd, ok := d.(*ast.FuncDecl)
			if !ok || fd.Name.Name != name || fd.Body == nil {
				continue
			}
			if recvType == "" && fd.Recv != nil {
				continue
			}
			if recvType != "" {
				if fd.Recv == nil || len(fd.Recv.List) != 1 || axTypeBase(fd.Recv.List[0].Type) != recvType {
					continue
				}
			}
			return p, fd
		}
	}
	return p, nil
}

// skeleton of a declared function
func rfSkeleton(w *entWorld, rel, recvType, name string) []string {
	p, fd := rfFind(w, rel, recvType, name)
	if p == nil || fd == nil {
		return []string{"unknown"}
	}
	x := &rfX{rfCtx: rfCtx{w: w, p: p}, events: map[*types.Func]int{}}
	st := &rfSt{vars: map[types.Object]rfV{}, cons: map[string]rfCell{}}
	if fd.Recv != nil && len(fd.Recv.List[0].Names) == 1 {
		if o := p.info.Defs[fd.Recv.List[0].Names[0]]; o != nil {
			if n := rfNamed(o.Type()); n != nil && n.Obj().Name() == "Handler" {
				x.recv = o
			}
		}
	}
	for _, fl := range fd.Type.Params.List {
		for _, n := range fl.Names {
			o := p.info.Defs[n]
			if o == nil {
				continue
			}
			switch {
			case rfIsRW(o.Type()):
				st.vars[o] = rfV{k: "w"}
			case rfIsWebContext(o.Type()):
				st.vars[o] = rfV{k: "ctx"}
			}
		}
	}
	fr := &rfFrame{ret: func(st *rfSt, vals []rfV) *rfN { return &rfN{kind: "exit", vals: vals} }}
	if fd.Type.Results != nil {
		for _, fl := range fd.Type.Results.List {
			if len(fl.Names) == 0 {
				fr.nres++
			}
			for _, n := range fl.Names {
				fr.nres++
				o := p.info.Defs[n]
				fr.results = append(fr.results, o)
				if o != nil {
					st.vars[o] = rfZero(o.Type())
				}
			}
		}
	}
	if x.escapes(fd.Body, st) {
		return []string{"unknown"}
	}
	tree := x.block(fd.Body.List, st, fr, func(st *rfSt) *rfN { return x.fallOff(st, fr) })
	out := x.render(rfSimplify(tree))
	if len(out) == 0 {
		return []string{"nothing"}
	}
	return out
}

// rfTriple: a skeleton entry as (kind, callee, reaction): kind = mgr (a message.Manager method, callee = its name) | store (a method of
// storage.Store / storage.Message, or enmime.ReadEnvelope reading the source) | w (a write: the ResponseWriter is handed to callee) |
// call (any other fallible call) | ctl (if / else / end / return-wrapped / unknown)
func rfTriple(e string) string {
	name, reaction := e, ""
	if i := strings.Index(e, " ? "); i >= 0 {
		name, reaction = e[:i], e[i+3:]
	}
	kind := "call"
	switch {
	case strings.HasPrefix(name, "w:"):
		kind, name = "w", name[2:]
	case strings.HasPrefix(name, "Manager."):
		kind, name = "mgr", name[len("Manager."):]
	case strings.HasPrefix(name, "Store.") || strings.HasPrefix(name, "Message.") || name == "enmime.ReadEnvelope":
		kind = "store"
	case name == "if" || name == "else" || name == "end" || strings.HasPrefix(name, "return-") || name == "unknown" || name == "nothing":
		kind = "ctl"
	}
	if reaction == "unknown" {
		// fail closed: `skeletons_known` looks at the callee
		return "(" + leanStr("ctl") + ", " + leanStr("unknown") + ", " + leanStr(name) + ")"
	}
	return "(" + leanStr(kind) + ", " + leanStr(name) + ", " + leanStr(reaction) + ")"
}

func rfTriples(l []string) string {
	p := []string{}
	for _, e := range l {
		p = append(p, rfTriple(e))
	}
	return "[" + strings.Join(p, ", ") + "]"
}

// rfNotExistTests: HOW the function (and the unexported functions of its package it reaches) uses storage.ErrNotExist, as a sorted set:
// "==" (a comparison of identity: `==`, `!=`, a case of a tagged switch — the same test spelled three ways) | "Is" (errors.Is) | "other"
// (ErrNotExist used in any other way: returned, assigned, handed to a function)
func rfNotExistTests(w *entWorld, rel, name string) []string {
	p, fd := rfFind(w, rel, "", name)
	if p == nil || fd == nil {
		return []string{"unknown"}
	}
	x := &rfX{rfCtx: rfCtx{w: w, p: p}, events: map[*types.Func]int{}}
	kinds := map[string]bool{}
	seen := map[*ast.FuncDecl]bool{}
	var scan func(d *ast.FuncDecl)
	scan = func(d *ast.FuncDecl) {
		if seen[d] {
			return
		}
		seen[d] = true
		claimed := map[ast.Expr]bool{}
		ast.Inspect(d.Body, func(n ast.Node) bool {
			switch v := n.(type) {
			case *ast.BinaryExpr:
				for _, side := range []ast.Expr{rfUnparen(v.X), rfUnparen(v.Y)} {
					if x.isErrNotExist(side) {
						claimed[side] = true
						if v.Op == token.EQL || v.Op == token.NEQ {
							kinds["=="] = true
						} else {
							kinds["other"] = true
						}
					}
				}
			case *ast.CallExpr:
				for _, a := range v.Args {
					a = rfUnparen(a)
					if x.isErrNotExist(a) {
						claimed[a] = true
						if x.callee(v) == "errors.Is" {
							kinds["Is"] = true
						} else {
							kinds["other"] = true
						}
					}
				}
				if ef := x.inPkgFunc(v); ef != nil && !ef.obj.Exported() {
					scan(ef.decl)
				}
			case *ast.SwitchStmt:
				if v.Tag == nil {
					return true
				}
				for _, cc := range v.Body.List {
					for _, ex := range cc.(*ast.CaseClause).List {
						ex = rfUnparen(ex)
						if x.isErrNotExist(ex) {
							claimed[ex] = true
							kinds["=="] = true
						}
					}
				}
				if t := rfUnparen(v.Tag); x.isErrNotExist(t) {
					claimed[t] = true
					kinds["=="] = true
				}
			case *ast.SelectorExpr:
				if x.isErrNotExist(v) && !claimed[v] {
					kinds["other"] = true
				}
				return false
			case *ast.Ident:
				if x.isErrNotExist(v) && !claimed[v] {
					kinds["other"] = true
				}
			}
			return true
		})
	}
	scan(fd)
	res := []string{}
	for k := range kinds {
		res = append(res, k)
	}
	sort.Strings(res)
	return res
}

func extractRestFault() {
	g := gen("RestFault")
	w := entLoad()
	if len(w.errs) == 0 {
		w.index()
	}
	if len(w.errs) > 0 {
		for _, e := range w.errs {
			fmt.Fprintln(os.Stderr, "rest_fault:", e)
		}
		u := "[(\"unknown\", [(\"ctl\", \"unknown\", \"\")])]"
		g.def("wrapper", "List (String × String × String)", "[(\"ctl\", \"unknown\", \"\")]", "")
		g.def("manager", "List (String × List (String × String × String))", u, "")
		g.def("handlers", "List (String × List (String × String × String))", u, "")
		g.def("notExistTests", "List (String × List String)", "[(\"unknown\", [\"unknown\"])]", "")
		return
	}
	g.def("wrapper", "List (String × String × String)", rfTriples(rfSkeleton(w, "pkg/server/web", "Handler", "ServeHTTP")),
		"web.Handler.ServeHTTP: the fallible calls and the writes to the ResponseWriter in execution order as (kind, callee, reaction to its error); kind = mgr | store | w | call | ctl; reactions: `<cond> => <action> ; …` over err / res / ErrNotExist / nil (the decision table of the call as a first-match rule list), `tail` (the call's results are the function's), `ignored`, `then return-err` (harness/cmd/extract/rest_fault.go has the notation)")
	rows := func(rel, recv string, names []string) []string {
		p := []string{}
		for _, n := range names {
			p = append(p, "\n  ("+leanStr(n)+", "+rfTriples(rfSkeleton(w, rel, recv, n))+")")
		}
		return p
	}
	g.def("manager", "List (String × List (String × String × String))", "["+strings.Join(rows("pkg/message", "StoreManager", []string{"GetMetadata", "GetMessage", "SourceReader", "MarkSeen", "RemoveMessage", "PurgeMessages"}), ",")+"]",
		"the store-facing methods of message.StoreManager")
	restH := []string{"MailboxListV1", "MailboxShowV1", "MailboxMarkSeenV1", "MailboxPurgeV1", "MailboxSourceV1", "MailboxDeleteV1"}
	webH := []string{"MailboxMessage", "MailboxHTML", "MailboxSource", "MailboxViewAttach"}
	g.def("handlers", "List (String × List (String × String × String))", "["+strings.Join(append(rows("pkg/rest", "", restH), rows("pkg/webui", "", webH)...), ",")+"]",
		"the ten mailbox handlers of pkg/rest and pkg/webui")
	ne := []string{}
	for _, n := range restH {
		ne = append(ne, "\n  ("+leanStr(n)+", "+strList(rfNotExistTests(w, "pkg/rest", n))+")")
	}
	for _, n := range webH {
		ne = append(ne, "\n  ("+leanStr(n)+", "+strList(rfNotExistTests(w, "pkg/webui", n))+")")
	}
	g.def("notExistTests", "List (String × List String)", "["+strings.Join(ne, ",")+"]",
		"per handler HOW storage.ErrNotExist is used in it and in the unexported functions of its package it reaches, as a sorted set: == (a comparison of identity: ==, != or a case of a tagged switch) | Is (errors.Is) | other")
}
