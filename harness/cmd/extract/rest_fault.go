package main

// rest_fault.go — T1 facts for C14 under a failing store (lean/Ibx/Gen/RestFault.lean, pinned by lean/Ibx/Tie/RestFault.lean).
//
// For the wrapper web.Handler.ServeHTTP, the six store-facing methods of message.StoreManager and the ten mailbox handlers of pkg/rest and
// pkg/webui, the ERROR-PATH SKELETON of the function body: the fallible calls (result type contains `error`) and the writes to the
// http.ResponseWriter, in source order, each with what the code does with the error:
//
//     <callee> ? <cond> => <action> ; <cond> => <action> …      the if / else-if / tagless-switch tests that follow the call and mention its
//                                                              error (`err`) or its other result (`res`)
//     <callee> ? tail                                          `return <call>` — the error is handed on as it is
//     <callee> ? ignored                                       `_ = <call>` / a bare call statement / a deferred call
//     <callee> ? then return-err                               `…, err = <call>` followed by `return err`
//     w:<callee>                                               a statement that hands the ResponseWriter to <callee> (w.Header() is not a write)
//
// The package is TYPE-CHECKED (go/types, the loader of entry.go), so a callee is named by the OBJECT it resolves to: `Manager.X` = a method of the
// interface message.Manager, `Store.X` / `Message.X` = methods of storage.Store / storage.Message, `handler` = a call of a value of type
// web.Handler, `pkg.F` = a package-level function; the ResponseWriter is "the parameter of type net/http.ResponseWriter", the error and result
// variables are the objects assigned by the call, storage.ErrNotExist is the package-level variable of that name in pkg/storage, 500 is the value
// of the constant handed to http.Error.  Conditions are printed with `err`, `res`, `ErrNotExist`, `nil` and the operators; errors.Is(err, X) as
// `Is(err,X)`; anything else as `?`.  Unexported / exported helpers OF THE SAME PACKAGE that receive the ResponseWriter or the *web.Context are
// followed (their skeleton is spliced in).  A shape that is not recognised is emitted as `unknown`, which no tie theorem accepts.

import (
	"fmt"
	"go/ast"
	"go/token"
	"go/types"
	"os"
	"strings"
)

func init() { extractors = append(extractors, extractRestFault) }

type rfCtx struct {
	w     *entWorld
	p     *entPkg
	rw    map[types.Object]bool // the ResponseWriter parameter(s) in scope
	ctx   map[types.Object]bool // *web.Context parameters in scope
	recv  types.Object          // receiver of type web.Handler (func value), if any
	depth int
	out   []string
}

func (c *rfCtx) emit(s string) { c.out = append(c.out, s) }

func rfIsError(t types.Type) bool {
	if t == nil {
		return false
	}
	if n, ok := t.(*types.Named); ok && n.Obj().Pkg() == nil && n.Obj().Name() == "error" {
		return true
	}
	return false
}

// fallible: the call's result type contains `error`; returns the index of the error result and the number of results
func (c *rfCtx) fallible(ce *ast.CallExpr) (int, int, bool) {
	tv, ok := c.p.info.Types[ce]
	if !ok {
		return 0, 0, false
	}
	switch t := tv.Type.(type) {
	case *types.Tuple:
		for i := 0; i < t.Len(); i++ {
			if rfIsError(t.At(i).Type()) {
				return i, t.Len(), true
			}
		}
	default:
		if rfIsError(t) {
			return 0, 1, true
		}
	}
	return 0, 0, false
}

func rfNamed(t types.Type) *types.Named {
	if p, ok := t.(*types.Pointer); ok {
		t = p.Elem()
	}
	n, _ := t.(*types.Named)
	return n
}

// callee: the name of what a call resolves to
func (c *rfCtx) callee(ce *ast.CallExpr) string {
	fun := ce.Fun
	for {
		if p, ok := fun.(*ast.ParenExpr); ok {
			fun = p.X
			continue
		}
		break
	}
	switch f := fun.(type) {
	case *ast.Ident:
		obj := c.p.info.Uses[f]
		if obj == nil {
			return "unknown"
		}
		if c.recv != nil && obj == c.recv {
			return "handler"
		}
		if fn, ok := obj.(*types.Func); ok {
			if fn.Pkg() != nil {
				return rfPkgName(fn.Pkg().Path()) + "." + fn.Name()
			}
			return fn.Name()
		}
		if v, ok := obj.(*types.Var); ok {
			if n := rfNamed(v.Type()); n != nil && n.Obj().Name() == "Handler" && n.Obj().Pkg() != nil && strings.HasSuffix(n.Obj().Pkg().Path(), "/pkg/server/web") {
				return "handler"
			}
			return "funcvalue"
		}
		if _, ok := obj.(*types.Builtin); ok {
			return "builtin." + f.Name
		}
		if _, ok := obj.(*types.TypeName); ok {
			return "conv"
		}
		return "unknown"
	case *ast.SelectorExpr:
		if sel := c.p.info.Selections[f]; sel != nil {
			fn, ok := sel.Obj().(*types.Func)
			if !ok {
				return "funcvalue"
			}
			recv := sel.Recv()
			if n := rfNamed(recv); n != nil {
				if n.Obj().Pkg() != nil {
					path := n.Obj().Pkg().Path()
					switch {
					case strings.HasSuffix(path, "/pkg/message") && n.Obj().Name() == "Manager":
						return "Manager." + fn.Name()
					case strings.HasSuffix(path, "/pkg/storage") && n.Obj().Name() == "Store":
						return "Store." + fn.Name()
					case strings.HasSuffix(path, "/pkg/storage") && n.Obj().Name() == "Message":
						return "Message." + fn.Name()
					}
					return rfPkgName(path) + "." + n.Obj().Name() + "." + fn.Name()
				}
				return n.Obj().Name() + "." + fn.Name()
			}
			return "method." + fn.Name()
		}
		// package-qualified function
		if obj := c.p.info.Uses[f.Sel]; obj != nil {
			if fn, ok := obj.(*types.Func); ok && fn.Pkg() != nil {
				return rfPkgName(fn.Pkg().Path()) + "." + fn.Name()
			}
			if _, ok := obj.(*types.TypeName); ok {
				return "conv"
			}
		}
		return "unknown"
	}
	return "unknown"
}

func rfPkgName(path string) string {
	if i := strings.LastIndex(path, "/"); i >= 0 {
		// enmime/v2 -> enmime
		last := path[i+1:]
		if len(last) >= 2 && last[0] == 'v' && last[1] >= '0' && last[1] <= '9' {
			return rfPkgName(path[:i])
		}
		return last
	}
	return path
}

func (c *rfCtx) objOf(e ast.Expr) types.Object {
	for {
		if p, ok := e.(*ast.ParenExpr); ok {
			e = p.X
			continue
		}
		break
	}
	id, ok := e.(*ast.Ident)
	if !ok {
		return nil
	}
	if o := c.p.info.Uses[id]; o != nil {
		return o
	}
	return c.p.info.Defs[id]
}

func (c *rfCtx) isErrNotExist(e ast.Expr) bool {
	var id *ast.Ident
	switch v := e.(type) {
	case *ast.SelectorExpr:
		id = v.Sel
	case *ast.Ident:
		id = v
	default:
		return false
	}
	o := c.p.info.Uses[id]
	v, ok := o.(*types.Var)
	return ok && v.Pkg() != nil && strings.HasSuffix(v.Pkg().Path(), "/pkg/storage") && v.Name() == "ErrNotExist" && v.Parent() == v.Pkg().Scope()
}

func rfIsNilIdent(c *rfCtx, e ast.Expr) bool {
	id, ok := e.(*ast.Ident)
	if !ok {
		return false
	}
	_, isNil := c.p.info.Uses[id].(*types.Nil)
	return isNil
}

// cond: a condition printed over err / res / ErrNotExist / nil; mentions reports whether err or res occur in it
func (c *rfCtx) cond(e ast.Expr, errObj types.Object, resObjs map[types.Object]bool) (string, bool) {
	switch v := e.(type) {
	case *ast.ParenExpr:
		return c.cond(v.X, errObj, resObjs)
	case *ast.BinaryExpr:
		l, lm := c.cond(v.X, errObj, resObjs)
		r, rm := c.cond(v.Y, errObj, resObjs)
		switch v.Op {
		case token.LAND, token.LOR:
			return l + " " + v.Op.String() + " " + r, lm || rm
		case token.EQL, token.NEQ:
			return l + " " + v.Op.String() + " " + r, lm || rm
		}
		return "?", lm || rm
	case *ast.UnaryExpr:
		if v.Op == token.NOT {
			s, m := c.cond(v.X, errObj, resObjs)
			return "!(" + s + ")", m
		}
		return "?", false
	case *ast.Ident:
		if rfIsNilIdent(c, v) {
			return "nil", false
		}
		o := c.objOf(v)
		if o != nil && o == errObj {
			return "err", true
		}
		if o != nil && resObjs[o] {
			return "res", true
		}
		if c.isErrNotExist(v) {
			return "ErrNotExist", false
		}
		return "?", false
	case *ast.SelectorExpr:
		if c.isErrNotExist(v) {
			return "ErrNotExist", false
		}
		return "?", false
	case *ast.CallExpr:
		if c.callee(v) == "errors.Is" && len(v.Args) == 2 {
			a, am := c.cond(v.Args[0], errObj, resObjs)
			b, _ := c.cond(v.Args[1], errObj, resObjs)
			return "Is(" + a + "," + b + ")", am
		}
		return "?", false
	}
	return "?", false
}

// passesW: the call hands the ResponseWriter on (argument, or receiver of a method other than Header)
func (c *rfCtx) passesW(ce *ast.CallExpr) bool {
	for _, a := range ce.Args {
		if o := c.objOf(a); o != nil && c.rw[o] {
			return true
		}
	}
	if se, ok := ce.Fun.(*ast.SelectorExpr); ok {
		if o := c.objOf(se.X); o != nil && c.rw[o] && se.Sel.Name != "Header" {
			return true
		}
	}
	return false
}

// wName: how a write is reported
func (c *rfCtx) wName(ce *ast.CallExpr) string {
	name := c.callee(ce)
	if se, ok := ce.Fun.(*ast.SelectorExpr); ok {
		if o := c.objOf(se.X); o != nil && c.rw[o] {
			name = "ResponseWriter." + se.Sel.Name
		}
	}
	if name == "http.Error" && len(ce.Args) == 3 {
		if tv, ok := c.p.info.Types[ce.Args[2]]; ok && tv.Value != nil {
			name += ":" + tv.Value.ExactString()
		} else {
			name += ":?"
		}
	}
	return name
}

// usesWOtherwise: the ResponseWriter escapes in a way the skeleton does not describe (assigned, captured by a literal, stored)
func (c *rfCtx) usesWOtherwise(body *ast.BlockStmt) bool {
	bad := false
	ast.Inspect(body, func(n ast.Node) bool {
		switch v := n.(type) {
		case *ast.FuncLit:
			ast.Inspect(v.Body, func(m ast.Node) bool {
				if id, ok := m.(*ast.Ident); ok {
					if o := c.p.info.Uses[id]; o != nil && c.rw[o] {
						bad = true
					}
				}
				return true
			})
			return false
		case *ast.AssignStmt:
			for _, r := range v.Rhs {
				if o := c.objOf(r); o != nil && c.rw[o] {
					bad = true
				}
			}
		case *ast.CompositeLit:
			for _, el := range v.Elts {
				if kv, ok := el.(*ast.KeyValueExpr); ok {
					el = kv.Value
				}
				if o := c.objOf(el); o != nil && c.rw[o] {
					bad = true
				}
			}
		}
		return true
	})
	return bad
}

// action: what a block does, as tokens joined by '+'
func (c *rfCtx) action(list []ast.Stmt, errObj types.Object) string {
	toks := []string{}
	for _, st := range list {
		switch v := st.(type) {
		case *ast.ExprStmt:
			if ce, ok := v.X.(*ast.CallExpr); ok {
				if c.passesW(ce) {
					toks = append(toks, c.wName(ce))
				} else if _, _, f := c.fallible(ce); f {
					toks = append(toks, c.callee(ce)+"/ignored")
				}
				// anything else (logging) does not show
				continue
			}
			toks = append(toks, "?")
		case *ast.ReturnStmt:
			toks = append(toks, c.returnShape(v, errObj))
		case *ast.AssignStmt:
			calls := false
			for _, r := range v.Rhs {
				if _, ok := r.(*ast.CallExpr); ok {
					calls = true
				}
			}
			if calls {
				toks = append(toks, "?")
			} else {
				toks = append(toks, "assign")
			}
		default:
			toks = append(toks, "?")
		}
	}
	if len(toks) == 0 {
		return "nothing"
	}
	return strings.Join(toks, "+")
}

func (c *rfCtx) returnShape(rs *ast.ReturnStmt, errObj types.Object) string {
	if len(rs.Results) == 0 {
		return "return"
	}
	last := rs.Results[len(rs.Results)-1]
	for _, r := range rs.Results[:len(rs.Results)-1] {
		if !rfIsNilIdent(c, r) {
			return "return-?"
		}
	}
	if rfIsNilIdent(c, last) {
		return "return-nil"
	}
	if o := c.objOf(last); o != nil && errObj != nil && o == errObj {
		return "return-err"
	}
	if o := c.objOf(last); o != nil && rfIsError(o.Type()) {
		return "return-err" // another error variable in scope (named result)
	}
	if ce, ok := last.(*ast.CallExpr); ok {
		switch c.callee(ce) {
		case "fmt.Errorf", "errors.New":
			return "return-wrapped"
		}
	}
	return "return-?"
}

// same-package helper that receives the ResponseWriter or the Context: its declaration
func (c *rfCtx) helperOf(ce *ast.CallExpr) (*entFunc, map[int]string) {
	var fn *types.Func
	switch f := ce.Fun.(type) {
	case *ast.Ident:
		fn, _ = c.p.info.Uses[f].(*types.Func)
	case *ast.SelectorExpr:
		if sel := c.p.info.Selections[f]; sel != nil {
			fn, _ = sel.Obj().(*types.Func)
		}
	}
	if fn == nil || fn.Pkg() == nil || fn.Pkg() != c.p.tp {
		return nil, nil
	}
	ef := c.w.funcs[fn]
	if ef == nil || ef.decl == nil || ef.decl.Body == nil {
		return nil, nil
	}
	roles := map[int]string{}
	for i, a := range ce.Args {
		if o := c.objOf(a); o != nil {
			if c.rw[o] {
				roles[i] = "w"
			} else if c.ctx[o] {
				roles[i] = "ctx"
			}
		}
	}
	if len(roles) == 0 {
		return nil, nil
	}
	return ef, roles
}

func (c *rfCtx) splice(ef *entFunc, roles map[int]string) {
	if c.depth >= 3 {
		c.emit("unknown")
		return
	}
	sub := &rfCtx{w: c.w, p: ef.pkg, rw: map[types.Object]bool{}, ctx: map[types.Object]bool{}, depth: c.depth + 1}
	i := 0
	for _, f := range ef.decl.Type.Params.List {
		for _, n := range f.Names {
			if o := ef.pkg.info.Defs[n]; o != nil {
				switch roles[i] {
				case "w":
					sub.rw[o] = true
				case "ctx":
					sub.ctx[o] = true
				}
			}
			i++
		}
	}
	sub.block(ef.decl.Body.List)
	c.out = append(c.out, sub.out...)
}

// reactions: the tests after a fallible call, over the statements that follow it
func (c *rfCtx) reactions(rest []ast.Stmt, errObj types.Object, resObjs map[types.Object]bool) (string, int) {
	parts := []string{}
	used := 0
	for _, st := range rest {
		switch v := st.(type) {
		case *ast.IfStmt:
			if v.Init != nil {
				return strings.Join(parts, " ; "), used
			}
			cs, m := c.cond(v.Cond, errObj, resObjs)
			if !m {
				return strings.Join(parts, " ; "), used
			}
			parts = append(parts, cs+" => "+c.action(v.Body.List, errObj))
			used++
			// else-if chain
			el := v.Else
			for el != nil {
				if ei, ok := el.(*ast.IfStmt); ok {
					cs, _ := c.cond(ei.Cond, errObj, resObjs)
					parts = append(parts, cs+" => "+c.action(ei.Body.List, errObj))
					el = ei.Else
					continue
				}
				if eb, ok := el.(*ast.BlockStmt); ok {
					parts = append(parts, "else => "+c.action(eb.List, errObj))
				}
				break
			}
			continue
		case *ast.SwitchStmt:
			if v.Init != nil {
				return strings.Join(parts, " ; "), used
			}
			mentions := false
			sub := []string{}
			for _, cc := range v.Body.List {
				cl := cc.(*ast.CaseClause)
				if cl.List == nil {
					sub = append(sub, "else => "+c.action(cl.Body, errObj))
					continue
				}
				for _, ex := range cl.List {
					var cs string
					var m bool
					if v.Tag != nil { // switch err { case X: }
						t, tm := c.cond(v.Tag, errObj, resObjs)
						x, _ := c.cond(ex, errObj, resObjs)
						cs, m = t+" == "+x, tm
					} else {
						cs, m = c.cond(ex, errObj, resObjs)
					}
					mentions = mentions || m
					sub = append(sub, cs+" => "+c.action(cl.Body, errObj))
				}
			}
			if !mentions {
				return strings.Join(parts, " ; "), used
			}
			parts = append(parts, sub...)
			used++
			continue
		case *ast.ReturnStmt:
			if len(parts) == 0 && len(v.Results) > 0 {
				if o := c.objOf(v.Results[len(v.Results)-1]); o != nil && o == errObj {
					return "then " + c.returnShape(v, errObj), 1
				}
			}
		}
		break
	}
	return strings.Join(parts, " ; "), used
}

// a fallible call found in an assignment / if-init: emit its step; returns how many of the following statements were consumed
func (c *rfCtx) step(ce *ast.CallExpr, lhs []ast.Expr, rest []ast.Stmt, ownIf *ast.IfStmt) int {
	errIdx, n, _ := c.fallible(ce)
	name := c.callee(ce)
	if c.passesW(ce) {
		name = "w:" + c.wName(ce)
	}
	if ef, roles := c.helperOf(ce); ef != nil {
		c.splice(ef, roles)
	}
	var errObj types.Object
	resObjs := map[types.Object]bool{}
	if len(lhs) == n {
		for i, l := range lhs {
			if id, ok := l.(*ast.Ident); ok && id.Name == "_" {
				continue
			}
			o := c.objOf(l)
			if o == nil {
				continue
			}
			if i == errIdx {
				errObj = o
			} else {
				resObjs[o] = true
			}
		}
	}
	if errObj == nil {
		c.emit(name + " ? ignored")
		return 0
	}
	if ownIf != nil {
		cs, _ := c.cond(ownIf.Cond, errObj, resObjs)
		r := cs + " => " + c.action(ownIf.Body.List, errObj)
		if eb, ok := ownIf.Else.(*ast.BlockStmt); ok {
			r += " ; else => " + c.action(eb.List, errObj)
		} else if ownIf.Else != nil {
			r += " ; else => ?"
		}
		c.emit(name + " ? " + r)
		return 0
	}
	r, used := c.reactions(rest, errObj, resObjs)
	if r == "" {
		r = "unknown"
	}
	c.emit(name + " ? " + r)
	return used
}

func (c *rfCtx) block(list []ast.Stmt) {
	for i := 0; i < len(list); i++ {
		st := list[i]
		switch v := st.(type) {
		case *ast.AssignStmt:
			if len(v.Rhs) == 1 {
				if ce, ok := v.Rhs[0].(*ast.CallExpr); ok {
					if _, _, f := c.fallible(ce); f {
						i += c.step(ce, v.Lhs, list[i+1:], nil)
						continue
					}
					if c.passesW(ce) {
						c.emit("w:" + c.wName(ce))
						continue
					}
					if ef, roles := c.helperOf(ce); ef != nil {
						c.splice(ef, roles)
					}
				}
			}
		case *ast.ExprStmt:
			if ce, ok := v.X.(*ast.CallExpr); ok {
				if ef, roles := c.helperOf(ce); ef != nil {
					c.splice(ef, roles)
					continue
				}
				if c.passesW(ce) {
					c.emit("w:" + c.wName(ce))
					continue
				}
				if _, _, f := c.fallible(ce); f {
					c.emit(c.callee(ce) + " ? ignored")
				}
			}
		case *ast.DeferStmt:
			if _, _, f := c.fallible(v.Call); f {
				c.emit(c.callee(v.Call) + " ? deferred")
			}
		case *ast.ReturnStmt:
			for _, r := range v.Results {
				if ce, ok := r.(*ast.CallExpr); ok {
					if ef, roles := c.helperOf(ce); ef != nil {
						c.splice(ef, roles)
						continue
					}
					_, _, f := c.fallible(ce)
					if nm := c.callee(ce); nm == "fmt.Errorf" || nm == "errors.New" {
						c.emit("return-wrapped")
						continue
					}
					switch {
					case c.passesW(ce) && f:
						c.emit("w:" + c.wName(ce) + " ? tail")
					case c.passesW(ce):
						c.emit("w:" + c.wName(ce))
					case f:
						c.emit(c.callee(ce) + " ? tail")
					}
				}
			}
		case *ast.IfStmt:
			if as, ok := v.Init.(*ast.AssignStmt); ok && len(as.Rhs) == 1 {
				if ce, ok := as.Rhs[0].(*ast.CallExpr); ok {
					if _, _, f := c.fallible(ce); f {
						c.step(ce, as.Lhs, nil, v)
						continue
					}
				}
			}
			// a plain condition (the decoded body's flag, a bounds test): both branches are part of the skeleton
			c.emit("if")
			c.block(v.Body.List)
			if eb, ok := v.Else.(*ast.BlockStmt); ok {
				c.emit("else")
				c.block(eb.List)
			} else if v.Else != nil {
				c.emit("unknown")
			}
			c.emit("end")
		case *ast.ForStmt:
			c.block(v.Body.List)
		case *ast.RangeStmt:
			c.block(v.Body.List)
		case *ast.BlockStmt:
			c.block(v.List)
		case *ast.SwitchStmt, *ast.TypeSwitchStmt, *ast.SelectStmt, *ast.GoStmt, *ast.LabeledStmt:
			c.emit("unknown")
		}
	}
}

// skeleton of a declared function; recvHandler: the receiver is the handler value (web.Handler.ServeHTTP)
func rfSkeleton(w *entWorld, rel, recvType, name string) []string {
	p := w.pkgs[entModule+"/"+rel]
	if p == nil || p.tp == nil {
		return []string{"unknown"}
	}
	for _, f := range p.files {
		for _, d := range f.Decls {
			fd, ok := d.(*ast.FuncDecl)
			if !ok || fd.Name.Name != name || fd.Body == nil {
				continue
			}
			if recvType == "" && fd.Recv != nil {
				continue
			}
			if recvType != "" {
				if fd.Recv == nil || len(fd.Recv.List) != 1 || axTypeBase(fd.Recv.List[0].Type) != recvType {
					continue
				}
			}
			c := &rfCtx{w: w, p: p, rw: map[types.Object]bool{}, ctx: map[types.Object]bool{}}
			if fd.Recv != nil && len(fd.Recv.List[0].Names) == 1 {
				if o := p.info.Defs[fd.Recv.List[0].Names[0]]; o != nil {
					if n := rfNamed(o.Type()); n != nil && n.Obj().Name() == "Handler" {
						c.recv = o
					}
				}
			}
			for _, fl := range fd.Type.Params.List {
				for _, n := range fl.Names {
					o := p.info.Defs[n]
					if o == nil {
						continue
					}
					if nt := rfNamed(o.Type()); nt != nil && nt.Obj().Pkg() != nil {
						if nt.Obj().Pkg().Path() == "net/http" && nt.Obj().Name() == "ResponseWriter" {
							c.rw[o] = true
						}
						if strings.HasSuffix(nt.Obj().Pkg().Path(), "/pkg/server/web") && nt.Obj().Name() == "Context" {
							c.ctx[o] = true
						}
					}
				}
			}
			if c.usesWOtherwise(fd.Body) {
				return []string{"unknown"}
			}
			c.block(fd.Body.List)
			if len(c.out) == 0 {
				return []string{"nothing"}
			}
			return c.out
		}
	}
	return []string{"unknown"}
}

// rfTriple: a skeleton entry as (kind, callee, reaction): kind = mgr (a message.Manager method, callee = its name) | store (a method of
// storage.Store / storage.Message, or enmime.ReadEnvelope reading the source) | w (a write: the ResponseWriter is handed to callee) |
// call (any other fallible call) | ctl (if / else / end / return-wrapped / unknown)
func rfTriple(e string) string {
	name, reaction := e, ""
	if i := strings.Index(e, " ? "); i >= 0 {
		name, reaction = e[:i], e[i+3:]
	}
	kind := "call"
	switch {
	case strings.HasPrefix(name, "w:"):
		kind, name = "w", name[2:]
	case strings.HasPrefix(name, "Manager."):
		kind, name = "mgr", name[len("Manager."):]
	case strings.HasPrefix(name, "Store.") || strings.HasPrefix(name, "Message.") || name == "enmime.ReadEnvelope":
		kind = "store"
	case name == "if" || name == "else" || name == "end" || name == "return-wrapped" || name == "unknown" || name == "nothing":
		kind = "ctl"
	}
	return "(" + leanStr(kind) + ", " + leanStr(name) + ", " + leanStr(reaction) + ")"
}

func rfTriples(l []string) string {
	p := []string{}
	for _, e := range l {
		p = append(p, rfTriple(e))
	}
	return "[" + strings.Join(p, ", ") + "]"
}

// rfNotExistTests: every comparison of a value with storage.ErrNotExist in the function, in source order: "==" | "!=" | "Is" (errors.Is) |
// "case" (a tagged switch) | "other" (ErrNotExist used in any other way)
func rfNotExistTests(w *entWorld, rel, name string) []string {
	p := w.pkgs[entModule+"/"+rel]
	if p == nil || p.tp == nil {
		return []string{"unknown"}
	}
	c := &rfCtx{w: w, p: p}
	for _, f := range p.files {
		for _, d := range f.Decls {
			fd, ok := d.(*ast.FuncDecl)
			if !ok || fd.Name.Name != name || fd.Body == nil || fd.Recv != nil {
				continue
			}
			res := []string{}
			claimed := map[ast.Expr]bool{}
			ast.Inspect(fd.Body, func(n ast.Node) bool {
				switch v := n.(type) {
				case *ast.BinaryExpr:
					for _, side := range []ast.Expr{v.X, v.Y} {
						if c.isErrNotExist(side) {
							claimed[side] = true
							if v.Op == token.EQL || v.Op == token.NEQ {
								res = append(res, v.Op.String())
							} else {
								res = append(res, "other")
							}
						}
					}
				case *ast.CallExpr:
					for _, a := range v.Args {
						if c.isErrNotExist(a) {
							claimed[a] = true
							if c.callee(v) == "errors.Is" {
								res = append(res, "Is")
							} else {
								res = append(res, "other")
							}
						}
					}
				case *ast.CaseClause:
					for _, ex := range v.List {
						if c.isErrNotExist(ex) {
							claimed[ex] = true
							res = append(res, "case")
						}
					}
				case *ast.SelectorExpr:
					if c.isErrNotExist(v) && !claimed[v] {
						res = append(res, "other")
					}
					return false
				}
				return true
			})
			return res
		}
	}
	return []string{"unknown"}
}

func extractRestFault() {
	g := gen("RestFault")
	w := entLoad()
	if len(w.errs) == 0 {
		w.index()
	}
	if len(w.errs) > 0 {
		for _, e := range w.errs {
			fmt.Fprintln(os.Stderr, "rest_fault:", e)
		}
		u := "[(\"unknown\", [(\"ctl\", \"unknown\", \"\")])]"
		g.def("wrapper", "List (String × String × String)", "[(\"ctl\", \"unknown\", \"\")]", "")
		g.def("manager", "List (String × List (String × String × String))", u, "")
		g.def("handlers", "List (String × List (String × String × String))", u, "")
		g.def("notExistTests", "List (String × List String)", "[(\"unknown\", [\"unknown\"])]", "")
		return
	}
	g.def("wrapper", "List (String × String × String)", rfTriples(rfSkeleton(w, "pkg/server/web", "Handler", "ServeHTTP")),
		"web.Handler.ServeHTTP: the fallible calls and the writes to the ResponseWriter in source order as (kind, callee, reaction to its error); kind = mgr | store | w | call | ctl; reactions: `<cond> => <action> ; …` over err / res / ErrNotExist / nil, `tail` (returned as it is), `ignored`, `then return-err` (harness/cmd/extract/rest_fault.go has the notation)")
	rows := func(rel, recv string, names []string) []string {
		p := []string{}
		for _, n := range names {
			p = append(p, "\n  ("+leanStr(n)+", "+rfTriples(rfSkeleton(w, rel, recv, n))+")")
		}
		return p
	}
	g.def("manager", "List (String × List (String × String × String))", "["+strings.Join(rows("pkg/message", "StoreManager", []string{"GetMetadata", "GetMessage", "SourceReader", "MarkSeen", "RemoveMessage", "PurgeMessages"}), ",")+"]",
		"the store-facing methods of message.StoreManager")
	restH := []string{"MailboxListV1", "MailboxShowV1", "MailboxMarkSeenV1", "MailboxPurgeV1", "MailboxSourceV1", "MailboxDeleteV1"}
	webH := []string{"MailboxMessage", "MailboxHTML", "MailboxSource", "MailboxViewAttach"}
	g.def("handlers", "List (String × List (String × String × String))", "["+strings.Join(append(rows("pkg/rest", "", restH), rows("pkg/webui", "", webH)...), ",")+"]",
		"the ten mailbox handlers of pkg/rest and pkg/webui")
	ne := []string{}
	for _, n := range restH {
		ne = append(ne, "\n  ("+leanStr(n)+", "+strList(rfNotExistTests(w, "pkg/rest", n))+")")
	}
	for _, n := range webH {
		ne = append(ne, "\n  ("+leanStr(n)+", "+strList(rfNotExistTests(w, "pkg/webui", n))+")")
	}
	g.def("notExistTests", "List (String × List String)", "["+strings.Join(ne, ",")+"]",
		"per handler every use of storage.ErrNotExist, in source order: == | != (comparison of identity) | Is (errors.Is) | case | other")
}
