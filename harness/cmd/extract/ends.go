package main

// T1 facts about the ways a session ENDS (C03End, C13End), re-read from pkg/server/smtp and pkg/server/pop3.
//
// Nothing is found by the name of a function, a local, a receiver or a field: the command loop is the loop around the
// state dispatch (k1FindDispatch), the reply helper the unexported method that writes a line (PrintfLine / fmt.Fprint),
// the state helper the one that assigns its parameter to the state field, the DATA handler what the loop calls while
// the state is DATA, the reading helper the function that calls ReadString, the body functions of RETR / TOP the
// helpers of those clauses that build a bufio.Scanner.  Control flow is EXECUTED path by path (kit_t1a.go), helpers
// with replies inlined, so the read-error handling may sit in the loop or in a helper, end with `break` or `return`,
// be an if-chain or a switch: the facts are the same.
//
// For each package (prefix smtp / pop):
//   <p>LoopCond        the condition of the command loop as a token list of roles, operators and constants:
//                      ["$state", "!=", "QUIT", "&&", "$sendError", "==", "nil"]  ($sendError = the field the reply
//                      helper stores a failed write in)
//   <p>ReadErrSends    for the paths through the loop body on which reading the line FAILED (guard `E != nil`, E the
//                      value the loop compares with io.EOF) and E is not io.EOF: what such a path replies, with the class
//                      of the path: "timeout" = under a guard `….Timeout()`, else "other"; the distinct (class, literal text)
//   <p>EofSends        the replies on the paths with E == io.EOF (expected: none)
//   <p>ReadErrBreaks   the number of classes of failed-read paths (eof, timeout, other = 3) when every such path LEAVES
//                      the loop; -1 when one of them goes round again or the shape is not understood
//   <p>ReadErrOther    any other event (state change, reset, delivery) on a failed-read path (expected: none)
//   <p>Deadlines       (I/O call, armed?) for every function of the package that reads or writes the connection:
//                      armed = a Set{Read,Write}Deadline call precedes the I/O call in that function
//   <p>NextDeadline    the distinct arguments of those Set…Deadline calls, helpers looked through
// SMTP only:
//   smtpDataErrSends   the replies of the DATA handler on the paths without delivery and without reset (the read of
//                      the block failed) after the 354, with the class of the path
//   smtpDataErrExit    how those paths end: the state change and the terminator (expected: state:QUIT; return)
// POP3 only:
//   popReadLineErr     result 0 of the reading helper on the paths where ReadString failed: "lit:" = the empty string
//                      literal: the partial line is dropped
//   popSendMessageExits / popSendMessageTopExits
//                      the exits of the body function of RETR / TOP: the replies outside the line loop, per exit, sorted
//   popBodyCalls       for the RETR and TOP rows of the TRANSACTION handler: on every path that reaches the body
//                      function, the reply sent immediately before it

import (
	"go/ast"
	"go/token"
	"regexp"
	"sort"
	"strings"
)

func init() { extractors = append(extractors, extractEnds) }

// guardBytes: (guard, literal as bytes) — reply literals are emitted as byte lists (the audit's source scan looks for
// forbidden words even inside string literals, and one of the replies contains one)
func guardBytes(ps [][2]string) string {
	p := []string{}
	for _, x := range ps {
		p = append(p, "("+leanStr(x[0])+", "+byteList(x[1])+")")
	}
	return "[" + strings.Join(p, ", ") + "]"
}

func pairsLean(ps [][2]string) string { return pairList(ps) }

func intLean(n int) string {
	if n < 0 {
		return "(-1)"
	}
	return itoa(n)
}

func itoa(n int) string {
	if n == 0 {
		return "0"
	}
	s := ""
	for n > 0 {
		s = string(rune('0'+n%10)) + s
		n /= 10
	}
	return s
}

// endsRoles: the helpers of a line-protocol package by what they do.
type endsRoles struct {
	pkg      *k1Pkg
	d        *k1Dispatch
	send     *ast.FuncDecl
	setState *ast.FuncDecl
	reset    *ast.FuncDecl          // SMTP only
	body     map[*ast.FuncDecl]bool // POP3: the functions that stream a message
	sendErr  string                 // the field the reply helper stores a failed write in
	calls    map[string]bool        // library calls reported as events
}

func endsFindRoles(p *k1Pkg, writes func(*ast.CallExpr) bool) *endsRoles {
	r := &endsRoles{pkg: p, d: k1FindDispatch(p), body: map[*ast.FuncDecl]bool{}, calls: map[string]bool{}}
	for _, fd := range p.funcs {
		if fd.Recv == nil || k1Exported(fd.Name.Name) || r.send != nil {
			continue
		}
		for _, ce := range k1Calls(fd.Body) {
			if writes(ce) {
				r.send = fd
				break
			}
		}
	}
	if r.send != nil {
		// `recv.F = <error>`: the one field the reply helper assigns
		e := k1NewEnv(p, r.send)
		fields := map[string]bool{}
		ast.Inspect(r.send.Body, func(n ast.Node) bool {
			if as, ok := n.(*ast.AssignStmt); ok && as.Tok == token.ASSIGN {
				for _, l := range as.Lhs {
					if c := e.canon(l); strings.HasPrefix(c, "$r.") && !strings.Contains(c[3:], ".") {
						fields[c[3:]] = true
					}
				}
			}
			return true
		})
		if len(fields) == 1 {
			for f := range fields {
				r.sendErr = f
			}
		}
	}
	if r.d != nil {
		for _, fd := range p.funcs {
			if fd.Recv == nil || k1Exported(fd.Name.Name) || fd.Type.Params == nil || len(fd.Type.Params.List) != 1 {
				continue
			}
			e := k1NewEnv(p, fd)
			ast.Inspect(fd.Body, func(n ast.Node) bool {
				as, ok := n.(*ast.AssignStmt)
				if !ok || as.Tok != token.ASSIGN || len(as.Lhs) != 1 || len(as.Rhs) != 1 {
					return true
				}
				if e.canon(as.Lhs[0]) == "$r."+r.d.stateField && e.canon(as.Rhs[0]) == "$p" {
					r.setState = fd
				}
				return true
			})
		}
	}
	return r
}

// walker: the path-sensitive walker with the events of the session-end facts: replies with their literal text
// (format + arguments form, so that fmt.Sprintf and `+` are the same reply), state changes, and the named library calls.
func (r *endsRoles) walker() *k2Walker {
	w := k2NewWalker(r.pkg)
	w.classify = func(e *k1Env, ce *ast.CallExpr) (string, bool) {
		fd := r.pkg.resolve(ce)
		switch {
		case fd != nil && fd == r.send:
			if len(ce.Args) == 1 {
				if fm, _, ok := k2FormatStr(e.canon(ce.Args[0])); ok {
					return "send:" + fm, false
				}
			}
			return "send:?", false
		case fd != nil && fd == r.setState:
			if len(ce.Args) == 1 {
				return "state:" + e.canon(ce.Args[0]), false
			}
			return "state:?", false
		case fd != nil && fd == r.reset:
			return "reset", false
		case fd != nil && r.body[fd]:
			return "body", false
		case fd != nil:
			return "", true
		}
		if sel, ok := ce.Fun.(*ast.SelectorExpr); ok && r.calls[sel.Sel.Name] {
			return "call:" + sel.Sel.Name, false
		}
		return "", false
	}
	w.assign = func(e *k1Env, lhs, rhs ast.Expr) string {
		l := e.canon(lhs)
		for _, pre := range []string{"$r.", "$s."} {
			if r.d != nil && l == pre+r.d.stateField {
				return "state:" + e.canon(rhs)
			}
		}
		return ""
	}
	w.elide = func(ce *ast.CallExpr) (string, bool) {
		if sel, ok := ce.Fun.(*ast.SelectorExpr); ok && r.calls[sel.Sel.Name] && r.pkg.resolve(ce) == nil {
			return sel.Sel.Name + "(..)", true
		}
		return "", false
	}
	return w
}

// endsLoopCond: the loop condition as tokens, fields named by role.
func (r *endsRoles) loopCond() []string {
	if r.d == nil || r.d.loop == nil || r.d.loop.Cond == nil {
		return []string{"?"}
	}
	var toks func(x ast.Expr) []string
	toks = func(x ast.Expr) []string {
		switch v := x.(type) {
		case *ast.BinaryExpr:
			return append(append(toks(v.X), v.Op.String()), toks(v.Y)...)
		case *ast.ParenExpr:
			return toks(v.X)
		case *ast.SelectorExpr:
			if r.d.env.canon(v.X) == "$s" {
				switch v.Sel.Name {
				case r.d.stateField:
					return []string{"$state"}
				case r.sendErr:
					return []string{"$sendError"}
				}
			}
			return []string{r.d.env.canon(v)}
		case *ast.Ident:
			return []string{r.d.env.canon(v)}
		case *ast.BasicLit:
			return []string{v.Value}
		}
		return []string{"?"}
	}
	return toks(r.d.loop.Cond)
}

var endsEOFRe = regexp.MustCompile(`^\[(.*) (==|!=) io\.EOF\]$`)
var endsTimeoutRe = regexp.MustCompile(`^\[[^!].*\.Timeout\(\)\]$`)

func endsClass(items []string) string {
	for _, it := range items {
		if strings.HasPrefix(it, "unknown:") || strings.HasPrefix(it, "*") || it == "[loop]" {
			return "?"
		}
	}
	for _, it := range items {
		if endsTimeoutRe.MatchString(it) {
			return "timeout"
		}
	}
	return "other"
}

func sessionEndFacts(g *genFile, prefix string, r *endsRoles) {
	g.def(prefix+"LoopCond", "List String", strList(r.loopCond()), "the condition of the command loop: roles ($state, $sendError), operators, constants")
	var errSends [][2]string
	eofLits := []string{}
	other := []string{}
	breaks := -1
	if r.d != nil && r.d.loop != nil && r.send != nil {
		w := r.walker()
		paths := k2CanonicalPaths(w.paths(r.d.env, nil, r.d.loop.Body.List))
		// E: the value the loop compares with io.EOF
		es := map[string]bool{}
		for _, p := range paths {
			for _, it := range p.items {
				if m := endsEOFRe.FindStringSubmatch(it); m != nil {
					es[m[1]] = true
				}
			}
		}
		if len(es) == 1 {
			E := ""
			for k := range es {
				E = k
			}
			breaks = 0
			classes := map[string]bool{}
			seen := map[[2]string]bool{}
			for _, p := range paths {
				items := p.items
				failed, tested, eof := false, false, false
				for _, it := range items {
					if it == "["+E+" != nil]" {
						failed = true
					}
					if it == "["+E+" == io.EOF]" {
						eof, tested = true, true
					}
					if it == "["+E+" != io.EOF]" {
						tested = true
					}
				}
				// (the value of another helper may be rendered like E: a failed read of the LINE goes through the io.EOF test)
				if !failed || !tested {
					continue
				}
				if p.term != "break" {
					breaks = -1000
				}
				cl := endsClass(items)
				if eof {
					cl = "eof"
				}
				classes[cl] = true
				var sends []string
				for _, it := range items {
					switch {
					case strings.HasPrefix(it, "["):
					case strings.HasPrefix(it, "send:"):
						sends = append(sends, it[5:])
					default:
						other = append(other, it)
					}
				}
				switch {
				case eof:
					eofLits = append(eofLits, sends...)
				default:
					// one entry per distinct (class, what such a path sends); a path that sends nothing shows as ""
					pr := [2]string{cl, strings.Join(sends, "\n")}
					if !seen[pr] {
						seen[pr] = true
						errSends = append(errSends, pr)
					}
				}
			}
			breaks += len(classes)
			if breaks < 0 {
				breaks = -1
			}
		}
	}
	if breaks < 0 {
		errSends = [][2]string{{"?", "?"}}
	}
	rank := map[string]int{"timeout": 0, "other": 1, "?": 2}
	sort.SliceStable(errSends, func(i, j int) bool {
		if rank[errSends[i][0]] != rank[errSends[j][0]] {
			return rank[errSends[i][0]] < rank[errSends[j][0]]
		}
		return errSends[i][1] < errSends[j][1]
	})
	g.def(prefix+"ReadErrSends", "List (String × List Nat)", guardBytes(errSends), "what the paths of the command loop on which reading the line failed with something other than io.EOF reply: the distinct (class of the path, literal); timeout first")
	g.def(prefix+"EofSends", "List String", strList(eofLits), "replies on the paths where it failed with io.EOF")
	g.def(prefix+"ReadErrBreaks", "Int", intLean(breaks), "number of classes (eof, timeout, other) of failed-read paths, all of which leave the loop (-1: one does not, or not understood)")
	g.def(prefix+"ReadErrOther", "List String", strList(other), "other events on the failed-read paths")
	pairs, args := endsDeadlines(r.pkg)
	g.def(prefix+"Deadlines", "List (String × String)", pairsLean(pairs), "(I/O call, armed | unarmed) for every function that reads or writes the connection: is a Set{Read,Write}Deadline call made before the I/O call")
	g.def(prefix+"NextDeadline", "List String", strList(args), "the distinct deadlines those calls set (helpers looked through)")
}

var endsReads = map[string]bool{"ReadLine": true, "ReadDotBytes": true, "ReadDotLines": true, "ReadString": true, "ReadBytes": true, "ReadContinuedLine": true}

func endsIsWrite(ce *ast.CallExpr) bool {
	if k1SelCall(ce, "PrintfLine") {
		return true
	}
	for _, n := range []string{"Fprint", "Fprintf", "Fprintln"} {
		if k1QualCall(ce, "fmt", n) && len(ce.Args) > 0 {
			if s := src(ce.Args[0]); s != "os.Stdout" && s != "os.Stderr" {
				return true
			}
		}
	}
	return false
}

// endsDeadlines: every I/O call of the package with whether the matching deadline was set before it in its function.
func endsDeadlines(p *k1Pkg) (pairs [][2]string, args []string) {
	seenPair := map[[2]string]bool{}
	seenArg := map[string]bool{}
	for _, fd := range p.funcs {
		e := k1NewEnv(p, fd)
		armed := map[string]bool{}
		ast.Inspect(fd.Body, func(n ast.Node) bool {
			ce, ok := n.(*ast.CallExpr)
			if !ok {
				return true
			}
			sel, isSel := ce.Fun.(*ast.SelectorExpr)
			if !isSel {
				return true
			}
			name := sel.Sel.Name
			switch {
			case (name == "SetReadDeadline" || name == "SetWriteDeadline" || name == "SetDeadline") && len(ce.Args) == 1:
				if name != "SetWriteDeadline" {
					armed["r"] = true
				}
				if name != "SetReadDeadline" {
					armed["w"] = true
				}
				if a := e.canon(ce.Args[0]); !seenArg[a] {
					seenArg[a] = true
					args = append(args, a)
				}
			case endsReads[name] && p.resolve(ce) == nil:
				pr := [2]string{name, map[bool]string{true: "armed", false: "unarmed"}[armed["r"]]}
				if !seenPair[pr] {
					seenPair[pr] = true
					pairs = append(pairs, pr)
				}
			case endsIsWrite(ce):
				pr := [2]string{name, map[bool]string{true: "armed", false: "unarmed"}[armed["w"]]}
				if !seenPair[pr] {
					seenPair[pr] = true
					pairs = append(pairs, pr)
				}
			}
			return true
		})
	}
	sort.Slice(pairs, func(i, j int) bool { return pairs[i][0]+pairs[i][1] < pairs[j][0]+pairs[j][1] })
	sort.Strings(args)
	return pairs, args
}

// pop3BodyFuncs: the functions that stream a message for RETR and for TOP: among the unexported helpers of the package
// that build a bufio.Scanner, the one that the paths of that row of a handler's table call (the handlers are executed
// path by path, so the table may be a switch, an if-chain or sit in a helper); and the state of that handler.
func pop3BodyFuncs(pp *k1Pkg, d *k1Dispatch) (map[string]*ast.FuncDecl, string) {
	res := map[string]*ast.FuncDecl{}
	if d == nil {
		return res, ""
	}
	id := map[*ast.FuncDecl]int{}
	var builders []*ast.FuncDecl
	for _, fd := range pp.funcs {
		if !k1Exported(fd.Name.Name) && len(dotScannerCalls(fd)) > 0 {
			id[fd] = len(builders)
			builders = append(builders, fd)
		}
	}
	if len(builders) == 0 {
		return res, ""
	}
	state := ""
	for _, st := range d.states {
		w := k2NewWalker(pp)
		w.classify = func(e *k1Env, ce *ast.CallExpr) (string, bool) {
			if fd := pp.resolve(ce); fd != nil {
				if k, ok := id[fd]; ok {
					return "body#" + itoa(k), false
				}
				return "", true
			}
			return "", false
		}
		_, _, rows := smtpTable(w.paths(d.handlerEnv(pp, st), nil, d.handlers[st].Body.List))
		for _, verb := range []string{"RETR", "TOP"} {
			set := map[string]bool{}
			for _, x := range rows[verb] {
				for _, it := range x.items {
					if strings.HasPrefix(strings.TrimPrefix(it, "*"), "body#") {
						set[strings.TrimPrefix(it, "*")] = true
					}
				}
			}
			if len(set) == 1 {
				for k := range set {
					for fd, n := range id {
						if "body#"+itoa(n) == k {
							res[verb] = fd
							state = st
						}
					}
				}
			}
		}
	}
	return res, state
}

func extractEnds() {
	defer k1Recover("extractEnds")
	g := gen("Ends")
	// ---------------- SMTP
	sp := k1LoadPkg("pkg/server/smtp")
	sr := endsFindRoles(sp, func(ce *ast.CallExpr) bool { return k1SelCall(ce, "PrintfLine") })
	smtp := smtpFindRoles(sp)
	sr.reset = smtp.reset
	sr.calls = map[string]bool{"Deliver": true}
	sessionEndFacts(g, "smtp", sr)
	// the DATA handler: the paths on which the block could not be read
	var dataSends [][2]string
	exits := []string{}
	if smtp.data != nil && sr.send != nil {
		sr.calls = map[string]bool{"Deliver": true, "ReadDotBytes": true}
		w := sr.walker()
		seen := map[string]bool{}
		for _, p := range k2CanonicalPaths(w.paths(k1NewEnv(sp, smtp.data), nil, smtp.data.Body.List)) {
			items := p.items
			term := p.term
			if term == "" {
				term = "return"
			}
			failed := true
			for _, it := range items {
				if it == "call:Deliver" || it == "reset" {
					failed = false
				}
			}
			if !failed {
				continue
			}
			cl := endsClass(items)
			var rest []string
			first := true
			for _, it := range items {
				switch {
				case strings.HasPrefix(it, "["), it == "call:ReadDotBytes":
				case strings.HasPrefix(it, "send:") && first:
					first = false // the 354 that opens the phase
				case strings.HasPrefix(it, "send:"):
					pr := [2]string{cl, it[5:]}
					if !seen[pr[0]+"\x00"+pr[1]] {
						seen[pr[0]+"\x00"+pr[1]] = true
						dataSends = append(dataSends, pr)
					}
				default:
					rest = append(rest, it)
				}
			}
			if x := strings.Join(append(rest, term), "; "); !seen["exit\x00"+x] {
				seen["exit\x00"+x] = true
				exits = append(exits, x)
			}
		}
		sort.Strings(exits)
	}
	g.def("smtpDataErrSends", "List (String × List Nat)", guardBytes(dataSends), "replies of the DATA handler, after the 354, on the paths without delivery and without reset (the block could not be read): (class of the path, literal)")
	g.def("smtpDataErrExit", "List String", strList(exits), "what else those paths do and how they end")

	// ---------------- POP3
	pp := k1LoadPkg("pkg/server/pop3")
	pr := endsFindRoles(pp, func(ce *ast.CallExpr) bool { return k1QualCall(ce, "fmt", "Fprint") })
	sessionEndFacts(g, "pop", pr)
	// the reading helper: what it returns when ReadString failed
	rlErr := []string{"?"}
	{
		var rl *ast.FuncDecl
		n := 0
		for _, fd := range pp.funcs {
			for _, ce := range k1Calls(fd.Body) {
				if k1SelCall(ce, "ReadString") && pp.resolve(ce) == nil {
					rl = fd
					n++
				}
			}
		}
		if n == 1 {
			pr.calls = map[string]bool{"ReadString": true}
			w := pr.walker()
			w.opaque = func(*ast.FuncDecl) bool { return true }
			set := map[string]bool{}
			for _, p := range w.paths(k1NewEnv(pp, rl), nil, rl.Body.List) {
				failed := false
				for _, it := range p.items {
					if it == "[ReadString(..)#1 != nil]" {
						failed = true
					}
				}
				if !failed {
					continue
				}
				v := "expr"
				if len(p.rets) == 2 && len(p.rets[0]) >= 2 && p.rets[0][0] == '"' {
					if s, ok := strLit(&ast.BasicLit{Kind: token.STRING, Value: p.rets[0]}); ok {
						v = "lit:" + s
					}
				}
				set[v] = true
			}
			rlErr = []string{}
			for k := range set {
				rlErr = append(rlErr, k)
			}
			sort.Strings(rlErr)
			pr.calls = map[string]bool{}
		}
	}
	g.def("popReadLineErr", "List String", strList(rlErr), "result 0 of the reading helper on the paths where ReadString failed: lit: = the empty string literal, the partial line is dropped")
	// the body functions of RETR and TOP
	var rows map[string][]k2Path
	bodyOf, bodyState := pop3BodyFuncs(pp, pr.d)
	exitsOf := func(fd *ast.FuncDecl) string {
		var groups []string
		if fd != nil && pr.send != nil {
			w := pr.walker()
			for _, p := range k2CanonicalPaths(w.paths(k1NewEnv(pp, fd), nil, fd.Body.List)) {
				var lits []string
				for _, it := range p.items {
					if strings.HasPrefix(it, "send:") {
						lits = append(lits, it[5:])
					}
					if strings.HasPrefix(it, "unknown:") {
						lits = append(lits, it)
					}
				}
				groups = append(groups, strList(lits))
			}
		}
		sort.Strings(groups)
		out := []string{}
		for i, x := range groups {
			if i == 0 || x != groups[i-1] {
				out = append(out, x)
			}
		}
		return "[" + strings.Join(out, ", ") + "]"
	}
	g.def("popSendMessageExits", "List (List String)", exitsOf(bodyOf["RETR"]), "the body function of RETR (the helper of that clause that builds a bufio.Scanner): the replies outside the line loop on each of its exits; sorted, duplicates removed")
	g.def("popSendMessageTopExits", "List (List String)", exitsOf(bodyOf["TOP"]), "the same for the body function of TOP")
	tails := [][2]string{}
	if pr.d != nil && pr.d.handlers[bodyState] != nil && pr.send != nil && len(bodyOf) > 0 {
		for _, fd := range bodyOf {
			pr.body[fd] = true
		}
		w := pr.walker()
		_, _, rows = smtpTable(w.paths(pr.d.handlerEnv(pp, bodyState), nil, pr.d.handlers[bodyState].Body.List))
		for _, verb := range []string{"RETR", "TOP"} {
			set := map[string]bool{}
			for _, p := range rows[verb] {
				items := p.items
				for i, it := range items {
					if it != "body" {
						continue
					}
					prev := "nothing"
					for j := i - 1; j >= 0; j-- {
						if !strings.HasPrefix(items[j], "[") {
							prev = items[j]
							break
						}
					}
					set[prev+" ; body"] = true
				}
			}
			var l []string
			for k := range set {
				l = append(l, k)
			}
			sort.Strings(l)
			for _, x := range l {
				tails = append(tails, [2]string{verb, x})
			}
		}
	}
	g.def("popBodyCalls", "List (String × String)", pairsLean(tails), "for the RETR and TOP rows of the TRANSACTION handler: the event immediately before the body function on every path that reaches it: the +OK status line is sent before the body function runs")
}
