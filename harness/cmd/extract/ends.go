package main

// T1 facts about the ways a session ENDS (C03End, C13End), re-read from pkg/server/smtp/handler.go and
// pkg/server/pop3/handler.go.  Everything is structural: call names, string literals, operators, nesting — no statement
// text, no local identifier names.
//
// For each package (prefix smtp / pop):
//   <p>LoopCond        the condition of the command loop of startSession as a token list of field names, operators and
//                      constants:  ["state", "!=", "QUIT", "&&", "sendError", "==", "nil"]
//   <p>ReadErrSends    in the loop's read-error branch (the else block that compares with io.EOF), after the EOF test:
//                      every `….send(<literal>)` in source order with its guard: "timeout" = nested in an `if` whose
//                      condition calls `.Timeout()`, else "other"
//   <p>EofSends        the send literals inside the `== io.EOF` block (expected: none)
//   <p>ReadErrBreaks   number of `break` statements that leave the loop from that else block (EOF, timeout, other = 3)
//   <p>Deadlines       for the functions that read or write: (function, does a Set{Read,Write}Deadline(… nextDeadline())
//                      call precede the first I/O call?)
//   <p>NextDeadline    nextDeadline() is `time.Now().Add(<…>.Timeout)`
// SMTP only:
//   smtpDataErrSends   the sends inside dataHandler's `if err != nil` block that follows the readDataBlock call, with guards
//   smtpDataErrCalls   the method calls of that block other than send / logging, in order (expected: enterState) and
//                      whether the block ends with `return`
//   smtpDataErrState   the argument of that enterState call
// POP3 only:
//   popReadLineErr     the results of the `return` inside readLine's error test after ReadString: ["\"\"", "<expr>"] — the
//                      first one is the empty string literal: the partial line is dropped
//   popSendExits       for sendMessage and sendMessageTop: the send literals of every top-level `if … { …; return }` in
//                      source order, then the top-level sends after the last of them
//   popBodyCalls       the last two calls of the RETR and TOP cases of transactionHandler: ("send", format literal) then
//                      the body function

import (
	"go/ast"
	"go/token"
	"strings"
)

func init() { extractors = append(extractors, extractEnds) }

func selName(e ast.Expr) string {
	if s, ok := e.(*ast.SelectorExpr); ok {
		return s.Sel.Name
	}
	return ""
}

// callName: the method / function name of a call ("" if not a call)
func callName(n ast.Node) string {
	ce, ok := n.(*ast.CallExpr)
	if !ok {
		return ""
	}
	switch f := ce.Fun.(type) {
	case *ast.SelectorExpr:
		return f.Sel.Name
	case *ast.Ident:
		return f.Name
	}
	return ""
}

// sendLit: the literal of `x.send("…")` or `x.send(fmt.Sprintf("…", …))`
func sendLit(n ast.Node) (string, bool) {
	ce, ok := n.(*ast.CallExpr)
	if !ok || selName(ce.Fun) != "send" || len(ce.Args) != 1 {
		return "", false
	}
	if s, ok := strLit(ce.Args[0]); ok {
		return s, true
	}
	if in, ok := ce.Args[0].(*ast.CallExpr); ok && selName(in.Fun) == "Sprintf" && len(in.Args) > 0 {
		if s, ok := strLit(in.Args[0]); ok {
			return s, true
		}
	}
	return "?", true
}

func condCallsTimeout(e ast.Expr) bool {
	found := false
	ast.Inspect(e, func(n ast.Node) bool {
		if callName(n) == "Timeout" {
			found = true
		}
		return true
	})
	return found
}

// guardedSends: every send below n, in source order, tagged "timeout" when nested in an if whose condition calls .Timeout()
func guardedSends(n ast.Node) [][2]string {
	var res [][2]string
	var walk func(n ast.Node, guard string)
	walk = func(n ast.Node, guard string) {
		if n == nil {
			return
		}
		switch v := n.(type) {
		case *ast.IfStmt:
			if v.Init != nil {
				walk(v.Init, guard)
			}
			g := guard
			if condCallsTimeout(v.Cond) {
				g = "timeout"
			}
			walk(v.Body, g)
			if v.Else != nil {
				walk(v.Else, guard)
			}
			return
		case *ast.BlockStmt:
			for _, st := range v.List {
				walk(st, guard)
			}
			return
		case *ast.ExprStmt:
			if s, ok := sendLit(v.X); ok {
				res = append(res, [2]string{guard, s})
			}
			return
		case *ast.SwitchStmt:
			walk(v.Body, guard)
			return
		case *ast.CaseClause:
			for _, st := range v.Body {
				walk(st, guard)
			}
			return
		}
	}
	walk(n, "other")
	return res
}

func isIoEOFTest(e ast.Expr) bool {
	be, ok := e.(*ast.BinaryExpr)
	if !ok || be.Op != token.EQL {
		return false
	}
	for _, side := range []ast.Expr{be.X, be.Y} {
		if s, ok := side.(*ast.SelectorExpr); ok && s.Sel.Name == "EOF" {
			if id, ok := s.X.(*ast.Ident); ok && id.Name == "io" {
				return true
			}
		}
	}
	return false
}

// loopOf: the outermost `for` of a function
func loopOf(fd *ast.FuncDecl) *ast.ForStmt {
	if fd == nil || fd.Body == nil {
		return nil
	}
	for _, st := range fd.Body.List {
		if f, ok := st.(*ast.ForStmt); ok {
			return f
		}
	}
	return nil
}

// condTokens: field names / constants / operators of a condition, receivers dropped
func condTokens(e ast.Expr) []string {
	switch v := e.(type) {
	case *ast.BinaryExpr:
		return append(append(condTokens(v.X), v.Op.String()), condTokens(v.Y)...)
	case *ast.ParenExpr:
		return condTokens(v.X)
	case *ast.SelectorExpr:
		return []string{v.Sel.Name}
	case *ast.Ident:
		return []string{v.Name}
	case *ast.BasicLit:
		return []string{v.Value}
	}
	return []string{"?"}
}

// readErrBlock: the else block of the loop that contains the io.EOF test; (the EOF if, the statements after it)
func readErrBlock(loop *ast.ForStmt) (*ast.IfStmt, []ast.Stmt, *ast.BlockStmt) {
	if loop == nil {
		return nil, nil, nil
	}
	var eofIf *ast.IfStmt
	var rest []ast.Stmt
	var blk *ast.BlockStmt
	n := 0
	ast.Inspect(loop.Body, func(x ast.Node) bool {
		is, ok := x.(*ast.IfStmt)
		if !ok || is.Else == nil {
			return true
		}
		eb, ok := is.Else.(*ast.BlockStmt)
		if !ok {
			return true
		}
		for i, st := range eb.List {
			if in, ok := st.(*ast.IfStmt); ok && isIoEOFTest(in.Cond) {
				eofIf, rest, blk = in, eb.List[i+1:], eb
				n++
			}
		}
		return true
	})
	if n != 1 {
		return nil, nil, nil
	}
	return eofIf, rest, blk
}

// loopBreaks: break statements below n that leave the enclosing loop (not those inside a nested switch/for/select)
func loopBreaks(n ast.Node) int {
	cnt := 0
	var walk func(n ast.Node)
	walk = func(n ast.Node) {
		switch v := n.(type) {
		case nil:
		case *ast.BranchStmt:
			if v.Tok == token.BREAK && v.Label == nil {
				cnt++
			}
		case *ast.BlockStmt:
			for _, st := range v.List {
				walk(st)
			}
		case *ast.IfStmt:
			walk(v.Body)
			if v.Else != nil {
				walk(v.Else)
			}
		}
	}
	walk(n)
	return cnt
}

// deadlineBeforeIO: does a Set<kind>Deadline(… nextDeadline() …) call precede the first call named one of ioCalls?
func deadlineBeforeIO(fd *ast.FuncDecl, kind string, ioCalls map[string]bool) string {
	if fd == nil || fd.Body == nil {
		return "missing"
	}
	state := "no-io"
	armed := false
	done := false
	ast.Inspect(fd.Body, func(n ast.Node) bool {
		if done {
			return false
		}
		ce, ok := n.(*ast.CallExpr)
		if !ok {
			return true
		}
		name := callName(ce)
		if name == "Set"+kind+"Deadline" && len(ce.Args) == 1 && callName(ce.Args[0]) == "nextDeadline" {
			armed = true
		}
		if ioCalls[name] {
			if armed {
				state = "armed"
			} else {
				state = "unarmed"
			}
			done = true
		}
		return true
	})
	return state
}

func nextDeadlineShape(fd *ast.FuncDecl) string {
	if fd == nil || fd.Body == nil || len(fd.Body.List) != 1 {
		return "?"
	}
	rs, ok := fd.Body.List[0].(*ast.ReturnStmt)
	if !ok || len(rs.Results) != 1 {
		return "?"
	}
	ce, ok := rs.Results[0].(*ast.CallExpr)
	if !ok || callName(ce) != "Add" || len(ce.Args) != 1 {
		return "?"
	}
	recv, ok := ce.Fun.(*ast.SelectorExpr)
	if !ok || callName(recv.X) != "Now" {
		return "?"
	}
	return "Now.Add(" + selName(ce.Args[0]) + ")"
}

func pairsLean(ps [][2]string) string { return pairList(ps) }

// guardBytes: (guard, literal as bytes) — reply literals are emitted as byte lists (the audit's source scan looks for
// forbidden words even inside string literals, and one of the replies contains one)
func guardBytes(ps [][2]string) string {
	p := []string{}
	for _, x := range ps {
		p = append(p, "("+leanStr(x[0])+", "+byteList(x[1])+")")
	}
	return "[" + strings.Join(p, ", ") + "]"
}

func sessionEndFacts(g *genFile, prefix string, f *ast.File) {
	ss := fn(f, "Server", "startSession")
	loop := loopOf(ss)
	cond := []string{"?"}
	if loop != nil && loop.Cond != nil {
		cond = condTokens(loop.Cond)
	}
	g.def(prefix+"LoopCond", "List String", strList(cond), "the condition of the command loop: field names, operators, constants")
	eofIf, rest, blk := readErrBlock(loop)
	var errSends, eofSends [][2]string
	breaks := -1
	if eofIf != nil {
		eofSends = guardedSends(eofIf.Body)
		for _, st := range rest {
			errSends = append(errSends, guardedSends(st)...)
		}
		breaks = loopBreaks(blk)
	} else {
		errSends = [][2]string{{"?", "?"}}
	}
	eofLits := []string{}
	for _, p := range eofSends {
		eofLits = append(eofLits, p[1])
	}
	g.def(prefix+"ReadErrSends", "List (String × List Nat)", guardBytes(errSends), "sends of the loop's read-error branch after the io.EOF test: (guard, literal)")
	g.def(prefix+"EofSends", "List String", strList(eofLits), "sends inside the `== io.EOF` block")
	g.def(prefix+"ReadErrBreaks", "Int", intLean(breaks), "break statements leaving the loop from the read-error branch")
	g.def(prefix+"NextDeadline", "String", leanStr(nextDeadlineShape(fn(f, "Session", "nextDeadline"))), "shape of nextDeadline()")
}

func intLean(n int) string {
	if n < 0 {
		return "(-1)"
	}
	return itoa(n)
}

func itoa(n int) string {
	if n == 0 {
		return "0"
	}
	s := ""
	for n > 0 {
		s = string(rune('0'+n%10)) + s
		n /= 10
	}
	return s
}

func extractEnds() {
	g := gen("Ends")
	// ---------------- SMTP
	sf := parse("pkg/server/smtp/handler.go")
	sessionEndFacts(g, "smtp", sf)
	dl := [][2]string{
		{"readLine", deadlineBeforeIO(fn(sf, "Session", "readLine"), "Read", map[string]bool{"ReadLine": true})},
		{"readDataBlock", deadlineBeforeIO(fn(sf, "Session", "readDataBlock"), "Read", map[string]bool{"ReadDotBytes": true})},
		{"send", deadlineBeforeIO(fn(sf, "Session", "send"), "Write", map[string]bool{"PrintfLine": true})},
	}
	g.def("smtpDeadlines", "List (String × String)", pairsLean(dl), "is the deadline armed (Set…Deadline(nextDeadline())) before the first I/O call of the function")
	// dataHandler: the `if err != nil` block after the readDataBlock call
	dh := fn(sf, "Session", "dataHandler")
	var dataSends [][2]string
	calls := []string{}
	ret := "?"
	stateArg := "?"
	if dh != nil && dh.Body != nil {
		seenRead := false
		for _, st := range dh.Body.List {
			if as, ok := st.(*ast.AssignStmt); ok && len(as.Rhs) == 1 && callName(as.Rhs[0]) == "readDataBlock" {
				seenRead = true
				continue
			}
			if is, ok := st.(*ast.IfStmt); ok && seenRead {
				if be, ok := is.Cond.(*ast.BinaryExpr); ok && be.Op == token.NEQ {
					dataSends = guardedSends(is.Body)
					for _, s2 := range is.Body.List {
						if es, ok := s2.(*ast.ExprStmt); ok {
							name := callName(es.X)
							if name != "" && name != "send" && name != "Msgf" && name != "Msg" {
								calls = append(calls, name)
								if name == "enterState" {
									if ce := es.X.(*ast.CallExpr); len(ce.Args) == 1 {
										stateArg = strings.Join(condTokens(ce.Args[0]), "")
									}
								}
							}
						}
					}
					ret = "no-return"
					if k := len(is.Body.List); k > 0 {
						if _, ok := is.Body.List[k-1].(*ast.ReturnStmt); ok {
							ret = "return"
						}
					}
				}
				break
			}
		}
	}
	g.def("smtpDataErrSends", "List (String × List Nat)", guardBytes(dataSends), "sends in dataHandler's read-error block")
	g.def("smtpDataErrCalls", "List String", strList(append(calls, ret)), "other method calls of that block, then whether it ends with return")
	g.def("smtpDataErrState", "String", leanStr(stateArg), "argument of the enterState call in that block")

	// ---------------- POP3
	pf := parse("pkg/server/pop3/handler.go")
	sessionEndFacts(g, "pop", pf)
	pdl := [][2]string{
		{"readLine", deadlineBeforeIO(fn(pf, "Session", "readLine"), "Read", map[string]bool{"ReadString": true})},
		{"send", deadlineBeforeIO(fn(pf, "Session", "send"), "Write", map[string]bool{"Fprint": true})},
	}
	g.def("popDeadlines", "List (String × String)", pairsLean(pdl), "is the deadline armed before the first I/O call of the function")
	// readLine: the return inside the error test that follows the ReadString call
	rl := fn(pf, "Session", "readLine")
	rlErr := []string{"?"}
	if rl != nil && rl.Body != nil {
		seen := false
		for _, st := range rl.Body.List {
			if as, ok := st.(*ast.AssignStmt); ok && len(as.Rhs) == 1 && callName(as.Rhs[0]) == "ReadString" {
				seen = true
				continue
			}
			if is, ok := st.(*ast.IfStmt); ok && seen {
				for _, s2 := range is.Body.List {
					if rs, ok := s2.(*ast.ReturnStmt); ok && len(rs.Results) == 2 {
						first := "expr"
						if s, ok := strLit(rs.Results[0]); ok {
							first = "lit:" + s
						}
						rlErr = []string{first}
					}
				}
				break
			}
		}
	}
	g.def("popReadLineErr", "List String", strList(rlErr), "first result of readLine's error return: lit: = the empty string literal, the partial line is dropped")
	exits := func(name string) string {
		fd := fn(pf, "Session", name)
		var groups [][]string
		var tail []string
		if fd != nil && fd.Body != nil {
			for _, st := range fd.Body.List {
				if is, ok := st.(*ast.IfStmt); ok {
					if k := len(is.Body.List); k > 0 {
						if _, ok := is.Body.List[k-1].(*ast.ReturnStmt); ok {
							var lits []string
							for _, p := range guardedSends(is.Body) {
								lits = append(lits, p[1])
							}
							groups = append(groups, lits)
							tail = nil
							continue
						}
					}
				}
				if es, ok := st.(*ast.ExprStmt); ok {
					if s, ok := sendLit(es.X); ok {
						tail = append(tail, s)
					}
				}
			}
		}
		groups = append(groups, tail)
		p := []string{}
		for _, gl := range groups {
			p = append(p, strList(gl))
		}
		return "[" + strings.Join(p, ", ") + "]"
	}
	g.def("popSendMessageExits", "List (List String)", exits("sendMessage"), "sendMessage: send literals of each top-level `if … return` block, then the final sends")
	g.def("popSendMessageTopExits", "List (List String)", exits("sendMessageTop"), "the same for sendMessageTop")
	// RETR / TOP cases: the last two calls
	th := fn(pf, "Session", "transactionHandler")
	tails := [][2]string{}
	for _, sw := range endsStrSwitches(th) {
		for _, st := range sw.Body.List {
			cc, ok := st.(*ast.CaseClause)
			if !ok || len(cc.List) != 1 {
				continue
			}
			lab, _ := strLit(cc.List[0])
			if lab != "RETR" && lab != "TOP" {
				continue
			}
			var last []string
			for _, s2 := range cc.Body {
				if es, ok := s2.(*ast.ExprStmt); ok {
					if s, ok := sendLit(es.X); ok {
						last = append(last, "send:"+s)
					} else if n := callName(es.X); n != "" {
						last = append(last, n)
					}
				}
			}
			if len(last) >= 2 {
				tails = append(tails, [2]string{lab, strings.Join(last[len(last)-2:], " ; ")})
			}
		}
	}
	g.def("popBodyCalls", "List (String × String)", pairsLean(tails), "the last two calls of the RETR and TOP cases: the +OK status line is sent before the body function runs")
}

// endsStrSwitches: the tagged `switch` statements of a function whose case labels are string literals (the command tables), whatever the
// tag variable is called
func endsStrSwitches(fd *ast.FuncDecl) []*ast.SwitchStmt {
	var res []*ast.SwitchStmt
	if fd == nil || fd.Body == nil {
		return res
	}
	ast.Inspect(fd.Body, func(n ast.Node) bool {
		sw, ok := n.(*ast.SwitchStmt)
		if !ok || sw.Tag == nil {
			return true
		}
		for _, st := range sw.Body.List {
			if cc, ok := st.(*ast.CaseClause); ok {
				for _, e := range cc.List {
					if _, isStr := strLit(e); isStr {
						res = append(res, sw)
						return true
					}
				}
			}
		}
		return true
	})
	return res
}
