package main

// T1 facts for C19 (shutdown): regenerated into lean/Ibx/Gen/Shutdown.lean.
//
// All facts are STRUCTURAL (see the rt toolkit in retention.go): things with unexported names are found through
// anchors — the WaitGroup field is "a struct field of type sync.WaitGroup", serve is "what Start's go statement
// runs", the session function is "what the go statement of the accept loop runs", the listener field is "what
// Accept() is called on", the connection is "the net.Conn parameter", the context is "the context.Context
// parameter", the hub's operation channel is "the field Hub.Start receives from beside ctx.Done()", its done
// channel "the field closed in that ctx.Done() case", the producers are "the functions that send on the
// operation channel".  Unexported helpers are followed as if inlined; conditions are compared as path conditions.
//
//   <srv>_wgAdd            where `s.wg.Add(1)` sits relative to the `go` statement of serve():
//                          beforeSpawn | inSessionGoroutine | both | unknown   (srv = smtp, pop3)
//   <srv>_serveCounted     is the serve() goroutine itself counted in the WaitGroup (Add in Start)?
//   <srv>_closeBeforeDone  the deferred function of startSession closes the connection before `wg.Done()`
//   <srv>_startClosesListenerAfterDone   Start: `<-ctx.Done()` … `s.listener.Close()`
//   <srv>_serveReturnsOnDone             serve: the path through `case <-ctx.Done():` on a permanent Accept error ends in
//                                        `return` (inside the case, or as the statement the select rejoins at)
//   <srv>_drainIsWait      Drain() blocks on `s.wg.Wait()` and on nothing else
//   <srv>_handlerMentionsCtx   any identifier `ctx` / `context` / `Context` (or import "context") in handler.go
//   hub_onCancel           what Hub.Start does in its `case <-ctx.Done():`  closesOpChan | closesDone | unknown
//   hub_enqueueSelectsDone, hub_bareSends, hub_syncSelectsDone, hub_closesOfOpChan
//   ret_selects, ret_selectsWithDone, ret_blockingOutsideSelect, ret_doneBranches, ret_closesShutdown,
//   ret_joinWaitsShutdown
//
// A shape that is not recognised yields `unknown` / none, which no tie theorem accepts.

import (
	"fmt"
	"go/ast"
	"go/token"
	"strings"
)

func init() { extractors = append(extractors, extractShutdown) }

func shutLeanBool(b bool) string {
	if b {
		return "true"
	}
	return "false"
}

// isCall: n is a call whose function prints as one of names.
func isCall(n ast.Node, names ...string) bool {
	ce, ok := n.(*ast.CallExpr)
	if !ok {
		return false
	}
	f := src(ce.Fun)
	for _, x := range names {
		if f == x {
			return true
		}
	}
	return false
}

func stmtIsCall(s ast.Stmt, names ...string) bool {
	es, ok := s.(*ast.ExprStmt)
	return ok && isCall(es.X, names...)
}

func countCalls(n ast.Node, names ...string) int {
	c := 0
	if n == nil || isNilNode(n) {
		return 0
	}
	ast.Inspect(n, func(x ast.Node) bool {
		if x != nil && isCall(x, names...) {
			c++
		}
		return true
	})
	return c
}

// isRecvOf: e is `<-<what>` (what given as printed source, e.g. "ctx.Done()").
func isRecvOf(e ast.Expr, what string) bool {
	u, ok := e.(*ast.UnaryExpr)
	return ok && u.Op == token.ARROW && src(u.X) == what
}

// commRecv: the channel expression a comm clause receives from ("" if it is a send / default).
func commRecv(cc *ast.CommClause) string {
	if cc.Comm == nil {
		return ""
	}
	switch s := cc.Comm.(type) {
	case *ast.ExprStmt:
		if u, ok := s.X.(*ast.UnaryExpr); ok && u.Op == token.ARROW {
			return src(u.X)
		}
	case *ast.AssignStmt:
		if len(s.Rhs) == 1 {
			if u, ok := s.Rhs[0].(*ast.UnaryExpr); ok && u.Op == token.ARROW {
				return src(u.X)
			}
		}
	}
	return ""
}

func selectHasRecv(sel *ast.SelectStmt, ch string) *ast.CommClause {
	for _, c := range sel.Body.List {
		cc := c.(*ast.CommClause)
		if commRecv(cc) == ch {
			return cc
		}
	}
	return nil
}

func selectHasDefault(sel *ast.SelectStmt) bool {
	for _, c := range sel.Body.List {
		if c.(*ast.CommClause).Comm == nil {
			return true
		}
	}
	return false
}

// ---- structural helpers (sd*)

// sdFieldsOfType: names of struct fields of the package whose type is pkg.Name or *pkg.Name.
func sdFieldsOfType(p *rtPkg, pkg, name string) map[string]bool {
	res := map[string]bool{}
	for _, f := range p.files {
		ast.Inspect(f, func(x ast.Node) bool {
			st, ok := x.(*ast.StructType)
			if !ok || st.Fields == nil {
				return true
			}
			for _, fl := range st.Fields.List {
				t := fl.Type
				if s, ok := t.(*ast.StarExpr); ok {
					t = s.X
				}
				if rtIsPkgSel(t, pkg, name) {
					for _, n := range fl.Names {
						res[n.Name] = true
					}
				}
			}
			return true
		})
	}
	return res
}

// sdFieldCall: ce is <anything>.<field in fields>.<method>(…).
func sdFieldCall(ce *ast.CallExpr, fields map[string]bool, method string) bool {
	se, ok := rtUnparen(ce.Fun).(*ast.SelectorExpr)
	if !ok || se.Sel.Name != method {
		return false
	}
	in, ok := rtUnparen(se.X).(*ast.SelectorExpr)
	return ok && fields[in.Sel.Name]
}

func sdStmtFieldCall(s ast.Stmt, fields map[string]bool, method string) bool {
	es, ok := s.(*ast.ExprStmt)
	if !ok {
		return false
	}
	ce, ok := es.X.(*ast.CallExpr)
	return ok && sdFieldCall(ce, fields, method)
}

// sdCountFieldCalls: lexical count (function literals included) of <..>.<field>.<one of methods>() calls.
func sdCountFieldCalls(n ast.Node, fields map[string]bool, methods ...string) int {
	c := 0
	if n == nil {
		return 0
	}
	ast.Inspect(n, func(x ast.Node) bool {
		if ce, ok := x.(*ast.CallExpr); ok {
			for _, m := range methods {
				if sdFieldCall(ce, fields, m) {
					c++
				}
			}
		}
		return true
	})
	return c
}

func sdSamePc(a, b []rtAtom) bool {
	if len(a) != len(b) {
		return false
	}
	for i := range a {
		if a[i].cond != b[i].cond || a[i].pos != b[i].pos || a[i].comm != b[i].comm || a[i].opaque != b[i].opaque {
			return false
		}
	}
	return true
}

func sdPrefixPc(a, b []rtAtom) bool { return len(a) <= len(b) && sdSamePc(a, b[:len(a)]) }

func sdSameLoops(a, b []ast.Stmt) bool {
	if len(a) != len(b) {
		return false
	}
	for i := range a {
		if a[i] != b[i] {
			return false
		}
	}
	return true
}

// sdGoTarget: the package function a go statement runs: `go f(..)` / `go x.m(..)` directly, or the unique
// package function called (lexically) inside `go func(..){..}(..)`.  Returns the function literal too.
func sdGoTarget(p *rtPkg, gs *ast.GoStmt) (*ast.FuncDecl, *ast.FuncLit, *ast.CallExpr) {
	if fl, ok := gs.Call.Fun.(*ast.FuncLit); ok {
		var hit *ast.FuncDecl
		var call *ast.CallExpr
		n := 0
		for _, ce := range rtCalls(fl.Body) {
			if fd, _ := p.helper(ce); fd != nil {
				hit, call = fd, ce
				n++
			}
		}
		if n != 1 {
			return nil, fl, nil
		}
		return hit, fl, call
	}
	fd, _ := p.helper(gs.Call)
	return fd, nil, gs.Call
}

// sdDeferDones: how many <wg>.Done() a defer statement runs: directly, or as top-level statements of a deferred
// function literal; -1 when a Done hides deeper inside it.
func sdDeferDones(d *ast.DeferStmt, wg map[string]bool) int {
	if sdFieldCall(d.Call, wg, "Done") {
		return 1
	}
	fl, ok := d.Call.Fun.(*ast.FuncLit)
	if !ok {
		return 0
	}
	n := 0
	for _, s := range fl.Body.List {
		if sdStmtFieldCall(s, wg, "Done") {
			n++
		}
	}
	if sdCountFieldCalls(fl.Body, wg, "Done") != n {
		return -1
	}
	return n
}

// sdWgFacts classifies one server package.
func sdWgFacts(g *genFile, srv string) {
	p := rtLoadPkg("pkg/server/" + srv)
	start := p.method("Server", "Start")
	drain := p.method("Server", "Drain")
	wg := sdFieldsOfType(p, "sync", "WaitGroup")

	// serve = what the unique go statement of Start runs
	var serve *ast.FuncDecl
	var sw *rtWalk
	startGo := -1
	if start != nil {
		sw = rtWalkBody(p, start.Body, nil)
		n := 0
		for i, l := range sw.leaves {
			if gs, ok := l.st.(*ast.GoStmt); ok {
				n++
				startGo = i
				serve, _, _ = sdGoTarget(p, gs)
			}
		}
		if n != 1 {
			serve, startGo = nil, -1
		}
	}
	var sv *rtWalk
	if serve != nil {
		sv = rtWalkBody(p, serve.Body, nil)
	}
	// the session function = what the unique go statement of the accept loop runs
	var sess *ast.FuncDecl
	var wrapper *ast.FuncLit
	var sessCall *ast.CallExpr
	var sessGo *ast.GoStmt
	goIdx := -1
	listenerField := ""
	if sv != nil {
		n := 0
		for i, l := range sv.leaves {
			if gs, ok := l.st.(*ast.GoStmt); ok {
				n++
				goIdx, sessGo = i, gs
				sess, wrapper, sessCall = sdGoTarget(p, gs)
			}
			for _, ce := range rtCalls(l.scope()) {
				if rtCallName(ce) == "Accept" && len(ce.Args) == 0 {
					if se, ok := rtUnparen(ce.Fun).(*ast.SelectorExpr); ok {
						listenerField = p.field(se.X, l.env)
					}
				}
			}
		}
		if n != 1 {
			sess, goIdx = nil, -1
		}
		if listenerField == "" {
			sess = nil // the goroutine Start spawns is not an accept loop
		}
	}
	var ss *rtWalk
	if sess != nil {
		ss = rtWalkBody(p, sess.Body, nil)
	}

	fact := "unknown"
	why := ""
	doneInServe := 0
	func() {
		if sv == nil || ss == nil {
			why = "accept loop (go statement of Start running a function that calls Accept()) or session function (go statement of that loop) not found"
			return
		}
		goLeaf := sv.leaves[goIdx]
		before, bad := 0, 0
		for i, l := range sv.leaves {
			switch v := l.st.(type) {
			case *ast.ExprStmt:
				if sdStmtFieldCall(v, wg, "Add") {
					sameLoop := len(l.loops) == len(goLeaf.loops) && (len(l.loops) == 0 || l.loops[len(l.loops)-1] == goLeaf.loops[len(goLeaf.loops)-1])
					if i < goIdx && sdPrefixPc(l.pc, goLeaf.pc) && sameLoop {
						before++
					} else {
						bad++
					}
				} else if sdStmtFieldCall(v, wg, "Done") {
					bad++
				}
			case *ast.DeferStmt:
				d := sdDeferDones(v, wg)
				switch {
				case d < 0:
					bad++
				case d > 0 && len(l.pc) == 0 && len(l.loops) == 0:
					doneInServe += d
				case d > 0:
					bad++
				}
			}
		}
		insideWrapper, wrapperDones := 0, 0
		if wrapper != nil {
			// the literal's own statements only: the session function is analysed separately
			for _, st := range wrapper.Body.List {
				switch v := st.(type) {
				case *ast.ExprStmt:
					if sdStmtFieldCall(v, wg, "Add") {
						insideWrapper++
					} else if sdStmtFieldCall(v, wg, "Done") {
						bad++
					}
				case *ast.DeferStmt:
					if d := sdDeferDones(v, wg); d < 0 {
						bad++
					} else {
						wrapperDones += d
					}
				}
			}
			if sdCountFieldCalls(wrapper.Body, wg, "Add", "Done") != insideWrapper+wrapperDones {
				why = "a WaitGroup call of the go wrapper is not one of its top-level statements"
				return
			}
		}
		sessAdds, sessDones := 0, 0
		for _, l := range ss.leaves {
			switch v := l.st.(type) {
			case *ast.ExprStmt:
				if sdStmtFieldCall(v, wg, "Add") {
					if len(l.pc) == 0 && len(l.loops) == 0 {
						sessAdds++
					} else {
						bad++
					}
				} else if sdStmtFieldCall(v, wg, "Done") {
					bad++
				}
			case *ast.DeferStmt:
				d := sdDeferDones(v, wg)
				switch {
				case d < 0:
					bad++
				case d > 0 && len(l.pc) == 0 && len(l.loops) == 0:
					sessDones += d
				case d > 0:
					bad++
				}
			}
		}
		// every WaitGroup call of these functions (and of the helpers followed from them) is one of the above
		lex := 0
		seen := map[*ast.FuncDecl]bool{}
		for _, fd := range append([]*ast.FuncDecl{serve, sess}, func() []*ast.FuncDecl {
			var r []*ast.FuncDecl
			for fd := range sv.inlined {
				r = append(r, fd)
			}
			for fd := range ss.inlined {
				r = append(r, fd)
			}
			return r
		}()...) {
			if !seen[fd] {
				seen[fd] = true
				lex += sdCountFieldCalls(fd.Body, wg, "Add", "Done")
			}
		}
		if bad != 0 || lex != before+insideWrapper+wrapperDones+sessAdds+sessDones+doneInServe {
			why = fmt.Sprintf("a WaitGroup Add/Done of the accept loop or the session function is conditional, after the go statement, not deferred, or hidden (%d odd, %d written, %d understood)", bad, lex, before+insideWrapper+wrapperDones+sessAdds+sessDones+doneInServe)
			return
		}
		// no other function of the package touches the counter (Start is judged by serveCounted)
		others := 0
		for _, fds := range p.funcs {
			for _, fd := range fds {
				if seen[fd] || fd == start {
					continue
				}
				others += sdCountFieldCalls(fd.Body, wg, "Add", "Done")
			}
		}
		nb, ni := before, insideWrapper+sessAdds
		nd := wrapperDones + sessDones
		why = fmt.Sprintf("Add before go: %d, Add inside goroutine: %d, deferred Done: %d, WaitGroup calls in other functions: %d", nb, ni, nd, others)
		if others != 0 || nd != nb+ni {
			return
		}
		switch {
		case nb == 1 && ni == 0:
			fact = "beforeSpawn"
		case nb == 0 && ni == 1:
			fact = "inSessionGoroutine"
		case nb == 1 && ni == 1:
			fact = "both"
		}
	}()
	g.def(srv+"_wgAdd", "String", leanStr(fact), "where <WaitGroup field>.Add(1) sits relative to the go statement of the accept loop (beforeSpawn | inSessionGoroutine | both | unknown) — "+why)

	// serveCounted: an Add in Start that nothing separates from `go <serve>` (same path condition, earlier), matched
	// by an unconditional deferred Done in serve; and no other WaitGroup call in Start
	sc := "none"
	if sw != nil && sv != nil && startGo >= 0 {
		adds := 0
		for i, l := range sw.leaves {
			if sdStmtFieldCall(l.st, wg, "Add") && i < startGo && sdSamePc(l.pc, sw.leaves[startGo].pc) && len(l.loops) == 0 {
				adds++
			}
		}
		lex := sdCountFieldCalls(start.Body, wg, "Add", "Done")
		switch {
		case lex == 0 && doneInServe == 0:
			sc = "some false"
		case lex == 1 && adds == 1 && doneInServe == 1:
			sc = "some true"
		}
	}
	g.def(srv+"_serveCounted", "Option Bool", sc, "is the accept loop itself counted: one <WaitGroup>.Add in Start on the same path as (and before) the go statement, one unconditional deferred Done in the accept-loop function, no other WaitGroup call in Start (none = anything else)")

	// closeBeforeDone: the deferred function of the session function closes the net.Conn parameter before Done
	isConn := func(e ast.Expr, env *rtEnv) bool {
		o := p.obj(e, env)
		if o == nil {
			return false
		}
		f, ok := o.Decl.(*ast.Field)
		return ok && rtIsPkgSel(f.Type, "net", "Conn")
	}
	cbd := false
	if ss != nil {
		closeDeferred, doneSeen, ordered := false, false, true
		for _, l := range ss.leaves {
			d, ok := l.st.(*ast.DeferStmt)
			if !ok {
				continue
			}
			if fl, ok := d.Call.Fun.(*ast.FuncLit); ok {
				fw := rtWalkBody(p, fl.Body, l.env)
				closeAt, doneAt := -1, -1
				for i, m := range fw.leaves {
					for _, ce := range rtCalls(m.scope()) {
						if rtCallName(ce) == "Close" && len(ce.Args) == 0 {
							if se, ok := rtUnparen(ce.Fun).(*ast.SelectorExpr); ok && isConn(se.X, m.env) && closeAt < 0 && len(m.pc) == 0 {
								closeAt = i
							}
						}
					}
					if sdStmtFieldCall(m.st, wg, "Done") && doneAt < 0 {
						doneAt = i
					}
				}
				if closeAt >= 0 {
					closeDeferred = true
				}
				if doneAt >= 0 {
					doneSeen = true
					if !(closeAt >= 0 && closeAt < doneAt) {
						ordered = false
					}
				}
			} else {
				if sdFieldCall(d.Call, wg, "Done") {
					doneSeen, ordered = true, false // a bare deferred Done: order against the close not analysed
				}
				if rtCallName(d.Call) == "Close" {
					if se, ok := rtUnparen(d.Call.Fun).(*ast.SelectorExpr); ok && isConn(se.X, l.env) {
						closeDeferred = true
					}
				}
			}
		}
		cbd = closeDeferred && ordered && (doneSeen || wrapper != nil)
	}
	g.def(srv+"_closeBeforeDone", "Bool", shutLeanBool(cbd), "the session function closes its net.Conn parameter (or a once-assigned copy of it) in a deferred function, unconditionally and before the <WaitGroup>.Done() of that function")

	// Start: `<-ctx.Done()` as a statement, later <listener field>.Close()
	scl := false
	if sw != nil && listenerField != "" {
		doneAt, closeAt := -1, -1
		for i, l := range sw.leaves {
			if es, ok := l.st.(*ast.ExprStmt); ok && p.isDoneRecv(es, l.env) && len(l.loops) == 0 {
				doneAt = i
			}
			for _, ce := range rtCalls(l.scope()) {
				if rtCallName(ce) == "Close" && len(ce.Args) == 0 && closeAt < 0 {
					if se, ok := rtUnparen(ce.Fun).(*ast.SelectorExpr); ok && p.field(se.X, l.env) == listenerField {
						closeAt = i
					}
				}
			}
		}
		scl = doneAt >= 0 && closeAt > doneAt && sdSamePc(sw.leaves[doneAt].pc, sw.leaves[closeAt].pc)
	}
	g.def(srv+"_startClosesListenerAfterDone", "Bool", shutLeanBool(scl), "Start receives from <context.Context parameter>.Done() as a statement and then, on the same path, calls Close() on the field Accept() is called on")

	// serveReturnsOnDone: the EVENT PATH "ctx.Done() case taken -> return from the accept-loop function", however the
	// statements are grouped: the return may stand inside the case, or the case may only log / be empty and the
	// statement the select rejoins at (same path condition, same loop) is the return.
	srd := false
	if sv != nil {
		for _, l := range sv.leaves {
			if _, ok := l.st.(*ast.ReturnStmt); !ok || l.owner != 0 {
				continue
			}
			for _, a := range l.pc {
				if a.comm != nil && a.comm.Comm != nil && p.isDoneRecv(a.comm.Comm, a.env) {
					srd = true
				}
			}
		}
		for i, l := range sv.leaves {
			sel, ok := l.st.(*ast.SelectStmt)
			if !ok {
				continue
			}
			var done *ast.CommClause
			for _, c := range sel.Body.List {
				if cc := c.(*ast.CommClause); cc.Comm != nil && p.isDoneRecv(cc.Comm, l.env) {
					done = cc
				}
			}
			if done == nil || p.clauseEffect(done.Body, l.loops) != "fallsThrough" {
				continue
			}
			// the first leaf after the select that is not inside one of its cases
			for _, m := range sv.leaves[i+1:] {
				inside := false
				for _, a := range m.pc {
					if a.comm != nil {
						for _, c := range sel.Body.List {
							if c == ast.Stmt(a.comm) {
								inside = true
							}
						}
					}
				}
				if inside {
					continue
				}
				if rs, ok := m.st.(*ast.ReturnStmt); ok && m.owner == 0 && len(rs.Results) == 0 && sdPrefixPc(m.pc, l.pc) && sdSameLoops(m.loops, l.loops) {
					srd = true
				}
				break
			}
		}
	}
	g.def(srv+"_serveReturnsOnDone", "Bool", shutLeanBool(srd), "the accept loop returns on the path through a select case receiving from <context.Context parameter>.Done(): the return stands in that case, or the case does nothing but log and the statement the select rejoins at is the return")

	diw := false
	if drain != nil {
		dw := rtWalkBody(p, drain.Body, nil)
		ws := p.waits(dw.leaves, nil)
		odd := 0
		for _, l := range dw.leaves {
			switch l.st.(type) {
			case *ast.ForStmt, *ast.RangeStmt, *ast.GoStmt:
				odd++
			}
		}
		diw = len(ws) == 1 && ws[0].kind == "wgWait" && odd == 0 && sdCountFieldCalls(drain.Body, wg, "Wait") == 1 && !dw.unknown
	}
	g.def(srv+"_drainIsWait", "Bool", shutLeanBool(diw), "Drain's only blocking operation is one <WaitGroup field>.Wait(); no loop, no goroutine")

	// the session program is not handed the cancellation context
	mentions := sess == nil
	if sess != nil {
		var hf *ast.File
		for _, f := range p.files {
			for _, d := range f.Decls {
				if d == ast.Decl(sess) {
					hf = f
				}
			}
		}
		if hf == nil {
			mentions = true
		} else {
			for _, im := range hf.Imports {
				if strings.Trim(im.Path.Value, "\"") == "context" {
					mentions = true
				}
			}
			ast.Inspect(hf, func(x ast.Node) bool {
				if id, ok := x.(*ast.Ident); ok {
					switch id.Name {
					case "ctx", "context", "Context":
						mentions = true
					}
				}
				return true
			})
		}
		if sess.Type.Params != nil {
			for _, f := range sess.Type.Params.List {
				if rtIsPkgSel(f.Type, "context", "Context") {
					mentions = true
				}
			}
		}
		var args []ast.Expr
		if sessGo != nil {
			args = append(args, sessGo.Call.Args...)
		}
		if sessCall != nil {
			args = append(args, sessCall.Args...)
		}
		for _, a := range args {
			found := false
			ast.Inspect(a, func(x ast.Node) bool {
				if id, ok := x.(*ast.Ident); ok && id.Obj != nil {
					if f, ok := id.Obj.Decl.(*ast.Field); ok && rtIsPkgSel(f.Type, "context", "Context") {
						found = true
					}
				}
				return true
			})
			if found {
				mentions = true
			}
		}
	}
	g.def(srv+"_handlerMentionsCtx", "Bool", shutLeanBool(mentions), "the session function takes a context.Context, or is started with an argument mentioning the context.Context parameter, or the file declaring it imports \"context\" / contains an identifier ctx, context or Context")
}

// sdChanField: e is <v>.F (v any variable); returns F.
func sdChanField(e ast.Expr) string {
	if e == nil {
		return ""
	}
	se, ok := rtUnparen(e).(*ast.SelectorExpr)
	if !ok {
		return ""
	}
	if id, ok := rtUnparen(se.X).(*ast.Ident); !ok || id.Obj == nil {
		return ""
	}
	return se.Sel.Name
}

func sdIsClose(s ast.Stmt) (string, bool) {
	es, ok := s.(*ast.ExprStmt)
	if !ok {
		return "", false
	}
	ce, ok := es.X.(*ast.CallExpr)
	if !ok || len(ce.Args) != 1 {
		return "", false
	}
	id, ok := ce.Fun.(*ast.Ident)
	if !ok || id.Name != "close" || id.Obj != nil {
		return "", false
	}
	return sdChanField(ce.Args[0]), true
}

// sdSelectGuarded: the select has a case receiving from <v>.<done> and no default.
func sdSelectGuarded(sel *ast.SelectStmt, done string) bool {
	has := false
	for _, c := range sel.Body.List {
		cc := c.(*ast.CommClause)
		if cc.Comm == nil {
			return false
		}
		if ch := rtRecvChan(cc.Comm); ch != nil && done != "" && sdChanField(ch) == done {
			has = true
		}
	}
	return has
}

func extractShutdown() {
	g := gen("Shutdown")
	sdWgFacts(g, "smtp")
	sdWgFacts(g, "pop3")

	// ---- hub
	hp := rtLoadPkg("pkg/msghub")
	hstart := hp.method("Hub", "Start")
	hsync := hp.method("Hub", "Sync")
	onCancel := "unknown"
	opField, doneField := "", ""
	if hstart != nil {
		hw := rtWalkBody(hp, hstart.Body, nil)
		// the select(s) of Start that have a ctx.Done() case
		var sels []*rtLeaf
		for i := range hw.leaves {
			l := &hw.leaves[i]
			if sel, ok := l.st.(*ast.SelectStmt); ok {
				for _, c := range sel.Body.List {
					if cc := c.(*ast.CommClause); cc.Comm != nil && hp.isDoneRecv(cc.Comm, l.env) {
						sels = append(sels, l)
					}
				}
			}
		}
		if len(sels) == 1 && !hw.unknown {
			l := sels[0]
			sel := l.st.(*ast.SelectStmt)
			var closed []string
			leaves := false
			nOther := 0
			for _, c := range sel.Body.List {
				cc := c.(*ast.CommClause)
				if cc.Comm != nil && hp.isDoneRecv(cc.Comm, l.env) {
					for _, b := range cc.Body {
						if f, ok := sdIsClose(b); ok {
							closed = append(closed, f)
							continue
						}
						// a same-package unexported helper called as a statement (`hub.stop()`): its closes count
						// as if inlined (straight-line helper bodies only; anything else in it is not looked at here)
						if es, ok := b.(*ast.ExprStmt); ok {
							if ce, ok := es.X.(*ast.CallExpr); ok {
								if fd, _ := hp.helper(ce); fd != nil && fd.Body != nil {
									for _, hb := range fd.Body.List {
										if f, ok := sdIsClose(hb); ok {
											closed = append(closed, f)
										}
									}
								}
							}
						}
					}
					// the case must leave Start's loop: return, or a break labelled with the outermost loop
					switch hp.clauseEffectLast(cc.Body, l.loops) {
					case "return", "breakLoop":
						leaves = true
					}
					continue
				}
				nOther++
				if ch := rtRecvChan(cc.Comm); cc.Comm != nil && ch != nil {
					opField = sdChanField(ch)
				}
			}
			if nOther == 1 && opField != "" && leaves && len(closed) == 1 && closed[0] != "" {
				if closed[0] == opField {
					onCancel = "closesOpChan"
				} else {
					onCancel, doneField = "closesDone", closed[0]
				}
			}
		}
	}
	g.def("hub_onCancel", "String", leanStr(onCancel), "what Hub.Start does in the `<-ctx.Done()` case of its loop's select before leaving: closesOpChan = closes the field the other case receives operations from; closesDone = closes another channel field (the done channel); unknown")
	closesOp, sendsTotal, sendsGuarded := 0, 0, 0
	producersOK, producers := true, 0
	producerNames := map[string]bool{}
	if opField == "" {
		closesOp, sendsTotal, producersOK = 999, 999, false
	} else {
		for _, f := range hp.files {
			ast.Inspect(f, func(x ast.Node) bool {
				switch v := x.(type) {
				case *ast.CallExpr:
					if id, ok := v.Fun.(*ast.Ident); ok && id.Name == "close" && id.Obj == nil && len(v.Args) == 1 && sdChanField(v.Args[0]) == opField {
						closesOp++
					}
				case *ast.SendStmt:
					if sdChanField(v.Chan) == opField {
						sendsTotal++
					}
				case *ast.SelectStmt:
					if sdSelectGuarded(v, doneField) {
						for _, c := range v.Body.List {
							if ss, ok := c.(*ast.CommClause).Comm.(*ast.SendStmt); ok && sdChanField(ss.Chan) == opField {
								sendsGuarded++
							}
						}
					}
				}
				return true
			})
		}
		// the producers: every function that sends on the operation channel
		for _, fds := range hp.funcs {
			for _, fd := range fds {
				n := 0
				ast.Inspect(fd.Body, func(x ast.Node) bool {
					if ss, ok := x.(*ast.SendStmt); ok && sdChanField(ss.Chan) == opField {
						n++
					}
					return true
				})
				if n == 0 {
					continue
				}
				producers++
				producerNames[fd.Name.Name] = true
				pw := rtWalkBody(hp, fd.Body, nil)
				ws := hp.waits(pw.leaves, nil)
				ok := len(ws) == 1 && ws[0].kind == "select" && len(ws[0].leaf.pc) == 0 && len(ws[0].leaf.loops) == 0 && !pw.unknown
				if ok {
					sel := ws[0].sel
					ok = len(sel.Body.List) == 2 && sdSelectGuarded(sel, doneField)
					sends := 0
					for _, c := range sel.Body.List {
						if ss, isSend := c.(*ast.CommClause).Comm.(*ast.SendStmt); isSend && sdChanField(ss.Chan) == opField {
							sends++
						}
					}
					ok = ok && sends == 1
				}
				if !ok {
					producersOK = false
				}
			}
		}
		if producers == 0 {
			producersOK = false
		}
	}
	g.def("hub_closesOfOpChan", "Nat", fmt.Sprint(closesOp), "close(<operation channel field>) calls in package msghub (the field Hub.Start receives operations from)")
	g.def("hub_bareSends", "Nat", fmt.Sprint(sendsTotal-sendsGuarded), "sends on the operation channel that are not a case of a default-less select that also receives from the done channel")
	g.def("hub_enqueueSelectsDone", "Bool", shutLeanBool(producersOK), "every function that sends on the operation channel has exactly one blocking operation: an unconditional two-case select { send on the operation channel; receive from the done channel }")
	syncOK := false
	if hsync != nil && doneField != "" {
		yw := rtWalkBody(hp, hsync.Body, nil)
		ws := hp.waits(yw.leaves, nil)
		// the producer's own select is seen too when Sync calls it (helpers are followed): every wait must be a guarded select
		guarded, bare, own := 0, 0, 0
		for _, wt := range ws {
			if wt.kind == "select" && sdSelectGuarded(wt.sel, doneField) {
				guarded++
				if wt.leaf.owner == 0 {
					own++
				}
			} else {
				bare++
			}
		}
		enq := 0
		for _, l := range yw.leaves {
			if l.owner != 0 {
				continue
			}
			for _, ce := range rtCalls(l.scope()) {
				if fd, _ := hp.helper(ce); fd != nil && producerNames[fd.Name.Name] {
					enq++
				}
			}
		}
		syncOK = bare == 0 && own == 1 && enq == 1 && guarded == 2 && !yw.unknown
	}
	g.def("hub_syncSelectsDone", "Bool", shutLeanBool(syncOK), "Sync hands its operation to a producer function once and then waits in one default-less select that also receives from the done channel; it has no other blocking operation")

	// ---- retention scanner (analysis shared with retention.go)
	r := rtAnalyseRetention()
	all := append(append([]rtWait{}, r.startWaits...), r.doScanWaits...)
	selects, withDone, outside := 0, 0, 0
	var branches []string
	for _, wt := range all {
		if wt.kind != "select" {
			outside++
			continue
		}
		selects++
		if wt.doneExit != "none" {
			withDone++
			branches = append(branches, wt.doneExit)
		}
	}
	if !r.found || !r.flowRecognised {
		outside = 999
	}
	g.def("ret_selects", "Nat", fmt.Sprint(selects), "select statements in RetentionScanner.Start and DoScan (visitor callback and unexported helpers followed)")
	g.def("ret_selectsWithDone", "Nat", fmt.Sprint(withDone), "… of which have a case receiving from <context.Context parameter>.Done()")
	g.def("ret_blockingOutsideSelect", "Nat", fmt.Sprint(outside), "channel receives / sends outside a select, time.Sleep, Wait / Join / Lock calls in Start and DoScan (999: functions not found or control flow not understood)")
	g.def("ret_doneBranches", "List String", strList(branches), "what each ctx.Done() case does, logging aside, in source order (Start, then DoScan): breakLoop = break labelled with Start's outermost loop | returnFalse | return | fallsThrough | breakSelect | other")
	g.def("ret_closesShutdown", "Nat", fmt.Sprint(r.closesOfJoinChan), "close(<channel field Join receives from>) calls in Start")
	jw := len(r.joinWaits) == 1 && r.joinWaits[0] == "recvField" && r.disablePath == "closeJoinChanThenReturn" && r.afterLoop == "closeJoinChan"
	g.def("ret_joinWaitsShutdown", "Bool", shutLeanBool(jw), "Join's only blocking operation is a receive from a scanner field, and Start closes that very field on the disabled path (before returning) and after its loop")
}
