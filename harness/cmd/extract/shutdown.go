package main

// T1 facts for C19 (shutdown): regenerated into lean/Ibx/Gen/Shutdown.lean.
//
//   <srv>_wgAdd            where `s.wg.Add(1)` sits relative to the `go` statement of serve():
//                          beforeSpawn | inSessionGoroutine | both | unknown   (srv = smtp, pop3)
//   <srv>_serveCounted     is the serve() goroutine itself counted in the WaitGroup (Add in Start)?
//   <srv>_closeBeforeDone  the deferred function of startSession closes the connection before `wg.Done()`
//   <srv>_startClosesListenerAfterDone   Start: `<-ctx.Done()` … `s.listener.Close()`
//   <srv>_serveReturnsOnDone             serve: `case <-ctx.Done(): return` on a permanent Accept error
//   <srv>_drainIsWait      Drain() blocks on `s.wg.Wait()` and on nothing else
//   <srv>_handlerMentionsCtx   any identifier `ctx` / `context` / `Context` (or import "context") in handler.go
//   hub_onCancel           what Hub.Start does in its `case <-ctx.Done():`  closesOpChan | closesDone | unknown
//   hub_enqueueSelectsDone, hub_bareSends, hub_syncSelectsDone, hub_closesOfOpChan
//   ret_selects, ret_selectsWithDone, ret_blockingOutsideSelect, ret_doneBranches, ret_closesShutdown,
//   ret_joinWaitsShutdown
//
// A shape that is not recognised yields `unknown` / none, which no tie theorem accepts.

import (
	"fmt"
	"go/ast"
	"go/token"
	"strings"
)

func init() { extractors = append(extractors, extractShutdown) }

func shutLeanBool(b bool) string {
	if b {
		return "true"
	}
	return "false"
}

// isCall: n is a call whose function prints as one of names.
func isCall(n ast.Node, names ...string) bool {
	ce, ok := n.(*ast.CallExpr)
	if !ok {
		return false
	}
	f := src(ce.Fun)
	for _, x := range names {
		if f == x {
			return true
		}
	}
	return false
}

func stmtIsCall(s ast.Stmt, names ...string) bool {
	es, ok := s.(*ast.ExprStmt)
	return ok && isCall(es.X, names...)
}

func countCalls(n ast.Node, names ...string) int {
	c := 0
	if n == nil || isNilNode(n) {
		return 0
	}
	ast.Inspect(n, func(x ast.Node) bool {
		if x != nil && isCall(x, names...) {
			c++
		}
		return true
	})
	return c
}

// isRecvOf: e is `<-<what>` (what given as printed source, e.g. "ctx.Done()").
func isRecvOf(e ast.Expr, what string) bool {
	u, ok := e.(*ast.UnaryExpr)
	return ok && u.Op == token.ARROW && src(u.X) == what
}

// commRecv: the channel expression a comm clause receives from ("" if it is a send / default).
func commRecv(cc *ast.CommClause) string {
	if cc.Comm == nil {
		return ""
	}
	switch s := cc.Comm.(type) {
	case *ast.ExprStmt:
		if u, ok := s.X.(*ast.UnaryExpr); ok && u.Op == token.ARROW {
			return src(u.X)
		}
	case *ast.AssignStmt:
		if len(s.Rhs) == 1 {
			if u, ok := s.Rhs[0].(*ast.UnaryExpr); ok && u.Op == token.ARROW {
				return src(u.X)
			}
		}
	}
	return ""
}

func selectHasRecv(sel *ast.SelectStmt, ch string) *ast.CommClause {
	for _, c := range sel.Body.List {
		cc := c.(*ast.CommClause)
		if commRecv(cc) == ch {
			return cc
		}
	}
	return nil
}

func selectHasDefault(sel *ast.SelectStmt) bool {
	for _, c := range sel.Body.List {
		if c.(*ast.CommClause).Comm == nil {
			return true
		}
	}
	return false
}

// wgFacts classifies one server package.
func wgFacts(g *genFile, srv string) {
	lf := parse("pkg/server/" + srv + "/listener.go")
	hf := parse("pkg/server/" + srv + "/handler.go")
	serve := fn(lf, "Server", "serve")
	start := fn(lf, "Server", "Start")
	drain := fn(lf, "Server", "Drain")
	sess := fn(hf, "Server", "startSession")

	fact := "unknown"
	why := ""
	func() {
		if serve == nil || sess == nil {
			why = "serve or startSession not found"
			return
		}
		// the unique go statement of serve and the block that holds it
		var goStmt *ast.GoStmt
		var holder *ast.BlockStmt
		nGo := 0
		ast.Inspect(serve.Body, func(x ast.Node) bool {
			if b, ok := x.(*ast.BlockStmt); ok {
				for _, st := range b.List {
					if gs, ok := st.(*ast.GoStmt); ok {
						nGo++
						goStmt, holder = gs, b
					}
				}
			}
			return true
		})
		if nGo != 1 {
			why = fmt.Sprintf("%d go statements in serve", nGo)
			return
		}
		before, after := 0, 0
		seen := false
		for _, st := range holder.List {
			if st == ast.Stmt(goStmt) {
				seen = true
				continue
			}
			if stmtIsCall(st, "s.wg.Add") {
				if seen {
					after++
				} else {
					before++
				}
			}
		}
		// every Add of serve must be one of those (none hidden in another block)
		insideWrapper, wrapperDones, callsSession := 0, 0, false
		switch f := goStmt.Call.Fun.(type) {
		case *ast.SelectorExpr:
			callsSession = src(f) == "s.startSession"
		case *ast.FuncLit:
			for _, st := range f.Body.List {
				switch v := st.(type) {
				case *ast.DeferStmt:
					if isCall(v.Call, "s.wg.Done") {
						wrapperDones++
					}
				case *ast.ExprStmt:
					if isCall(v.X, "s.wg.Add") {
						insideWrapper++
					}
					if isCall(v.X, "s.startSession") {
						callsSession = true
					}
				}
			}
			if countCalls(f.Body, "s.wg.Done") != wrapperDones || countCalls(f.Body, "s.wg.Add") != insideWrapper {
				why = "wg call of the go wrapper not at its top level"
				return
			}
		}
		if !callsSession {
			why = "go statement does not start startSession"
			return
		}
		totalServeAdds := countCalls(serve.Body, "s.wg.Add")
		if after != 0 || totalServeAdds != before+insideWrapper {
			why = "wg.Add of serve in an unexpected place"
			return
		}
		// startSession: Adds must be top-level statements, Dones inside deferred function literals
		sessAdds := 0
		for _, st := range sess.Body.List {
			if stmtIsCall(st, "s.wg.Add") {
				sessAdds++
			}
		}
		sessDones := 0
		for _, st := range sess.Body.List {
			if d, ok := st.(*ast.DeferStmt); ok {
				sessDones += countCalls(d.Call, "s.wg.Done")
			}
		}
		if countCalls(sess.Body, "s.wg.Add") != sessAdds || countCalls(sess.Body, "s.wg.Done") != sessDones {
			why = "wg call of startSession not where expected (top-level Add / deferred Done)"
			return
		}
		// no other function of the package touches the WaitGroup counter
		others := 0
		for _, f := range []*ast.File{lf, hf} {
			if f == nil {
				continue
			}
			for _, d := range f.Decls {
				fd, ok := d.(*ast.FuncDecl)
				if !ok || fd == serve || fd == sess || fd.Body == nil {
					continue
				}
				others += countCalls(fd.Body, "s.wg.Add", "s.wg.Done", "s.Server.wg.Add", "s.Server.wg.Done")
			}
		}
		nb, ni := before, insideWrapper+sessAdds
		nd := wrapperDones + sessDones
		why = fmt.Sprintf("Add before go: %d, Add inside goroutine: %d, deferred Done: %d, wg calls elsewhere: %d", nb, ni, nd, others)
		if others != 0 && !(others == 1 && start != nil && countCalls(start.Body, "s.wg.Add") == 1) {
			return
		}
		if nd != nb+ni {
			return
		}
		switch {
		case nb == 1 && ni == 0:
			fact = "beforeSpawn"
		case nb == 0 && ni == 1:
			fact = "inSessionGoroutine"
		case nb == 1 && ni == 1:
			fact = "both"
		}
	}()
	g.def(srv+"_wgAdd", "String", leanStr(fact), "position of wg.Add(1) relative to the go statement of "+srv+".serve — "+why)

	// serveCounted: an Add in Start before `go s.serve(ctx)` matched by a deferred Done in serve
	sc := "none"
	if start != nil && serve != nil {
		addInStart := countCalls(start.Body, "s.wg.Add")
		doneInServe := 0
		for _, st := range serve.Body.List {
			if d, ok := st.(*ast.DeferStmt); ok && isCall(d.Call, "s.wg.Done") {
				doneInServe++
			}
		}
		switch {
		case addInStart == 0 && doneInServe == 0:
			sc = "some false"
		case addInStart == 1 && doneInServe == 1:
			sc = "some true"
		}
	}
	g.def(srv+"_serveCounted", "Option Bool", sc, "is the accept loop itself counted in the WaitGroup (Add in Start, deferred Done in serve)")

	// closeBeforeDone: inside the deferred func of startSession, <conn>.Close() precedes s.wg.Done()
	cbd := false
	if sess != nil {
		for _, st := range sess.Body.List {
			d, ok := st.(*ast.DeferStmt)
			if !ok {
				continue
			}
			fl, ok := d.Call.Fun.(*ast.FuncLit)
			if !ok {
				continue
			}
			closeAt, doneAt := -1, -1
			for i, b := range fl.Body.List {
				hasClose := false
				ast.Inspect(b, func(x ast.Node) bool {
					if ce, ok := x.(*ast.CallExpr); ok {
						if se, ok := ce.Fun.(*ast.SelectorExpr); ok && se.Sel.Name == "Close" && strings.Contains(strings.ToLower(src(se.X)), "conn") {
							hasClose = true
						}
					}
					return true
				})
				if hasClose && closeAt < 0 {
					closeAt = i
				}
				if stmtIsCall(b, "s.wg.Done") && doneAt < 0 {
					doneAt = i
				}
			}
			if closeAt >= 0 && doneAt > closeAt {
				cbd = true
			}
		}
	}
	g.def(srv+"_closeBeforeDone", "Bool", shutLeanBool(cbd), "startSession's deferred function closes the connection, then calls wg.Done()")

	// Start: `<-ctx.Done()` as a statement, later `s.listener.Close()`
	scl := false
	if start != nil {
		doneAt, closeAt := -1, -1
		for i, st := range start.Body.List {
			if es, ok := st.(*ast.ExprStmt); ok && isRecvOf(es.X, "ctx.Done()") {
				doneAt = i
			}
			if countCalls(st, "s.listener.Close") > 0 && closeAt < 0 {
				closeAt = i
			}
		}
		scl = doneAt >= 0 && closeAt > doneAt
	}
	g.def(srv+"_startClosesListenerAfterDone", "Bool", shutLeanBool(scl), "Start waits for ctx.Done() and then closes the listener")

	srd := false
	if serve != nil {
		ast.Inspect(serve.Body, func(x ast.Node) bool {
			if sel, ok := x.(*ast.SelectStmt); ok {
				if cc := selectHasRecv(sel, "ctx.Done()"); cc != nil {
					for _, b := range cc.Body {
						if _, ok := b.(*ast.ReturnStmt); ok {
							srd = true
						}
					}
				}
			}
			return true
		})
	}
	g.def(srv+"_serveReturnsOnDone", "Bool", shutLeanBool(srd), "serve returns when Accept fails and ctx.Done() is readable")

	diw := false
	if drain != nil {
		waits := countCalls(drain.Body, "s.wg.Wait")
		other := 0
		ast.Inspect(drain.Body, func(x ast.Node) bool {
			switch v := x.(type) {
			case *ast.UnaryExpr:
				if v.Op == token.ARROW {
					other++
				}
			case *ast.SendStmt, *ast.SelectStmt, *ast.ForStmt, *ast.RangeStmt, *ast.GoStmt:
				other++
			}
			return true
		})
		diw = waits == 1 && other == 0
	}
	g.def(srv+"_drainIsWait", "Bool", shutLeanBool(diw), "Drain() = s.wg.Wait() (plus logging)")

	// handler.go never mentions a context
	mentions := hf == nil
	if hf != nil {
		for _, im := range hf.Imports {
			if strings.Trim(im.Path.Value, "\"") == "context" {
				mentions = true
			}
		}
		ast.Inspect(hf, func(x ast.Node) bool {
			if id, ok := x.(*ast.Ident); ok {
				switch id.Name {
				case "ctx", "context", "Context":
					mentions = true
				}
			}
			return true
		})
	}
	g.def(srv+"_handlerMentionsCtx", "Bool", shutLeanBool(mentions), "pkg/server/"+srv+"/handler.go contains an identifier ctx/context/Context or imports \"context\"")
}

func extractShutdown() {
	g := gen("Shutdown")
	wgFacts(g, "smtp")
	wgFacts(g, "pop3")

	// ---- hub
	hf := parse("pkg/msghub/hub.go")
	hstart := fn(hf, "Hub", "Start")
	henq := fn(hf, "Hub", "enqueue")
	hsync := fn(hf, "Hub", "Sync")
	onCancel := "unknown"
	if hstart != nil {
		var found []*ast.CommClause
		ast.Inspect(hstart.Body, func(x ast.Node) bool {
			if sel, ok := x.(*ast.SelectStmt); ok {
				if cc := selectHasRecv(sel, "ctx.Done()"); cc != nil {
					found = append(found, cc)
				}
			}
			return true
		})
		if len(found) == 1 {
			cOp, cDone, ret := 0, 0, false
			for _, b := range found[0].Body {
				if stmtIsCall(b, "close") {
					switch src(b.(*ast.ExprStmt).X.(*ast.CallExpr).Args[0]) {
					case "hub.opChan":
						cOp++
					case "hub.done":
						cDone++
					}
				}
				if _, ok := b.(*ast.ReturnStmt); ok {
					ret = true
				}
			}
			switch {
			case ret && cOp == 1 && cDone == 0:
				onCancel = "closesOpChan"
			case ret && cOp == 0 && cDone == 1:
				onCancel = "closesDone"
			}
		}
	}
	g.def("hub_onCancel", "String", leanStr(onCancel), "what Hub.Start does in `case <-ctx.Done():` before returning")
	// close(hub.opChan) anywhere in the file
	closesOp := 0
	sendsTotal, sendsInGuardedSelect := 0, 0
	if hf != nil {
		ast.Inspect(hf, func(x ast.Node) bool {
			if ce, ok := x.(*ast.CallExpr); ok && src(ce.Fun) == "close" && len(ce.Args) == 1 && strings.HasSuffix(src(ce.Args[0]), ".opChan") {
				closesOp++
			}
			if ss, ok := x.(*ast.SendStmt); ok && strings.HasSuffix(src(ss.Chan), ".opChan") {
				sendsTotal++
			}
			if sel, ok := x.(*ast.SelectStmt); ok && selectHasRecv(sel, "hub.done") != nil && !selectHasDefault(sel) {
				for _, c := range sel.Body.List {
					if ss, ok := c.(*ast.CommClause).Comm.(*ast.SendStmt); ok && strings.HasSuffix(src(ss.Chan), ".opChan") {
						sendsInGuardedSelect++
					}
				}
			}
			return true
		})
	}
	g.def("hub_closesOfOpChan", "Nat", fmt.Sprint(closesOp), "number of close(….opChan) calls in hub.go")
	g.def("hub_bareSends", "Nat", fmt.Sprint(sendsTotal-sendsInGuardedSelect), "sends on opChan that are not a case of a select that also has `<-hub.done`")
	enqOK := false
	if henq != nil && len(henq.Body.List) == 1 {
		if sel, ok := henq.Body.List[0].(*ast.SelectStmt); ok && len(sel.Body.List) == 2 && selectHasRecv(sel, "hub.done") != nil {
			for _, c := range sel.Body.List {
				if ss, ok := c.(*ast.CommClause).Comm.(*ast.SendStmt); ok && src(ss.Chan) == "hub.opChan" {
					enqOK = true
				}
			}
		}
	}
	g.def("hub_enqueueSelectsDone", "Bool", shutLeanBool(enqOK), "enqueue is exactly `select { case hub.opChan <- op: case <-hub.done: }`")
	syncOK := false
	if hsync != nil {
		bare, guarded := 0, 0
		inSelect := map[ast.Node]bool{}
		ast.Inspect(hsync.Body, func(x ast.Node) bool {
			// only the statements of Sync itself, not of the closure it enqueues
			if _, ok := x.(*ast.FuncLit); ok {
				return false
			}
			if sel, ok := x.(*ast.SelectStmt); ok {
				if selectHasRecv(sel, "hub.done") != nil && !selectHasDefault(sel) {
					guarded++
				} else {
					bare++
				}
				for _, c := range sel.Body.List {
					if cm := c.(*ast.CommClause).Comm; cm != nil {
						inSelect[cm] = true
					}
				}
			}
			if es, ok := x.(*ast.ExprStmt); ok && !inSelect[es] {
				if u, ok := es.X.(*ast.UnaryExpr); ok && u.Op == token.ARROW {
					bare++
				}
			}
			if _, ok := x.(*ast.SendStmt); ok && !inSelect[x] {
				bare++
			}
			return true
		})
		syncOK = guarded == 1 && bare == 0 && countCalls(hsync.Body, "hub.enqueue") == 1
	}
	g.def("hub_syncSelectsDone", "Bool", shutLeanBool(syncOK), "Sync enqueues through enqueue and then waits in a select that has `<-hub.done`")

	// ---- retention scanner
	rf := parse("pkg/storage/retention.go")
	rstart := fn(rf, "RetentionScanner", "Start")
	rscan := fn(rf, "RetentionScanner", "DoScan")
	rjoin := fn(rf, "RetentionScanner", "Join")
	selects, withDone, outside := 0, 0, 0
	var branches []string
	known := rstart != nil && rscan != nil
	for _, f := range []*ast.FuncDecl{rstart, rscan} {
		if f == nil {
			continue
		}
		inSelect := map[ast.Node]bool{}
		ast.Inspect(f.Body, func(x ast.Node) bool {
			switch v := x.(type) {
			case *ast.SelectStmt:
				selects++
				cc := selectHasRecv(v, "ctx.Done()")
				if cc != nil {
					withDone++
					last := "(empty)"
					for _, b := range cc.Body {
						last = strings.Join(strings.Fields(src(b)), " ")
					}
					branches = append(branches, last)
				}
				for _, c := range v.Body.List {
					if cm := c.(*ast.CommClause).Comm; cm != nil {
						inSelect[cm] = true
						// the receive expression itself is visited below as a child: mark it
						ast.Inspect(cm, func(y ast.Node) bool {
							if u, ok := y.(*ast.UnaryExpr); ok && u.Op == token.ARROW {
								inSelect[u] = true
							}
							return true
						})
					}
				}
			case *ast.UnaryExpr:
				if v.Op == token.ARROW && !inSelect[v] {
					outside++
				}
			case *ast.SendStmt:
				if !inSelect[v] {
					outside++
				}
			case *ast.CallExpr:
				switch src(v.Fun) {
				case "time.Sleep":
					outside++
				}
				if se, ok := v.Fun.(*ast.SelectorExpr); ok && (se.Sel.Name == "Wait" || se.Sel.Name == "Join") {
					outside++
				}
			}
			return true
		})
	}
	if !known {
		outside = 999
	}
	g.def("ret_selects", "Nat", fmt.Sprint(selects), "select statements in RetentionScanner.Start and DoScan")
	g.def("ret_selectsWithDone", "Nat", fmt.Sprint(withDone), "… of which have a `case <-ctx.Done():`")
	g.def("ret_blockingOutsideSelect", "Nat", fmt.Sprint(outside), "channel receives/sends outside a select, time.Sleep, Wait/Join calls in Start and DoScan")
	g.def("ret_doneBranches", "List String", strList(branches), "last statement of each `case <-ctx.Done():` branch, in source order (Start, then DoScan)")
	closes := 0
	if rstart != nil {
		ast.Inspect(rstart.Body, func(x ast.Node) bool {
			if ce, ok := x.(*ast.CallExpr); ok && src(ce.Fun) == "close" && len(ce.Args) == 1 && src(ce.Args[0]) == "rs.retentionShutdown" {
				closes++
			}
			return true
		})
	}
	g.def("ret_closesShutdown", "Nat", fmt.Sprint(closes), "close(rs.retentionShutdown) calls in Start (disabled path + end of loop)")
	jw := false
	if rjoin != nil {
		n, other := 0, 0
		ast.Inspect(rjoin.Body, func(x ast.Node) bool {
			if u, ok := x.(*ast.UnaryExpr); ok && u.Op == token.ARROW {
				if src(u.X) == "rs.retentionShutdown" {
					n++
				} else {
					other++
				}
			}
			return true
		})
		jw = n == 1 && other == 0
	}
	g.def("ret_joinWaitsShutdown", "Bool", shutLeanBool(jw), "Join blocks on `<-rs.retentionShutdown` only")
}
