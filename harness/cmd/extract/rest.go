package main

// T1 facts for C14 (lean/Ibx/Gen/Rest.lean):
//   routes            the route table of pkg/rest/routes.go and pkg/webui/routes.go (handler func, route name, method,
//                     sub-router prefix from pkg/server/lifecycle.go, path template as segments), in registration order
//   handlers          per handler function: does the MailboxForAddress call (followed by `if err != nil { return err }`)
//                     precede every other ctx.Manager call, and is its result the mailbox argument of all of them;
//                     how a possibly-nil message / reader is treated before it is used (nilGuard);
//                     how storage.ErrNotExist is answered
//   seenRequiresFlag  MailboxMarkSeenV1 calls MarkSeen only under `if dm.Seen`
//   clientMarkSeenBody / clientEscapers   what pkg/rest/client sends
// A shape that is not recognised is emitted as "unknown", which no tie theorem accepts.

import (
	"fmt"
	"go/ast"
	"go/token"
	"strconv"
	"strings"
)

func init() { extractors = append(extractors, extractRest) }

type routeFact struct {
	fn, name, method, sub string
	tpl                   string
}

// chainCalls flattens a.B(x).C(y) into [(B, args), (C, args)] with the root expression.
func chainCalls(e ast.Expr) (root ast.Expr, calls []*ast.CallExpr) {
	for {
		ce, ok := e.(*ast.CallExpr)
		if !ok {
			return e, calls
		}
		sel, ok := ce.Fun.(*ast.SelectorExpr)
		if !ok {
			return e, calls
		}
		calls = append([]*ast.CallExpr{ce}, calls...)
		e = sel.X
	}
}

func restStrLit(e ast.Expr) (string, bool) {
	if lit, ok := e.(*ast.BasicLit); ok && lit.Kind == token.STRING {
		s, err := strconv.Unquote(lit.Value)
		return s, err == nil
	}
	return "", false
}

func routesOf(rel, sub string) ([]routeFact, bool) {
	f := parse(rel)
	fd := fn(f, "", "SetupRoutes")
	if fd == nil || fd.Body == nil {
		return nil, false
	}
	ok := true
	var res []routeFact
	for _, st := range fd.Body.List {
		es, isExpr := st.(*ast.ExprStmt)
		if !isExpr {
			ok = false
			continue
		}
		root, calls := chainCalls(es.X)
		if src(root) != "r" {
			ok = false
			continue
		}
		rf := routeFact{sub: sub}
		for _, c := range calls {
			m := c.Fun.(*ast.SelectorExpr).Sel.Name
			switch m {
			case "Path":
				if len(c.Args) == 1 {
					rf.tpl, _ = restStrLit(c.Args[0])
				}
			case "Handler":
				if len(c.Args) == 1 {
					if h, isCall := c.Args[0].(*ast.CallExpr); isCall && src(h.Fun) == "web.Handler" && len(h.Args) == 1 {
						rf.fn = src(h.Args[0])
					}
				}
			case "Name":
				if len(c.Args) == 1 {
					rf.name, _ = restStrLit(c.Args[0])
				}
			case "Methods":
				if len(c.Args) == 1 {
					rf.method, _ = restStrLit(c.Args[0])
				} else {
					ok = false
				}
			default:
				ok = false
			}
		}
		if rf.tpl == "" || rf.fn == "" || rf.name == "" || rf.method == "" {
			ok = false
		}
		res = append(res, rf)
	}
	return res, ok
}

func leanSegs(tpl string) string {
	p := []string{}
	for _, s := range strings.Split(strings.Trim(tpl, "/"), "/") {
		if strings.HasPrefix(s, "{") && strings.HasSuffix(s, "}") && !strings.Contains(s, ":") {
			p = append(p, ".var")
		} else {
			p = append(p, ".lit "+byteList(s))
		}
	}
	return "[" + strings.Join(p, ", ") + "]"
}

// subPrefixes: the literals of `X.SetupRoutes(web.Router.PathPrefix(prefix("<lit>")).Subrouter())` in FullAssembly, in order.
func subPrefixes() (order []string, prefix map[string]string) {
	prefix = map[string]string{}
	f := parse("pkg/server/lifecycle.go")
	fd := fn(f, "", "FullAssembly")
	if fd == nil {
		return
	}
	ast.Inspect(fd, func(n ast.Node) bool {
		ce, ok := n.(*ast.CallExpr)
		if !ok {
			return true
		}
		fs := src(ce.Fun)
		if (fs == "webui.SetupRoutes" || fs == "rest.SetupRoutes") && len(ce.Args) == 1 {
			a := src(ce.Args[0])
			const pre, post = `web.Router.PathPrefix(prefix("`, `")).Subrouter()`
			if strings.HasPrefix(a, pre) && strings.HasSuffix(a, post) {
				pkg := strings.TrimSuffix(fs, ".SetupRoutes")
				order = append(order, pkg)
				prefix[pkg] = strings.Trim(a[len(pre):len(a)-len(post)], "/")
			}
			return false
		}
		return true
	})
	return
}

type handlerFact struct {
	name       string
	canonFirst bool     // MailboxForAddress + `return err` precede every other Manager call, whose mailbox argument is its result
	mgrCalls   []string // the other ctx.Manager methods called, in source order
	nilGuard   string   // guarded | unguarded | none | unknown
	notExist   string   // eq404 (err == ErrNotExist → NotFound) | passNil (err != nil && err != ErrNotExist → 500, nil falls through) | none | unknown
}

func isNotFoundReturn(b *ast.BlockStmt) bool {
	if b == nil || len(b.List) != 2 {
		return false
	}
	es, ok := b.List[0].(*ast.ExprStmt)
	if !ok || src(es.X) != "http.NotFound(w, req)" {
		return false
	}
	rs, ok := b.List[1].(*ast.ReturnStmt)
	return ok && len(rs.Results) == 1 && src(rs.Results[0]) == "nil"
}

func restHandlerFacts(f *ast.File, name string) handlerFact {
	hf := handlerFact{name: name, nilGuard: "unknown", notExist: "unknown"}
	fd := fn(f, "", name)
	if fd == nil || fd.Body == nil {
		return hf
	}
	// statement-level walk of the top-level block (the handlers are straight-line code with early returns)
	canonVar := ""
	canonChecked := false
	canonOK := true
	resVar := ""      // variable holding the possibly-nil message / reader
	guarded := false  // `if resVar == nil { NotFound; return nil }` seen
	usedBefore := false
	used := false
	sawEq404, sawPassNil := false, false
	mgrCall := func(e ast.Expr) (string, []ast.Expr, bool) {
		ce, ok := e.(*ast.CallExpr)
		if !ok {
			return "", nil, false
		}
		s := src(ce.Fun)
		if strings.HasPrefix(s, "ctx.Manager.") {
			return strings.TrimPrefix(s, "ctx.Manager."), ce.Args, true
		}
		return "", nil, false
	}
	var visitStmt func(st ast.Stmt, top bool)
	noteUse := func(n ast.Node) {
		if resVar == "" || n == nil {
			return
		}
		ast.Inspect(n, func(x ast.Node) bool {
			switch v := x.(type) {
			case *ast.SelectorExpr:
				if id, ok := v.X.(*ast.Ident); ok && id.Name == resVar {
					used = true
					if !guarded {
						usedBefore = true
					}
				}
			case *ast.CallExpr:
				if src(v.Fun) == "io.Copy" && len(v.Args) == 2 && src(v.Args[1]) == resVar {
					used = true
					if !guarded {
						usedBefore = true
					}
				}
			}
			return true
		})
	}
	handleCall := func(method string, args []ast.Expr, lhs []ast.Expr) {
		if method == "MailboxForAddress" {
			if canonVar == "" && len(hf.mgrCalls) == 0 && len(lhs) == 2 && len(args) == 1 && src(args[0]) == `ctx.Vars["name"]` {
				canonVar = src(lhs[0])
			} else {
				canonOK = false
			}
			return
		}
		hf.mgrCalls = append(hf.mgrCalls, method)
		if canonVar == "" || !canonChecked || len(args) == 0 || src(args[0]) != canonVar {
			canonOK = false
		}
		if (method == "GetMessage" || method == "SourceReader") && len(lhs) == 2 {
			resVar = src(lhs[0])
		}
	}
	visitStmt = func(st ast.Stmt, top bool) {
		switch v := st.(type) {
		case *ast.AssignStmt:
			if len(v.Rhs) == 1 {
				if m, args, ok := mgrCall(v.Rhs[0]); ok {
					handleCall(m, args, v.Lhs)
					return
				}
			}
			noteUse(v)
		case *ast.IfStmt:
			cond := src(v.Cond)
			if v.Init != nil {
				visitStmt(v.Init, false)
			}
			switch {
			case canonVar != "" && !canonChecked && cond == "err != nil" && len(v.Body.List) == 1 && src(v.Body.List[0]) == "return err" && len(hf.mgrCalls) == 0:
				canonChecked = true
			case resVar != "" && cond == resVar+" == nil" && isNotFoundReturn(v.Body):
				guarded = true
			case cond == "err == storage.ErrNotExist" && isNotFoundReturn(v.Body):
				sawEq404 = true
			case cond == "err != nil && err != storage.ErrNotExist":
				sawPassNil = true
			default:
				noteUse(v.Cond)
				for _, s := range v.Body.List {
					visitStmt(s, false)
				}
				if v.Else != nil {
					if b, ok := v.Else.(*ast.BlockStmt); ok {
						for _, s := range b.List {
							visitStmt(s, false)
						}
					}
				}
			}
		case *ast.RangeStmt:
			noteUse(v.X)
			for _, s := range v.Body.List {
				visitStmt(s, false)
			}
		default:
			noteUse(st)
		}
	}
	for _, st := range fd.Body.List {
		visitStmt(st, true)
	}
	hf.canonFirst = canonVar != "" && canonChecked && canonOK
	switch {
	case resVar == "":
		hf.nilGuard = "none"
	case used && usedBefore:
		hf.nilGuard = "unguarded"
	case used && guarded:
		hf.nilGuard = "guarded"
	}
	switch {
	case sawEq404 && !sawPassNil:
		hf.notExist = "eq404"
	case sawPassNil && !sawEq404:
		hf.notExist = "passNil"
	case !sawEq404 && !sawPassNil:
		hf.notExist = "none"
	}
	return hf
}

func extractRest() {
	g := gen("Rest")
	fmt.Fprintf(&g.buf, "inductive Seg | lit (b : List Nat) | var\n  deriving DecidableEq, Repr\n\n")
	order, prefix := subPrefixes()
	var all []routeFact
	okAll := len(order) == 2
	files := map[string]string{"webui": "pkg/webui/routes.go", "rest": "pkg/rest/routes.go"}
	for _, pkg := range order {
		rs, ok := routesOf(files[pkg], prefix[pkg])
		if !ok {
			okAll = false
		}
		all = append(all, rs...)
	}
	rows := []string{}
	for _, r := range all {
		rows = append(rows, fmt.Sprintf("(%s, %s, %s, %s, %s)", leanStr(r.fn), leanStr(r.name), leanStr(r.method), byteList(r.sub), leanSegs(r.tpl)))
	}
	val := "none"
	if okAll {
		val = "some [\n  " + strings.Join(rows, ",\n  ") + "]"
	}
	g.def("routes", "Option (List (String × String × String × List Nat × List Seg))", val,
		"(handler function, route name, method, sub-router prefix, template) in registration order: FullAssembly registers "+strings.Join(order, " then "))

	hrows := []string{}
	seenFlag := "none"
	for _, pf := range []struct {
		rel   string
		names []string
	}{
		{"pkg/rest/apiv1_controller.go", []string{"MailboxListV1", "MailboxShowV1", "MailboxMarkSeenV1", "MailboxPurgeV1", "MailboxSourceV1", "MailboxDeleteV1"}},
		{"pkg/webui/mailbox_controller.go", []string{"MailboxMessage", "MailboxHTML", "MailboxSource", "MailboxViewAttach"}},
	} {
		f := parse(pf.rel)
		for _, n := range pf.names {
			h := restHandlerFacts(f, n)
			b := "false"
			if h.canonFirst {
				b = "true"
			}
			hrows = append(hrows, fmt.Sprintf("(%s, %s, %s, %s, %s)", leanStr(h.name), b, strList(h.mgrCalls), leanStr(h.nilGuard), leanStr(h.notExist)))
		}
		if fd := fn(f, "", "MailboxMarkSeenV1"); fd != nil {
			// `if dm.Seen { err = ctx.Manager.MarkSeen(…) … }` and no MarkSeen call outside it
			inside, outside := 0, 0
			ast.Inspect(fd, func(n ast.Node) bool {
				if is, ok := n.(*ast.IfStmt); ok && src(is.Cond) == "dm.Seen" {
					ast.Inspect(is.Body, func(x ast.Node) bool {
						if ce, ok := x.(*ast.CallExpr); ok && src(ce.Fun) == "ctx.Manager.MarkSeen" {
							inside++
						}
						return true
					})
					return false
				}
				if ce, ok := n.(*ast.CallExpr); ok && src(ce.Fun) == "ctx.Manager.MarkSeen" {
					outside++
				}
				return true
			})
			if inside == 1 && outside == 0 {
				seenFlag = "some true"
			} else if inside == 0 && outside == 1 {
				seenFlag = "some false"
			}
		}
	}
	g.def("handlers", "List (String × Bool × List String × String × String)", "[\n  "+strings.Join(hrows, ",\n  ")+"]",
		"(handler, MailboxForAddress-then-return-err dominates all Manager calls and feeds them, Manager calls, nilGuard, how ErrNotExist is answered)")
	g.def("seenRequiresFlag", "Option Bool", seenFlag, "MailboxMarkSeenV1 calls MarkSeen only under `if dm.Seen`")

	// ---- client
	cf := parse("pkg/rest/client/apiv1_client.go")
	body := "unknown"
	if fd := fn(cf, "Client", "MarkSeenWithContext"); fd != nil {
		ast.Inspect(fd, func(n ast.Node) bool {
			if ce, ok := n.(*ast.CallExpr); ok && src(ce.Fun) == "c.do" && len(ce.Args) == 4 {
				switch a := src(ce.Args[3]); {
				case a == "nil":
					body = "none"
				case a == "[]byte(`{\"seen\":true}`)" || a == `[]byte("{\"seen\":true}")`:
					body = "seenTrue"
				}
			}
			return true
		})
	}
	g.def("clientMarkSeenBody", "String", leanStr(body), "the request body pkg/rest/client's MarkSeen sends")
	escs := []string{}
	for _, m := range []string{"ListMailboxWithContext", "GetMessageWithContext", "MarkSeenWithContext", "GetMessageSourceWithContext", "DeleteMessageWithContext", "PurgeMailboxWithContext"} {
		e := "unknown"
		if fd := fn(cf, "Client", m); fd != nil {
			ast.Inspect(fd, func(n ast.Node) bool {
				as, ok := n.(*ast.AssignStmt)
				if !ok || len(as.Lhs) != 1 || src(as.Lhs[0]) != "uri" || len(as.Rhs) != 1 {
					return true
				}
				// uri := "/api/v1/mailbox/" + url.X(name) [+ "/" + id [+ "/source"]]
				parts := []string{}
				var flat func(ast.Expr)
				flat = func(x ast.Expr) {
					if be, ok := x.(*ast.BinaryExpr); ok && be.Op == token.ADD {
						flat(be.X)
						flat(be.Y)
						return
					}
					parts = append(parts, src(x))
				}
				flat(as.Rhs[0])
				shape := strings.Join(parts, " ")
				for _, fnn := range []string{"QueryEscape", "PathEscape"} {
					p := `"/api/v1/mailbox/" url.` + fnn + `(name)`
					switch shape {
					case p:
						e = fnn + ":box"
					case p + ` "/" id`:
						e = fnn + ":msg"
					case p + ` "/" id "/source"`:
						e = fnn + ":source"
					}
				}
				return false
			})
		}
		escs = append(escs, e)
	}
	g.def("clientEscapers", "List String", strList(escs), "escaping function and URI shape of List, Get, MarkSeen, Source, Delete, Purge")
	// JoinPath is what turns the URI into the request path
	jp := "unknown"
	if rf := parse("pkg/rest/client/rest.go"); rf != nil {
		if fd := fn(rf, "restClient", "do"); fd != nil {
			ast.Inspect(fd, func(n ast.Node) bool {
				if ce, ok := n.(*ast.CallExpr); ok && src(ce.Fun) == "c.baseURL.JoinPath" && len(ce.Args) == 1 && src(ce.Args[0]) == "uri" {
					jp = "JoinPath"
				}
				return true
			})
		}
	}
	g.def("clientJoin", "String", leanStr(jp), "how restClient.do builds the request URL from the URI")
}
