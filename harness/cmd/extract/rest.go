package main

// T1 facts for C14 (lean/Ibx/Gen/Rest.lean).  Every fact describes STRUCTURE and BEHAVIOUR, found through go/ast
// shapes of exported / package-level things (message.Manager methods, storage.ErrNotExist, http.NotFound /
// http.StatusNotFound, url.QueryEscape, URL.JoinPath, http.NewRequest…, mux Path / Methods / Name / Handler), never through
// the spelling of local variables, parameters, unexported helpers, comments, log or error text:
//
//   routes      the route table of pkg/rest/routes.go and pkg/webui/routes.go (handler func, route name, method,
//               sub-router prefix from pkg/server/lifecycle.go, path template as segments), in registration order.
//               The router is "parameter 0 of SetupRoutes" (or a local alias / PathPrefix sub-router of it), the chain
//               calls may come in any order, methods may be literals or http.MethodX.
//   handlers    per handler function a BEHAVIOUR TABLE obtained by running a small abstract interpreter over the
//               function body (if / else-if / switch / early returns / unexported same-package helpers are all just
//               control flow to it).  The interpreter forks at every call of a message.Manager method over the
//               answers the model distinguishes (MailboxForAddress: ok | err; pointer-valued fetchers: found | nilnil |
//               notExist | ioErr; the others: ok | notExist | ioErr) and at the decoded body's `.Seen`; all other
//               conditions fork anonymously.  A row is (answers chosen so far, Manager calls made with the ROLE of each
//               argument: canon = result 0 of MailboxForAddress(Vars["name"]), var:k = Vars["k"], set of outcomes:
//               notFound | error | panic (nil result dereferenced) | done).
//   seenRequiresFlag   MarkSeen is called exactly on the paths where the decoded body's Seen is true
//   clientEscapers / clientBodies / clientMarkSeenBody / clientJoin
//               what reaches http.NewRequest[WithContext] from each client operation: method, URI shape (literal text,
//               {QueryEscape:n} / {raw:n} = n-th string parameter), body, and how the URL is formed (X.JoinPath(uri).String()).
// A shape that is not recognised is emitted as "unknown" / none, which no tie theorem accepts.

import (
	"fmt"
	"go/ast"
	"go/token"
	"os"
	"path/filepath"
	"sort"
	"strconv"
	"strings"
)

func init() { extractors = append(extractors, extractRest) }

// ---------------------------------------------------------------------------------------------------------------------
// packages, imports, constants

type restPkg struct {
	files   []*ast.File
	funcs   map[string][]*ast.FuncDecl // plain functions by name
	methods map[string][]*ast.FuncDecl // methods by name (any receiver)
	fileOf  map[*ast.FuncDecl]*ast.File
	consts  map[string]string // package-level string constants
	imports map[*ast.File]map[string]string
}

func restLoadPkg(dir string) *restPkg {
	p := &restPkg{funcs: map[string][]*ast.FuncDecl{}, methods: map[string][]*ast.FuncDecl{}, fileOf: map[*ast.FuncDecl]*ast.File{},
		consts: map[string]string{}, imports: map[*ast.File]map[string]string{}}
	ents, err := os.ReadDir(filepath.Join(repo, dir))
	if err != nil {
		return p
	}
	names := []string{}
	for _, e := range ents {
		n := e.Name()
		if e.IsDir() || !strings.HasSuffix(n, ".go") || strings.HasSuffix(n, "_test.go") || strings.HasPrefix(n, "verif_") {
			continue
		}
		names = append(names, n)
	}
	sort.Strings(names)
	for _, n := range names {
		f := parse(filepath.Join(dir, n))
		if f == nil {
			continue
		}
		p.files = append(p.files, f)
		p.imports[f] = restImports(f)
		for _, d := range f.Decls {
			switch v := d.(type) {
			case *ast.FuncDecl:
				p.fileOf[v] = f
				if v.Recv == nil {
					p.funcs[v.Name.Name] = append(p.funcs[v.Name.Name], v)
				} else {
					p.methods[v.Name.Name] = append(p.methods[v.Name.Name], v)
				}
			case *ast.GenDecl:
				if v.Tok != token.CONST {
					continue
				}
				for _, sp := range v.Specs {
					vs, ok := sp.(*ast.ValueSpec)
					if !ok || len(vs.Names) != len(vs.Values) {
						continue
					}
					for i, id := range vs.Names {
						if s, ok := restStrLit(vs.Values[i]); ok {
							p.consts[id.Name] = s
						}
					}
				}
			}
		}
	}
	return p
}

// restImports: local name -> import path
func restImports(f *ast.File) map[string]string {
	m := map[string]string{}
	for _, im := range f.Imports {
		path, err := strconv.Unquote(im.Path.Value)
		if err != nil {
			continue
		}
		name := ""
		if im.Name != nil {
			name = im.Name.Name
		} else {
			parts := strings.Split(path, "/")
			name = parts[len(parts)-1]
			if len(parts) > 1 && len(name) >= 2 && name[0] == 'v' && strings.Trim(name[1:], "0123456789") == "" {
				name = parts[len(parts)-2]
			}
		}
		m[name] = path
	}
	return m
}

func restStrLit(e ast.Expr) (string, bool) {
	if lit, ok := e.(*ast.BasicLit); ok && lit.Kind == token.STRING {
		s, err := strconv.Unquote(lit.Value)
		return s, err == nil
	}
	return "", false
}

var restHTTPMethods = map[string]string{"MethodGet": "GET", "MethodHead": "HEAD", "MethodPost": "POST", "MethodPut": "PUT",
	"MethodPatch": "PATCH", "MethodDelete": "DELETE", "MethodOptions": "OPTIONS"}

// restPkgSel: e is `pkgname.Name` with pkgname an import of the file -> (import path, Name)
func restPkgSel(imports map[string]string, e ast.Expr) (string, string, bool) {
	se, ok := e.(*ast.SelectorExpr)
	if !ok {
		return "", "", false
	}
	id, ok := se.X.(*ast.Ident)
	if !ok {
		return "", "", false
	}
	path, ok := imports[id.Name]
	if !ok {
		return "", "", false
	}
	return path, se.Sel.Name, true
}

// restConstStr: a string known at extraction time: literal, http.MethodX, package-level constant
func restConstStr(p *restPkg, f *ast.File, e ast.Expr) (string, bool) {
	if s, ok := restStrLit(e); ok {
		return s, true
	}
	if path, name, ok := restPkgSel(p.imports[f], e); ok && path == "net/http" {
		if m, ok := restHTTPMethods[name]; ok {
			return m, true
		}
	}
	if id, ok := e.(*ast.Ident); ok {
		if s, ok := p.consts[id.Name]; ok {
			return s, true
		}
	}
	return "", false
}

// ---------------------------------------------------------------------------------------------------------------------
// routes

type restRoute struct {
	fn, name, method, sub string
	tpl                   string
}

// restChain flattens a.B(x).C(y) into [B(x), C(y)] with the root expression a.
func restChain(e ast.Expr) (root ast.Expr, calls []*ast.CallExpr) {
	for {
		ce, ok := e.(*ast.CallExpr)
		if !ok {
			return e, calls
		}
		sel, ok := ce.Fun.(*ast.SelectorExpr)
		if !ok {
			return e, calls
		}
		calls = append([]*ast.CallExpr{ce}, calls...)
		e = sel.X
	}
}

// restRouterExpr: e denotes a router: a known router variable, or <router>.PathPrefix(lit).Subrouter()
func restRouterExpr(p *restPkg, f *ast.File, routers map[string]string, e ast.Expr) (string, bool) {
	root, calls := restChain(e)
	id, ok := root.(*ast.Ident)
	if !ok {
		return "", false
	}
	pre, ok := routers[id.Name]
	if !ok {
		return "", false
	}
	if len(calls) == 0 {
		return pre, true
	}
	if len(calls) == 2 && calls[0].Fun.(*ast.SelectorExpr).Sel.Name == "PathPrefix" && len(calls[0].Args) == 1 &&
		calls[1].Fun.(*ast.SelectorExpr).Sel.Name == "Subrouter" && len(calls[1].Args) == 0 {
		if s, ok := restConstStr(p, f, calls[0].Args[0]); ok {
			return pre + strings.TrimSuffix(s, "/"), true
		}
	}
	return "", false
}

// restHandlerArg: web.Handler(F) -> F
func restHandlerArg(p *restPkg, f *ast.File, e ast.Expr) string {
	h, ok := e.(*ast.CallExpr)
	if !ok || len(h.Args) != 1 {
		return ""
	}
	path, name, ok := restPkgSel(p.imports[f], h.Fun)
	if !ok || !strings.HasSuffix(path, "/pkg/server/web") || name != "Handler" {
		return ""
	}
	if id, ok := h.Args[0].(*ast.Ident); ok {
		return id.Name
	}
	return ""
}

func restRoutesOf(dir, sub string) ([]restRoute, bool) {
	p := restLoadPkg(dir)
	if len(p.funcs["SetupRoutes"]) != 1 {
		return nil, false
	}
	fd := p.funcs["SetupRoutes"][0]
	f := p.fileOf[fd]
	if fd.Body == nil || fd.Type.Params == nil || len(fd.Type.Params.List) != 1 || len(fd.Type.Params.List[0].Names) != 1 {
		return nil, false
	}
	routers := map[string]string{fd.Type.Params.List[0].Names[0].Name: ""}
	ok := true
	var res []restRoute
	for _, st := range fd.Body.List {
		switch v := st.(type) {
		case *ast.AssignStmt:
			// alias or sub-router of a known router
			if len(v.Lhs) == 1 && len(v.Rhs) == 1 {
				if id, isID := v.Lhs[0].(*ast.Ident); isID {
					if pre, isR := restRouterExpr(p, f, routers, v.Rhs[0]); isR {
						routers[id.Name] = pre
						continue
					}
				}
			}
			ok = false
		case *ast.ExprStmt:
			root, calls := restChain(v.X)
			id, isID := root.(*ast.Ident)
			pre, isR := "", false
			if isID {
				pre, isR = routers[id.Name]
			}
			if !isR || len(calls) == 0 {
				ok = false
				continue
			}
			rf := restRoute{sub: sub}
			seen := map[string]bool{}
			for _, c := range calls {
				m := c.Fun.(*ast.SelectorExpr).Sel.Name
				if seen[m] {
					ok = false
				}
				seen[m] = true
				switch {
				case m == "Path" && len(c.Args) == 1:
					if s, isS := restConstStr(p, f, c.Args[0]); isS {
						rf.tpl = pre + s
					}
				case m == "Handle" && len(c.Args) == 2:
					if s, isS := restConstStr(p, f, c.Args[0]); isS {
						rf.tpl = pre + s
					}
					rf.fn = restHandlerArg(p, f, c.Args[1])
				case m == "Handler" && len(c.Args) == 1:
					rf.fn = restHandlerArg(p, f, c.Args[0])
				case m == "Name" && len(c.Args) == 1:
					rf.name, _ = restConstStr(p, f, c.Args[0])
				case m == "Methods" && len(c.Args) == 1:
					rf.method, _ = restConstStr(p, f, c.Args[0])
				default:
					ok = false
				}
			}
			if rf.tpl == "" || rf.fn == "" || rf.name == "" || rf.method == "" {
				ok = false
			}
			res = append(res, rf)
		case *ast.EmptyStmt:
		default:
			ok = false
		}
	}
	return res, ok
}

func restLeanSegs(tpl string) string {
	p := []string{}
	for _, s := range strings.Split(strings.Trim(tpl, "/"), "/") {
		if strings.HasPrefix(s, "{") && strings.HasSuffix(s, "}") && !strings.Contains(s, ":") {
			p = append(p, ".var")
		} else {
			p = append(p, ".lit "+byteList(s))
		}
	}
	return "[" + strings.Join(p, ", ") + "]"
}

// restSubPrefixes: FullAssembly calls <webui|rest>.SetupRoutes(R) with R = web.Router.PathPrefix(F("<lit>")).Subrouter(), F a local
// defined as stringutil.MakePathPrefixer(…); R may be written in place or held in a local variable.  In call order.
func restSubPrefixes() (order []string, prefix map[string]string) {
	prefix = map[string]string{}
	p := restLoadPkg("pkg/server")
	if len(p.funcs["FullAssembly"]) != 1 {
		return
	}
	fd := p.funcs["FullAssembly"][0]
	imports := p.imports[p.fileOf[fd]]
	defs := map[string]ast.Expr{}
	ndefs := map[string]int{}
	ast.Inspect(fd, func(n ast.Node) bool {
		if as, ok := n.(*ast.AssignStmt); ok && len(as.Lhs) == len(as.Rhs) {
			for i, l := range as.Lhs {
				if id, ok := l.(*ast.Ident); ok {
					defs[id.Name] = as.Rhs[i]
					ndefs[id.Name]++
				}
			}
		}
		return true
	})
	resolve := func(e ast.Expr) ast.Expr {
		if id, ok := e.(*ast.Ident); ok && ndefs[id.Name] == 1 {
			return defs[id.Name]
		}
		return e
	}
	ast.Inspect(fd, func(n ast.Node) bool {
		ce, ok := n.(*ast.CallExpr)
		if !ok {
			return true
		}
		path, name, ok := restPkgSel(imports, ce.Fun)
		if !ok || name != "SetupRoutes" || len(ce.Args) != 1 {
			return true
		}
		pkg := ""
		switch {
		case strings.HasSuffix(path, "/pkg/webui"):
			pkg = "webui"
		case strings.HasSuffix(path, "/pkg/rest"):
			pkg = "rest"
		default:
			return true
		}
		order = append(order, pkg)
		root, calls := restChain(resolve(ce.Args[0]))
		rp, rn, isSel := restPkgSel(imports, root)
		if !isSel || !strings.HasSuffix(rp, "/pkg/server/web") || rn != "Router" || len(calls) != 2 {
			return false
		}
		if calls[0].Fun.(*ast.SelectorExpr).Sel.Name != "PathPrefix" || len(calls[0].Args) != 1 ||
			calls[1].Fun.(*ast.SelectorExpr).Sel.Name != "Subrouter" || len(calls[1].Args) != 0 {
			return false
		}
		pc, ok := calls[0].Args[0].(*ast.CallExpr)
		if !ok || len(pc.Args) != 1 {
			return false
		}
		lit, ok := restStrLit(pc.Args[0])
		if !ok {
			return false
		}
		mk, ok := resolve(pc.Fun).(*ast.CallExpr)
		if !ok {
			return false
		}
		mp, mn, ok := restPkgSel(imports, mk.Fun)
		if !ok || !strings.HasSuffix(mp, "/pkg/stringutil") || mn != "MakePathPrefixer" {
			return false
		}
		if _, dup := prefix[pkg]; !dup {
			prefix[pkg] = strings.Trim(lit, "/")
		}
		return false
	})
	return
}

// ---------------------------------------------------------------------------------------------------------------------
// the abstract interpreter

type restPart struct {
	lit bool
	s   string
}

// restVal kinds: opaque nil nonnil bool mgr vars rawvar canon res err decoded str param bytes reader joined urlstr tuple
type restVal struct {
	k     string
	s     string
	parts []restPart
	tup   []*restVal
}

func restOpaque() *restVal { return &restVal{k: "opaque"} }
func restBool(b bool) *restVal {
	if b {
		return &restVal{k: "bool", s: "true"}
	}
	return &restVal{k: "bool", s: "false"}
}
func restStrVal(s string) *restVal { return &restVal{k: "str", parts: []restPart{{true, s}}} }

// restStrParts: the pieces of a value used inside a string concatenation
func restStrParts(v *restVal) []restPart {
	switch v.k {
	case "str":
		return v.parts
	case "param":
		return []restPart{{false, "raw:" + v.s}}
	case "rawvar":
		return []restPart{{false, "var:" + v.s}}
	case "canon":
		return []restPart{{false, "canon"}}
	}
	return []restPart{{false, "?"}}
}

func restShape(parts []restPart) string {
	var b strings.Builder
	for _, p := range parts {
		if p.lit {
			b.WriteString(p.s)
		} else {
			b.WriteString("{" + p.s + "}")
		}
	}
	return b.String()
}

func restAllLit(v *restVal) (string, bool) {
	if v.k != "str" {
		return "", false
	}
	var b strings.Builder
	for _, p := range v.parts {
		if !p.lit {
			return "", false
		}
		b.WriteString(p.s)
	}
	return b.String(), true
}

type restScope struct {
	vars   map[string]*restVal
	parent *restScope
}

func (s *restScope) lookup(n string) (*restScope, *restVal) {
	for c := s; c != nil; c = c.parent {
		if v, ok := c.vars[n]; ok {
			return c, v
		}
	}
	return nil, nil
}

type restFrame struct {
	fd      *ast.FuncDecl
	file    *ast.File
	scope   *restScope
	results []string // names of named results ("" when unnamed)
	ret     []*restVal
}

type restStop struct{ kind string } // "panic" (abstract nil dereference) | "abort" (unsupported shape)

const (
	restNormal = iota
	restReturn
	restBreak
	restContinue
)

type restInterp struct {
	pkg    *restPkg
	mgrSig map[string]string // Manager method -> "ptr" | "val" | "err" | "canon"
	// choice engine
	script []int
	limits []int
	pos    int
	// per path
	fr       *restFrame
	key      []string
	calls    []string
	notFound bool
	status   string
	requests []string
	reason   string
	depth    int
	steps    int
}

func (in *restInterp) choose(n int) int {
	if in.pos < len(in.script) {
		c := in.script[in.pos]
		in.limits[in.pos] = n
		in.pos++
		return c
	}
	in.script = append(in.script, 0)
	in.limits = append(in.limits, n)
	in.pos++
	return 0
}

func (in *restInterp) abort(why string) {
	in.reason = why
	panic(restStop{"abort"})
}

func (in *restInterp) imports() map[string]string { return in.pkg.imports[in.fr.file] }

func (in *restInterp) push() {
	in.fr.scope = &restScope{vars: map[string]*restVal{}, parent: in.fr.scope}
}
func (in *restInterp) pop() { in.fr.scope = in.fr.scope.parent }

func (in *restInterp) define(n string, v *restVal) {
	if n != "_" {
		in.fr.scope.vars[n] = v
	}
}

func (in *restInterp) assign(n string, v *restVal) {
	if n == "_" {
		return
	}
	if sc, _ := in.fr.scope.lookup(n); sc != nil {
		sc.vars[n] = v
		return
	}
	in.fr.scope.vars[n] = v
}

func (in *restInterp) deref(v *restVal) {
	if v.k == "res" && v.s == "nil" {
		panic(restStop{"panic"})
	}
}

// restNilTok classifies a value for comparisons: "nil", "E:notExist", "E:other", "NN" (some non-nil thing), "" (unknown)
func restNilTok(v *restVal) string {
	switch v.k {
	case "nil":
		return "nil"
	case "err":
		if v.s == "nil" {
			return "nil"
		}
		return "E:" + v.s
	case "res":
		if v.s == "nil" {
			return "nil"
		}
		return "NN"
	case "nonnil", "bytes", "reader", "mgr", "vars", "joined":
		return "NN"
	}
	return ""
}

func restEqual(a, b *restVal) (bool, bool) {
	if sa, ok := restAllLit(a); ok {
		if sb, ok := restAllLit(b); ok {
			return sa == sb, true
		}
	}
	if a.k == "bool" && b.k == "bool" {
		return a.s == b.s, true
	}
	ta, tb := restNilTok(a), restNilTok(b)
	if ta == "" || tb == "" {
		return false, false
	}
	switch {
	case ta == "nil" || tb == "nil":
		return ta == tb, true
	case ta == "E:notExist" && tb == "E:notExist":
		return true, true
	case (ta == "E:notExist" && tb == "E:other") || (ta == "E:other" && tb == "E:notExist"):
		return false, true
	}
	return false, false
}

// evalEq: x == y; an unknown comparison with nil forks and refines the variable
func (in *restInterp) evalEq(x, y ast.Expr) bool {
	a := in.eval(x)
	b := in.eval(y)
	if r, ok := restEqual(a, b); ok {
		return r
	}
	r := in.choose(2) == 0
	refine := func(e ast.Expr, other *restVal) {
		id, ok := e.(*ast.Ident)
		if !ok || other.k != "nil" {
			return
		}
		if sc, cur := in.fr.scope.lookup(id.Name); sc != nil && cur.k == "opaque" {
			if r {
				sc.vars[id.Name] = &restVal{k: "nil"}
			} else {
				sc.vars[id.Name] = &restVal{k: "nonnil"}
			}
		}
	}
	refine(x, b)
	refine(y, a)
	return r
}

func (in *restInterp) truth(e ast.Expr) bool {
	v := in.eval(e)
	if v.k == "bool" {
		return v.s == "true"
	}
	return in.choose(2) == 0
}

func (in *restInterp) isLocal(n string) bool {
	sc, _ := in.fr.scope.lookup(n)
	return sc != nil
}

// pkgSel honours shadowing of an import name by a local variable
func (in *restInterp) pkgSel(e ast.Expr) (string, string, bool) {
	if se, ok := e.(*ast.SelectorExpr); ok {
		if id, ok := se.X.(*ast.Ident); ok && in.isLocal(id.Name) {
			return "", "", false
		}
	}
	return restPkgSel(in.imports(), e)
}

func (in *restInterp) eval(e ast.Expr) *restVal {
	in.steps++
	if in.steps > 200000 {
		in.abort("too many steps")
	}
	switch v := e.(type) {
	case *ast.Ident:
		switch v.Name {
		case "nil":
			return &restVal{k: "nil"}
		case "true":
			return restBool(true)
		case "false":
			return restBool(false)
		}
		if _, val := in.fr.scope.lookup(v.Name); val != nil {
			return val
		}
		if s, ok := in.pkg.consts[v.Name]; ok {
			return restStrVal(s)
		}
		return restOpaque()
	case *ast.BasicLit:
		if s, ok := restStrLit(v); ok {
			return restStrVal(s)
		}
		return restOpaque()
	case *ast.ParenExpr:
		return in.eval(v.X)
	case *ast.SelectorExpr:
		if path, name, ok := in.pkgSel(v); ok {
			if strings.HasSuffix(path, "/pkg/storage") && name == "ErrNotExist" {
				return &restVal{k: "err", s: "notExist"}
			}
			if path == "net/http" {
				if m, ok := restHTTPMethods[name]; ok {
					return restStrVal(m)
				}
			}
			return restOpaque()
		}
		x := in.eval(v.X)
		in.deref(x)
		switch {
		case v.Sel.Name == "Manager":
			return &restVal{k: "mgr"}
		case v.Sel.Name == "Vars":
			return &restVal{k: "vars"}
		case x.k == "decoded" && v.Sel.Name == "Seen":
			if in.choose(2) == 0 {
				in.key = append(in.key, "seen=true")
				return restBool(true)
			}
			in.key = append(in.key, "seen=false")
			return restBool(false)
		}
		return restOpaque()
	case *ast.IndexExpr:
		x := in.eval(v.X)
		idx := in.eval(v.Index)
		if x.k == "vars" {
			if s, ok := restAllLit(idx); ok {
				return &restVal{k: "rawvar", s: s}
			}
		}
		in.deref(x)
		return restOpaque()
	case *ast.SliceExpr:
		in.deref(in.eval(v.X))
		for _, s := range []ast.Expr{v.Low, v.High, v.Max} {
			if s != nil {
				in.eval(s)
			}
		}
		return restOpaque()
	case *ast.StarExpr:
		x := in.eval(v.X)
		in.deref(x)
		return restOpaque()
	case *ast.UnaryExpr:
		if v.Op == token.NOT {
			return restBool(!in.truth(v.X))
		}
		in.eval(v.X)
		return restOpaque()
	case *ast.BinaryExpr:
		switch v.Op {
		case token.LAND:
			if !in.truth(v.X) {
				return restBool(false)
			}
			return restBool(in.truth(v.Y))
		case token.LOR:
			if in.truth(v.X) {
				return restBool(true)
			}
			return restBool(in.truth(v.Y))
		case token.EQL:
			return restBool(in.evalEq(v.X, v.Y))
		case token.NEQ:
			return restBool(!in.evalEq(v.X, v.Y))
		case token.ADD:
			a := in.eval(v.X)
			b := in.eval(v.Y)
			if a.k == "str" || b.k == "str" {
				ps := append(append([]restPart{}, restStrParts(a)...), restStrParts(b)...)
				return &restVal{k: "str", parts: restMerge(ps)}
			}
			return restOpaque()
		}
		in.eval(v.X)
		in.eval(v.Y)
		return restOpaque()
	case *ast.CallExpr:
		return in.evalCall(v)
	case *ast.CompositeLit:
		for _, el := range v.Elts {
			if kv, ok := el.(*ast.KeyValueExpr); ok {
				in.eval(kv.Value)
			} else {
				in.eval(el)
			}
		}
		return restOpaque()
	case *ast.KeyValueExpr:
		return in.eval(v.Value)
	case *ast.TypeAssertExpr:
		in.eval(v.X)
		return restOpaque()
	case *ast.FuncLit:
		return restOpaque()
	}
	return restOpaque()
}

func restMerge(ps []restPart) []restPart {
	out := []restPart{}
	for _, p := range ps {
		if p.lit && p.s == "" {
			continue
		}
		if n := len(out); n > 0 && out[n-1].lit && p.lit {
			out[n-1].s += p.s
			continue
		}
		out = append(out, p)
	}
	return out
}

var restBuiltins = map[string]bool{"len": true, "cap": true, "make": true, "new": true, "append": true, "copy": true, "delete": true,
	"int": true, "int32": true, "int64": true, "uint": true, "uint32": true, "uint64": true, "string": true, "byte": true,
	"float64": true, "panic": true, "print": true, "println": true, "min": true, "max": true}

// args of a call that is not inlined: a possibly-nil result handed on counts as a use; HTTP status constants are noted
func (in *restInterp) plainArgs(ce *ast.CallExpr) []*restVal {
	vals := []*restVal{}
	for _, a := range ce.Args {
		if path, name, ok := in.pkgSel(a); ok && path == "net/http" && strings.HasPrefix(name, "Status") {
			if name == "StatusNotFound" {
				in.notFound = true
			} else {
				in.status = name
			}
			vals = append(vals, restOpaque())
			continue
		}
		if lit, ok := a.(*ast.BasicLit); ok && lit.Kind == token.INT {
			if lit.Value == "404" {
				in.notFound = true
			} else if len(lit.Value) == 3 && (lit.Value[0] == '4' || lit.Value[0] == '5' || lit.Value[0] == '2' || lit.Value[0] == '3') {
				in.status = lit.Value
			}
		}
		v := in.eval(a)
		in.deref(v)
		vals = append(vals, v)
	}
	return vals
}

func (in *restInterp) argRole(v *restVal) string {
	switch v.k {
	case "canon":
		return "canon"
	case "rawvar":
		return "var:" + v.s
	case "param":
		return "param:" + v.s
	case "str":
		if _, ok := restAllLit(v); ok {
			return "lit"
		}
	}
	return "?"
}

func (in *restInterp) mgrCall(method string, ce *ast.CallExpr) *restVal {
	roles := []string{}
	vals := []*restVal{}
	for _, a := range ce.Args {
		v := in.eval(a)
		vals = append(vals, v)
		roles = append(roles, in.argRole(v))
	}
	in.calls = append(in.calls, method+"("+strings.Join(roles, ",")+")")
	errV := func(s string) *restVal { return &restVal{k: "err", s: s} }
	switch in.mgrSig[method] {
	case "canon":
		if in.choose(2) == 0 {
			in.key = append(in.key, "canon=ok")
			res := restOpaque()
			if len(vals) == 1 && vals[0].k == "rawvar" && vals[0].s == "name" {
				res = &restVal{k: "canon"}
			}
			return &restVal{k: "tuple", tup: []*restVal{res, errV("nil")}}
		}
		in.key = append(in.key, "canon=err")
		return &restVal{k: "tuple", tup: []*restVal{restOpaque(), errV("other")}}
	case "ptr":
		switch in.choose(4) {
		case 0:
			in.key = append(in.key, method+":found")
			return &restVal{k: "tuple", tup: []*restVal{{k: "res", s: "nonnil"}, errV("nil")}}
		case 1:
			in.key = append(in.key, method+":nilnil")
			return &restVal{k: "tuple", tup: []*restVal{{k: "res", s: "nil"}, errV("nil")}}
		case 2:
			in.key = append(in.key, method+":notExist")
			return &restVal{k: "tuple", tup: []*restVal{{k: "res", s: "nil"}, errV("notExist")}}
		}
		in.key = append(in.key, method+":ioErr")
		return &restVal{k: "tuple", tup: []*restVal{{k: "res", s: "nil"}, errV("other")}}
	case "val", "err":
		var e *restVal
		switch in.choose(3) {
		case 0:
			in.key = append(in.key, method+":ok")
			e = errV("nil")
		case 1:
			in.key = append(in.key, method+":notExist")
			e = errV("notExist")
		default:
			in.key = append(in.key, method+":ioErr")
			e = errV("other")
		}
		if in.mgrSig[method] == "err" {
			return e
		}
		return &restVal{k: "tuple", tup: []*restVal{restOpaque(), e}}
	}
	in.abort("Manager method not in the interface: " + method)
	return nil
}

func (in *restInterp) evalCall(ce *ast.CallExpr) *restVal {
	// conversions `[]byte(x)`
	if _, ok := ce.Fun.(*ast.ArrayType); ok && len(ce.Args) == 1 {
		v := in.eval(ce.Args[0])
		if s, ok := restAllLit(v); ok {
			return &restVal{k: "bytes", s: s}
		}
		return restOpaque()
	}
	if _, ok := ce.Fun.(*ast.ParenExpr); ok {
		in.plainArgs(ce)
		return restOpaque()
	}
	if id, ok := ce.Fun.(*ast.Ident); ok {
		if in.isLocal(id.Name) || restBuiltins[id.Name] {
			if id.Name == "string" && len(ce.Args) == 1 {
				v := in.eval(ce.Args[0])
				if v.k == "bytes" {
					return restStrVal(v.s)
				}
				return restOpaque()
			}
			for _, a := range ce.Args {
				in.eval(a)
			}
			return restOpaque()
		}
		if fds := in.pkg.funcs[id.Name]; len(fds) == 1 && fds[0].Body != nil {
			args := []*restVal{}
			for _, a := range ce.Args {
				args = append(args, in.eval(a))
			}
			return in.inline(fds[0], nil, args)
		}
		in.plainArgs(ce)
		return restOpaque()
	}
	sel, ok := ce.Fun.(*ast.SelectorExpr)
	if !ok {
		in.plainArgs(ce)
		return restOpaque()
	}
	if path, name, ok := in.pkgSel(sel); ok {
		switch {
		case path == "net/http" && name == "NotFound":
			in.plainArgs(ce)
			in.notFound = true
			return restOpaque()
		case path == "net/http" && (name == "NewRequestWithContext" || name == "NewRequest") && len(ce.Args) >= 3:
			n := len(ce.Args)
			m := in.eval(ce.Args[n-3])
			u := in.eval(ce.Args[n-2])
			b := in.eval(ce.Args[n-1])
			in.requests = append(in.requests, restRequest(m, u, b))
			return &restVal{k: "tuple", tup: []*restVal{restOpaque(), restOpaque()}}
		case path == "net/url" && (name == "QueryEscape" || name == "PathEscape") && len(ce.Args) == 1:
			v := in.eval(ce.Args[0])
			what := "?"
			if v.k == "param" {
				what = v.s
			}
			return &restVal{k: "str", parts: []restPart{{false, name + ":" + what}}}
		case (path == "fmt" && name == "Errorf") || (path == "errors" && name == "New"):
			in.plainArgs(ce)
			return &restVal{k: "err", s: "other"}
		case path == "errors" && name == "Is" && len(ce.Args) == 2:
			a := in.eval(ce.Args[0])
			b := in.eval(ce.Args[1])
			if r, ok := restEqual(a, b); ok {
				return restBool(r)
			}
			return restOpaque()
		case path == "bytes" && name == "NewReader" && len(ce.Args) == 1:
			v := in.eval(ce.Args[0])
			if v.k == "bytes" {
				return &restVal{k: "reader", s: v.s}
			}
			return &restVal{k: "nonnil"}
		case path == "encoding/json" && name == "Unmarshal":
			in.markDecoded(ce)
			return restOpaque()
		case path == "fmt" && name == "Sprintf" && len(ce.Args) >= 1:
			f := in.eval(ce.Args[0])
			if fs, ok := restAllLit(f); ok {
				segs := strings.Split(fs, "%s")
				if len(segs) == len(ce.Args) && !strings.Contains(strings.Join(segs, ""), "%") {
					ps := []restPart{{true, segs[0]}}
					for i, a := range ce.Args[1:] {
						ps = append(ps, restStrParts(in.eval(a))...)
						ps = append(ps, restPart{true, segs[i+1]})
					}
					return &restVal{k: "str", parts: restMerge(ps)}
				}
			}
			in.plainArgs(ce)
			return restOpaque()
		}
		in.plainArgs(ce)
		return restOpaque()
	}
	// method call
	recv := in.eval(sel.X)
	name := sel.Sel.Name
	switch {
	case recv.k == "mgr":
		return in.mgrCall(name, ce)
	case name == "JoinPath" && len(ce.Args) == 1:
		a := in.eval(ce.Args[0])
		return &restVal{k: "joined", s: "JoinPath", parts: restMerge(restStrParts(a))}
	case name == "String" && len(ce.Args) == 0 && recv.k == "joined":
		return &restVal{k: "urlstr", s: recv.s, parts: recv.parts}
	case name == "Decode":
		in.markDecoded(ce)
		return restOpaque()
	}
	in.deref(recv)
	if fds := in.pkg.methods[name]; len(fds) == 1 && fds[0].Body != nil {
		args := []*restVal{}
		for _, a := range ce.Args {
			args = append(args, in.eval(a))
		}
		return in.inline(fds[0], recv, args)
	}
	in.plainArgs(ce)
	return restOpaque()
}

// markDecoded: X.Decode(&v) / json.Unmarshal(b, &v): v now holds the request body
func (in *restInterp) markDecoded(ce *ast.CallExpr) {
	for _, a := range ce.Args {
		if ue, ok := a.(*ast.UnaryExpr); ok && ue.Op == token.AND {
			if id, ok := ue.X.(*ast.Ident); ok {
				in.assign(id.Name, &restVal{k: "decoded"})
				continue
			}
		}
		in.eval(a)
	}
}

func restRequest(m, u, b *restVal) string {
	ms, ok := restAllLit(m)
	if !ok {
		ms = "?"
	}
	join, uri := "unknown", "?"
	if u.k == "urlstr" {
		join, uri = u.s, restShape(u.parts)
	}
	body := "?"
	switch b.k {
	case "nil":
		body = "none"
	case "reader":
		t := strings.NewReplacer(" ", "", "\t", "", "\n", "", "\r", "").Replace(b.s)
		if t == `{"seen":true}` {
			body = "seenTrue"
		} else {
			body = "bytes:" + b.s
		}
	}
	return ms + "\x00" + join + "\x00" + uri + "\x00" + body
}

func restZero(imports map[string]string, t ast.Expr) *restVal {
	switch v := t.(type) {
	case *ast.Ident:
		switch v.Name {
		case "error":
			return &restVal{k: "err", s: "nil"}
		case "string":
			return restStrVal("")
		case "bool":
			return restBool(false)
		}
	case *ast.StarExpr, *ast.MapType, *ast.InterfaceType, *ast.FuncType, *ast.ChanType:
		return &restVal{k: "nil"}
	case *ast.ArrayType:
		if v.Len == nil {
			return &restVal{k: "nil"}
		}
	case *ast.SelectorExpr:
		if path, _, ok := restPkgSel(imports, v); ok && path == "io" {
			return &restVal{k: "nil"}
		}
	}
	return restOpaque()
}

func (in *restInterp) inline(fd *ast.FuncDecl, recv *restVal, args []*restVal) *restVal {
	if in.depth >= 4 {
		in.abort("helper nesting too deep")
	}
	saved := in.fr
	in.depth++
	fr := &restFrame{fd: fd, file: in.pkg.fileOf[fd], scope: &restScope{vars: map[string]*restVal{}}}
	in.fr = fr
	if fd.Recv != nil && len(fd.Recv.List) == 1 && len(fd.Recv.List[0].Names) == 1 {
		rv := recv
		if rv == nil {
			rv = restOpaque()
		}
		in.define(fd.Recv.List[0].Names[0].Name, rv)
	}
	i := 0
	if fd.Type.Params != nil {
		for _, fld := range fd.Type.Params.List {
			for _, nm := range fld.Names {
				if i < len(args) {
					in.define(nm.Name, args[i])
				} else {
					in.define(nm.Name, restOpaque())
				}
				i++
			}
			if len(fld.Names) == 0 {
				i++
			}
		}
	}
	nres := 0
	if fd.Type.Results != nil {
		for _, fld := range fd.Type.Results.List {
			if len(fld.Names) == 0 {
				fr.results = append(fr.results, "")
				nres++
			}
			for _, nm := range fld.Names {
				fr.results = append(fr.results, nm.Name)
				in.define(nm.Name, restZero(in.pkg.imports[fr.file], fld.Type))
				nres++
			}
		}
	}
	sig := in.block(fd.Body.List, false)
	ret := fr.ret
	if sig != restReturn {
		ret = in.namedResults()
	}
	in.fr = saved
	in.depth--
	for len(ret) < nres {
		ret = append(ret, restOpaque())
	}
	switch nres {
	case 0:
		return restOpaque()
	case 1:
		return ret[0]
	}
	return &restVal{k: "tuple", tup: ret[:nres]}
}

func (in *restInterp) namedResults() []*restVal {
	out := []*restVal{}
	for _, n := range in.fr.results {
		if n == "" || n == "_" {
			out = append(out, restOpaque())
			continue
		}
		if _, v := in.fr.scope.lookup(n); v != nil {
			out = append(out, v)
		} else {
			out = append(out, restOpaque())
		}
	}
	return out
}

func (in *restInterp) block(list []ast.Stmt, scoped bool) int {
	if scoped {
		in.push()
		defer in.pop()
	}
	for _, st := range list {
		if sig := in.exec(st); sig != restNormal {
			return sig
		}
	}
	return restNormal
}

func (in *restInterp) setLHS(l ast.Expr, v *restVal, def bool) {
	switch x := l.(type) {
	case *ast.Ident:
		if def {
			in.define(x.Name, v)
		} else {
			in.assign(x.Name, v)
		}
	case *ast.SelectorExpr:
		// a field of a local is overwritten: whatever was known about the local is gone
		in.deref(in.eval(x.X))
		if id, ok := x.X.(*ast.Ident); ok && in.isLocal(id.Name) {
			in.assign(id.Name, restOpaque())
		}
	case *ast.IndexExpr:
		in.eval(x.X)
		in.eval(x.Index)
	case *ast.StarExpr:
		in.deref(in.eval(x.X))
	}
}

func (in *restInterp) exec(st ast.Stmt) int {
	in.steps++
	if in.steps > 200000 {
		in.abort("too many steps")
	}
	switch v := st.(type) {
	case *ast.ExprStmt:
		in.eval(v.X)
	case *ast.EmptyStmt, *ast.IncDecStmt:
	case *ast.AssignStmt:
		def := v.Tok == token.DEFINE
		if v.Tok != token.DEFINE && v.Tok != token.ASSIGN {
			// += and friends
			r := in.eval(v.Rhs[0])
			if id, ok := v.Lhs[0].(*ast.Ident); ok && v.Tok == token.ADD_ASSIGN {
				if _, cur := in.fr.scope.lookup(id.Name); cur != nil && (cur.k == "str" || r.k == "str") {
					in.assign(id.Name, &restVal{k: "str", parts: restMerge(append(append([]restPart{}, restStrParts(cur)...), restStrParts(r)...))})
					return restNormal
				}
			}
			in.setLHS(v.Lhs[0], restOpaque(), false)
			return restNormal
		}
		// `:=` defines only names that are new in the current scope
		isNew := func(l ast.Expr) bool {
			id, ok := l.(*ast.Ident)
			if !ok || !def {
				return false
			}
			_, exists := in.fr.scope.vars[id.Name]
			return !exists
		}
		if len(v.Rhs) == 1 && len(v.Lhs) > 1 {
			r := in.eval(v.Rhs[0])
			for i, l := range v.Lhs {
				val := restOpaque()
				if r.k == "tuple" && i < len(r.tup) {
					val = r.tup[i]
				}
				in.setLHS(l, val, isNew(l))
			}
			return restNormal
		}
		vals := []*restVal{}
		for _, r := range v.Rhs {
			val := in.eval(r)
			if val.k == "tuple" {
				val = restOpaque()
			}
			vals = append(vals, val)
		}
		for i, l := range v.Lhs {
			if i < len(vals) {
				in.setLHS(l, vals[i], isNew(l))
			}
		}
	case *ast.DeclStmt:
		gd, ok := v.Decl.(*ast.GenDecl)
		if !ok {
			in.abort("declaration")
		}
		for _, sp := range gd.Specs {
			vs, ok := sp.(*ast.ValueSpec)
			if !ok {
				continue
			}
			for i, nm := range vs.Names {
				var val *restVal
				switch {
				case i < len(vs.Values):
					val = in.eval(vs.Values[i])
				case vs.Type != nil:
					val = restZero(in.imports(), vs.Type)
				default:
					val = restOpaque()
				}
				in.define(nm.Name, val)
			}
		}
	case *ast.BlockStmt:
		return in.block(v.List, true)
	case *ast.IfStmt:
		in.push()
		defer in.pop()
		if v.Init != nil {
			in.exec(v.Init)
		}
		if in.truth(v.Cond) {
			return in.block(v.Body.List, true)
		}
		if v.Else != nil {
			return in.exec(v.Else)
		}
	case *ast.SwitchStmt:
		in.push()
		defer in.pop()
		if v.Init != nil {
			in.exec(v.Init)
		}
		if v.Tag != nil {
			switch v.Tag.(type) {
			case *ast.Ident, *ast.SelectorExpr:
			default:
				in.abort("switch tag with effects")
			}
		}
		var def *ast.CaseClause
		for _, c := range v.Body.List {
			cc := c.(*ast.CaseClause)
			if cc.List == nil {
				def = cc
				continue
			}
			hit := false
			for _, e := range cc.List {
				if v.Tag != nil {
					hit = in.evalEq(v.Tag, e)
				} else {
					hit = in.truth(e)
				}
				if hit {
					break
				}
			}
			if hit {
				return in.caseBody(cc)
			}
		}
		if def != nil {
			return in.caseBody(def)
		}
	case *ast.ReturnStmt:
		switch {
		case len(v.Results) == 0:
			in.fr.ret = in.namedResults()
		case len(v.Results) == 1 && len(in.fr.results) > 1:
			r := in.eval(v.Results[0])
			if r.k == "tuple" {
				in.fr.ret = r.tup
			} else {
				in.fr.ret = nil
			}
		default:
			out := []*restVal{}
			for _, r := range v.Results {
				out = append(out, in.eval(r))
			}
			in.fr.ret = out
		}
		return restReturn
	case *ast.ForStmt:
		in.push()
		defer in.pop()
		if v.Init != nil {
			in.exec(v.Init)
		}
		if v.Cond == nil {
			in.abort("unbounded loop")
		}
		if in.truth(v.Cond) {
			if sig := in.block(v.Body.List, true); sig == restReturn {
				return sig
			}
		}
	case *ast.RangeStmt:
		in.deref(in.eval(v.X))
		if in.choose(2) == 0 {
			in.push()
			defer in.pop()
			for _, kv := range []ast.Expr{v.Key, v.Value} {
				if id, ok := kv.(*ast.Ident); ok {
					in.define(id.Name, &restVal{k: "nonnil"})
				}
			}
			if sig := in.block(v.Body.List, true); sig == restReturn {
				return sig
			}
		}
	case *ast.DeferStmt:
		if _, isLit := v.Call.Fun.(*ast.FuncLit); !isLit {
			in.eval(v.Call)
		}
	case *ast.BranchStmt:
		switch v.Tok {
		case token.BREAK:
			if v.Label == nil {
				return restBreak
			}
		case token.CONTINUE:
			if v.Label == nil {
				return restContinue
			}
		}
		in.abort("branch statement")
	default:
		in.abort(fmt.Sprintf("statement %T", st))
	}
	return restNormal
}

func (in *restInterp) caseBody(cc *ast.CaseClause) int {
	for _, s := range cc.Body {
		if b, ok := s.(*ast.BranchStmt); ok && b.Tok == token.FALLTHROUGH {
			in.abort("fallthrough")
		}
	}
	sig := in.block(cc.Body, true)
	if sig == restBreak {
		return restNormal
	}
	return sig
}

type restRow struct {
	key, calls string
	outcomes   map[string]bool
}

type restRun struct {
	rows     map[string]*restRow
	requests map[string]bool
	unknown  string
	paths    int
}

// restExplore runs fd on every combination of choices.  mode "handler": all parameters opaque; mode "client": the n-th
// string-typed parameter is param:n.
func restExplore(p *restPkg, mgrSig map[string]string, fd *ast.FuncDecl, mode string) *restRun {
	run := &restRun{rows: map[string]*restRow{}, requests: map[string]bool{}}
	if fd == nil || fd.Body == nil {
		run.unknown = "no such function"
		return run
	}
	in := &restInterp{pkg: p, mgrSig: mgrSig}
	for {
		run.paths++
		if run.paths > 20000 {
			run.unknown = "too many paths"
			return run
		}
		in.pos, in.key, in.calls, in.notFound, in.status, in.requests, in.depth, in.steps = 0, nil, nil, false, "", nil, 0, 0
		outcome := ""
		func() {
			defer func() {
				if r := recover(); r != nil {
					st, ok := r.(restStop)
					if !ok {
						panic(r)
					}
					if st.kind == "panic" {
						outcome = "panic"
					} else {
						outcome = "unknown"
					}
				}
			}()
			args := []*restVal{}
			ns := 0
			if fd.Type.Params != nil {
				for _, fld := range fd.Type.Params.List {
					n := len(fld.Names)
					if n == 0 {
						n = 1
					}
					for i := 0; i < n; i++ {
						if id, ok := fld.Type.(*ast.Ident); ok && id.Name == "string" && mode == "client" {
							ns++
							args = append(args, &restVal{k: "param", s: strconv.Itoa(ns)})
						} else {
							args = append(args, restOpaque())
						}
					}
				}
			}
			in.fr = nil
			ret := in.inline(fd, nil, args)
			last := ret
			if ret.k == "tuple" && len(ret.tup) > 0 {
				last = ret.tup[len(ret.tup)-1]
			}
			switch tok := restNilTok(last); {
			case tok == "nil" && in.notFound:
				outcome = "notFound"
			case tok == "nil" && in.status != "":
				outcome = "status:" + in.status
			case tok == "nil":
				outcome = "done"
			case tok != "" && in.notFound:
				outcome = "notFound+error"
			case tok != "":
				outcome = "error"
			case in.notFound:
				outcome = "notFound+?"
			default:
				outcome = "done"
			}
		}()
		if outcome == "unknown" {
			run.unknown = in.reason
			return run
		}
		k, c := strings.Join(in.key, ";"), strings.Join(in.calls, ";")
		id := k + "|" + c
		if run.rows[id] == nil {
			run.rows[id] = &restRow{key: k, calls: c, outcomes: map[string]bool{}}
		}
		run.rows[id].outcomes[outcome] = true
		for _, r := range in.requests {
			run.requests[r] = true
		}
		// next script
		i := in.pos - 1
		in.script, in.limits = in.script[:in.pos], in.limits[:in.pos]
		for i >= 0 && in.script[i]+1 >= in.limits[i] {
			i--
		}
		if i < 0 {
			return run
		}
		in.script = in.script[:i+1]
		in.limits = in.limits[:i+1]
		in.script[i]++
	}
}

func restSplit(s string) []string {
	if s == "" {
		return nil
	}
	return strings.Split(s, ";")
}

func restLeanRows(run *restRun) string {
	if run.unknown != "" {
		return "[([\"unknown\"], [], [" + leanStr(run.unknown) + "])]"
	}
	ids := []string{}
	for id := range run.rows {
		ids = append(ids, id)
	}
	sort.Strings(ids)
	out := []string{}
	for _, id := range ids {
		r := run.rows[id]
		oc := []string{}
		for o := range r.outcomes {
			oc = append(oc, o)
		}
		sort.Strings(oc)
		out = append(out, fmt.Sprintf("(%s, %s, %s)", strList(restSplit(r.key)), strList(restSplit(r.calls)), strList(oc)))
	}
	return "[\n    " + strings.Join(out, ",\n    ") + "]"
}

// restMgrSig reads `type Manager interface` of pkg/message: which methods answer a possibly-nil pointer / interface
func restMgrSig() map[string]string {
	sig := map[string]string{}
	p := restLoadPkg("pkg/message")
	for _, f := range p.files {
		ast.Inspect(f, func(n ast.Node) bool {
			ts, ok := n.(*ast.TypeSpec)
			if !ok || ts.Name.Name != "Manager" {
				return true
			}
			it, ok := ts.Type.(*ast.InterfaceType)
			if !ok {
				return false
			}
			for _, m := range it.Methods.List {
				ft, ok := m.Type.(*ast.FuncType)
				if !ok || len(m.Names) != 1 || ft.Results == nil {
					continue
				}
				res := []ast.Expr{}
				for _, r := range ft.Results.List {
					k := len(r.Names)
					if k == 0 {
						k = 1
					}
					for i := 0; i < k; i++ {
						res = append(res, r.Type)
					}
				}
				if id, ok := res[len(res)-1].(*ast.Ident); !ok || id.Name != "error" {
					continue
				}
				name := m.Names[0].Name
				switch {
				case name == "MailboxForAddress" && len(res) == 2:
					sig[name] = "canon"
				case len(res) == 1:
					sig[name] = "err"
				case len(res) == 2:
					switch res[0].(type) {
					case *ast.StarExpr, *ast.SelectorExpr, *ast.InterfaceType:
						sig[name] = "ptr"
					default:
						sig[name] = "val"
					}
				}
			}
			return false
		})
	}
	return sig
}

// ---------------------------------------------------------------------------------------------------------------------

func extractRest() {
	g := gen("Rest")
	fmt.Fprintf(&g.buf, "inductive Seg | lit (b : List Nat) | var\n  deriving DecidableEq, Repr\n\n")
	order, prefix := restSubPrefixes()
	var all []restRoute
	okAll := len(order) == 2
	dirs := map[string]string{"webui": "pkg/webui", "rest": "pkg/rest"}
	for _, pkg := range order {
		pre, known := prefix[pkg]
		rs, ok := restRoutesOf(dirs[pkg], pre)
		if !ok || !known {
			okAll = false
		}
		all = append(all, rs...)
	}
	rows := []string{}
	for _, r := range all {
		rows = append(rows, fmt.Sprintf("(%s, %s, %s, %s, %s)", leanStr(r.fn), leanStr(r.name), leanStr(r.method), byteList(r.sub), restLeanSegs(r.tpl)))
	}
	val := "none"
	if okAll {
		val = "some [\n  " + strings.Join(rows, ",\n  ") + "]"
	}
	g.def("routes", "Option (List (String × String × String × List Nat × List Seg))", val,
		"(handler function, route name, method, sub-router prefix, template) in registration order: FullAssembly registers "+strings.Join(order, " then "))

	// ---- handlers
	mgrSig := restMgrSig()
	hrows := []string{}
	seenFlag := "none"
	for _, pf := range []struct {
		dir   string
		names []string
	}{
		{"pkg/rest", []string{"MailboxListV1", "MailboxShowV1", "MailboxMarkSeenV1", "MailboxPurgeV1", "MailboxSourceV1", "MailboxDeleteV1"}},
		{"pkg/webui", []string{"MailboxMessage", "MailboxHTML", "MailboxSource", "MailboxViewAttach"}},
	} {
		p := restLoadPkg(pf.dir)
		for _, n := range pf.names {
			var fd *ast.FuncDecl
			if len(p.funcs[n]) == 1 {
				fd = p.funcs[n][0]
			}
			run := restExplore(p, mgrSig, fd, "handler")
			hrows = append(hrows, fmt.Sprintf("(%s, %s)", leanStr(n), restLeanRows(run)))
			if n == "MailboxMarkSeenV1" && run.unknown == "" {
				// MarkSeen is called on exactly the paths whose decoded body says Seen
				with, without, flagNoCall := 0, 0, 0
				for _, r := range run.rows {
					called := strings.Contains(";"+r.calls, ";MarkSeen(")
					flagged := strings.Contains(";"+r.key+";", ";seen=true;")
					switch {
					case called && flagged:
						with++
					case called:
						without++
					case flagged:
						flagNoCall++
					}
				}
				switch {
				case with > 0 && without == 0 && flagNoCall == 0:
					seenFlag = "some true"
				case without > 0 && with == 0:
					seenFlag = "some false"
				}
			}
		}
	}
	g.def("handlers", "List (String × List (List String × List String × List String))", "[\n  "+strings.Join(hrows, ",\n  ")+"]",
		"per handler the behaviour table: (answers of the message.Manager calls / body flag chosen on the path, "+
			"Manager calls made with the role of each argument, outcomes: notFound | error | panic | done), sorted by the first two columns")
	g.def("seenRequiresFlag", "Option Bool", seenFlag, "MailboxMarkSeenV1 calls MarkSeen exactly on the paths where the decoded body's Seen is true")

	// ---- client
	cp := restLoadPkg("pkg/rest/client")
	escs, bodies, joins := []string{}, []string{}, []string{}
	for _, m := range []string{"ListMailboxWithContext", "GetMessageWithContext", "MarkSeenWithContext", "GetMessageSourceWithContext", "DeleteMessageWithContext", "PurgeMailboxWithContext"} {
		var fd *ast.FuncDecl
		for _, c := range cp.methods[m] {
			if r := fn(cp.fileOf[c], "Client", m); r == c {
				fd = c
			}
		}
		run := restExplore(cp, map[string]string{}, fd, "client")
		e, b, j := "unknown", "unknown", "unknown"
		if run.unknown == "" && len(run.requests) == 1 {
			for r := range run.requests {
				f := strings.Split(r, "\x00")
				e, j, b = f[0]+" "+f[2], f[1], f[3]
			}
		}
		escs, bodies, joins = append(escs, e), append(bodies, b), append(joins, j)
	}
	jp := "unknown"
	if len(joins) == 6 {
		jp = joins[0]
		for _, j := range joins {
			if j != jp {
				jp = "mixed"
			}
		}
	}
	g.def("clientMarkSeenBody", "String", leanStr(bodies[2]), "the request body pkg/rest/client's MarkSeen hands to http.NewRequest (seenTrue = the JSON object {\"seen\":true})")
	g.def("clientBodies", "List String", strList(bodies), "request bodies of List, Get, MarkSeen, Source, Delete, Purge")
	g.def("clientEscapers", "List String", strList(escs),
		"HTTP method and URI of List, Get, MarkSeen, Source, Delete, Purge as they reach http.NewRequest: literal text, {QueryEscape:n} / {PathEscape:n} / {raw:n} = n-th string parameter")
	g.def("clientJoin", "String", leanStr(jp), "how the request URL is built from the URI in every operation: JoinPath = <URL>.JoinPath(uri).String()")
}
