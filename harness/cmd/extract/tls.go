package main

// T1 facts about the TLS switch of the two line protocols (C03 / C13, TLS part), added to Gen/Smtp.lean and Gen/Pop3.lean.
// Handlers are found through the state dispatch of the command loop (k1kit.go), the clause through its protocol label
// (STARTTLS / STLS); no local, field or helper name takes part.
//   Smtp.starttlsSwitch / Pop3.stlsSwitch   what the accepting exit of the clause does to the connection, in source order:
//        "wrap"        a value is made by tls.Server(<the session's connection>, …)
//        "handshake"   <that value>.Handshake() is called
//        "conn"        the session's connection field is assigned that value
//        "reader"      the field the session READS LINES FROM is assigned a NEW reader made from that value
//                      (textproto.NewConn / bufio.NewReader) — so nothing the old reader had buffered survives the switch
//        "state"       a field of type *tls.ConnectionState is assigned
//   Pop3.capaStlsCond   the condition under which the command loop lists the STLS capability (the `if` around the reply
//        line "STLS" in the function holding the command loop), canonical ($r = the receiver, $s = the session)
//   Pop3.tlsStateScope / Smtp.tlsStateScope  which struct declares the field of type *tls.ConnectionState the clause assigns:
//        "perSession"  the receiver type of the handlers;  "perServer"  a struct that type embeds (one value for every
//        session of the process);  anything else is reported as found

import (
	"go/ast"
	"strings"
)

func init() { extractors = append(extractors, extractTls) }

// tlsStructs: struct types of the package with, for each, its field names by type string and the types it embeds.
type tlsStruct struct {
	fields map[string]string // field name -> type as written
	embeds []string          // embedded type names (pointer stripped)
}

func tlsStructsOf(p *k1Pkg) map[string]*tlsStruct {
	res := map[string]*tlsStruct{}
	for _, f := range p.files {
		ast.Inspect(f, func(n ast.Node) bool {
			ts, ok := n.(*ast.TypeSpec)
			if !ok {
				return true
			}
			st, ok := ts.Type.(*ast.StructType)
			if !ok {
				return true
			}
			s := &tlsStruct{fields: map[string]string{}}
			for _, fl := range st.Fields.List {
				t := src(fl.Type)
				if len(fl.Names) == 0 {
					s.embeds = append(s.embeds, strings.TrimPrefix(t, "*"))
					continue
				}
				for _, nm := range fl.Names {
					s.fields[nm.Name] = t
				}
			}
			res[ts.Name.Name] = s
			return true
		})
	}
	return res
}

func recvTypeName(fd *ast.FuncDecl) string {
	if fd == nil || fd.Recv == nil || len(fd.Recv.List) == 0 {
		return ""
	}
	return strings.TrimPrefix(src(fd.Recv.List[0].Type), "*")
}

// lineReadField: the field of the session on which the package reads its command lines (X.f.ReadLine() / X.f.ReadString(..)).
func lineReadField(p *k1Pkg) string {
	found := map[string]bool{}
	for _, fd := range p.funcs {
		for _, ce := range k1Calls(fd.Body) {
			sel, ok := ce.Fun.(*ast.SelectorExpr)
			if !ok || (sel.Sel.Name != "ReadLine" && sel.Sel.Name != "ReadString") {
				continue
			}
			if inner, ok := sel.X.(*ast.SelectorExpr); ok {
				found[inner.Sel.Name] = true
			}
		}
	}
	if len(found) == 1 {
		for k := range found {
			return k
		}
	}
	return ""
}

func tlsSwitchFacts(p *k1Pkg, state, label string) (steps []string, scope string) {
	scope = "unknown"
	d := k1FindDispatch(p)
	if d == nil || d.handlers[state] == nil {
		return []string{"?dispatch"}, scope
	}
	sw := k1TopSwitch(d.handlerEnv(p, state), d.handlers[state].Body)
	if sw == nil {
		return []string{"?table"}, scope
	}
	cc := sw.clause(label)
	if cc == nil {
		return []string{"?clause"}, scope
	}
	structs := tlsStructsOf(p)
	recv := recvTypeName(d.handlers[state])
	readField := lineReadField(p)
	// the connection field: the first argument of tls.Server, when it is a field of the receiver
	wrapped := map[string]bool{} // local names holding the tls.Server value
	connField := ""
	stateField := ""
	isWrapped := func(e ast.Expr) bool {
		if id, ok := k1Unparen(e).(*ast.Ident); ok {
			return wrapped[id.Name]
		}
		if ce, ok := k1Unparen(e).(*ast.CallExpr); ok && k1QualCall(ce, "tls", "Server") {
			return true
		}
		return false
	}
	fieldOfRecv := func(e ast.Expr) string {
		if sel, ok := k1Unparen(e).(*ast.SelectorExpr); ok {
			return sel.Sel.Name
		}
		return ""
	}
	var walk func(stmts []ast.Stmt)
	walk = func(stmts []ast.Stmt) {
		for _, st := range stmts {
			switch s := st.(type) {
			case *ast.AssignStmt:
				for i, rhs := range s.Rhs {
					if i >= len(s.Lhs) {
						break
					}
					lhs := s.Lhs[i]
					if ce, ok := k1Unparen(rhs).(*ast.CallExpr); ok && k1QualCall(ce, "tls", "Server") {
						steps = append(steps, "wrap")
						if len(ce.Args) > 0 {
							connField = fieldOfRecv(ce.Args[0])
						}
						if id, ok := lhs.(*ast.Ident); ok {
							wrapped[id.Name] = true
						}
						continue
					}
					if f := fieldOfRecv(lhs); f != "" {
						if isWrapped(rhs) && f == connField {
							steps = append(steps, "conn")
							continue
						}
						if ce, ok := k1Unparen(rhs).(*ast.CallExpr); ok && f == readField && len(ce.Args) == 1 &&
							(k1QualCall(ce, "textproto", "NewConn") || k1QualCall(ce, "bufio", "NewReader")) {
							arg := ce.Args[0]
							if isWrapped(arg) || (fieldOfRecv(arg) == connField && connField != "") {
								steps = append(steps, "reader")
								continue
							}
						}
						if ce, ok := k1Unparen(rhs).(*ast.CallExpr); ok {
							if id, ok := ce.Fun.(*ast.Ident); ok && id.Name == "new" && len(ce.Args) == 1 && src(ce.Args[0]) == "tls.ConnectionState" {
								steps = append(steps, "state")
								stateField = f
								continue
							}
						}
					}
				}
			case *ast.IfStmt:
				// `if err := X.Handshake(); err != nil { … }` — the handshake is in the init statement
				if s.Init != nil {
					for _, ce := range k1Calls(s.Init) {
						if sel, ok := ce.Fun.(*ast.SelectorExpr); ok && sel.Sel.Name == "Handshake" && isWrapped(sel.X) {
							steps = append(steps, "handshake")
						}
					}
				}
				// the refusing exits end with return; only look into a body that does not
				if n := len(s.Body.List); n > 0 {
					if _, isRet := s.Body.List[n-1].(*ast.ReturnStmt); !isRet {
						walk(s.Body.List)
					}
				}
			case *ast.ExprStmt:
				if ce, ok := s.X.(*ast.CallExpr); ok {
					if sel, ok := ce.Fun.(*ast.SelectorExpr); ok && sel.Sel.Name == "Handshake" && isWrapped(sel.X) {
						steps = append(steps, "handshake")
					}
				}
			}
		}
	}
	walk(cc.Body)
	// who declares the *tls.ConnectionState field
	if stateField != "" {
		owners := []string{}
		for name, s := range structs {
			if t, ok := s.fields[stateField]; ok && t == "*tls.ConnectionState" {
				owners = append(owners, name)
			}
		}
		switch {
		case len(owners) == 1 && owners[0] == recv:
			scope = "perSession"
		case len(owners) == 1 && structs[recv] != nil && containsStr(structs[recv].embeds, owners[0]):
			scope = "perServer"
		default:
			scope = "unknown:" + strings.Join(owners, ",")
		}
	}
	return steps, scope
}

func containsStr(l []string, s string) bool {
	for _, x := range l {
		if x == s {
			return true
		}
	}
	return false
}

func extractTls() {
	defer k1Recover("extractTls")
	{
		g := gen("Smtp")
		steps, scope := tlsSwitchFacts(k1LoadPkg("pkg/server/smtp"), "READY", "STARTTLS")
		g.def("starttlsSwitch", "List String", strList(steps), "what the accepting exit of the STARTTLS clause does to the connection, in source order (see harness/cmd/extract/tls.go)")
		g.def("tlsStateScope", "String", leanStr(scope), "the struct declaring the *tls.ConnectionState field the STARTTLS clause assigns: perSession | perServer")
	}
	{
		g := gen("Pop3")
		steps, scope := tlsSwitchFacts(k1LoadPkg("pkg/server/pop3"), "AUTHORIZATION", "STLS")
		g.def("stlsSwitch", "List String", strList(steps), "what the accepting exit of the STLS clause does to the connection, in source order (see harness/cmd/extract/tls.go)")
		g.def("tlsStateScope", "String", leanStr(scope), "the struct declaring the *tls.ConnectionState field the STLS clause assigns: perSession | perServer")
		// the capability line
		p := k1LoadPkg("pkg/server/pop3")
		conds := []string{}
		if d := k1FindDispatch(p); d != nil {
			ast.Inspect(d.fn.Body, func(n ast.Node) bool {
				is, ok := n.(*ast.IfStmt)
				if !ok {
					return true
				}
				for _, st := range is.Body.List {
					es, ok := st.(*ast.ExprStmt)
					if !ok {
						continue
					}
					if ce, ok := es.X.(*ast.CallExpr); ok && len(ce.Args) == 1 {
						if lit, ok := strLit(ce.Args[0]); ok && lit == "STLS" {
							conds = append(conds, d.env.canon(is.Cond))
						}
					}
				}
				return true
			})
		}
		g.def("capaStlsCond", "List String", strList(conds), "the condition(s) under which the command loop sends the capability line STLS")
	}
}
